//go:build verif

package c03

import (
	"fmt"
	"sort"
	"strings"
	"time"

	"go.nanomsg.org/mangos/v3"

	"verifharness/hx"
	"verifharness/mon"
	"verifharness/vt"
)

// c03SendFail: a blocking Send that FAILS while it waits for a free connection, with other contexts'
// requests outstanding around it.
//
//	wait  "busy"    every connection is occupied by another context's request (slow peer)
//	      "nopipe"  there is no connection yet
//	fail  "senddl"  the send deadline expires
//	      "close"   the context is closed under the waiting Send
//	      "recvdl"  a concurrent Recv on the same context runs into its receive deadline
//	      "nopeers" fail-no-peers is set and the last connection goes away (wait "busy" only)
//
// While the Send(s) wait, other contexts queue requests (best effort: accepted, transmitted when a
// connection is free) in a PRNG-chosen interleaving, so some take their place before and some after
// the Send that is going to fail.  After the failure further contexts (fresh ones and the ones whose
// Send failed) send requests, either before or after the connections become usable.  Then every
// request that is outstanding is on the wire; the harness, as the REP peers, answers a PRNG-chosen
// subset of them, each answer carrying the header of exactly the request it answers and a tag saying
// which request that was.  Oracle: Recv on each context returns the answer to that context's own
// request or (when it was not answered) runs into its receive deadline — never the answer the peer
// gave to another context's request; a second Recv reports the protocol-state error.  Two requests
// of different contexts outstanding under one id make this impossible and are reported as such.
func c03SendFail(c *mon.Case, sp c03Spec) {
	mode, wait, release := sp.Fail, sp.Wait, sp.Release
	npipes := 0
	if wait == "busy" {
		npipes = 1 + c.Rand.Intn(2)
	}
	nF, nQ, nX := 1+c.Rand.Intn(2), 1+c.Rand.Intn(2), 1+c.Rand.Intn(2)
	nctx := npipes + nQ + nX + nF
	rig := hx.NewReqRig(c, "req", nctx, npipes)
	if c.Failed() {
		return
	}
	rig.SetAll(mangos.OptionRetryTime, time.Hour) // one transmission per request; re-sending is C04
	const D = 60 * time.Millisecond               // deadline that ends a waiting Send (senddl, recvdl)
	const RD = 40 * time.Millisecond              // receive deadline of the final Recv round

	// roles: context 0 is the socket itself and is never closed, so it never plays a failing Send
	ids := append([]int{0}, permFrom(c, 1, nctx)...)
	nonF := ids[:nctx-nF]
	c.Rand.Shuffle(len(nonF), func(a, b int) { nonF[a], nonF[b] = nonF[b], nonF[a] })
	occ, qs, xs, fs := ids[:npipes], ids[npipes:npipes+nQ], ids[npipes+nQ:npipes+nQ+nX], ids[nctx-nF:]

	kOf := make([]int, nctx)      // number of the latest request of each context
	outstanding := map[int]bool{} // contexts whose latest request is outstanding
	var script []string           // what the case did, for the witness
	note := func(f string, a ...interface{}) {
		s := fmt.Sprintf(f, a...)
		script = append(script, s)
		c.Logf("%s", s)
	}
	sendCall := func(i int) *mon.Call {
		kOf[i]++
		k := kOf[i]
		return mon.Go("Send", func() (interface{}, error) { return nil, rig.Ctxs[i].Send(rig.ReqBody(i, k)) })
	}
	// a Send that must be accepted (connection ready, or best effort)
	accepted := func(i int, what string) bool {
		k := sendCall(i)
		if !c.AwaitOrViolate("req/send-stuck", what, k.Done, mon.AwaitOpts{}) {
			return false
		}
		if _, err, _ := k.Result(); err != nil {
			c.Violate("req/send-error", "%s returned %v", what, err)
			return false
		}
		outstanding[i] = true
		return true
	}

	// occupy every connection
	for n := range occ {
		rig.Pipes[n].HoldSends()
	}
	for _, i := range occ {
		if !accepted(i, fmt.Sprintf("ctx %d: Send of a request that occupies a connection", i)) {
			return
		}
		note("occupy ctx=%d", i)
	}
	if npipes > 0 && !c.AwaitOrViolate("harness:held", "every connection holding an occupying request", func() bool {
		for _, p := range rig.Pipes {
			if _, s := p.Waiters(); s < 1 {
				return false
			}
		}
		return true
	}, mon.AwaitOpts{}) {
		return
	}

	// the interleaving: S<f> start of a Send that will fail, Q<q> a queued best-effort request,
	// X<f> the failure (for nopeers one X fails every waiting Send at once).  At least one Q lies
	// between some S and the first X after it.
	type ev struct {
		kind byte
		ctx  int
	}
	var evs []ev
	for try := 0; ; try++ {
		evs = evs[:0]
		for _, f := range fs {
			evs = append(evs, ev{'S', f})
		}
		for _, q := range qs {
			evs = append(evs, ev{'Q', q})
		}
		c.Rand.Shuffle(len(evs), func(a, b int) { evs[a], evs[b] = evs[b], evs[a] })
		xs2 := fs
		if mode == "nopeers" {
			xs2 = fs[:1]
		}
		for _, f := range xs2 {
			// position after its S (for nopeers: after every S)
			lo := 0
			for p, e := range evs {
				if e.kind == 'S' && (e.ctx == f || mode == "nopeers") {
					lo = p + 1
				}
			}
			at := lo + c.Rand.Intn(len(evs)-lo+1)
			evs = append(evs[:at], append([]ev{{'X', f}}, evs[at:]...)...)
		}
		open, good := 0, false
		for _, e := range evs {
			switch e.kind {
			case 'S':
				open++
			case 'X':
				if mode == "nopeers" {
					open = 0
				} else {
					open--
				}
			case 'Q':
				if open > 0 {
					good = true
				}
			}
		}
		if good || try > 50 {
			break
		}
	}

	waiting := map[int]*mon.Call{} // Sends parked inside the library
	recvOf := map[int]*mon.Call{}  // recvdl: the Recv that will end the Send
	failed := map[int]bool{}
	failedK := map[int]int{} // the number of the request whose Send failed
	closed := map[int]bool{}
	laterOutstanding := 0 // requests accepted while a Send that later failed was parked before them
	finish := func(f int) bool {
		k := waiting[f]
		sig := "req/send-stuck:waiting-send-ended-by-" + mode
		mt := time.Duration(0)
		if mode == "senddl" || mode == "recvdl" {
			mt = D
		}
		if rk := recvOf[f]; rk != nil {
			if !c.AwaitOrViolate("req/recv-stuck", fmt.Sprintf("ctx %d: Recv with a %v receive deadline while the Send of its request waits for a connection", f, D), rk.Done, mon.AwaitOpts{MaxTimer: D}) {
				return false
			}
			if v, err, _ := rk.Result(); err != mangos.ErrRecvTimeout {
				if err == nil {
					c.Violate("req/delivered-uninjected", "ctx %d: Recv on a request that was never transmitted returned %q", f, v)
				} else {
					c.Violate("req/recv-deadline-error", "ctx %d: Recv with a %v deadline on an unsent request returned %v", f, D, err)
				}
				return false
			}
			rig.Ctxs[f].SetOption(mangos.OptionRecvDeadline, time.Duration(0))
		}
		if !c.AwaitOrViolate(sig, fmt.Sprintf("ctx %d: the waiting Send returning (%s)", f, mode), k.Done, mon.AwaitOpts{MaxTimer: mt}) {
			return false
		}
		_, err, _ := k.Result()
		note("fail ctx=%d mode=%s err=%v", f, mode, err)
		if err == nil {
			// the request was accepted after all (not this check's subject): it is outstanding
			c.Inconclusive("ctx %d: the waiting Send returned nil although it was ended by %s", f, mode)
			return false
		}
		delete(waiting, f)
		failed[f] = true
		failedK[f] = kOf[f]
		c.Count("failed_sends", 1)
		return true
	}

	for _, e := range evs {
		switch e.kind {
		case 'S':
			f := e.ctx
			switch mode {
			case "senddl":
				rig.Ctxs[f].SetOption(mangos.OptionSendDeadline, D)
			case "nopeers":
				rig.Ctxs[f].SetOption(mangos.OptionFailNoPeers, true)
			}
			k := sendCall(f)
			if !k.ParkedIn("SendMsg") {
				if k.Done() {
					_, err, _ := k.Result()
					c.Inconclusive("ctx %d: Send returned %v before it was seen waiting for a connection", f, err)
				} else {
					c.Inconclusive("ctx %d: Send neither parked nor done", f)
				}
				return
			}
			waiting[f] = k
			note("start ctx=%d", f)
			if mode == "recvdl" {
				rig.Ctxs[f].SetOption(mangos.OptionRecvDeadline, D)
				recvOf[f] = mon.Go("Recv", func() (interface{}, error) { b, e := rig.Ctxs[f].Recv(); return b, e })
			}
		case 'Q':
			q := e.ctx
			rig.Ctxs[q].SetOption(mangos.OptionBestEffort, true)
			nwait := len(waiting)
			if !accepted(q, fmt.Sprintf("ctx %d: best-effort Send with no connection free", q)) {
				return
			}
			// Sends seen parked before this one was invoked and not returned after it was accepted
			n := 0
			for _, k := range waiting {
				if !k.Done() {
					n++
				}
			}
			if n > nwait {
				n = nwait
			}
			laterOutstanding += n
			note("queue ctx=%d (behind %d waiting Sends)", q, n)
		case 'X':
			switch mode {
			case "close":
				if err := rig.Ctxs[e.ctx].Close(); err != nil {
					c.Violate("req/ctx-close-error", "ctx %d Close returned %v", e.ctx, err)
					return
				}
				closed[e.ctx] = true
				if !finish(e.ctx) {
					return
				}
			case "nopeers":
				nd := rig.Watch.Detached()
				for _, p := range rig.Pipes {
					p.Drop()
				}
				if !c.AwaitOrViolate("harness:detach-stuck", "dropped vt pipes being detached", func() bool { return rig.Watch.Detached() >= nd+npipes }, mon.AwaitOpts{}) {
					return
				}
				for _, f := range fs {
					if !finish(f) {
						return
					}
					rig.Ctxs[f].SetOption(mangos.OptionFailNoPeers, false)
				}
			default:
				if !finish(e.ctx) {
					return
				}
				rig.Ctxs[e.ctx].SetOption(mangos.OptionSendDeadline, time.Duration(0))
			}
		}
	}
	if len(waiting) != 0 {
		c.Inconclusive("script left %d Sends waiting", len(waiting))
		return
	}

	// late senders: the fresh contexts, and contexts whose Send failed (if still open)
	late := append([]int{}, xs...)
	for _, f := range fs {
		if !closed[f] && c.Rand.Intn(3) != 0 {
			late = append(late, f)
		}
	}
	c.Rand.Shuffle(len(late), func(a, b int) { late[a], late[b] = late[b], late[a] })
	makeUsable := func() bool {
		if wait == "busy" && mode != "nopeers" {
			for _, p := range rig.Pipes {
				p.ReleaseSends()
			}
		} else {
			for n := 1 + c.Rand.Intn(2); n > 0; n-- {
				rig.AddPipe()
			}
		}
		note("connections usable")
		return !c.Failed()
	}
	type outReq struct {
		ctx, k int
		tx     hx.WireTx
	}
	onWire := func() ([]outReq, bool) {
		var out []outReq
		for i := 0; i < nctx; i++ {
			if !outstanding[i] {
				continue
			}
			txs, ok := rig.AwaitTx(i, kOf[i], 1, 0, "req/request-not-transmitted")
			if !ok {
				return nil, false
			}
			out = append(out, outReq{i, kOf[i], txs[0]})
		}
		return out, true
	}
	if release == "before" {
		if !makeUsable() {
			return
		}
		if _, ok := onWire(); !ok {
			return
		}
	}
	for _, i := range late {
		rig.Ctxs[i].SetOption(mangos.OptionBestEffort, release == "after")
		if !accepted(i, fmt.Sprintf("ctx %d: Send after the failed Send(s) (connections usable: %v)", i, release == "before")) {
			return
		}
		note("late ctx=%d (had a failed Send: %v)", i, failed[i])
	}
	if release == "after" && !makeUsable() {
		return
	}
	reqs, ok := onWire()
	if !ok {
		return
	}
	sort.SliceStable(reqs, func(a, b int) bool { return reqs[a].tx.T < reqs[b].tx.T })
	c.Count("outstanding_requests", len(reqs))

	// nothing that ended unsent may be on the wire, and no two outstanding requests share an id
	rig.Scan()
	for _, tx := range rig.Txs {
		if failed[tx.Ctx] && tx.K == failedK[tx.Ctx] {
			c.Violate("req/abandoned-unsent-request-transmitted", "ctx %d request %d, whose Send failed (%s), was transmitted (id %08x)", tx.Ctx, tx.K, mode, tx.ID)
		}
	}
	byID := map[uint32]outReq{}
	shared := false
	for _, r := range reqs {
		if o, dup := byID[r.tx.ID]; dup {
			shared = true
			c.Violate("req/id-reused:outstanding-after-failed-send", "requests ctx=%d k=%d and ctx=%d k=%d are outstanding under the same id %08x after %d Send(s) failed (%s, %s); a reply to either cannot be told from a reply to the other\n  %s", o.ctx, o.k, r.ctx, r.k, r.tx.ID, len(failed), mode, wait, strings.Join(script, "\n  "))
		}
		byID[r.tx.ID] = r
	}

	// the peers answer a subset, each answer = header of the request it answers + which request that is
	live := rig.LivePipes()
	order := make([]int, len(reqs))
	for n := range order {
		order[n] = n
	}
	fifo := c.Rand.Intn(2) == 0
	if !fifo {
		c.Rand.Shuffle(len(order), func(a, b int) { order[a], order[b] = order[b], order[a] })
	}
	answered := map[int]bool{} // index into reqs
	for _, n := range order {
		if c.Rand.Intn(4) == 0 {
			continue
		}
		p := reqs[n].tx.Pipe
		if cl, _, _ := p.Closed(); cl || c.Rand.Intn(3) == 0 {
			p = live[c.Rand.Intn(len(live))]
		}
		p.Inject(hx.ReplyWire(reqs[n].tx.ID, n+1))
		answered[n] = true
		c.Count("injected_correct", 1)
		note("answer ctx=%d k=%d id=%08x", reqs[n].ctx, reqs[n].k, reqs[n].tx.ID)
	}
	if !rig.Drained(live...) {
		return
	}
	delivered := 0
	for _, n := range c.Rand.Perm(len(reqs)) {
		r := reqs[n]
		cx := rig.Ctxs[r.ctx]
		cx.SetOption(mangos.OptionRecvDeadline, RD)
		rk := mon.Go("Recv", func() (interface{}, error) { b, e := cx.Recv(); return b, e })
		if !c.AwaitOrViolate("req/recv-stuck", fmt.Sprintf("ctx %d: Recv with a %v receive deadline (answered: %v)", r.ctx, RD, answered[n]), rk.Done, mon.AwaitOpts{MaxTimer: RD}) {
			return
		}
		v, err, _ := rk.Result()
		c.Count("recv_calls", 1)
		switch {
		case err == nil:
			s, ok := hx.ParseReplySerial(v.([]byte))
			if !ok || s < 1 || s > len(reqs) || !answered[s-1] {
				c.Violate("req/delivered-uninjected", "ctx %d Recv returned %q which the harness never injected", r.ctx, v)
				return
			}
			if s-1 != n {
				o := reqs[s-1]
				c.Violate("req/delivered-noncurrent:other-ctx-after-failed-send", "ctx %d (request k=%d, id %08x) Recv returned %q — the answer the peer gave to ctx %d's request k=%d (id %08x); %d Send(s) had failed (%s, %s) while other requests were outstanding\n  %s", r.ctx, r.k, r.tx.ID, v, o.ctx, o.k, o.tx.ID, len(failed), mode, wait, strings.Join(script, "\n  "))
				return
			}
			delivered++
			// at most one delivered reply per request
			rk2 := mon.Go("Recv", func() (interface{}, error) { b, e := cx.Recv(); return b, e })
			if !c.AwaitOrViolate("req/recv-stuck", fmt.Sprintf("ctx %d: a second Recv (no request outstanding)", r.ctx), rk2.Done, mon.AwaitOpts{MaxTimer: RD}) {
				return
			}
			if v2, err2, _ := rk2.Result(); err2 != mangos.ErrProtoState {
				c.Violate("req/delivered-twice", "ctx %d: a second Recv returned (%q, %v), want ErrProtoState", r.ctx, v2, err2)
				return
			}
		case err == mangos.ErrRecvTimeout:
			if answered[n] && !shared {
				// the answer was taken and processed by the library before Recv was called
				c.Violate("req/recv-timeout-with-reply", "ctx %d Recv timed out although the answer to its request k=%d (id %08x) had been processed", r.ctx, r.k, r.tx.ID)
				return
			}
		default:
			c.Violate("req/recv-error", "ctx %d Recv returned %v (request k=%d id %08x answered: %v)", r.ctx, err, r.k, r.tx.ID, answered[n])
			return
		}
	}
	c.Count("replies_delivered", delivered)
	c.Count("requests_accepted_behind_a_send_that_failed", laterOutstanding)
	if len(failed) > 0 && laterOutstanding > 0 && len(late) > 0 && delivered > 0 {
		c.Nontrivial()
	}
	c.Sig("sendfail|%s|%s|%s|F%dQ%dL%d|p%d|fifo=%v|behind=%d|ans=%d/%d", mode, wait, release, nF, nQ, len(late), len(live), fifo, laterOutstanding, len(answered), len(reqs))
	_ = vt.Addr
}

// permFrom returns a PRNG permutation of lo..hi-1.
func permFrom(c *mon.Case, lo, hi int) []int {
	out := make([]int, 0, hi-lo)
	for _, v := range c.Rand.Perm(hi - lo) {
		out = append(out, lo+v)
	}
	return out
}
