//go:build verif

package c03

import (
	"encoding/binary"
	"time"

	"go.nanomsg.org/mangos/v3"

	"verifharness/hx"
	"verifharness/mon"
	"verifharness/vt"
)

// c03OpenCtx: a context opened while another context (the socket's own) has a request in flight —
// answered already or not — has no request of its own: its Recv fails with the protocol-state error
// instead of returning (or waiting for) the other context's reply, and the other context still
// gets its reply, exactly once.
func c03OpenCtx(c *mon.Case, sp c03Spec) {
	s := hx.MustSock(c, "req")
	s.SetOption(mangos.OptionRetryTime, time.Hour)
	name := hx.Uniq("c03o")
	L := vt.L(name)
	c.Cleanup(func() { vt.Forget(name) })
	if err := s.Listen(vt.Addr(name)); err != nil {
		c.Inconclusive("setup: %v", err)
		return
	}
	w := hx.WatchPipes(s)
	r := L.Connect()
	if !hx.WaitAttached(c, w, 1, "replier") {
		return
	}
	type ctxT interface {
		Send([]byte) error
		Recv() ([]byte, error)
	}
	request := func(cx ctxT, body string, n int) (uint32, bool) {
		k := mon.Go("Send", func() (interface{}, error) { return nil, cx.Send([]byte(body)) })
		if !c.AwaitOrViolate("req/send-stuck", "Send with a ready peer", k.Done, mon.AwaitOpts{}) {
			return 0, false
		}
		if _, err, _ := k.Result(); err != nil {
			c.Violate("req/send-error", "Send returned %v", err)
			return 0, false
		}
		if !c.AwaitOrViolate("req/request-not-transmitted", "the request reaching the peer", func() bool { return r.SentCount() >= n }, mon.AwaitOpts{}) {
			return 0, false
		}
		wire := r.SentLog()[n-1].Wire()
		if len(wire) < 4 {
			c.Violate("req/malformed-transmission", "request went out as %x", wire)
			return 0, false
		}
		return binary.BigEndian.Uint32(wire), true
	}
	recv := func(cx ctxT, who string) ([]byte, error, bool) {
		k := mon.Go("Recv", func() (interface{}, error) { b, e := cx.Recv(); return b, e })
		if !c.AwaitOrViolate("req/recv-stuck", who+": Recv (a reply is available, or no request is outstanding)", k.Done, mon.AwaitOpts{}) {
			return nil, nil, false
		}
		v, err, _ := k.Result()
		b, _ := v.([]byte)
		return b, err, true
	}
	id1, ok := request(s, "q1-"+name, 1)
	if !ok {
		return
	}
	replyFirst := sp.NOps%2 == 0
	if replyFirst {
		r.Inject(hx.ReplyWire(id1, 1))
		mon.Await(func() bool { return r.Pending() == 0 }, mon.AwaitOpts{Watchdog: 5 * time.Second})
	}
	cx, err := s.OpenContext()
	if err != nil {
		c.Violate("req/open-context-error", "OpenContext with a request in flight: %v", err)
		return
	}
	b, err, ok := recv(cx, "the freshly opened context")
	if !ok {
		return
	}
	if err != mangos.ErrProtoState {
		c.Violate("req/new-context-has-a-request", "Recv on a freshly opened context (no request of its own; the socket's request %08x in flight, reply already arrived: %v) returned (%q, %v), want ErrProtoState", id1, replyFirst, b, err)
		return
	}
	c.Count("fresh_context_recv_protostate", 1)
	if !replyFirst {
		r.Inject(hx.ReplyWire(id1, 1))
	}
	b, err, ok = recv(s, "the socket whose request was in flight")
	if !ok {
		return
	}
	if ser, _ := hx.ParseReplySerial(b); err != nil || ser != 1 {
		c.Violate("req/recv-error", "the socket's Recv returned (%q, %v) although the reply to its request %08x was injected — opening a context disturbed the request in flight", b, err, id1)
		return
	}
	if b, err, ok = recv(s, "the socket, a second time"); !ok {
		return
	} else if err != mangos.ErrProtoState {
		c.Violate("req/delivered-twice", "a second Recv on the socket returned (%q, %v), want ErrProtoState", b, err)
		return
	}
	id2, ok := request(cx, "q2-"+name, 2)
	if !ok {
		return
	}
	if id2 == id1 {
		c.Violate("req/id-reused", "the new context's request carries the id %08x of the socket's request", id1)
		return
	}
	r.Inject(hx.ReplyWire(id2, 2))
	b, err, ok = recv(cx, "the new context")
	if !ok {
		return
	}
	if ser, _ := hx.ParseReplySerial(b); err != nil || ser != 2 {
		c.Violate("req/recv-error", "the new context's Recv returned (%q, %v), want the reply to its own request", b, err)
		return
	}
	c.Count("replies_delivered", 2)
	c.Nontrivial()
	c.Sig("openctx|%v", replyFirst)
}
