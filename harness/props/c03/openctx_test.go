//go:build verif

package c03

import (
	"encoding/binary"
	"time"

	"go.nanomsg.org/mangos/v3"

	"verifharness/hx"
	"verifharness/mon"
	"verifharness/vt"
)

// c03OpenCtx: a context opened while another context (the socket's own) has a request in flight —
// answered already or not — has no request of its own: its Recv fails with the protocol-state error
// instead of returning (or waiting for) the other context's reply, and the other context still
// gets its reply, exactly once.
func c03OpenCtx(c *mon.Case, sp c03Spec) {
	s := hx.MustSock(c, "req")
	s.SetOption(mangos.OptionRetryTime, time.Hour)
	name := hx.Uniq("c03o")
	L := vt.L(name)
	c.Cleanup(func() { vt.Forget(name) })
	if err := s.Listen(vt.Addr(name)); err != nil {
		c.Inconclusive("setup: %v", err)
		return
	}
	w := hx.WatchPipes(s)
	r := L.Connect()
	if !hx.WaitAttached(c, w, 1, "replier") {
		return
	}
	type ctxT interface {
		Send([]byte) error
		Recv() ([]byte, error)
	}
	request := func(cx ctxT, body string, n int) (uint32, bool) {
		k := mon.Go("Send", func() (interface{}, error) { return nil, cx.Send([]byte(body)) })
		if !c.AwaitOrViolate("req/send-stuck", "Send with a ready peer", k.Done, mon.AwaitOpts{}) {
			return 0, false
		}
		if _, err, _ := k.Result(); err != nil {
			c.Violate("req/send-error", "Send returned %v", err)
			return 0, false
		}
		if !c.AwaitOrViolate("req/request-not-transmitted", "the request reaching the peer", func() bool { return r.SentCount() >= n }, mon.AwaitOpts{}) {
			return 0, false
		}
		wire := r.SentLog()[n-1].Wire()
		if len(wire) < 4 {
			c.Violate("req/malformed-transmission", "request went out as %x", wire)
			return 0, false
		}
		return binary.BigEndian.Uint32(wire), true
	}
	recv := func(cx ctxT, who string) ([]byte, error, bool) {
		k := mon.Go("Recv", func() (interface{}, error) { b, e := cx.Recv(); return b, e })
		if !c.AwaitOrViolate("req/recv-stuck", who+": Recv (a reply is available, or no request is outstanding)", k.Done, mon.AwaitOpts{}) {
			return nil, nil, false
		}
		v, err, _ := k.Result()
		b, _ := v.([]byte)
		return b, err, true
	}
	id1, ok := request(s, "q1-"+name, 1)
	if !ok {
		return
	}
	replyFirst := sp.NOps%2 == 0
	if replyFirst {
		r.Inject(hx.ReplyWire(id1, 1))
		mon.Await(func() bool { return r.Pending() == 0 }, mon.AwaitOpts{Watchdog: 5 * time.Second})
	}
	cx, err := s.OpenContext()
	if err != nil {
		c.Violate("req/open-context-error", "OpenContext with a request in flight: %v", err)
		return
	}
	b, err, ok := recv(cx, "the freshly opened context")
	if !ok {
		return
	}
	if err != mangos.ErrProtoState {
		c.Violate("req/new-context-has-a-request", "Recv on a freshly opened context (no request of its own; the socket's request %08x in flight, reply already arrived: %v) returned (%q, %v), want ErrProtoState", id1, replyFirst, b, err)
		return
	}
	c.Count("fresh_context_recv_protostate", 1)
	if !replyFirst {
		r.Inject(hx.ReplyWire(id1, 1))
	}
	b, err, ok = recv(s, "the socket whose request was in flight")
	if !ok {
		return
	}
	if ser, _ := hx.ParseReplySerial(b); err != nil || ser != 1 {
		c.Violate("req/recv-error", "the socket's Recv returned (%q, %v) although the reply to its request %08x was injected — opening a context disturbed the request in flight", b, err, id1)
		return
	}
	if b, err, ok = recv(s, "the socket, a second time"); !ok {
		return
	} else if err != mangos.ErrProtoState {
		c.Violate("req/delivered-twice", "a second Recv on the socket returned (%q, %v), want ErrProtoState", b, err)
		return
	}
	id2, ok := request(cx, "q2-"+name, 2)
	if !ok {
		return
	}
	if id2 == id1 {
		c.Violate("req/id-reused", "the new context's request carries the id %08x of the socket's request", id1)
		return
	}
	r.Inject(hx.ReplyWire(id2, 2))
	b, err, ok = recv(cx, "the new context")
	if !ok {
		return
	}
	if ser, _ := hx.ParseReplySerial(b); err != nil || ser != 2 {
		c.Violate("req/recv-error", "the new context's Recv returned (%q, %v), want the reply to its own request", b, err)
		return
	}
	c.Count("replies_delivered", 2)
	c.Nontrivial()
	c.Sig("openctx|%v", replyFirst)
}

// c03SendTimeout: a Send that fails with the send-timeout error (no peer, or the only connection
// busy) has not issued a request: the Recv that follows fails with the protocol-state error at
// once instead of waiting for a reply that cannot come, and a later request works normally.
func c03SendTimeout(c *mon.Case, sp c03Spec) {
	s := hx.MustSock(c, "req")
	s.SetOption(mangos.OptionRetryTime, time.Hour)
	name := hx.Uniq("c03t")
	L := vt.L(name)
	c.Cleanup(func() { vt.Forget(name) })
	if err := s.Listen(vt.Addr(name)); err != nil {
		c.Inconclusive("setup: %v", err)
		return
	}
	w := hx.WatchPipes(s)
	type ctxT interface {
		Send([]byte) error
		Recv() ([]byte, error)
		SetOption(string, interface{}) error
	}
	var cx ctxT = s
	if sp.NOps%2 == 1 {
		x, err := s.OpenContext()
		if err != nil {
			c.Violate("req/open-context-error", "%v", err)
			return
		}
		cx = x
	}
	busy := sp.NOps%4 >= 2
	var r *vt.Pipe
	if busy {
		// the only connection is occupied by another context's request that its transport does not complete
		r = L.Connect()
		if !hx.WaitAttached(c, w, 1, "replier") {
			return
		}
		r.HoldSends()
		other, err := s.OpenContext()
		if err != nil {
			c.Violate("req/open-context-error", "%v", err)
			return
		}
		k := mon.Go("Send", func() (interface{}, error) { return nil, other.Send([]byte("occupying")) })
		if !c.AwaitOrViolate("req/send-stuck", "the occupying request being handed to the connection", k.Done, mon.AwaitOpts{}) {
			return
		}
	}
	const D = 10 * time.Millisecond
	// how the request that never leaves comes to its end: "senddl" a send deadline expires; "be-recvdl" a
	// best-effort Send queued it (returning nil) and a Recv runs into its receive deadline; "recvdl" a Send
	// without deadline is still waiting for a connection when a concurrent Recv on the same context runs
	// into its receive deadline.  Afterwards no request is outstanding.
	end := []string{"senddl", "be-recvdl", "recvdl"}[(sp.NOps/4)%3]
	switch end {
	case "senddl":
		cx.SetOption(mangos.OptionSendDeadline, D)
		k := mon.Go("Send", func() (interface{}, error) { return nil, cx.Send([]byte("never-leaves")) })
		if !c.AwaitOrViolate("req/send-stuck", "Send with a 10ms send deadline and no connection able to take the request", k.Done, mon.AwaitOpts{MaxTimer: D}) {
			return
		}
		if _, err, _ := k.Result(); err != mangos.ErrSendTimeout {
			c.Inconclusive("Send returned %v, not the send-timeout error", err)
			return
		}
	case "be-recvdl":
		cx.SetOption(mangos.OptionBestEffort, true)
		k := mon.Go("Send", func() (interface{}, error) { return nil, cx.Send([]byte("never-leaves")) })
		if !c.AwaitOrViolate("req/send-stuck", "best-effort Send with no connection able to take the request", k.Done, mon.AwaitOpts{}) {
			return
		}
		if _, err, _ := k.Result(); err != nil {
			c.Inconclusive("best-effort Send returned %v", err)
			return
		}
		cx.SetOption(mangos.OptionBestEffort, false)
		cx.SetOption(mangos.OptionRecvDeadline, D)
		rk := mon.Go("Recv", func() (interface{}, error) { b, e := cx.Recv(); return b, e })
		if !c.AwaitOrViolate("req/recv-stuck", "Recv with a 10ms receive deadline on a queued, unsent request", rk.Done, mon.AwaitOpts{MaxTimer: D}) {
			return
		}
		if _, err, _ := rk.Result(); err != mangos.ErrRecvTimeout {
			c.Violate("req/recv-deadline-error", "Recv with a 10ms deadline on an unanswered (unsent) request returned %v", err)
			return
		}
		cx.SetOption(mangos.OptionRecvDeadline, time.Duration(0))
	case "recvdl":
		k := mon.Go("Send", func() (interface{}, error) { return nil, cx.Send([]byte("never-leaves")) })
		if !k.ParkedIn("SendMsg") {
			c.Inconclusive("Send neither parked nor done")
			return
		}
		cx.SetOption(mangos.OptionRecvDeadline, D)
		rk := mon.Go("Recv", func() (interface{}, error) { b, e := cx.Recv(); return b, e })
		if !c.AwaitOrViolate("req/recv-stuck", "Recv with a 10ms receive deadline while the Send of its request still waits for a connection", rk.Done, mon.AwaitOpts{MaxTimer: D}) {
			return
		}
		if _, err, _ := rk.Result(); err != mangos.ErrRecvTimeout {
			c.Violate("req/recv-deadline-error", "Recv with a 10ms deadline on an unanswered (unsent) request returned %v", err)
			return
		}
		if !c.AwaitOrViolate("req/send-stuck", "the Send whose request was cancelled by the receive deadline", k.Done, mon.AwaitOpts{}) {
			return
		}
		cx.SetOption(mangos.OptionRecvDeadline, time.Duration(0))
	}
	rk := mon.Go("Recv", func() (interface{}, error) { b, e := cx.Recv(); return b, e })
	if !c.AwaitOrViolate("req/recv-stuck:no-request-after-unsent-"+end, "Recv after the unsent request came to its end (no request is outstanding)", rk.Done, mon.AwaitOpts{}) {
		return
	}
	if v, err, _ := rk.Result(); err != mangos.ErrProtoState {
		c.Violate("req/no-request-recv-error", "Recv after the unsent request ended (%s) returned (%q, %v), want ErrProtoState", end, v, err)
		return
	}
	c.Count("recv_calls", 1)
	// and the context is usable: a request, its reply
	if r == nil {
		r = L.Connect()
		if !hx.WaitAttached(c, w, 1, "replier") {
			return
		}
	} else {
		r.ReleaseSends()
	}
	cx.SetOption(mangos.OptionSendDeadline, time.Duration(0))
	before := r.SentCount()
	k2 := mon.Go("Send", func() (interface{}, error) { return nil, cx.Send([]byte("real-request")) })
	if !c.AwaitOrViolate("req/send-stuck", "Send with a ready peer after the timed-out one", k2.Done, mon.AwaitOpts{}) {
		return
	}
	var id uint32
	if !c.AwaitOrViolate("req/request-not-transmitted", "the request reaching the peer", func() bool {
		for _, x := range r.SentFrom(before) {
			if w := x.Wire(); len(w) >= 4 && string(w[4:]) == "real-request" {
				id = binary.BigEndian.Uint32(w)
				return true
			}
		}
		return false
	}, mon.AwaitOpts{}) {
		return
	}
	// the abandoned request was queued before this one: had it been kept it would be on the wire by now
	for _, x := range r.SentLog() {
		if w := x.Wire(); len(w) >= 4 && string(w[4:]) == "never-leaves" {
			c.Violate("req/abandoned-unsent-request-transmitted", "the request that ended unsent (%s) was transmitted once a connection became available", end)
			return
		}
	}
	r.Inject(hx.ReplyWire(id, 7))
	rk2 := mon.Go("Recv", func() (interface{}, error) { b, e := cx.Recv(); return b, e })
	if !c.AwaitOrViolate("req/recv-stuck", "Recv of the reply to the later request", rk2.Done, mon.AwaitOpts{}) {
		return
	}
	if v, err, _ := rk2.Result(); err != nil {
		c.Violate("req/recv-error", "Recv of the later request's reply returned (%q, %v)", v, err)
		return
	}
	c.Count("replies_delivered", 1)
	c.Nontrivial()
	c.Sig("sendtimeout|%d|%s", sp.NOps%4, end)
}
