//go:build verif

package c03

import (
	"sync"
	"sync/atomic"
	"time"

	"go.nanomsg.org/mangos/v3"

	"verifharness/hx"
	"verifharness/mon"
)

// c03ReplyRace: the reply to the outstanding request arrives at the very moment the application
// supersedes that request with a new Send, again and again, while other goroutines keep the socket's
// lock contended (option reads on the socket and on the context).  Whichever of the two wins, once the
// superseding Send has returned the old request is abandoned: a Recv called afterwards has nothing to
// return until the new request's reply arrives.  So Recv must be found *waiting* (state-based: parked
// inside RecvMsg), and must then return exactly the new request's reply when that is injected.  A reply
// looked up under the lock but handed to the context in a later critical section (after the new Send
// took the old one's place) shows up here as a Recv that returns the old reply.
func c03ReplyRace(c *mon.Case, sp c03Spec) {
	rig := hx.NewReqRig(c, "req", sp.NCtx, 1)
	if c.Failed() {
		return
	}
	rig.SetAll(mangos.OptionRetryTime, time.Hour)
	i := c.Rand.Intn(sp.NCtx)
	cx := rig.Ctxs[i]
	p := rig.Pipes[0]
	var stop atomic.Bool
	var wg sync.WaitGroup
	for g := 0; g < 4; g++ {
		g := g
		wg.Add(1)
		go func() {
			defer wg.Done()
			for !stop.Load() {
				if g%2 == 0 {
					rig.Sock.GetOption(mangos.OptionRetryTime)
				} else {
					cx.GetOption(mangos.OptionRecvDeadline)
				}
			}
		}()
	}
	defer func() { stop.Store(true); wg.Wait() }()
	spin := func(n int) {
		x := 0
		for j := 0; j < n; j++ {
			x += j
		}
		_ = x
	}
	send := func(k int) (uint32, bool) {
		call := mon.Go("Send", func() (interface{}, error) { return nil, cx.Send(rig.ReqBody(i, k)) })
		if !c.AwaitOrViolate("req/send-stuck", "Send with a ready peer", call.Done, mon.AwaitOpts{}) {
			return 0, false
		}
		if _, err, _ := call.Result(); err != nil {
			c.Violate("req/send-error", "Send returned %v", err)
			return 0, false
		}
		txs, ok := rig.AwaitTx(i, k, 1, 0, "req/request-not-transmitted")
		if !ok {
			return 0, false
		}
		return txs[0].ID, true
	}
	k := 1
	id, ok := send(k)
	if !ok {
		return
	}
	races := 0
	for it := 0; it < sp.NOps && !c.Failed(); it++ {
		// the reply to request k and the Send of request k+1, released together at PRNG offsets
		oldSerial := 2 * it
		d1, d2 := c.Rand.Intn(4000), c.Rand.Intn(4000)
		start := make(chan struct{})
		var w2 sync.WaitGroup
		w2.Add(1)
		go func() {
			defer w2.Done()
			<-start
			spin(d1)
			p.Inject(hx.ReplyWire(id, oldSerial))
		}()
		call := mon.Go("Send", func() (interface{}, error) {
			<-start
			spin(d2)
			return nil, cx.Send(rig.ReqBody(i, k+1))
		})
		close(start)
		w2.Wait()
		if !c.AwaitOrViolate("req/send-stuck", "superseding Send with a ready peer", call.Done, mon.AwaitOpts{}) {
			return
		}
		if _, err, _ := call.Result(); err != nil {
			c.Violate("req/send-error", "superseding Send returned %v", err)
			return
		}
		k++
		txs, ok := rig.AwaitTx(i, k, 1, 0, "req/request-not-transmitted")
		if !ok {
			return
		}
		id = txs[0].ID
		if !rig.Drained(p) {
			return
		}
		races++
		// the old request is abandoned, the new one unanswered: Recv has nothing to return
		rk := mon.Go("Recv", func() (interface{}, error) { b, e := cx.Recv(); return b, e })
		if !rk.ParkedIn("RecvMsg") {
			if !rk.Done() {
				c.Inconclusive("Recv neither parked nor done")
				return
			}
			v, err, _ := rk.Result()
			if err == nil {
				s, _ := hx.ParseReplySerial(v.([]byte))
				if s == oldSerial {
					c.Violate("req/delivered-noncurrent:reply-raced-with-superseding-send", "iteration %d: the reply to request %d arrived while Send of request %d was running; after that Send had returned, Recv delivered the old reply %q", it, k-1, k, v)
				} else {
					c.Violate("req/delivered-uninjected", "iteration %d: Recv returned %q although no reply to the current request was injected", it, v)
				}
			} else {
				c.Violate("req/recv-error", "iteration %d: Recv on an outstanding, unanswered request returned %v", it, err)
			}
			return
		}
		newSerial := 2*it + 1
		p.Inject(hx.ReplyWire(id, newSerial))
		if !c.AwaitOrViolate("req/recv-stuck", "Recv of the superseding request's reply", rk.Done, mon.AwaitOpts{}) {
			return
		}
		v, err, _ := rk.Result()
		if err != nil {
			c.Violate("req/recv-error", "iteration %d: Recv of the answered request returned %v", it, err)
			return
		}
		if s, ok := hx.ParseReplySerial(v.([]byte)); !ok || s != newSerial {
			c.Violate("req/delivered-noncurrent:reply-raced-with-superseding-send", "iteration %d: Recv returned %q, want the reply with serial %d to the current request", it, v, newSerial)
			return
		}
		c.Count("replies_delivered", 1)
		// next round needs an outstanding request again
		k++
		if id, ok = send(k); !ok {
			return
		}
	}
	c.Count("reply_vs_send_races", races)
	for _, b := range rig.Bad {
		c.Violate("req/malformed-transmission", "%s", b)
	}
	if races > 0 {
		c.Nontrivial()
	}
	c.Sig("replyrace|%d", sp.NCtx)
}
