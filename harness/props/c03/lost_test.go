//go:build verif

package c03

import (
	"fmt"
	"time"

	"go.nanomsg.org/mangos/v3"

	"verifharness/hx"
	"verifharness/mon"
	"verifharness/vt"
)

// c03Lost: the outstanding request comes to its end not by anything the application does but
// because the library gives it up when the connection goes away:
//
//	cause "retry0":  OptionRetryTime is 0 (no retransmission) and the connection that carried the
//	                 request is lost before the reply arrives;
//	cause "nopeers": OptionFailNoPeers is set and the last connection is lost.
//
// The application's Recv for that request is parked at the time of the loss, is called afterwards,
// or is never called.  A new request is then sent on the same context (other contexts send theirs
// too) and the peer's late reply to the lost request arrives over a surviving or a new connection:
// before the new Send, between the new Send and its reply, instead of its reply, or after its reply
// was delivered.  Every Recv must return the reply to the context's current request or an error;
// the lost request's reply is never delivered to anyone.
func c03Lost(c *mon.Case, sp c03Spec) {
	cause, recvState, order, routeKind := sp.Park, sp.Abandon, sp.Order, sp.Wait
	npipes := 1
	if cause == "retry0" && routeKind == "survivor" {
		npipes = 2 + c.Rand.Intn(2)
	}
	rig := hx.NewReqRig(c, "req", sp.NCtx, npipes)
	if c.Failed() {
		return
	}
	switch cause {
	case "retry0":
		if c.Rand.Intn(2) == 0 {
			rig.SetAll(mangos.OptionRetryTime, time.Hour) // the value in force when the connection is lost counts
		}
		rig.SetAll(mangos.OptionRetryTime, time.Duration(0))
	default:
		rig.SetAll(mangos.OptionRetryTime, time.Hour)
		rig.SetAll(mangos.OptionFailNoPeers, true)
	}
	i := c.Rand.Intn(sp.NCtx) // subject context
	tag := fmt.Sprintf("cause=%s recv=%s order=%s route=%s", cause, recvState, order, routeKind)
	sigDeliv := "req/delivered-noncurrent:lost-" + cause

	send := func(ctx, k int) (hx.WireTx, bool) {
		call := mon.Go("Send", func() (interface{}, error) { return nil, rig.Ctxs[ctx].Send(rig.ReqBody(ctx, k)) })
		what := fmt.Sprintf("ctx %d Send #%d with a ready vt peer (%s)", ctx, k, tag)
		if !c.AwaitOrViolate("req/send-stuck", what, call.Done, mon.AwaitOpts{}) {
			return hx.WireTx{}, false
		}
		if _, err, _ := call.Result(); err != nil {
			c.Violate("req/send-error", "%s returned %v", what, err)
			return hx.WireTx{}, false
		}
		txs, ok := rig.AwaitTx(ctx, k, 1, 0, "req/request-not-transmitted")
		if !ok {
			return hx.WireTx{}, false
		}
		return txs[0], true
	}
	// recv runs one Recv to its end; want>0: that serial must come back; want==0: an error must.
	// allow1: the lost request is still the context's most recent one, so its reply may be delivered.
	allow1 := false
	recv := func(ctx int, deadline time.Duration, want int, wantErr error, what string) bool {
		if deadline > 0 {
			rig.Ctxs[ctx].SetOption(mangos.OptionRecvDeadline, deadline)
			defer rig.Ctxs[ctx].SetOption(mangos.OptionRecvDeadline, time.Duration(0))
		}
		r := mon.Go("Recv", func() (interface{}, error) { b, e := rig.Ctxs[ctx].Recv(); return b, e })
		if !c.AwaitOrViolate("req/recv-stuck", fmt.Sprintf("ctx %d Recv %s (%s)", ctx, what, tag), r.Done, mon.AwaitOpts{MaxTimer: deadline}) {
			return false
		}
		v, err, _ := r.Result()
		c.Count("recv_calls", 1)
		if err == nil {
			s, _ := hx.ParseReplySerial(v.([]byte))
			switch {
			case s == 1 && allow1 && ctx == i:
				c.Count("replies_delivered", 1)
				return true
			case s == 1:
				c.Violate(sigDeliv, "ctx %d Recv %s returned %q — the late reply to the request that was lost with its connection (%s)", ctx, what, v, tag)
			case s != want:
				c.Violate("req/delivered-noncurrent:lost-other", "ctx %d Recv %s returned %q, want serial %d (%s)", ctx, what, v, want, tag)
			default:
				c.Count("replies_delivered", 1)
				return true
			}
			return false
		}
		if want > 0 {
			c.Violate("req/recv-error", "ctx %d Recv %s returned %v although the reply (serial %d) had been processed (%s)", ctx, what, err, want, tag)
			return false
		}
		if wantErr != nil && err != wantErr {
			c.Violate("req/recv-error", "ctx %d Recv %s returned %v, want %v (%s)", ctx, what, err, wantErr, tag)
			return false
		}
		return true
	}

	// request 1 is transmitted
	tx1, ok := send(i, 1)
	if !ok {
		return
	}
	id1 := tx1.ID
	var parked *mon.Call
	if recvState == "parked" {
		parked = mon.Go("Recv", func() (interface{}, error) { b, e := rig.Ctxs[i].Recv(); return b, e })
		if !parked.ParkedIn("RecvMsg") {
			if parked.Done() {
				v, err, _ := parked.Result()
				c.Violate("req/recv-returned-unanswered", "Recv on an outstanding, unanswered request returned (%q, %v) (%s)", v, err, tag)
			} else {
				c.Inconclusive("Recv neither parked nor done")
			}
			return
		}
	}
	// the connection goes away
	ndrop := 0
	if cause == "retry0" {
		tx1.Pipe.Drop()
		ndrop = 1
	} else {
		for _, p := range rig.LivePipes() {
			p.Drop()
			ndrop++
		}
	}
	if !hx.WaitDetached(c, rig.Watch, ndrop, "dropped connection") {
		c.Inconclusive("dropped connection not detached")
		return
	}
	// where the late reply will arrive
	var route *vt.Pipe
	if live := rig.LivePipes(); routeKind == "survivor" && len(live) > 0 {
		route = live[c.Rand.Intn(len(live))]
	} else {
		route = rig.AddPipe()
		if c.Failed() {
			return
		}
	}
	stale := func() bool {
		route.Inject(hx.ReplyWire(id1, 1))
		c.Count("injected_lost-request", 1)
		return rig.Drained(route)
	}
	if recvState == "after" {
		// nothing was injected so far: whatever this Recv reports, it is not a reply
		if !recv(i, 15*time.Millisecond, 0, nil, "after the connection carrying the request was lost") {
			return
		}
	}
	if order == "before-send" {
		if !stale() {
			return
		}
		allow1 = true
		if recvState == "after" && !recv(i, 15*time.Millisecond, 0, nil, "after the lost request's late reply, no new request sent") {
			return
		}
		allow1 = false
	}
	// the other contexts' requests, and the subject's new one
	ids := map[uint32]bool{id1: true}
	type pend struct {
		ctx, serial int
		tx          hx.WireTx
	}
	var others []pend
	var tx2 hx.WireTx
	for _, j := range c.Rand.Perm(sp.NCtx) {
		tx, ok := send(j, 2)
		if !ok {
			return
		}
		if ids[tx.ID] {
			c.Violate("req/id-reused", "ctx %d request carries id %08x already used by another request on this socket (%s)", j, tx.ID, tag)
			return
		}
		ids[tx.ID] = true
		if j == i {
			tx2 = tx
		} else {
			others = append(others, pend{ctx: j, serial: 10 + j, tx: tx})
		}
	}
	if parked != nil {
		// the new Send abandons whatever the parked Recv was waiting for
		if !c.AwaitOrViolate("req/recv-stuck", "Recv parked on the lost request, after a new Send on its context returned ("+tag+")", parked.Done, mon.AwaitOpts{}) {
			return
		}
		v, err, _ := parked.Result()
		c.Count("recv_calls", 1)
		if s, _ := hx.ParseReplySerial(asBytes(v)); err == nil && !(order == "before-send" && s == 1) {
			c.Violate("req/delivered-uninjected", "Recv parked on the lost request returned %q; at most the lost request's own late reply had been injected and it had no request to answer (%s)", v, tag)
			return
		}
	}
	good := func(tx hx.WireTx, serial int) bool {
		tx.Pipe.Inject(hx.ReplyWire(tx.ID, serial))
		return rig.Drained(tx.Pipe)
	}
	switch order {
	case "both":
		if c.Rand.Intn(2) == 0 {
			// the Recv for the new request is already waiting when the late reply arrives
			r := mon.Go("Recv", func() (interface{}, error) { b, e := rig.Ctxs[i].Recv(); return b, e })
			if !r.ParkedIn("RecvMsg") && !r.Done() {
				c.Inconclusive("Recv neither parked nor done")
				return
			}
			if !r.Done() && !stale() {
				return
			}
			if !r.Done() && !good(tx2, 2) {
				return
			}
			if !c.AwaitOrViolate("req/recv-stuck", "Recv waiting for the new request's reply, which was processed ("+tag+")", r.Done, mon.AwaitOpts{}) {
				return
			}
			v, err, _ := r.Result()
			c.Count("recv_calls", 1)
			if s, _ := hx.ParseReplySerial(asBytes(v)); err != nil {
				c.Violate("req/recv-error", "ctx %d Recv waiting for the new request's reply returned %v (%s)", i, err, tag)
				return
			} else if s == 1 {
				c.Violate(sigDeliv, "ctx %d Recv waiting for the new request's reply returned %q — the late reply to the request that was lost with its connection (%s)", i, v, tag)
				return
			} else if s != 2 {
				c.Violate("req/delivered-noncurrent:lost-other", "ctx %d Recv waiting for the new request's reply returned %q (%s)", i, v, tag)
				return
			}
			c.Count("replies_delivered", 1)
			c.Count("late_reply_while_recv_parked", 1)
			break
		}
		if !stale() || !good(tx2, 2) || !recv(i, 0, 2, nil, "for the new request, late reply to the lost one arrived first") {
			return
		}
	case "stale-only":
		if !stale() || !recv(i, 15*time.Millisecond, 0, mangos.ErrRecvTimeout, "for the new request, only the lost one's late reply arrived") {
			return
		}
	case "before-send":
		if !good(tx2, 2) || !recv(i, 0, 2, nil, "for the new request, late reply to the lost one arrived before it was sent") {
			return
		}
	case "after-reply":
		if !good(tx2, 2) || !recv(i, 0, 2, nil, "for the new request") {
			return
		}
		if !stale() || !recv(i, 15*time.Millisecond, 0, mangos.ErrProtoState, "with no request outstanding, after the lost request's late reply") {
			return
		}
		tx3, ok := send(i, 3)
		if !ok {
			return
		}
		if ids[tx3.ID] {
			c.Violate("req/id-reused", "ctx %d third request carries id %08x already used on this socket (%s)", i, tx3.ID, tag)
			return
		}
		if !stale() || !good(tx3, 3) || !recv(i, 0, 3, nil, "for the third request, late reply to the lost one arrived first") {
			return
		}
	}
	// nobody else got it either
	for _, o := range others {
		if !good(o.tx, o.serial) || !recv(o.ctx, 0, o.serial, nil, "of another context's own reply") {
			return
		}
	}
	c.Nontrivial()
	c.Sig("lost|%s|%s|%s|%s|%d|%d", cause, recvState, order, routeKind, sp.NCtx, npipes)
}

func asBytes(v interface{}) []byte {
	b, _ := v.([]byte)
	return b
}
