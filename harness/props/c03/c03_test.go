package c03

import (
	"fmt"
	"sort"
	"sync"
	"testing"
	"time"

	"github.com/anishathalye/porcupine"
	"go.nanomsg.org/mangos/v3"

	"verifharness/hx"
	"verifharness/mon"
	"verifharness/vt"
)

// C03 — REQ returns only the reply to its current request.

type c03Spec struct {
	Mode   string `json:"mode"` // seq | conc
	NCtx   int    `json:"nctx"`
	NPipes int    `json:"npipes"`
	NOps   int    `json:"nops"`
	// parked mode
	Park    string `json:"park,omitempty"`    // drop | busy; lost mode: retry0 | nopeers
	Abandon string `json:"abandon,omitempty"` // send | timeout
	Order   string `json:"order,omitempty"`   // both | stale-only
	// sendfail mode
	Fail    string `json:"fail,omitempty"`    // senddl | close | recvdl | nopeers
	Wait    string `json:"wait,omitempty"`    // busy | nopipe
	Release string `json:"release,omitempty"` // before | after
}

func TestMain(m *testing.M) { hx.Main(m) }

func TestC03(t *testing.T) {
	r := mon.NewRunner(t, "C03")
	rnd := r.Rand()
	var cases []mon.CaseSpec
	nseq, nconc := r.Pick(1500, 100000), r.Pick(500, 30000)
	for i := 0; i < nseq; i++ {
		cases = append(cases, mon.CaseSpec{Name: "seq", Spec: c03Spec{Mode: "seq", NCtx: 1 + rnd.Intn(3), NPipes: 1 + rnd.Intn(3), NOps: 10 + rnd.Intn(31)}})
	}
	for i := 0; i < nconc; i++ {
		cases = append(cases, mon.CaseSpec{Name: "conc", Spec: c03Spec{Mode: "conc", NCtx: 1 + rnd.Intn(3), NPipes: 1 + rnd.Intn(3), NOps: 6 + rnd.Intn(10)}})
	}
	for rep := 0; rep < r.Pick(6, 300); rep++ {
		for _, park := range []string{"drop", "busy"} {
			for _, ab := range []string{"send", "timeout"} {
				for _, ord := range []string{"both", "stale-only"} {
					cases = append(cases, mon.CaseSpec{Name: "parked", Spec: c03Spec{Mode: "parked", Park: park, Abandon: ab, Order: ord}})
				}
			}
		}
	}
	for i := 0; i < r.Pick(24, 600); i++ {
		cases = append(cases, mon.CaseSpec{Name: "sendtimeout", Spec: c03Spec{Mode: "sendtimeout", NOps: i}})
	}
	for i := 0; i < r.Pick(12, 400); i++ {
		cases = append(cases, mon.CaseSpec{Name: "openctx", Spec: c03Spec{Mode: "openctx", NOps: i}})
	}
	for i := 0; i < r.Pick(16, 400); i++ {
		cases = append(cases, mon.CaseSpec{Name: "ended", Spec: c03Spec{Mode: "ended", NCtx: 1 + (i/2)%3, NPipes: 1, Abandon: []string{"nopeers", "timeout-then-cancel"}[i%2]}})
	}
	for i := 0; i < r.Pick(12, 400); i++ {
		cases = append(cases, mon.CaseSpec{Name: "replyrace", Spec: c03Spec{Mode: "replyrace", NCtx: 1 + i%2, NPipes: 1, NOps: 250}})
	}
	for rep := 0; rep < r.Pick(6, 200); rep++ {
		for _, wait := range []string{"busy", "nopipe"} {
			for _, fail := range []string{"senddl", "close", "recvdl", "nopeers"} {
				if fail == "nopeers" && wait == "nopipe" {
					continue // with no connection at all such a Send is refused at once, it never waits
				}
				for _, rel := range []string{"before", "after"} {
					cases = append(cases, mon.CaseSpec{Name: "sendfail", Spec: c03Spec{Mode: "sendfail", Fail: fail, Wait: wait, Release: rel}})
				}
			}
		}
	}
	for rep := 0; rep < r.Pick(2, 150); rep++ {
		for _, cause := range []string{"retry0", "nopeers"} {
			for _, rs := range []string{"parked", "after", "none"} {
				for _, ord := range []string{"both", "stale-only", "before-send", "after-reply"} {
					for _, route := range []string{"survivor", "new"} {
						if cause == "nopeers" && route == "survivor" {
							continue // every connection is gone
						}
						cases = append(cases, mon.CaseSpec{Name: "lost", Spec: c03Spec{Mode: "lost", Park: cause, Abandon: rs, Order: ord, Wait: route, NCtx: 1 + rnd.Intn(3)}})
					}
				}
			}
		}
	}
	r.Run(cases, func(c *mon.Case) {
		sp := c.Spec.(c03Spec)
		switch sp.Mode {
		case "lost":
			c03Lost(c, sp)
		case "sendfail":
			c03SendFail(c, sp)
		case "replyrace":
			c03ReplyRace(c, sp)
		case "ended":
			c03Ended(c, sp)
		case "seq":
			c03Seq(c, sp)
		case "parked":
			c03Parked(c, sp)
		case "openctx":
			c03OpenCtx(c, sp)
		case "sendtimeout":
			c03SendTimeout(c, sp)
		default:
			c03Conc(c, sp)
		}
	})
}

// injected reply bookkeeping
type c03Inj struct {
	Serial int
	ID     uint32
	Class  string
	Pipe   int
	Owner  [2]int // (ctx,k) the id belongs to, or (-1,-1)
}

type c03Ctx struct {
	k       int      // number of requests sent
	cur     uint32   // id of the outstanding request, 0 if none
	curK    int      // its k
	oldIDs  []uint32 // ids of abandoned/answered requests of this context
	correct []int    // serials of correct replies injected for cur
	closed  bool
}

func c03Seq(c *mon.Case, sp c03Spec) {
	rig := hx.NewReqRig(c, "req", sp.NCtx, sp.NPipes)
	if c.Failed() {
		return
	}
	rig.SetAll(mangos.OptionRetryTime, time.Hour) // one transmission per request; resend is C04
	st := make([]*c03Ctx, sp.NCtx)
	for i := range st {
		st[i] = &c03Ctx{}
	}
	inj := map[int]*c03Inj{}
	delivered := map[int]bool{}
	serial := 0
	var trace []string
	note := func(f string, a ...interface{}) { s := fmt.Sprintf(f, a...); trace = append(trace, s); c.Logf("%s", s) }
	classes := map[string]int{}
	arrival := ""

	inject := func(p int, id uint32, class string) *c03Inj {
		serial++
		owner := [2]int{-1, -1}
		if o, ok := rig.ByID[id]; ok {
			owner = o
		}
		ij := &c03Inj{Serial: serial, ID: id, Class: class, Pipe: p, Owner: owner}
		inj[serial] = ij
		rig.Pipes[p].Inject(hx.ReplyWire(id, serial))
		classes[class]++
		arrival += class[:1]
		note("inject pipe=%d id=%08x class=%s serial=%d", p, id, class, serial)
		return ij
	}
	injectRaw := func(p int, b []byte, class string) {
		rig.Pipes[p].Inject(b)
		classes[class]++
		arrival += class[:1]
		note("inject pipe=%d raw=%x class=%s", p, b, class)
	}

	doSend := func(i int) bool {
		cx := st[i]
		cx.k++
		if cx.cur != 0 {
			cx.oldIDs = append(cx.oldIDs, cx.cur)
		}
		cx.cur, cx.correct = 0, nil
		call := mon.Go("Send", func() (interface{}, error) { return nil, rig.Ctxs[i].Send(rig.ReqBody(i, cx.k)) })
		if !c.AwaitOrViolate("req/send-stuck", fmt.Sprintf("ctx %d Send with %d ready vt peers", i, sp.NPipes), call.Done, mon.AwaitOpts{}) {
			return false
		}
		if _, err, _ := call.Result(); err != nil {
			c.Violate("req/send-error", "ctx %d Send returned %v with ready peers", i, err)
			return false
		}
		txs, ok := rig.AwaitTx(i, cx.k, 1, 0, "req/request-not-transmitted")
		if !ok {
			return false
		}
		cx.cur, cx.curK = txs[0].ID, cx.k
		note("send ctx=%d k=%d id=%08x pipe=%d", i, cx.k, cx.cur, txs[0].PipeN)
		return true
	}

	doRecv := func(i int, deadline time.Duration) bool {
		cx := st[i]
		if deadline > 0 {
			rig.Ctxs[i].SetOption(mangos.OptionRecvDeadline, deadline)
			defer rig.Ctxs[i].SetOption(mangos.OptionRecvDeadline, time.Duration(0))
		}
		call := mon.Go("Recv", func() (interface{}, error) { b, err := rig.Ctxs[i].Recv(); return b, err })
		if !c.AwaitOrViolate("req/recv-stuck", fmt.Sprintf("ctx %d Recv (cur=%08x correct=%v deadline=%v)", i, cx.cur, cx.correct, deadline), call.Done, mon.AwaitOpts{MaxTimer: deadline}) {
			return false
		}
		v, err, _ := call.Result()
		note("recv ctx=%d -> %q err=%v", i, v, err)
		c.Count("recv_calls", 1)
		if err == nil {
			b := v.([]byte)
			s, ok := hx.ParseReplySerial(b)
			ij := inj[s]
			if !ok || ij == nil {
				c.Violate("req/delivered-uninjected", "ctx %d Recv returned %q which the harness never injected", i, b)
				return false
			}
			if delivered[s] {
				c.Violate("req/delivered-twice", "ctx %d Recv returned serial %d a second time", i, s)
				return false
			}
			delivered[s] = true
			c.Count("replies_delivered", 1)
			if cx.cur == 0 || ij.ID != cx.cur {
				c.Violate("req/delivered-noncurrent:"+ij.Class, "ctx %d Recv returned reply serial %d (id %08x, class %s, owner %v) but current request id is %08x", i, s, ij.ID, ij.Class, ij.Owner, cx.cur)
				return false
			}
			if len(cx.correct) > 0 {
				// all correct replies on one pipe -> FIFO says the first wins
				same := true
				for _, cs := range cx.correct {
					if inj[cs].Pipe != inj[cx.correct[0]].Pipe {
						same = false
					}
				}
				if same && s != cx.correct[0] {
					c.Violate("req/delivered-later-duplicate", "ctx %d Recv returned serial %d, but serial %d with the same id was injected earlier on the same pipe", i, s, cx.correct[0])
				}
			}
			cx.oldIDs = append(cx.oldIDs, cx.cur)
			cx.cur, cx.correct = 0, nil
			return true
		}
		switch {
		case cx.closed:
			if err != mangos.ErrClosed {
				c.Violate("req/closed-ctx-recv-error", "ctx %d (closed) Recv returned %v, want ErrClosed", i, err)
			}
		case cx.cur == 0:
			if err != mangos.ErrProtoState {
				c.Violate("req/no-request-recv-error", "ctx %d Recv with no request outstanding returned %v, want ErrProtoState", i, err)
			}
		case deadline > 0 && err == mangos.ErrRecvTimeout:
			if len(cx.correct) > 0 {
				// a correct reply was queued and drained before Recv was called, so the reply was available at once
				c.Violate("req/recv-timeout-with-reply", "ctx %d Recv timed out although correct reply serial %v had been processed", i, cx.correct)
			}
			cx.oldIDs = append(cx.oldIDs, cx.cur)
			cx.cur, cx.correct = 0, nil // timed-out request is abandoned
		default:
			c.Violate("req/recv-error", "ctx %d Recv returned %v (cur=%08x, correct replies %v)", i, err, cx.cur, cx.correct)
		}
		return !c.Failed()
	}

	anyOld := func(except int) (uint32, bool) {
		var ids []uint32
		for j, cx := range st {
			if j == except {
				continue
			}
			ids = append(ids, cx.oldIDs...)
		}
		if len(ids) == 0 {
			return 0, false
		}
		return ids[c.Rand.Intn(len(ids))], true
	}

	for op := 0; op < sp.NOps && !c.Failed(); op++ {
		i := c.Rand.Intn(sp.NCtx)
		cx := st[i]
		p := c.Rand.Intn(sp.NPipes)
		switch x := c.Rand.Intn(100); {
		case cx.closed:
			// every call on a closed context fails with ErrClosed
			if err := rig.Ctxs[i].Send([]byte("x")); err != mangos.ErrClosed {
				c.Violate("req/closed-ctx-send-error", "ctx %d (closed) Send returned %v", i, err)
			}
			doRecv(i, 0)
		case x < 25:
			doSend(i)
		case x < 60:
			// bad replies first, on the same pipe as the (optional) correct one; then Recv
			nbad := c.Rand.Intn(4)
			for b := 0; b < nbad; b++ {
				bp := p
				if c.Rand.Intn(3) == 0 {
					bp = c.Rand.Intn(sp.NPipes)
				}
				switch c.Rand.Intn(8) {
				case 7:
					// the live id preceded by one or two stray words without the request bit: a reply
					// header is exactly one word, so this is malformed and must be discarded
					if cx.cur != 0 {
						b := hx.Be32(c.Rand.Uint32() & 0x7fffffff)
						if c.Rand.Intn(2) == 0 {
							b = append(b, hx.Be32(c.Rand.Uint32()&0x7fffffff)...)
						}
						serial++
						inj[serial] = &c03Inj{Serial: serial, ID: 0, Class: "stray-prefix", Pipe: bp, Owner: [2]int{-1, -1}}
						injectRaw(bp, append(b, hx.ReplyWire(cx.cur, serial)...), "stray-prefix")
					}
				case 0:
					if len(cx.oldIDs) > 0 {
						inject(bp, cx.oldIDs[c.Rand.Intn(len(cx.oldIDs))], "stale")
					}
				case 1:
					if id, ok := anyOld(i); ok {
						inject(bp, id, "foreign-old")
					}
				case 2:
					if cx.cur != 0 {
						inject(bp, cx.cur&0x7fffffff, "bitclear")
					}
				case 3:
					injectRaw(bp, make([]byte, c.Rand.Intn(4)), "short")
				case 4:
					inject(bp, c.Rand.Uint32()|0x80000000, "random-id")
				case 5:
					// a reply for another context's current request: must go to that context only
					j := c.Rand.Intn(sp.NCtx)
					if j != i && st[j].cur != 0 && !st[j].closed {
						ij := inject(bp, st[j].cur, "other-ctx-current")
						st[j].correct = append(st[j].correct, ij.Serial)
					}
				case 6:
					if cx.cur != 0 {
						injectRaw(bp, hx.Be32(cx.cur)[:3], "truncated-id")
					}
				}
			}
			if cx.cur != 0 && c.Rand.Intn(5) != 0 {
				ij := inject(p, cx.cur, "correct")
				cx.correct = append(cx.correct, ij.Serial)
				if c.Rand.Intn(3) == 0 {
					ij2 := inject(c.Rand.Intn(sp.NPipes), cx.cur, "duplicate")
					cx.correct = append(cx.correct, ij2.Serial)
				}
			}
			if !rig.Drained(rig.Pipes...) {
				break
			}
			if cx.cur != 0 && len(cx.correct) == 0 {
				doRecv(i, 15*time.Millisecond) // nothing acceptable queued: must time out, not deliver
			} else {
				doRecv(i, 0)
			}
		case x < 75:
			doRecv(i, time.Duration(0)+time.Duration(boolInt(cx.cur != 0 && len(cx.correct) == 0))*15*time.Millisecond)
		case x < 80 && i != 0:
			err := rig.Ctxs[i].Close()
			note("close ctx=%d err=%v", i, err)
			if err != nil {
				c.Violate("req/ctx-close-error", "ctx %d Close returned %v", i, err)
			}
			if cx.cur != 0 {
				cx.oldIDs = append(cx.oldIDs, cx.cur)
			}
			cx.cur, cx.correct, cx.closed = 0, nil, true
		default:
			// late/duplicate reply for an already answered request, then a sentinel round
			if len(cx.oldIDs) > 0 {
				inject(p, cx.oldIDs[len(cx.oldIDs)-1], "late-duplicate")
				rig.Drained(rig.Pipes[p])
			}
		}
	}
	rig.Scan()
	for _, b := range rig.Bad {
		c.Violate("req/malformed-transmission", "%s", b)
	}
	c.Count("ops", len(trace))
	for k, v := range classes {
		c.Count("injected_"+k, v)
	}
	if len(delivered) > 0 && (classes["stale"]+classes["foreign-old"]+classes["bitclear"]+classes["short"]+classes["stray-prefix"]+classes["random-id"]+classes["late-duplicate"]+classes["duplicate"]) > 0 {
		c.Nontrivial()
	}
	c.Sig("seq|%d|%d|%s", sp.NCtx, sp.NPipes, arrival)
}

func boolInt(b bool) int {
	if b {
		return 1
	}
	return 0
}

// ---- concurrent histories, checked with porcupine per context -----------------

type c03In struct {
	Op string // send | recv
	K  int
}
type c03Out struct {
	Err string
	K   int // for a delivered reply: the request number it answers; -1 = not attributable
}

var c03Model = porcupine.Model{
	Init: func() interface{} { return 0 }, // outstanding request number, 0 = none
	Step: func(state, input, output interface{}) (bool, interface{}) {
		st := state.(int)
		in := input.(c03In)
		out := output.(c03Out)
		if in.Op == "send" {
			if out.Err == "" {
				return true, in.K
			}
			return true, st // failed send (closed): no change we rely on
		}
		switch out.Err {
		case "":
			return st != 0 && out.K == st, 0
		case "timeout", "canceled":
			return true, 0
		default: // protocol state / closed: always allowed in the concurrent model
			return true, st
		}
	},
	DescribeOperation: func(input, output interface{}) string {
		return fmt.Sprintf("%+v -> %+v", input, output)
	},
}

func c03Conc(c *mon.Case, sp c03Spec) {
	rig := hx.NewReqRig(c, "req", sp.NCtx, sp.NPipes)
	if c.Failed() {
		return
	}
	rig.SetAll(mangos.OptionRetryTime, time.Hour)
	rig.SetAll(mangos.OptionRecvDeadline, 30*time.Millisecond)
	hx.SetYields(c.Rand.Int63(), &hx.YieldCfg{ProbGosched: 0.2, ProbSleep: 0.1, MaxSleep: 300 * time.Microsecond})
	defer hx.SetYields(0, nil)

	var mu sync.Mutex
	ops := make([][]porcupine.Operation, sp.NCtx)
	injBy := map[int]uint32{} // serial -> claimed id
	serial := 0
	stop := make(chan struct{})
	var wg sync.WaitGroup
	seed := c.Rand.Int63()

	// replier: answers what it sees on the wire, with duplicates, stale ids and cross-pipe delivery
	wg.Add(1)
	go func() {
		defer wg.Done()
		rnd := hx.NewRand(seed)
		var seen []hx.WireTx
		for {
			select {
			case <-stop:
				return
			default:
			}
			fresh := rig.Scan()
			for _, tx := range fresh {
				seen = append(seen, tx)
				n := 1
				switch rnd.Intn(6) {
				case 0:
					n = 0 // never answered
				case 1:
					n = 2 // duplicate
				}
				for j := 0; j < n; j++ {
					p := tx.PipeN
					if rnd.Intn(3) == 0 {
						p = rnd.Intn(sp.NPipes)
					}
					mu.Lock()
					serial++
					s := serial
					injBy[s] = tx.ID
					mu.Unlock()
					if rnd.Intn(3) == 0 {
						mon.Sleep(time.Duration(rnd.Intn(400)) * time.Microsecond)
					}
					rig.Pipes[p].Inject(hx.ReplyWire(tx.ID, s))
					c.Count("injected_correct", 1)
				}
				if rnd.Intn(2) == 0 && len(seen) > 1 {
					old := seen[rnd.Intn(len(seen)-1)]
					mu.Lock()
					serial++
					s := serial
					injBy[s] = old.ID
					mu.Unlock()
					rig.Pipes[rnd.Intn(sp.NPipes)].Inject(hx.ReplyWire(old.ID, s))
					c.Count("injected_stale", 1)
				}
			}
		}
	}()

	errName := func(err error) string {
		switch err {
		case nil:
			return ""
		case mangos.ErrRecvTimeout:
			return "timeout"
		case mangos.ErrCanceled:
			return "canceled"
		case mangos.ErrProtoState:
			return "state"
		case mangos.ErrClosed:
			return "closed"
		}
		return "other:" + err.Error()
	}
	var senders sync.WaitGroup
	recvDone := make(chan struct{})
	for i := 0; i < sp.NCtx; i++ {
		i := i
		senders.Add(1)
		go func() {
			defer senders.Done()
			rnd := hx.NewRand(seed + int64(i)*31)
			for k := 1; k <= sp.NOps; k++ {
				t0 := mon.Now()
				err := rig.Ctxs[i].Send(rig.ReqBody(i, k))
				t1 := mon.Now()
				mu.Lock()
				ops[i] = append(ops[i], porcupine.Operation{ClientId: 0, Input: c03In{"send", k}, Call: int64(t0), Output: c03Out{Err: errName(err)}, Return: int64(t1)})
				mu.Unlock()
				mon.Sleep(time.Duration(rnd.Intn(1500)) * time.Microsecond)
			}
		}()
		wg.Add(1)
		go func() {
			defer wg.Done()
			for {
				select {
				case <-recvDone:
					return
				default:
				}
				t0 := mon.Now()
				b, err := rig.Ctxs[i].Recv()
				t1 := mon.Now()
				out := c03Out{Err: errName(err), K: -1}
				if err == nil {
					if s, ok := hx.ParseReplySerial(b); ok {
						mu.Lock()
						id, known := injBy[s]
						mu.Unlock()
						if known {
							rig.Mu.Lock()
							o, ok2 := rig.ByID[id]
							rig.Mu.Unlock()
							if ok2 && o[0] == i {
								out.K = o[1]
							} else {
								out.K = -2 // reply that belongs to another context
							}
						}
					}
				}
				mu.Lock()
				ops[i] = append(ops[i], porcupine.Operation{ClientId: 1, Input: c03In{Op: "recv"}, Call: int64(t0), Output: out, Return: int64(t1)})
				mu.Unlock()
				if err == mangos.ErrProtoState {
					mon.Sleep(100 * time.Microsecond)
				}
			}
		}()
	}
	sd := mon.Go("senders", func() (interface{}, error) { senders.Wait(); return nil, nil })
	if !c.AwaitOrViolate("req/concurrent-send-stuck", "concurrent senders finishing", sd.Done, mon.AwaitOpts{MaxTimer: 30 * time.Millisecond}) {
		close(recvDone)
		close(stop)
		vt.Kick()
		return
	}
	mon.Sleep(40 * time.Millisecond) // let the last replies be consumed or time out (pacing only)
	close(recvDone)
	close(stop)
	vt.Kick()
	wd := mon.Go("receivers", func() (interface{}, error) { wg.Wait(); return nil, nil })
	if !c.AwaitOrViolate("req/concurrent-recv-stuck", "receivers with 30ms deadline returning", wd.Done, mon.AwaitOpts{MaxTimer: 30 * time.Millisecond}) {
		return
	}
	overl := 0
	shape := ""
	for i := 0; i < sp.NCtx; i++ {
		h := ops[i]
		c.Count("history_ops", len(h))
		ok := 0
		for _, o := range h {
			if o.Input.(c03In).Op == "recv" && o.Output.(c03Out).Err == "" {
				ok++
			}
			if o.Input.(c03In).Op == "recv" {
				shape += o.Output.(c03Out).Err[:min(1, len(o.Output.(c03Out).Err))]
				if o.Output.(c03Out).Err == "" {
					shape += "+"
				}
			}
		}
		c.Count("replies_delivered", ok)
		// overlapping send/recv pairs (what makes the history concurrent)
		sort.Slice(h, func(a, b int) bool { return h[a].Call < h[b].Call })
		for a := range h {
			for b := a + 1; b < len(h) && h[b].Call <= h[a].Return; b++ {
				if h[a].Input.(c03In).Op != h[b].Input.(c03In).Op {
					overl++
				}
			}
		}
		res, info := porcupine.CheckOperationsVerbose(c03Model, h, 20*time.Second)
		switch res {
		case porcupine.Illegal:
			c.Violate("req/history-not-linearizable", "ctx %d: history of %d operations is not explained by the sequential REQ register model (a reply was delivered that does not answer the outstanding request, or one was delivered twice)\n%s", i, len(h), c03Render(h, info))
		case porcupine.Unknown:
			c.Inconclusive("ctx %d: porcupine timed out on %d operations", i, len(h))
		default:
			c.Count("histories_linearizable", 1)
		}
	}
	c.Count("overlapping_send_recv_pairs", overl)
	if overl > 0 {
		c.Nontrivial()
	}
	c.Sig("conc|%d|%d|%s", sp.NCtx, sp.NPipes, shape)
	_ = vt.Addr
}

func c03Render(h []porcupine.Operation, _ porcupine.LinearizationInfo) string {
	s := ""
	for _, o := range h {
		s += fmt.Sprintf("  [%d..%d] %+v -> %+v\n", o.Call/1000, o.Return/1000, o.Input, o.Output)
	}
	return s
}
