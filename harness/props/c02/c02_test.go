package c02

import (
	"bytes"
	"encoding/binary"
	"fmt"
	"runtime"
	"sort"
	"strings"
	"sync"
	"sync/atomic"
	"testing"
	"time"

	"github.com/anishathalye/porcupine"
	"go.nanomsg.org/mangos/v3"
	"go.nanomsg.org/mangos/v3/protocol"
	"go.nanomsg.org/mangos/v3/protocol/pair"
	"go.nanomsg.org/mangos/v3/protocol/pair1"
	"go.nanomsg.org/mangos/v3/protocol/xpair"
	"go.nanomsg.org/mangos/v3/protocol/xpair1"

	"verifharness/hx"
	"verifharness/mon"
	"verifharness/vt"
)

// C02 — PAIR and PUSH/PULL deliver each message exactly once, in order.

func TestMain(m *testing.M) { hx.Main(m) }

type spec struct {
	Kind    string `json:"kind"` // pair | pushpull | faults | single
	Proto   string `json:"proto,omitempty"`
	Tran    string `json:"tran,omitempty"`
	Senders int    `json:"senders,omitempty"`
	Recvrs  int    `json:"receivers,omitempty"`
	Peers   int    `json:"peers,omitempty"`
	Msgs    int    `json:"msgs,omitempty"`
	WQ      int    `json:"wq"`
	RQ      int    `json:"rq"`
	Both    bool   `json:"both,omitempty"`
	Procs   int    `json:"procs,omitempty"`
	Yield   bool   `json:"yield,omitempty"`
	// knocking (a PAIR peer turned away while the other side already has a partner)
	Script string `json:"script,omitempty"` // per turned-away attempt: D accepted, closed by the peer before Dial returns; L accepted, closed right after; R not even accepted
	Hook   string `json:"hook,omitempty"`   // what the application's PipeEventAttached hook does: none | sleep | waitclose
	Reconn int    `json:"reconn_ms,omitempty"`
	MaxRec int    `json:"maxreconn_ms,omitempty"`
	Asynch bool   `json:"asynch,omitempty"`
	Peer   string `json:"peer,omitempty"` // protocol of the waiting peer (real-socket variant)
	// sizes (every total message size of contiguous windows, back to back on one connection)
	Lo    int    `json:"lo,omitempty"`
	Hi    int    `json:"hi,omitempty"`
	Edges []int  `json:"edges,omitempty"` // further windows: every size within +-EdgeW of each of these
	EdgeW int    `json:"edgew,omitempty"`
	Order string `json:"order,omitempty"` // up | down | shuffle
	Flip  bool   `json:"flip,omitempty"`  // the sending side is the dialer instead of the listener
	Chop  bool   `json:"chop,omitempty"`  // through the re-segmenting relay
}

var qlens = []int{0, 1, 2, 128}

func TestC02(t *testing.T) {
	r := mon.NewRunner(t, "C02")
	rnd := r.Rand()
	var cases []mon.CaseSpec
	procs := []int{1, 2, 16}
	n := r.Pick(160, 8000)
	for i := 0; i < n; i++ {
		sp := spec{Kind: "pair", Proto: []string{"pair", "pair", "pair1", "xpair"}[rnd.Intn(4)], Tran: []string{"inproc", "tcp", "ipc"}[rnd.Intn(3)],
			Senders: 1 + rnd.Intn(6), Recvrs: 1 + rnd.Intn(2), Msgs: 20 + rnd.Intn(60), WQ: qlens[i%4], RQ: qlens[(i/4)%4],
			Both: rnd.Intn(2) == 0, Procs: procs[rnd.Intn(3)], Yield: rnd.Intn(2) == 0}
		cases = append(cases, mon.CaseSpec{Name: fmt.Sprintf("pair/wq%d/rq%d", sp.WQ, sp.RQ), Spec: sp})
	}
	for i := 0; i < n; i++ {
		sp := spec{Kind: "pushpull", Proto: []string{"push", "xpush"}[rnd.Intn(2)], Tran: []string{"inproc", "tcp"}[rnd.Intn(2)],
			Senders: 1 + rnd.Intn(8), Peers: 1 + rnd.Intn(4), Msgs: 20 + rnd.Intn(60), WQ: qlens[i%4], RQ: qlens[(i/4)%4],
			Procs: procs[rnd.Intn(3)], Yield: rnd.Intn(2) == 0}
		cases = append(cases, mon.CaseSpec{Name: fmt.Sprintf("pushpull/wq%d/rq%d", sp.WQ, sp.RQ), Spec: sp})
	}
	for i := 0; i < n/2; i++ {
		sp := spec{Kind: "faults", Proto: []string{"push", "pair"}[i%2], Senders: 1 + rnd.Intn(4), Peers: 1 + rnd.Intn(3), Msgs: 30 + rnd.Intn(50),
			WQ: []int{1, 2, 128}[rnd.Intn(3)], Procs: procs[rnd.Intn(3)], Yield: rnd.Intn(2) == 0}
		cases = append(cases, mon.CaseSpec{Name: "faults/" + sp.Proto, Spec: sp})
	}
	for i := 0; i < n/8; i++ {
		cases = append(cases, mon.CaseSpec{Name: "single-peer", Spec: spec{Kind: "single", Proto: []string{"pair", "pair1", "xpair"}[i%3], Msgs: 10 + rnd.Intn(20), WQ: 128, RQ: 128}})
	}
	for i := 0; i < n/4; i++ {
		cases = append(cases, mon.CaseSpec{Name: "burst-idle", Spec: spec{Kind: "burst", Proto: []string{"push", "xpush", "pair", "xpair"}[i%4], Peers: 1 + rnd.Intn(3), Senders: 2 + rnd.Intn(3), Msgs: 200 + rnd.Intn(300), WQ: []int{2, 8, 128}[rnd.Intn(3)], Procs: procs[rnd.Intn(3)]}})
		cases = append(cases, mon.CaseSpec{Name: "latejoin", Spec: spec{Kind: "latejoin", Proto: []string{"push", "xpush"}[i%2], Peers: 1 + rnd.Intn(3), WQ: []int{1, 2, 4, 128}[rnd.Intn(4)], Msgs: 3 + rnd.Intn(6)}})
		cases = append(cases, mon.CaseSpec{Name: "inflight-loss", Spec: spec{Kind: "inflightloss", Proto: []string{"push", "xpush", "pair", "xpair", "pair1", "xpair1"}[i%6]}})
		cases = append(cases, mon.CaseSpec{Name: "race-connect", Spec: spec{Kind: "race", Proto: []string{"pair", "pair1", "xpair", "xpair1"}[i%4], Msgs: 150 + rnd.Intn(150), Procs: procs[rnd.Intn(3)], Yield: rnd.Intn(2) == 0}})
	}
	// knocking: the waiting (dialing) PAIR peer is turned away a few times and must get through afterwards
	for i, kn := 0, r.Pick(48, 2000); i < kn; i++ {
		k := 1 + rnd.Intn(5)
		script := ""
		for j := 0; j < k; j++ {
			script += string("DDDLLR"[rnd.Intn(6)])
		}
		sp := spec{Kind: "knockvt", Proto: []string{"pair", "pair1", "xpair", "xpair1"}[i%4], Hook: []string{"none", "sleep", "sleep", "waitclose"}[rnd.Intn(4)],
			Reconn: 1 + rnd.Intn(3), MaxRec: []int{0, 5, 10}[rnd.Intn(3)], Asynch: rnd.Intn(2) == 0, Msgs: 3 + rnd.Intn(6), Procs: procs[rnd.Intn(3)], Yield: rnd.Intn(2) == 0}
		if !strings.ContainsAny(script, "DL") {
			script += "D"
		}
		if !sp.Asynch && script[0] == 'R' {
			script = "D" + script[1:] // a synchronous Dial that fails is simply reported to the caller: nothing to wait for
		}
		sp.Script = script
		cases = append(cases, mon.CaseSpec{Name: "knock-vt/" + sp.Proto, Spec: sp})
	}
	ktrans := []string{"inproc", "tcp", "ipc"}
	if r.Thorough() {
		ktrans = append(ktrans, "tls+tcp", "ws")
	}
	for i, kn := 0, r.Pick(24, 1000); i < kn; i++ {
		sp := spec{Kind: "knockreal", Proto: []string{"pair", "pair1", "xpair"}[i%3], Tran: ktrans[rnd.Intn(len(ktrans))], Peers: 2 + rnd.Intn(5), Hook: []string{"none", "sleep", "sleep"}[rnd.Intn(3)],
			Reconn: 1 + rnd.Intn(3), MaxRec: []int{0, 5, 10}[rnd.Intn(3)], Asynch: rnd.Intn(2) == 0, Msgs: 3 + rnd.Intn(6), Procs: procs[rnd.Intn(3)], Yield: rnd.Intn(2) == 0}
		sp.Peer = hx.PeerOf[sp.Proto]
		if sp.Peer == "pair" && rnd.Intn(2) == 0 {
			sp.Peer = "xpair"
		}
		cases = append(cases, mon.CaseSpec{Name: "knock-real/" + sp.Proto + "/" + sp.Tran, Spec: sp})
	}
	for i, pn := 0, r.Pick(16, 600); i < pn; i++ {
		cases = append(cases, mon.CaseSpec{Name: "pingpong", Spec: spec{Kind: "pingpong", Proto: []string{"push", "xpush", "pair", "xpair"}[i%4], Peers: 1 + (i/4)%2, WQ: []int{1, 8, 128}[rnd.Intn(3)], Msgs: 20000, Procs: []int{0, 2, 4, 16}[(i/8)%4]}})
	}
	// hookrefuse: connections turned away by the application's pipe-event hook, then one let through
	for i, hn := 0, r.Pick(32, 1200); i < hn; i++ {
		sp := spec{Kind: "hookrefuse", Proto: []string{"pair", "pair1", "xpair", "xpair1", "push", "xpush"}[i%6], Hook: []string{"attaching", "attached"}[(i/6)%2], Flip: (i/12)%2 == 1,
			Peers: 1 + rnd.Intn(3), Reconn: 1 + rnd.Intn(3), Msgs: 3 + rnd.Intn(6), WQ: []int{1, 2, 128}[rnd.Intn(3)], Procs: procs[rnd.Intn(3)], Yield: rnd.Intn(2) == 0}
		cases = append(cases, mon.CaseSpec{Name: "hook-refuse/" + sp.Proto + "/" + sp.Hook, Spec: sp})
	}
	// sizes: every total size of contiguous windows over every transport with a framing of its own
	{
		sprotos := []string{"pair", "pair1", "push"}
		strans := []string{"tcp", "tls+tcp", "ipc", "ws"}
		if r.Thorough() {
			sprotos = append(sprotos, "xpair", "xpush")
			strans = append(strans, "wss", "inproc")
		}
		k := 0
		for rep := 0; rep < r.Pick(1, 6); rep++ {
			for _, pr := range sprotos {
				for _, tr := range strans {
					sp := spec{Kind: "sizes", Proto: pr, Tran: tr, Lo: 0, Hi: 2200, Edges: []int{4096, 8192, 16384, 65536}, EdgeW: 16,
						Order: []string{"up", "down", "up", "shuffle"}[k%4], Flip: (k/3)%2 == 1}
					if rep > 0 {
						// further windows elsewhere, other queue lengths, the re-segmenting relay
						sp.Lo = 2200 + rnd.Intn(60000)
						sp.Hi = sp.Lo + 600
						sp.Edges = []int{1 << (10 + rnd.Intn(9)), 3 << (9 + rnd.Intn(8)), 32768, 131072, 262144}
						sp.EdgeW = 24
						sp.WQ, sp.RQ = qlens[rnd.Intn(4)], qlens[rnd.Intn(4)]
						if sp.WQ == 0 && (pr == "push" || pr == "xpush") {
							sp.WQ = 1 // PUSH with WriteQLen 0 never completes a Send (known finding push/send-stuck:wq0, kind pushpull): no sweep possible
						}
						sp.Chop = tr != "inproc" && rnd.Intn(3) == 0
						sp.Order = []string{"up", "down", "shuffle"}[rnd.Intn(3)]
					} else {
						sp.WQ, sp.RQ = -1, -1 // queue lengths left alone
					}
					cases = append(cases, mon.CaseSpec{Name: "sizes/" + pr + "/" + tr, Spec: sp})
					k++
				}
			}
		}
	}
	r.Run(cases, func(c *mon.Case) {
		sp := c.Spec.(spec)
		if sp.Procs > 0 {
			old := runtime.GOMAXPROCS(sp.Procs)
			defer runtime.GOMAXPROCS(old)
		}
		if sp.Yield {
			hx.SetYields(c.Rand.Int63(), &hx.YieldCfg{ProbGosched: 0.25, ProbSleep: 0.1, MaxSleep: 200 * time.Microsecond})
			defer hx.SetYields(0, nil)
		}
		switch sp.Kind {
		case "pair":
			runPair(c, sp)
		case "pushpull":
			runPushPull(c, sp)
		case "faults":
			runFaults(c, sp)
		case "single":
			runSingle(c, sp)
		case "latejoin":
			runLateJoin(c, sp)
		case "burst":
			runBurst(c, sp)
		case "pingpong":
			runPingPong(c, sp)
		case "race":
			runRace(c, sp)
		case "inflightloss":
			runInflightLoss(c, sp)
		case "knockvt":
			runKnockVT(c, sp)
		case "knockreal":
			runKnockReal(c, sp)
		case "sizes":
			runSizes(c, sp)
		case "hookrefuse":
			runHookRefuse(c, sp)
		}
	})
}

// ---- payloads & history -----------------------------------------------------

type op struct {
	Dir    int // direction / peer index
	Sender int
	Seq    int
	Call   time.Duration
	Ret    time.Duration
}

func payload(nonce string, dir, sender, seq int) []byte {
	return []byte(fmt.Sprintf("%s|%d|%d|%d|", nonce, dir, sender, seq))
}

func parse(nonce string, b []byte) (dir, sender, seq int, ok bool) {
	var n string
	// nonce has no '|'
	for i, ch := range b {
		if ch == '|' {
			n = string(b[:i])
			if _, err := fmt.Sscanf(string(b[i+1:]), "%d|%d|%d|", &dir, &sender, &seq); err != nil {
				return 0, 0, 0, false
			}
			return dir, sender, seq, n == nonce
		}
	}
	return 0, 0, 0, false
}

type key struct{ dir, sender, seq int }

// queueCheck applies the queue criterion for histories with unique values and no
// "empty" answers: no VFresh, no VRepeat, no VOrd.
func queueCheck(c *mon.Case, what string, sends, recvs []op) (overlaps int) {
	sent := map[key]op{}
	for _, s := range sends {
		sent[key{s.Dir, s.Sender, s.Seq}] = s
	}
	got := map[key]op{}
	for _, r := range recvs {
		k := key{r.Dir, r.Sender, r.Seq}
		s, ok := sent[k]
		if !ok {
			c.Violate("queue/delivered-never-sent:"+what, "%s: received %v which was never sent", what, k)
			return
		}
		if r.Ret < s.Call {
			c.Violate("queue/delivered-before-sent:"+what, "%s: %v was received (returned %v) before its Send was even called (%v)", what, k, r.Ret, s.Call)
		}
		if prev, dup := got[k]; dup {
			c.Violate("queue/delivered-twice:"+what, "%s: %v was delivered twice (Recv returned at %v and %v)", what, k, prev.Ret, r.Ret)
			return
		}
		got[k] = r
	}
	// VOrd: send(a) returned before send(b) was called, yet recv(b) returned before recv(a) was called
	ss := append([]op{}, sends...)
	sort.Slice(ss, func(i, j int) bool { return ss[i].Call < ss[j].Call })
	for i := range ss {
		a := ss[i]
		ra, oka := got[key{a.Dir, a.Sender, a.Seq}]
		for j := i + 1; j < len(ss); j++ {
			b := ss[j]
			if b.Call <= a.Ret {
				overlaps++
				continue // concurrent sends: either order is fine
			}
			rb, okb := got[key{b.Dir, b.Sender, b.Seq}]
			if oka && okb && rb.Ret < ra.Call {
				c.Violate("queue/reordered:"+what, "%s: Send(%v) returned at %v before Send(%v) was called at %v, but %v was received first (Recv returned %v, before the Recv that got %v was called at %v)",
					what, key{a.Dir, a.Sender, a.Seq}, a.Ret, key{b.Dir, b.Sender, b.Seq}, b.Call, key{b.Dir, b.Sender, b.Seq}, rb.Ret, key{a.Dir, a.Sender, a.Seq}, ra.Call)
				return
			}
		}
	}
	return
}

// porcupine cross-check on short histories.
type qIn struct {
	Enq bool
	K   key
}

var queueModel = porcupine.Model{
	Init: func() interface{} { return []key{} },
	Step: func(state, in, out interface{}) (bool, interface{}) {
		q := state.([]key)
		i := in.(qIn)
		if i.Enq {
			return true, append(append([]key{}, q...), i.K)
		}
		k := out.(key)
		if len(q) == 0 || q[0] != k {
			return false, q
		}
		return true, append([]key{}, q[1:]...)
	},
	Equal: func(a, b interface{}) bool {
		x, y := a.([]key), b.([]key)
		if len(x) != len(y) {
			return false
		}
		for i := range x {
			if x[i] != y[i] {
				return false
			}
		}
		return true
	},
}

func porcupineCheck(c *mon.Case, what string, sends, recvs []op) {
	if len(sends)+len(recvs) > 40 {
		return
	}
	var ops []porcupine.Operation
	for _, s := range sends {
		ops = append(ops, porcupine.Operation{ClientId: s.Sender, Input: qIn{true, key{s.Dir, s.Sender, s.Seq}}, Call: int64(s.Call), Output: nil, Return: int64(s.Ret)})
	}
	for i, r := range recvs {
		ops = append(ops, porcupine.Operation{ClientId: 100 + i%2, Input: qIn{false, key{}}, Call: int64(r.Call), Output: key{r.Dir, r.Sender, r.Seq}, Return: int64(r.Ret)})
	}
	switch res, _ := porcupine.CheckOperationsVerbose(queueModel, ops, 10*time.Second); res {
	case porcupine.Illegal:
		c.Violate("queue/porcupine-illegal:"+what, "%s: porcupine finds the history of %d operations not linearizable as a FIFO queue", what, len(ops))
	case porcupine.Unknown:
		c.Count("porcupine_unknown", 1)
	default:
		c.Count("porcupine_ok", 1)
	}
}

func setQ(c *mon.Case, s mangos.Socket, wq, rq int) {
	// "for every accepted queue-length setting": a setting the socket does not take is simply skipped
	_ = s.SetOption(mangos.OptionWriteQLen, wq)
	_ = s.SetOption(mangos.OptionReadQLen, rq)
}

// rawify: raw PAIR sockets need no header; raw PAIR1 is not used here.
func sendOn(s mangos.Socket, b []byte) error { return s.Send(b) }

// ---------------------------------------------------------------------------

func runPair(c *mon.Case, sp spec) {
	a := hx.MustSock(c, sp.Proto)
	peerProto := sp.Proto
	if sp.Proto == "xpair" {
		peerProto = "pair"
	}
	b := hx.MustSock(c, peerProto)
	setQ(c, a, sp.WQ, sp.RQ)
	setQ(c, b, sp.WQ, sp.RQ)
	wa, wb := hx.WatchPipes(a), hx.WatchPipes(b)
	// a third of the stream-transport conversations run through a relay that re-segments both byte streams
	if chop := sp.Tran != "inproc" && c.Idx%3 == 1; chop {
		stop, err := hx.ConnectChopped(a, b, sp.Tran, c.Rand.Int63())
		if err != nil {
			c.Inconclusive("setup: %v", err)
			return
		}
		c.Cleanup(stop)
		c.Count("connections_through_resegmenting_relay", 1)
	} else if _, _, err := hx.Connect(a, b, sp.Tran); err != nil {
		c.Inconclusive("setup: %v", err)
		return
	}
	if !hx.WaitAttached(c, wa, 1, "pair A") || !hx.WaitAttached(c, wb, 1, "pair B") {
		return
	}
	nonce := hx.Uniq("n")
	dirs := 1
	if sp.Both {
		dirs = 2
	}
	var mu sync.Mutex
	sends := make([][]op, dirs)
	recvs := make([][]op, dirs)
	var wg, rg sync.WaitGroup
	total := sp.Senders * sp.Msgs
	for d := 0; d < dirs; d++ {
		from, to := a, b
		if d == 1 {
			from, to = b, a
		}
		d := d
		for s := 0; s < sp.Senders; s++ {
			s := s
			wg.Add(1)
			go func() {
				defer wg.Done()
				for q := 0; q < sp.Msgs; q++ {
					t0 := mon.Now()
					err := sendOn(from, payload(nonce, d, s, q))
					t1 := mon.Now()
					if err != nil {
						if !c.Failed() {
							c.Violate("pair/send-error", "Send on a connected PAIR socket returned %v", err)
						}
						return
					}
					mu.Lock()
					sends[d] = append(sends[d], op{d, s, q, t0, t1})
					mu.Unlock()
				}
			}()
		}
		var got atomic.Int64
		for r := 0; r < sp.Recvrs; r++ {
			rg.Add(1)
			go func() {
				defer rg.Done()
				for got.Load() < int64(total) {
					// claim one message to receive
					if got.Add(1) > int64(total) {
						return
					}
					t0 := mon.Now()
					bs, err := to.Recv()
					t1 := mon.Now()
					if err != nil {
						if !c.Failed() {
							c.Violate("pair/recv-error", "Recv on a connected PAIR socket returned %v", err)
						}
						return
					}
					dd, ss, qq, ok := parse(nonce, bs)
					if !ok {
						c.Violate("queue/delivered-never-sent:pair", "received a message that was never sent or was altered: %q", bs)
						return
					}
					mu.Lock()
					recvs[d] = append(recvs[d], op{dd, ss, qq, t0, t1})
					mu.Unlock()
				}
			}()
		}
	}
	sdone := mon.Go("senders", func() (interface{}, error) { wg.Wait(); return nil, nil })
	if !c.AwaitOrViolate(fmt.Sprintf("pair/send-stuck:wq%d", sp.WQ), fmt.Sprintf("blocking Sends on PAIR completing while the peer is receiving (WriteQLen=%d ReadQLen=%d)", sp.WQ, sp.RQ), sdone.Done, mon.AwaitOpts{}) {
		return
	}
	rdone := mon.Go("receivers", func() (interface{}, error) { rg.Wait(); return nil, nil })
	if !c.AwaitOrViolate(fmt.Sprintf("pair/message-lost:wq%d/rq%d", sp.WQ, sp.RQ), "every sent message being received (connections stayed up)", rdone.Done, mon.AwaitOpts{}) {
		return
	}
	if c.Failed() {
		return
	}
	ov := 0
	for d := 0; d < dirs; d++ {
		ov += queueCheck(c, "pair", sends[d], recvs[d])
		if len(recvs[d]) != len(sends[d]) {
			c.Violate("pair/count-mismatch", "direction %d: %d sent, %d received", d, len(sends[d]), len(recvs[d]))
		}
		// one receiver: per-sender sequence numbers must simply increase
		if sp.Recvrs == 1 {
			last := map[int]int{}
			for _, r := range recvs[d] {
				if l, ok := last[r.Sender]; ok && r.Seq <= l {
					c.Violate("queue/reordered:pair-single-receiver", "sender %d: message %d received after %d", r.Sender, r.Seq, l)
					break
				}
				last[r.Sender] = r.Seq
			}
		}
		c.Count("messages", len(recvs[d]))
	}
	c.Count("overlapping_send_pairs", ov)
	// porcupine cross-check on a short prefix-closed history: first 16 sends of direction 0 need a drained queue, so only tiny cases
	if total*dirs <= 20 {
		porcupineCheck(c, "pair", sends[0], recvs[0])
	}
	if ov > 0 || sp.Senders == 1 {
		c.Nontrivial()
	}
	c.Sig("pair|%s|%s|%d|%d|%d|%d|%v|%d", sp.Proto, sp.Tran, sp.Senders, sp.Recvrs, sp.WQ, sp.RQ, sp.Both, orderHash(recvs[0]))
}

func orderHash(rs []op) int {
	h := 17
	for i, r := range rs {
		if i > 64 {
			break
		}
		h = h*31 + r.Sender
	}
	return h & 0xffffff
}

// ---------------------------------------------------------------------------

func runPushPull(c *mon.Case, sp spec) {
	push := hx.MustSock(c, sp.Proto)
	setQ(c, push, sp.WQ, sp.RQ)
	wp := hx.WatchPipes(push)
	var pulls []mangos.Socket
	for i := 0; i < sp.Peers; i++ {
		p := hx.MustSock(c, []string{"pull", "xpull"}[i%2])
		setQ(c, p, sp.WQ, sp.RQ)
		w := hx.WatchPipes(p)
		var err error
		if sp.Tran != "inproc" && (c.Idx+i)%3 == 1 {
			var stop func()
			if i%2 == 0 {
				stop, err = hx.ConnectChopped(push, p, sp.Tran, c.Rand.Int63())
			} else {
				stop, err = hx.ConnectChopped(p, push, sp.Tran, c.Rand.Int63())
			}
			if err == nil {
				c.Cleanup(stop)
				c.Count("connections_through_resegmenting_relay", 1)
			}
		} else if i%2 == 0 {
			_, _, err = hx.Connect(push, p, sp.Tran)
		} else {
			_, _, err = hx.Connect(p, push, sp.Tran)
		}
		if err != nil {
			c.Inconclusive("setup: %v", err)
			return
		}
		if !hx.WaitAttached(c, w, 1, "pull peer") {
			return
		}
		pulls = append(pulls, p)
	}
	if !hx.WaitAttached(c, wp, sp.Peers, "push side") {
		return
	}
	nonce := hx.Uniq("n")
	total := sp.Senders * sp.Msgs
	var mu sync.Mutex
	var sends []op
	perPeer := make([][]op, sp.Peers)
	var wg, rg sync.WaitGroup
	for s := 0; s < sp.Senders; s++ {
		s := s
		wg.Add(1)
		go func() {
			defer wg.Done()
			for q := 0; q < sp.Msgs; q++ {
				t0 := mon.Now()
				err := push.Send(payload(nonce, 0, s, q))
				t1 := mon.Now()
				if err != nil {
					if !c.Failed() { // after a primary verdict the sockets are being torn down
						c.Violate("push/send-error", "Send on a connected PUSH socket returned %v", err)
					}
					return
				}
				mu.Lock()
				sends = append(sends, op{0, s, q, t0, t1})
				mu.Unlock()
			}
		}()
	}
	var got atomic.Int64
	stop := make(chan struct{})
	for i, p := range pulls {
		i, p := i, p
		p.SetOption(mangos.OptionRecvDeadline, 20*time.Millisecond) // lets receivers notice the end; timeouts are not observations
		rg.Add(1)
		go func() {
			defer rg.Done()
			for {
				select {
				case <-stop:
					return
				default:
				}
				t0 := mon.Now()
				bs, err := p.Recv()
				t1 := mon.Now()
				if err == mangos.ErrRecvTimeout {
					continue
				}
				if err != nil {
					if !c.Failed() {
						c.Violate("pull/recv-error", "Recv on a connected PULL socket returned %v", err)
					}
					return
				}
				_, ss, qq, ok := parse(nonce, bs)
				if !ok {
					c.Violate("queue/delivered-never-sent:pushpull", "received a message that was never sent or was altered: %q", bs)
					return
				}
				mu.Lock()
				perPeer[i] = append(perPeer[i], op{i, ss, qq, t0, t1})
				mu.Unlock()
				got.Add(1)
			}
		}()
	}
	sdone := mon.Go("senders", func() (interface{}, error) { wg.Wait(); return nil, nil })
	if !c.AwaitOrViolate(fmt.Sprintf("push/send-stuck:wq%d", sp.WQ), fmt.Sprintf("blocking Sends on PUSH completing while %d PULL peers are receiving (WriteQLen=%d)", sp.Peers, sp.WQ), sdone.Done, mon.AwaitOpts{MaxTimer: 20 * time.Millisecond, Ignore: []string{"props/c02.runPushPull"}}) {
		close(stop)
		return
	}
	ok := c.AwaitOrViolate("push/message-lost", "every sent message reaching some PULL peer (connections stayed up)", func() bool { return got.Load() >= int64(total) }, mon.AwaitOpts{MaxTimer: 20 * time.Millisecond, Ignore: []string{"props/c02.runPushPull"}})
	mon.Sleep(25 * time.Millisecond) // anything extra (a duplicate) would arrive now
	close(stop)
	rg.Wait()
	if !ok || c.Failed() {
		return
	}
	// exactly once over the union
	seen := map[key]int{}
	sentSet := map[key]op{}
	for _, s := range sends {
		sentSet[key{0, s.Sender, s.Seq}] = s
	}
	dist := ""
	for i := range perPeer {
		last := map[int]int{}
		for _, r := range perPeer[i] {
			k := key{0, r.Sender, r.Seq}
			if _, ok := sentSet[k]; !ok {
				c.Violate("queue/delivered-never-sent:pushpull", "peer %d received %v which was never sent", i, k)
				return
			}
			if p, dup := seen[k]; dup {
				c.Violate("queue/delivered-twice:pushpull", "%v delivered to peer %d and again to peer %d", k, p-1, i)
				return
			}
			seen[k] = i + 1
			// per connection, one sender's messages arrive in send order
			if l, ok := last[r.Sender]; ok && r.Seq <= l {
				c.Violate("queue/reordered:pushpull-connection", "peer %d: sender %d's message %d arrived after its message %d", i, r.Sender, r.Seq, l)
				return
			}
			last[r.Sender] = r.Seq
		}
		// across senders on one connection: real-time order of non-overlapping sends
		for x := 0; x < len(perPeer[i]); x++ {
			for y := x + 1; y < len(perPeer[i]); y++ {
				sa := sentSet[key{0, perPeer[i][y].Sender, perPeer[i][y].Seq}] // arrived later
				sb := sentSet[key{0, perPeer[i][x].Sender, perPeer[i][x].Seq}] // arrived earlier
				if sa.Ret < sb.Call {
					c.Violate("queue/reordered:pushpull-connection-realtime", "peer %d: Send(%d,%d) returned before Send(%d,%d) was called, both went to this peer, but arrived in the opposite order", i, sa.Sender, sa.Seq, sb.Sender, sb.Seq)
					return
				}
			}
		}
		dist += fmt.Sprintf("%d,", len(perPeer[i])*8/(total+1))
		c.Count("messages", len(perPeer[i]))
	}
	if len(seen) != total {
		c.Violate("push/count-mismatch", "%d sent, %d distinct received", total, len(seen))
	}
	c.Nontrivial()
	c.Sig("pp|%s|%s|%d|%d|%d|%s", sp.Proto, sp.Tran, sp.Senders, sp.Peers, sp.WQ, dist)
}

// ---------------------------------------------------------------------------

// runFaults: peers are vt pipes that the harness drops while traffic flows. Messages may be
// lost, but what the transport accepted must be a duplicate-free, per-connection ordered
// subset of what was sent.
func runFaults(c *mon.Case, sp spec) {
	s := hx.MustSock(c, sp.Proto)
	setQ(c, s, sp.WQ, 128)
	s.SetOption(mangos.OptionSendDeadline, 30*time.Millisecond) // senders must not hang while no peer is connected
	name := hx.Uniq("c02f")
	L := vt.L(name)
	c.Cleanup(func() { vt.Forget(name) })
	if err := s.Listen(vt.Addr(name)); err != nil {
		c.Inconclusive("setup: %v", err)
		return
	}
	w := hx.WatchPipes(s)
	nonce := hx.Uniq("n")
	var mu sync.Mutex
	var pipes []*vt.Pipe
	connect := func() {
		n := w.Attached()
		p := L.Connect()
		mu.Lock()
		pipes = append(pipes, p)
		mu.Unlock()
		if sp.Proto == "push" {
			hx.WaitAttached(c, w, n+1, "vt pull peer")
		}
	}
	npeers := sp.Peers
	if sp.Proto == "pair" {
		npeers = 1
	}
	for i := 0; i < npeers; i++ {
		connect()
	}
	var wg sync.WaitGroup
	sentOK := map[key]bool{}
	for sd := 0; sd < sp.Senders; sd++ {
		sd := sd
		wg.Add(1)
		go func() {
			defer wg.Done()
			for q := 0; q < sp.Msgs; q++ {
				err := s.Send(payload(nonce, 0, sd, q))
				mu.Lock()
				sentOK[key{0, sd, q}] = err == nil
				mu.Unlock()
				if err != nil && err != mangos.ErrSendTimeout {
					c.Violate("faults/send-error", "Send returned %v while peers come and go", err)
					return
				}
			}
		}()
	}
	// fault injector
	rnd := hx.NewRand(c.Rand.Int63())
	done := make(chan struct{})
	go func() { wg.Wait(); close(done) }()
	nfaults := 0
loop:
	for {
		select {
		case <-done:
			break loop
		default:
		}
		mon.Sleep(time.Duration(200+rnd.Intn(1500)) * time.Microsecond)
		mu.Lock()
		var live []*vt.Pipe
		for _, p := range pipes {
			if cl, _, _ := p.Closed(); !cl {
				live = append(live, p)
			}
		}
		mu.Unlock()
		if len(live) > 0 && rnd.Intn(3) != 0 {
			live[rnd.Intn(len(live))].Drop()
			nfaults++
		}
		if len(live) <= 1 || rnd.Intn(2) == 0 {
			if sp.Proto == "pair" {
				// a new PAIR peer is only admitted once the old one has gone; give the socket a moment (pacing only)
				mon.Sleep(500 * time.Microsecond)
			}
			connect()
		}
	}
	mon.Sleep(5 * time.Millisecond)
	// verdict over the transport logs
	seen := map[key]int{}
	mu.Lock()
	defer mu.Unlock()
	delivered := 0
	for pi, p := range pipes {
		last := map[int]int{}
		for _, snt := range p.SentLog() {
			_, sd, q, ok := parse(nonce, snt.Body)
			if !ok {
				c.Violate("queue/delivered-never-sent:faults", "pipe %d carried %q which was never sent", pi, snt.Wire())
				return
			}
			k := key{0, sd, q}
			if _, was := sentOK[k]; !was {
				c.Violate("queue/delivered-never-sent:faults", "pipe %d carried %v whose Send had not been called", pi, k)
				return
			}
			if prev, dup := seen[k]; dup {
				c.Violate("queue/delivered-twice:faults", "%v was transmitted on pipe %d and again on pipe %d (a failed connection must not cause a duplicate)", k, prev-1, pi)
				return
			}
			seen[k] = pi + 1
			if l, ok := last[sd]; ok && q <= l {
				c.Violate("queue/reordered:faults-connection", "pipe %d: sender %d's message %d transmitted after its message %d", pi, sd, q, l)
				return
			}
			last[sd] = q
			delivered++
		}
	}
	c.Count("messages", delivered)
	c.Count("faults_injected", nfaults)
	c.Count("messages_lost_to_faults", sp.Senders*sp.Msgs-delivered)
	if nfaults > 0 && delivered > 0 {
		c.Nontrivial()
	}
	c.Sig("faults|%s|%d|%d|%d|%d", sp.Proto, sp.Senders, npeers, nfaults, delivered*16/(sp.Senders*sp.Msgs+1))
}

// ---------------------------------------------------------------------------

// runSingle: a PAIR socket has at most one peer at a time.
func runSingle(c *mon.Case, sp spec) {
	s := hx.MustSock(c, sp.Proto)
	name := hx.Uniq("c02s")
	L := vt.L(name)
	c.Cleanup(func() { vt.Forget(name) })
	if err := s.Listen(vt.Addr(name)); err != nil {
		c.Inconclusive("setup: %v", err)
		return
	}
	w := hx.WatchPipes(s)
	p1 := L.Connect()
	if !hx.WaitAttached(c, w, 1, "first PAIR peer") {
		return
	}
	nonce := hx.Uniq("n")
	hdr := func(b []byte) []byte {
		if sp.Proto == "pair1" {
			return append([]byte{0, 0, 0, 0}, b...) // PAIR1 wire header: hop count
		}
		return b
	}
	seq := 0
	talk := func(p *vt.Pipe, n int) bool {
		for i := 0; i < n; i++ {
			msg := payload(nonce, 0, 0, seq)
			seq++
			before := p.SentCount()
			if err := s.Send(msg); err != nil {
				c.Violate("pair/send-error", "Send returned %v", err)
				return false
			}
			if !c.AwaitOrViolate("pair/conversation-disturbed:send", "message reaching the established peer", func() bool { return p.SentCount() > before }, mon.AwaitOpts{}) {
				return false
			}
			sl := p.SentLog()
			if got := sl[len(sl)-1].Body; string(got) != string(msg) {
				c.Violate("pair/conversation-disturbed:content", "established peer got %q, want %q", got, msg)
				return false
			}
			p.Inject(hdr(msg))
			k := mon.Go("Recv", func() (interface{}, error) { b, e := s.Recv(); return b, e })
			if !c.AwaitOrViolate("pair/conversation-disturbed:recv", "message from the established peer being received", k.Done, mon.AwaitOpts{}) {
				return false
			}
			if v, e, _ := k.Result(); e != nil || string(v.([]byte)) != string(msg) {
				c.Violate("pair/conversation-disturbed:recv-content", "Recv returned %q, %v; want %q", v, e, msg)
				return false
			}
		}
		return true
	}
	if !talk(p1, sp.Msgs/2) {
		return
	}
	// further connection attempts are refused without disturbing the conversation
	var intruders []*vt.Pipe
	for i := 0; i < 3; i++ {
		x := L.Connect()
		intruders = append(intruders, x)
		x.Inject(hdr([]byte("intruder")))
		if !talk(p1, 2) {
			return
		}
	}
	for i, x := range intruders {
		if !c.AwaitOrViolate("pair/second-peer-not-refused", fmt.Sprintf("intruding connection %d being closed by the library", i), x.LibClosed, mon.AwaitOpts{}) {
			return
		}
		if x.SentCount() != 0 {
			c.Violate("pair/second-peer-got-traffic", "a refused second peer was sent %d message(s)", x.SentCount())
		}
	}
	if w.Attached() != 1 {
		c.Violate("pair/second-peer-attached", "%d pipes attached while the first peer was connected", w.Attached())
	}
	c.Count("refused_peers", len(intruders))
	if !talk(p1, sp.Msgs/2) {
		return
	}
	// once the first peer has gone a new one is admitted
	p1.Drop()
	if !c.AwaitOrViolate("pair/first-peer-not-released", "the dropped first peer being detached", func() bool { return w.Detached() >= 1 }, mon.AwaitOpts{}) {
		return
	}
	p3 := L.Connect()
	if !c.AwaitOrViolate("pair/new-peer-not-admitted", "a new peer being admitted after the first one left", func() bool { return w.Attached() >= 2 }, mon.AwaitOpts{}) {
		return
	}
	if !talk(p3, 3) {
		return
	}
	c.Nontrivial()
	c.Sig("single|%s", sp.Proto)
}

// ---------------------------------------------------------------------------

// runLateJoin: earlier PULL peers are stalled with a backlog queued and a Send blocked; a peer that
// connects later is able to take messages, so the backlog must drain to it and the Send must complete.
func runLateJoin(c *mon.Case, sp spec) {
	s := hx.MustSock(c, sp.Proto)
	setQ(c, s, sp.WQ, 128)
	name := hx.Uniq("c02l")
	L := vt.L(name)
	c.Cleanup(func() { vt.Forget(name) })
	if err := s.Listen(vt.Addr(name)); err != nil {
		c.Inconclusive("setup: %v", err)
		return
	}
	w := hx.WatchPipes(s)
	var stalled []*vt.Pipe
	for i := 0; i < sp.Peers; i++ {
		p := L.Connect()
		p.HoldSends() // connected, but its transport never completes a send
		stalled = append(stalled, p)
	}
	if !hx.WaitAttached(c, w, sp.Peers, "stalled pull peers") {
		return
	}
	nonce := hx.Uniq("n")
	// senders: enough messages to occupy every stalled peer, fill the write queue, and block
	total := sp.Peers + sp.WQ%8 + sp.Msgs
	if sp.WQ == 128 {
		total = sp.Peers + sp.Msgs
	}
	var calls []*mon.Call
	for q := 0; q < total; q++ {
		q := q
		calls = append(calls, mon.Go(fmt.Sprintf("Send#%d", q), func() (interface{}, error) { return nil, s.Send(payload(nonce, 0, 0, q)) }))
		mon.Sleep(200 * time.Microsecond)
	}
	// let them settle: each is either done (queued / handed to a stalled peer) or parked
	mon.Await(func() bool {
		for _, k := range calls {
			if !k.Done() && !k.ParkedIn("SendMsg") {
				return false
			}
		}
		return true
	}, mon.AwaitOpts{Watchdog: 5 * time.Second})
	blocked := 0
	for _, k := range calls {
		if !k.Done() {
			blocked++
		}
	}
	c.Count("sends_blocked_before_join", blocked)
	// the late joiner takes everything it is offered
	late := L.Connect()
	if !hx.WaitAttached(c, w, sp.Peers+1, "late pull peer") {
		return
	}
	inflight := 0
	for _, p := range stalled {
		if _, sw := p.Waiters(); sw > 0 {
			inflight++ // one message is stuck inside each stalled peer's transport
		}
	}
	want := total - inflight
	if !c.AwaitOrViolate("push/late-peer-not-served", fmt.Sprintf("%d queued/blocked messages draining to a PULL peer that connected after %d stalled peers (WriteQLen=%d)", want, sp.Peers, sp.WQ), func() bool { return late.SentCount() >= want }, mon.AwaitOpts{}) {
		return
	}
	for _, k := range calls {
		if !c.AwaitOrViolate("push/send-stuck:late-peer", "blocked Send completing once a peer able to take the message connected", k.Done, mon.AwaitOpts{}) {
			return
		}
		if _, err, _ := k.Result(); err != nil {
			c.Violate("push/send-error", "Send returned %v", err)
		}
	}
	seen := map[int]bool{}
	for _, snt := range late.SentLog() {
		_, _, q, ok := parse(nonce, snt.Body)
		if !ok || seen[q] {
			c.Violate("queue/delivered-twice:latejoin", "late peer got %q (never sent, or twice)", snt.Body)
			return
		}
		seen[q] = true
	}
	for _, p := range stalled {
		p.ReleaseSends()
	}
	c.Count("messages", len(seen))
	c.Nontrivial()
	c.Sig("latejoin|%s|%d|%d|%d", sp.Proto, sp.Peers, sp.WQ, blocked)
}

// countingProto wraps a PAIR-family protocol and counts the peers it holds: incremented when the
// inner AddPipe returned success, decremented on entry to RemovePipe.  For a correct protocol the
// count never exceeds one (a second AddPipe can only succeed after RemovePipe cleared the first).
type countingProto struct {
	mangos.ProtocolBase
	c       *mon.Case
	n       atomic.Int64
	max     atomic.Int64
	adds    atomic.Int64
	removed atomic.Int64 // RemovePipe calls that have returned (the protocol has let the peer go)
}

func (w *countingProto) AddPipe(p mangos.ProtocolPipe) error {
	err := w.ProtocolBase.AddPipe(p)
	if err == nil {
		w.adds.Add(1)
		if n := w.n.Add(1); n > w.max.Load() {
			w.max.Store(n)
		}
	}
	return err
}

func (w *countingProto) RemovePipe(p mangos.ProtocolPipe) {
	w.n.Add(-1)
	w.ProtocolBase.RemovePipe(p)
	w.removed.Add(1)
}

var pairProtos = map[string]func() mangos.ProtocolBase{
	"pair": pair.NewProtocol, "pair1": pair1.NewProtocol, "xpair": xpair.NewProtocol, "xpair1": xpair1.NewProtocol,
}

// runRace: connection attempts racing each other from two endpoints — at most one peer at a time.
func runRace(c *mon.Case, sp spec) {
	w := &countingProto{ProtocolBase: pairProtos[sp.Proto](), c: c}
	s := protocol.MakeSocket(w)
	c.Cleanup(func() { s.Close() })
	var Ls [2]*vt.ListenerCtl
	for i := range Ls {
		name := hx.Uniq("c02r")
		Ls[i] = vt.L(name)
		c.Cleanup(func() { vt.Forget(name) })
		if err := s.Listen(vt.Addr(name)); err != nil {
			c.Inconclusive("setup: %v", err)
			return
		}
	}
	for round := 0; round < sp.Msgs && !c.Failed(); round++ {
		var ps [2]*vt.Pipe
		start := make(chan struct{})
		var wg sync.WaitGroup
		for i := 0; i < 2; i++ {
			i := i
			wg.Add(1)
			go func() {
				defer wg.Done()
				<-start
				ps[i] = Ls[i].Connect()
			}()
		}
		close(start)
		wg.Wait()
		// one is admitted, the other refused (closed by the library); wait until both are decided
		if !c.AwaitOrViolate("pair/race-undecided", "two simultaneous connection attempts being admitted/refused", func() bool {
			return w.max.Load() > 1 || (w.adds.Load() >= int64(round+1) && (ps[0].LibClosed() || ps[1].LibClosed()))
		}, mon.AwaitOpts{}) {
			return
		}
		if m := w.max.Load(); m > 1 {
			c.Violate("pair/two-peers-at-once", "%s socket held %d peers at the same time after two simultaneous connection attempts (round %d)", sp.Proto, m, round)
			return
		}
		// the admitted one leaves; wait until the protocol let it go
		for i := 0; i < 2; i++ {
			ps[i].Drop()
		}
		if !c.AwaitOrViolate("pair/first-peer-not-released", "dropped peers being released", func() bool { return w.removed.Load() == w.adds.Load() && ps[0].LibClosed() && ps[1].LibClosed() }, mon.AwaitOpts{}) {
			return
		}
	}
	c.Count("race_rounds", sp.Msgs)
	c.Nontrivial()
	c.Sig("race|%s|%d", sp.Proto, sp.Procs)
}

// runBurst: an idle socket (peers connected and ready, nothing queued) is hit by several Sends at
// the same instant, again and again.  Every accepted message must reach a peer without any further
// Send having to come along and kick the scheduler.
func runBurst(c *mon.Case, sp spec) {
	s := hx.MustSock(c, sp.Proto)
	setQ(c, s, sp.WQ, 128)
	name := hx.Uniq("c02b")
	L := vt.L(name)
	c.Cleanup(func() { vt.Forget(name) })
	if err := s.Listen(vt.Addr(name)); err != nil {
		c.Inconclusive("setup: %v", err)
		return
	}
	w := hx.WatchPipes(s)
	npeers := sp.Peers
	if sp.Proto == "pair" || sp.Proto == "xpair" {
		npeers = 1
	}
	var peers []*vt.Pipe
	for i := 0; i < npeers; i++ {
		peers = append(peers, L.Connect())
		if !hx.WaitAttached(c, w, i+1, "vt peer") {
			return
		}
	}
	nonce := hx.Uniq("n")
	delivered := func() int {
		n := 0
		for _, p := range peers {
			n += p.SentCount()
		}
		return n
	}
	sent := 0
	for round := 0; round < sp.Msgs && !c.Failed(); round++ {
		start := make(chan struct{})
		var wg sync.WaitGroup
		for g := 0; g < sp.Senders; g++ {
			g := g
			wg.Add(1)
			go func() {
				defer wg.Done()
				<-start
				if err := s.Send(payload(nonce, 0, g, round)); err != nil && !c.Failed() {
					c.Violate("push/send-error", "Send on an idle socket with ready peers returned %v", err)
				}
			}()
		}
		close(start)
		k := mon.Go("senders", func() (interface{}, error) { wg.Wait(); return nil, nil })
		if !c.AwaitOrViolate("push/send-stuck:idle-burst", fmt.Sprintf("%d simultaneous Sends on an idle %s socket with %d ready peers (round %d)", sp.Senders, sp.Proto, npeers, round), k.Done, mon.AwaitOpts{}) {
			return
		}
		sent += sp.Senders
		want := sent
		if !c.AwaitOrViolate("push/accepted-message-not-delivered:idle-burst", fmt.Sprintf("all %d messages accepted so far reaching a peer (round %d: %d simultaneous Sends on an idle %s socket)", want, round, sp.Senders, sp.Proto), func() bool { return delivered() >= want }, mon.AwaitOpts{}) {
			return
		}
	}
	// exactly once over the union
	seen := map[key]bool{}
	for pi, p := range peers {
		for _, x := range p.SentLog() {
			_, g, q, ok := parse(nonce, x.Body)
			k := key{0, g, q}
			if !ok || seen[k] {
				c.Violate("queue/delivered-twice:burst", "peer %d got %q (never sent, or a second time)", pi, x.Body)
				return
			}
			seen[k] = true
		}
	}
	c.Count("messages", len(seen))
	c.Count("idle_bursts", sp.Msgs)
	c.Nontrivial()
	c.Sig("burst|%s|%d|%d|%d", sp.Proto, npeers, sp.Senders, sp.WQ)
}

// runPingPong: one sender whose every Send is issued the instant the previous message is seen at the
// peer (plus a PRNG spin of a few hundred nanoseconds), tens of thousands of times.  That is the moment at
// which the socket's own sender goroutine has just found nothing to do and is about to go to sleep, so a
// wake-up that is not properly ordered with that check is lost — and the accepted message then sits in the
// queue, with a ready peer connected, until something else happens to come along.  Nothing else comes
// along here: the next Send is only issued once this message has arrived.
func runPingPong(c *mon.Case, sp spec) {
	s := hx.MustSock(c, sp.Proto)
	setQ(c, s, sp.WQ, 128)
	name := hx.Uniq("c02p")
	L := vt.L(name)
	c.Cleanup(func() { vt.Forget(name) })
	if err := s.Listen(vt.Addr(name)); err != nil {
		c.Inconclusive("setup: %v", err)
		return
	}
	w := hx.WatchPipes(s)
	npeers := sp.Peers
	if sp.Proto == "pair" || sp.Proto == "xpair" {
		npeers = 1
	}
	var peers []*vt.Pipe
	for i := 0; i < npeers; i++ {
		peers = append(peers, L.Connect())
		if !hx.WaitAttached(c, w, i+1, "vt peer") {
			return
		}
	}
	delivered := func() int {
		n := 0
		for _, p := range peers {
			n += p.SentCount()
		}
		return n
	}
	body := make([]byte, 8)
	sink := 0
	for i := 1; i <= sp.Msgs && !c.Failed(); i++ {
		binary.BigEndian.PutUint64(body, uint64(i))
		if err := s.Send(body); err != nil {
			c.Violate("push/send-error", "Send %d on a socket with %d ready peers returned %v", i, npeers, err)
			return
		}
		got := false
		for spin := 0; spin < 20000 && !got; spin++ {
			got = delivered() >= i
		}
		if !got {
			want := i
			if !c.AwaitOrViolate("push/accepted-message-not-delivered:pingpong", fmt.Sprintf("message %d reaching one of the %d ready peers of the %s socket (each Send is issued as soon as the previous message has arrived; nothing else is sent)", want, npeers, sp.Proto), func() bool { return delivered() >= want }, mon.AwaitOpts{}) {
				return
			}
		}
		for k := c.Rand.Intn(400); k > 0; k-- {
			sink += k
		}
	}
	_ = sink
	total := 0
	for pi, p := range peers {
		prev := uint64(0)
		for _, x := range p.SentLog() {
			if len(x.Body) != 8 {
				c.Violate("queue/invented:pingpong", "peer %d got %x", pi, x.Body)
				return
			}
			v := binary.BigEndian.Uint64(x.Body)
			if v <= prev || v > uint64(sp.Msgs) {
				c.Violate("queue/reordered:pingpong", "peer %d got message %d after message %d", pi, v, prev)
				return
			}
			prev = v
			total++
		}
	}
	if total != sp.Msgs && !c.Failed() {
		c.Violate("queue/delivered-twice:pingpong", "%d messages sent one at a time, %d deliveries", sp.Msgs, total)
		return
	}
	c.Count("messages", total)
	c.Count("pingpong_sends", sp.Msgs)
	c.Nontrivial()
	c.Sig("pingpong|%s|%d|%d", sp.Proto, npeers, sp.WQ)
}

// runInflightLoss: the connection goes away while a write on it is in progress.
//
// PUSH: the write is reported successful although the connection has been detached by then (its
// bytes had left before the loss was noticed).  The dead connection must not come back as a
// candidate: every message accepted afterwards goes to the connected, idle PULL peer.
//
// PAIR: the write fails with a plain I/O error.  The peer slot is free again: a new peer is
// accepted and the conversation with it works in both directions.
func runInflightLoss(c *mon.Case, sp spec) {
	s := hx.MustSock(c, sp.Proto)
	name := hx.Uniq("c02i")
	L := vt.L(name)
	c.Cleanup(func() { vt.Forget(name) })
	if err := s.Listen(vt.Addr(name)); err != nil {
		c.Inconclusive("setup: %v", err)
		return
	}
	w := hx.WatchPipes(s)
	nonce := hx.Uniq("n")
	a := L.Connect()
	if !hx.WaitAttached(c, w, 1, "first peer") {
		return
	}
	a.HoldSends()
	raw1 := sp.Proto == "xpair1"
	send := func(q int) *mon.Call {
		return mon.Go(fmt.Sprintf("Send#%d", q), func() (interface{}, error) {
			if raw1 {
				m := mangos.NewMessage(64)
				m.Header = append(m.Header, 0, 0, 0, 0)
				m.Body = append(m.Body, payload(nonce, 0, 0, q)...)
				return nil, s.SendMsg(m)
			}
			return nil, s.Send(payload(nonce, 0, 0, q))
		})
	}
	k0 := send(0)
	if !c.AwaitOrViolate("harness:held", "the first message being written to the first peer", func() bool { _, sw := a.Waiters(); return sw >= 1 }, mon.AwaitOpts{}) {
		return
	}
	push := strings.HasSuffix(sp.Proto, "push")
	var b *vt.Pipe
	if push {
		b = L.Connect() // a second, idle PULL peer
		if !hx.WaitAttached(c, w, 2, "second peer") {
			return
		}
		a.DropLateSendOK()
	} else {
		a.Drop()
	}
	if !hx.WaitDetached(c, w, 1, "lost connection") {
		c.Violate(sp.Proto+"/inflight-loss/not-detached", "the connection lost while a write on it was in progress was never detached")
		return
	}
	if push {
		a.ReleaseLate() // the write in progress now returns, successfully
	}
	if !c.AwaitOrViolate(sp.Proto+"/send-stuck:inflight-loss", "the Send whose connection was lost returning", k0.Done, mon.AwaitOpts{}) {
		return
	}
	mon.Sleep(2 * time.Millisecond)
	if !push {
		b = L.Connect()
		if !c.AwaitOrViolate(sp.Proto+"/new-peer-refused-after-inflight-loss", "a new peer being accepted after the first one vanished during a write", func() bool { return w.Attached() >= 2 }, mon.AwaitOpts{}) {
			return
		}
		if cl, _, _ := b.Closed(); cl {
			c.Violate(sp.Proto+"/new-peer-refused-after-inflight-loss", "the new peer's connection was closed by the socket although the first peer has gone")
			return
		}
	}
	// everything accepted from now on reaches the connected peer
	n := 4 + c.Rand.Intn(5)
	for q := 1; q <= n; q++ {
		k := send(q)
		if !c.AwaitOrViolate(sp.Proto+"/send-stuck:inflight-loss", fmt.Sprintf("Send %d with a connected idle peer", q), k.Done, mon.AwaitOpts{}) {
			return
		}
		if _, err, _ := k.Result(); err != nil {
			c.Violate(sp.Proto+"/send-error:inflight-loss", "Send with a connected idle peer returned %v", err)
			return
		}
	}
	if !c.AwaitOrViolate(sp.Proto+"/accepted-message-not-delivered:inflight-loss", fmt.Sprintf("all %d messages accepted after the loss reaching the connected idle peer (it has %d)", n, b.SentCount()), func() bool { return b.SentCount() >= n }, mon.AwaitOpts{}) {
		return
	}
	for i, x := range b.SentLog() {
		want := payload(nonce, 0, 0, i+1)
		got := x.Body
		if !bytes.Equal(got, want) {
			c.Violate(sp.Proto+"/queue:inflight-loss", "the connected peer's transmission %d is %q, want %q", i, got, want)
			return
		}
	}
	if !push {
		b.Inject(func() []byte {
			if sp.Proto == "pair1" || raw1 {
				return append([]byte{0, 0, 0, 1}, []byte("back")...)
			}
			return []byte("back")
		}())
		r := mon.Go("Recv", func() (interface{}, error) { v, e := s.Recv(); return v, e })
		if !c.AwaitOrViolate(sp.Proto+"/recv-stuck:inflight-loss", "Recv from the new peer", r.Done, mon.AwaitOpts{}) {
			return
		}
		if v, err, _ := r.Result(); err != nil || string(v.([]byte)) != "back" {
			c.Violate(sp.Proto+"/queue:inflight-loss", "Recv from the new peer returned (%q, %v)", v, err)
			return
		}
	}
	c.Count("inflight_loss_messages_checked", n)
	c.Nontrivial()
	c.Sig("inflightloss|%s|%d", sp.Proto, n)
}

// ---------------------------------------------------------------------------
// knocking: "further connection attempts are refused without disturbing the established
// conversation, and succeed once the first peer has gone" — seen from the peer that is waiting.
//
// A PAIR socket that already has a partner accepts the transport connection of a second peer and
// closes it at once.  The waiting peer's socket sees a connection that attaches and is lost within
// microseconds, again and again, possibly while its application is still busy in the
// PipeEventAttached hook of that very connection.  It has to keep trying, so that it gets through
// as soon as the other side is free.

const knockMaxTimer = 20 * time.Millisecond // above every reconnect interval these cases configure (<= 10 ms)

// sendersSettled waits until no sender goroutine of a PAIR-family pipe is between two waits: one
// that belongs to a connection already taken away (its stop channel is closed, but it has not run
// since) could still pick the next message out of the socket's send queue and lose it with its dead
// connection, which the property allows.  After this gate every such goroutine is parked in its
// select (i.e. serves a live connection), so nothing may be lost any more.
func sendersSettled(c *mon.Case) bool {
	r := mon.Await(func() bool {
		for _, g := range mon.Dump() {
			if (g.HasFrame("pair.(*pipe).sender") || g.HasFrame("pair1.(*pipe).sender")) && g.State != "select" && !g.HasFrame("vt.(*Pipe).Send") {
				return false
			}
		}
		return true
	}, mon.AwaitOpts{})
	if r.V != mon.Done {
		c.Inconclusive("sender goroutines of connections already lost have not finished (%v)", r.V)
		return false
	}
	return true
}

func knockDialOpts(c *mon.Case, s mangos.Socket, sp spec) map[string]interface{} {
	opts := map[string]interface{}{
		mangos.OptionReconnectTime:    time.Duration(sp.Reconn) * time.Millisecond,
		mangos.OptionMaxReconnectTime: time.Duration(sp.MaxRec) * time.Millisecond,
		mangos.OptionDialAsynch:       sp.Asynch,
	}
	if c.Rand.Intn(2) == 0 { // the same settings as socket defaults, inherited by the dialer
		for n, v := range opts {
			if err := s.SetOption(n, v); err != nil {
				c.Inconclusive("setup: SetOption(%s): %v", n, err)
			}
		}
		return map[string]interface{}{}
	}
	return opts
}

// runKnockVT: the socket under test is the waiting peer; the harness plays the transport of the
// busy PAIR socket on the other side (Script: one letter per attempt that is turned away) and is
// free from then on.
func runKnockVT(c *mon.Case, sp spec) {
	s := hx.MustSock(c, sp.Proto)
	name := hx.Uniq("c02k")
	D := vt.D(name)
	c.Cleanup(func() { vt.Forget(name) })
	D.SetDefault(vt.Outcome{Kind: vt.Succeed})
	turned, failed := 0, 0
	for _, ch := range sp.Script {
		switch ch {
		case 'D':
			D.Script(vt.Outcome{Kind: vt.SucceedDrop})
			turned++
		case 'L':
			D.Script(vt.Outcome{Kind: vt.Succeed})
			turned++
		default:
			D.Script(vt.Outcome{Kind: vt.Refuse})
			failed++
		}
	}
	w := &hx.PipeWatch{}
	count := hx.WatchPipesFunc(w)
	delay := time.Duration(100+c.Rand.Intn(400)) * time.Microsecond
	s.SetPipeEventHook(func(ev mangos.PipeEvent, p mangos.Pipe) {
		if ev == mangos.PipeEventAttached {
			switch sp.Hook {
			case "sleep": // an application that takes a moment to note each new connection
				mon.Sleep(delay)
			case "waitclose": // ... or just long enough for the loss of this connection to be noticed
				if tp := D.LastPipe(); tp != nil {
					if cl, _, _ := tp.Closed(); cl {
						for {
							ver := vt.Activity()
							if tp.LibClosed() {
								break
							}
							vt.WaitActivity(ver)
						}
						mon.Sleep(delay / 4)
					}
				}
			}
		}
		count(ev, p)
	})
	opts := knockDialOpts(c, s, sp)
	if c.Undecided() {
		return
	}
	d, err := s.NewDialer(vt.Addr(name), opts)
	if err != nil {
		c.Inconclusive("setup: NewDialer: %v", err)
		return
	}
	dial := mon.Go("Dial", func() (interface{}, error) { return nil, d.Dial() })
	kinds := map[byte]string{'D': "closed-before-dial-returned", 'L': "closed-after-dial-returned", 'R': "dial-failed"}
	for i := 0; i <= len(sp.Script); i++ {
		i := i
		res := mon.Await(func() bool { l := D.Log(); return len(l) > i && l[i].End != 0 }, mon.AwaitOpts{MaxTimer: knockMaxTimer})
		switch {
		case res.V == mon.Stuck && i == 0:
			c.Violate("pair/dial-never-attempted", "Dial on a %s socket (DialAsynch=%v) never called the transport: stuck after %v\n%s", sp.Proto, sp.Asynch, res.Waited, res.Dump)
			return
		case res.V == mon.Stuck:
			c.Violate("pair/turned-away-peer-stops-redialing:after-"+kinds[sp.Script[i-1]],
				"a waiting %s peer (ReconnectTime=%dms MaxReconnectTime=%dms DialAsynch=%v, PipeEventAttached hook: %s) was turned away by the busy socket on the other side (attempts so far: %q of %q; D = connection accepted and closed by the peer before Dial returned, L = right after, R = not accepted) and made no attempt %d: its dialer has stopped, so it cannot get through once the first peer has gone. %d connections attached, %d detached. Stuck after %v — every goroutine parked, no reconnect timer left:\n%s",
				sp.Proto, sp.Reconn, sp.MaxRec, sp.Asynch, sp.Hook, sp.Script[:i], sp.Script, i+1, w.Attached(), w.Detached(), res.Waited, res.Dump)
			c.Count("knock_attempts_seen", i)
			return
		case res.V != mon.Done:
			c.Inconclusive("connection attempt %d of the waiting peer not seen after %v, process still active", i+1, res.Waited)
			return
		}
		if i < len(sp.Script) && sp.Script[i] == 'L' {
			if c.Rand.Intn(2) == 0 {
				mon.Sleep(time.Duration(c.Rand.Intn(100)) * time.Microsecond)
			}
			D.Log()[i].Pipe.Drop()
		}
	}
	c.Count("knock_attempts_seen", len(sp.Script)+1)
	if !c.AwaitOrViolate("pair/dial-stuck", "Dial returning", dial.Done, mon.AwaitOpts{MaxTimer: knockMaxTimer}) {
		return
	}
	if _, err, _ := dial.Result(); err != nil {
		c.Inconclusive("setup: Dial: %v", err)
		return
	}
	// the other side is free now: the connection just made stays, and the conversation works
	fp := D.Log()[len(sp.Script)].Pipe
	if !c.AwaitOrViolate("pair/admitted-connection-not-attached", fmt.Sprintf("the connection made once the other side was free (attempt %d) being attached", len(sp.Script)+1), func() bool { return w.Attached() >= turned+1 }, mon.AwaitOpts{MaxTimer: knockMaxTimer}) {
		return
	}
	if cl, byLib, _ := fp.Closed(); cl && byLib {
		c.Violate("pair/admitted-connection-closed", "the waiting %s peer closed the connection it made once the other side was free", sp.Proto)
		return
	}
	if !sendersSettled(c) {
		return
	}
	if !vtExchange(c, s, fp, sp.Proto, sp.Msgs, "after-knocking") {
		return
	}
	for i, p := range D.Pipes() {
		if p != fp && p.SentCount() != 0 {
			c.Violate("pair/queue:after-knocking", "connection %d (turned away) carried %d message(s) although nothing had been sent yet", i, p.SentCount())
		}
	}
	c.Count("knock_turned_away", turned)
	c.Count("knock_dial_failures", failed)
	c.Count("knock_admitted", 1)
	c.Count("messages", 2*sp.Msgs)
	c.Nontrivial()
	c.Sig("knockvt|%s|%s|%s|%v", sp.Proto, sp.Script, sp.Hook, sp.Asynch)
}

// vtExchange: n messages from the socket to the vt peer and n back, each exactly once, unchanged, in order.
func vtExchange(c *mon.Case, s mangos.Socket, p *vt.Pipe, proto string, n int, ctx string) bool {
	v1 := strings.HasSuffix(proto, "pair1")
	raw1 := proto == "xpair1"
	nonce := hx.Uniq("n")
	base := p.SentCount()
	for q := 0; q < n; q++ {
		msg := payload(nonce, 0, 0, q)
		k := mon.Go(fmt.Sprintf("Send#%d", q), func() (interface{}, error) {
			if raw1 {
				m := mangos.NewMessage(64)
				m.Header = append(m.Header, 0, 0, 0, 0)
				m.Body = append(m.Body, msg...)
				return nil, s.SendMsg(m)
			}
			return nil, s.Send(msg)
		})
		if !c.AwaitOrViolate("pair/send-stuck:"+ctx, fmt.Sprintf("Send %d with the peer connected", q), k.Done, mon.AwaitOpts{}) {
			return false
		}
		if _, err, _ := k.Result(); err != nil {
			c.Violate("pair/send-error:"+ctx, "Send %d with the peer connected returned %v", q, err)
			return false
		}
	}
	if !c.AwaitOrViolate("pair/accepted-message-not-delivered:"+ctx, fmt.Sprintf("all %d accepted messages reaching the connected peer", n), func() bool { return p.SentCount() >= base+n }, mon.AwaitOpts{}) {
		return false
	}
	sl := p.SentFrom(base)
	if len(sl) != n {
		c.Violate("pair/queue:"+ctx, "%d messages sent, the peer's connection carried %d", n, len(sl))
		return false
	}
	for q, x := range sl {
		if want := payload(nonce, 0, 0, q); !bytes.Equal(x.Body, want) {
			c.Violate("pair/queue:"+ctx, "transmission %d to the peer is %q, want %q", q, x.Body, want)
			return false
		}
	}
	for q := 0; q < n; q++ {
		b := payload(nonce, 1, 0, q)
		if v1 {
			b = append([]byte{0, 0, 0, 1}, b...) // PAIR1 wire header: hop count
		}
		p.Inject(b)
	}
	for q := 0; q < n; q++ {
		k := mon.Go(fmt.Sprintf("Recv#%d", q), func() (interface{}, error) { v, e := s.Recv(); return v, e })
		if !c.AwaitOrViolate("pair/recv-stuck:"+ctx, fmt.Sprintf("Recv %d of %d messages the peer sent", q, n), k.Done, mon.AwaitOpts{}) {
			return false
		}
		v, err, _ := k.Result()
		if want := payload(nonce, 1, 0, q); err != nil || !bytes.Equal(v.([]byte), want) {
			c.Violate("pair/queue:"+ctx, "Recv %d returned (%q, %v), want %q", q, v, err, want)
			return false
		}
	}
	return true
}

// runKnockReal: three real sockets.  srv listens and converses with first; second dials the same
// address and is turned away Peers times while the conversation goes on; then first leaves and
// second must be admitted and able to converse.
func runKnockReal(c *mon.Case, sp spec) {
	srv := hx.MustSock(c, sp.Proto)
	first := hx.MustSock(c, hx.PeerOf[sp.Proto])
	second := hx.MustSock(c, sp.Peer)
	ws := &hx.PipeWatch{}
	countSrv := hx.WatchPipesFunc(ws)
	var conns atomic.Int64 // transport connections srv accepted
	srv.SetPipeEventHook(func(ev mangos.PipeEvent, p mangos.Pipe) {
		if ev == mangos.PipeEventAttaching {
			conns.Add(1)
		}
		countSrv(ev, p)
	})
	wf := hx.WatchPipes(first)
	l, _, err := hx.Connect(srv, first, sp.Tran)
	if err != nil {
		c.Inconclusive("setup: %v", err)
		return
	}
	if !hx.WaitAttached(c, ws, 1, "first PAIR peer (listening side)") || !hx.WaitAttached(c, wf, 1, "first PAIR peer (dialing side)") {
		return
	}
	nonce := hx.Uniq("n")
	seq := 0
	// one message from a to b, received unchanged as the next one
	pass := func(a, b mangos.Socket, dir int, sig, what string) bool {
		msg := payload(nonce, dir, 0, seq)
		seq++
		k := mon.Go("Send+Recv", func() (interface{}, error) {
			if err := a.Send(msg); err != nil {
				return nil, fmt.Errorf("Send: %w", err)
			}
			v, err := b.Recv()
			return v, err
		})
		if !c.AwaitOrViolate(sig+":stuck", what, k.Done, mon.AwaitOpts{MaxTimer: knockMaxTimer}) {
			return false
		}
		v, err, _ := k.Result()
		if err != nil {
			c.Violate(sig+":error", "%s: %v", what, err)
			return false
		}
		if !bytes.Equal(v.([]byte), msg) {
			c.Violate(sig+":content", "%s: received %q, want %q", what, v, msg)
			return false
		}
		return true
	}
	converse := func(n int) bool {
		for i := 0; i < n; i++ {
			if !pass(first, srv, 0, "pair/conversation-disturbed:while-refusing", "message from the established peer to the socket that is turning a second peer away") ||
				!pass(srv, first, 1, "pair/conversation-disturbed:while-refusing", "message to the established peer from the socket that is turning a second peer away") {
				return false
			}
		}
		return true
	}
	if !converse(2) {
		return
	}
	// the second peer starts knocking
	w2 := &hx.PipeWatch{}
	count2 := hx.WatchPipesFunc(w2)
	delay := time.Duration(100+c.Rand.Intn(400)) * time.Microsecond
	second.SetPipeEventHook(func(ev mangos.PipeEvent, p mangos.Pipe) {
		if ev == mangos.PipeEventAttached && sp.Hook == "sleep" {
			mon.Sleep(delay) // an application that takes a moment to note each new connection
		}
		count2(ev, p)
	})
	opts := knockDialOpts(c, second, sp)
	if c.Undecided() {
		return
	}
	if hx.NeedsTLS(sp.Tran) {
		_, cli := hx.TLSConfigs()
		opts[mangos.OptionTLSConfig] = cli
	}
	d, err := second.NewDialer(l.Address(), opts)
	if err != nil {
		c.Inconclusive("setup: NewDialer: %v", err)
		return
	}
	dial := mon.Go("Dial", func() (interface{}, error) { return nil, d.Dial() })
	if r := dial.Wait(mon.AwaitOpts{MaxTimer: knockMaxTimer}); r.V != mon.Done {
		c.Inconclusive("setup: Dial of the second peer: %v", r.V)
		return
	}
	if _, err, _ := dial.Result(); err != nil {
		c.Inconclusive("setup: Dial of the second peer: %v", err)
		return
	}
	rounds := 0
	for k := 1; k <= sp.Peers; k++ {
		k := k
		r := mon.Await(func() bool { return conns.Load() >= int64(1+k) }, mon.AwaitOpts{MaxTimer: knockMaxTimer})
		if r.V != mon.Done {
			// the verdict is the one below: whether it gets through once the first peer has gone
			c.Logf("attempt %d of the second peer not seen (%v after %v)", k, r.V, r.Waited)
			if r.V == mon.Inconclusive {
				c.Inconclusive("attempt %d of the second peer not seen after %v, process still active", k, r.Waited)
				return
			}
			break
		}
		if !converse(1) {
			return
		}
		rounds++
	}
	seen := int(conns.Load()) - 1
	if n := ws.Attached(); n != 1 {
		c.Violate("pair/second-peer-attached", "%d connections were attached to the %s socket while its first peer was connected", n, sp.Proto)
		return
	}
	c.Count("knock_turned_away", seen)
	c.Count("knock_conversation_roundtrips", rounds)
	// the first peer leaves
	first.Close()
	if !c.AwaitOrViolate("pair/waiting-peer-not-admitted-after-first-left",
		fmt.Sprintf("a %s peer (ReconnectTime=%dms MaxReconnectTime=%dms DialAsynch=%v, PipeEventAttached hook: %s) that was turned away %d time(s) over %s by a %s socket with an established peer being admitted after that peer has gone (it made %d connections, %d detached)",
			sp.Peer, sp.Reconn, sp.MaxRec, sp.Asynch, sp.Hook, seen, sp.Tran, sp.Proto, w2.Attached(), w2.Detached()),
		func() bool { return ws.Attached() >= 2 }, mon.AwaitOpts{MaxTimer: knockMaxTimer}) {
		return
	}
	if !sendersSettled(c) {
		return
	}
	seq = 0
	for i := 0; i < sp.Msgs; i++ {
		if !pass(srv, second, 2, "pair/new-peer-conversation", "message to the peer admitted after the first one left") {
			return
		}
	}
	for i := 0; i < sp.Msgs; i++ {
		if !pass(second, srv, 3, "pair/new-peer-conversation", "message from the peer admitted after the first one left") {
			return
		}
	}
	c.Count("knock_admitted", 1)
	c.Count("messages", 2*sp.Msgs+4+2*rounds)
	c.Nontrivial()
	c.Sig("knockreal|%s|%s|%s|%s|%v|%d", sp.Proto, sp.Peer, sp.Tran, sp.Hook, sp.Asynch, seen*4/(sp.Peers+1))
}

// ---- sizes ------------------------------------------------------------------
//
// "Delivered exactly once and unchanged" holds for every message length.  What a transport does with a
// message depends on its length (length prefixes, single-write paths for small frames, scatter/gather for
// large ones, TLS records, websocket frame header forms at 126 and 65536 bytes, buffer pools by size class),
// so a sampled handful of lengths says nothing about the lengths next to them.  Here every total length of
// contiguous windows is sent once, back to back by one goroutine over one connection, and the single
// receiver must get exactly these messages, byte for byte, in the order sent: a frame that is cut, padded
// or mis-announced also shifts everything behind it on a byte stream.  PAIR runs both directions at once.

func sizesList(sp spec, rnd interface{ Perm(int) []int }) []int {
	var l []int
	for n := sp.Lo; n <= sp.Hi; n++ {
		l = append(l, n)
	}
	for _, e := range sp.Edges {
		for n := e - sp.EdgeW; n <= e+sp.EdgeW; n++ {
			if n >= 0 && (n < sp.Lo || n > sp.Hi) {
				l = append(l, n)
			}
		}
	}
	switch sp.Order {
	case "down":
		for i, j := 0, len(l)-1; i < j; i, j = i+1, j-1 {
			l[i], l[j] = l[j], l[i]
		}
	case "shuffle":
		p := rnd.Perm(len(l))
		m := make([]int, len(l))
		for i, j := range p {
			m[i] = l[j]
		}
		l = m
	}
	return l
}

// sizesFill: message k of direction d with n body bytes.  No byte is zero (a cut tail that is completed
// from the next frame's length prefix cannot pass for the original) and the pattern depends on the
// position, the length and the index (a shifted or neighbouring message cannot either).
func sizesFill(d, k, n int) []byte {
	b := make([]byte, n)
	x := uint32(d*7919 + k*31 + n*131)
	for j := range b {
		b[j] = byte(1 + (x+uint32(j)*7)%251)
	}
	return b
}

func runSizes(c *mon.Case, sp spec) {
	peerProto := hx.PeerOf[sp.Proto]
	dirs := 2
	hdr := 0
	switch sp.Proto {
	case "push", "xpush":
		dirs = 1
		if sp.Proto == "xpush" {
			peerProto = "xpull"
		}
	case "pair1":
		hdr = 4 // the hop count travels as the message header
	}
	a := hx.MustSock(c, sp.Proto) // the sender (PUSH) / one end (PAIR)
	b := hx.MustSock(c, peerProto)
	if sp.WQ >= 0 {
		setQ(c, a, sp.WQ, sp.RQ)
		setQ(c, b, sp.WQ, sp.RQ)
	}
	wa, wb := hx.WatchPipes(a), hx.WatchPipes(b)
	srv, cli := a, b
	if sp.Flip {
		srv, cli = b, a
	}
	if sp.Chop {
		stop, err := hx.ConnectChopped(srv, cli, sp.Tran, c.Rand.Int63())
		if err != nil {
			c.Inconclusive("setup: %v", err)
			return
		}
		c.Cleanup(stop)
		c.Count("connections_through_resegmenting_relay", 1)
	} else if _, _, err := hx.Connect(srv, cli, sp.Tran); err != nil {
		c.Inconclusive("setup: %v", err)
		return
	}
	if !hx.WaitAttached(c, wa, 1, "sizes A") || !hx.WaitAttached(c, wb, 1, "sizes B") {
		return
	}
	list := sizesList(sp, c.Rand)
	where := sp.Proto + "/" + sp.Tran
	var wg, rg sync.WaitGroup
	var sentN, recvN [2]atomic.Int64
	var bytesOK atomic.Int64
	for d := 0; d < dirs; d++ {
		d := d
		from, to := a, b
		if d == 1 {
			from, to = b, a
		}
		wg.Add(1)
		go func() {
			defer wg.Done()
			for k, n := range list {
				if err := from.Send(sizesFill(d, k, n)); err != nil {
					if !c.Failed() {
						c.Violate("sizes/send-error:"+where, "Send of message %d (%d bytes, %d with the protocol header) on a connected %s socket over %s returned %v", k, n, n+hdr, sp.Proto, sp.Tran, err)
					}
					return
				}
				sentN[d].Add(1)
			}
		}()
		rg.Add(1)
		go func() {
			defer rg.Done()
			for k, n := range list {
				got, err := to.Recv()
				if err != nil {
					if !c.Failed() {
						c.Violate("sizes/recv-error:"+where, "Recv of message %d (%d bytes) on a connected socket returned %v", k, n, err)
					}
					return
				}
				want := sizesFill(d, k, n)
				if !bytes.Equal(got, want) {
					if c.Failed() {
						return
					}
					diff := 0
					for diff < len(got) && diff < len(want) && got[diff] == want[diff] {
						diff++
					}
					tail := got
					if len(tail) > 12 {
						tail = tail[len(tail)-12:]
					}
					prev := -1
					if k > 0 {
						prev = list[k-1]
					}
					c.Violate(fmt.Sprintf("sizes/message-altered:%s/total%d", where, n+hdr),
						"%s over %s, direction %d: message %d, sent with %d body bytes (%d with the protocol header; the one before had %d, all sent back to back on one connection that stayed up), arrived with %d bytes, first difference at offset %d, last bytes % x (sent: % x)",
						sp.Proto, sp.Tran, d, k, n, n+hdr, prev, len(got), diff, tail, want[len(want)-min(12, len(want)):])
					return
				}
				recvN[d].Add(1)
				bytesOK.Add(int64(n))
			}
		}()
	}
	sdone := mon.Go("sizes senders", func() (interface{}, error) { wg.Wait(); return nil, nil })
	rdone := mon.Go("sizes receivers", func() (interface{}, error) { rg.Wait(); return nil, nil })
	// MaxTimer: a connection that the receiver gave up on (garbage where a length was expected) is redialled after ReconnectTime (100 ms)
	res := mon.Await(func() bool { return rdone.Done() || c.Failed() }, mon.AwaitOpts{MaxTimer: 200 * time.Millisecond})
	if res.V != mon.Done {
		pos := ""
		for d := 0; d < dirs; d++ {
			r := int(recvN[d].Load())
			next := -1
			if r < len(list) {
				next = list[r]
			}
			pos += fmt.Sprintf(" direction %d: %d of %d Sends returned, %d messages received intact, waiting for one of %d body bytes (%d with the protocol header);", d, sentN[d].Load(), len(list), r, next, next+hdr)
		}
		if res.V == mon.Stuck {
			sig := "sizes/message-lost:" + where
			if !sdone.Done() {
				sig = "sizes/send-stuck:" + where
			}
			c.Violate(sig, "%s over %s, one connection that stayed up, blocking Sends back to back, peer receiving:%s stuck after %v — every goroutine parked:\n%s", sp.Proto, sp.Tran, pos, res.Waited, res.Dump)
		} else {
			c.Inconclusive("sizes %s:%s not done after %v, process still active", where, pos, res.Waited)
		}
	}
	if c.Failed() || c.Undecided() {
		// let the helper goroutines go
		a.Close()
		b.Close()
		mon.Await(func() bool { return sdone.Done() && rdone.Done() }, mon.AwaitOpts{})
		return
	}
	if !c.AwaitOrViolate("sizes/send-stuck:"+where, "the Sends returning although every message has been received", sdone.Done, mon.AwaitOpts{}) {
		a.Close()
		b.Close()
		return
	}
	// nothing further may arrive: PAIR peers have sent exactly len(list) messages each; checked by FIFO — a
	// sentinel sent now must be the next thing received
	for d := 0; d < dirs; d++ {
		from, to := a, b
		if d == 1 {
			from, to = b, a
		}
		sentinel := []byte(hx.Uniq("sentinel"))
		if err := from.Send(sentinel); err != nil {
			c.Violate("sizes/send-error:"+where, "Send of the closing message returned %v", err)
			return
		}
		rc := mon.Go("Recv", func() (interface{}, error) { return to.Recv() })
		if !c.AwaitOrViolate("sizes/message-lost:"+where, "the closing message arriving", rc.Done, mon.AwaitOpts{}) {
			a.Close()
			b.Close()
			return
		}
		v, err, _ := rc.Result()
		if got, _ := v.([]byte); err != nil || !bytes.Equal(got, sentinel) {
			c.Violate("sizes/delivered-twice-or-invented:"+where, "after all %d messages had arrived intact, the next message received was %d bytes (err %v) instead of the closing message", len(list), len(got), err)
			return
		}
	}
	c.Count("messages", dirs*len(list))
	c.Count("sizes_swept", len(list))
	c.Count("sizes_bytes_compared", int(bytesOK.Load()))
	c.Nontrivial()
	c.Sig("sizes|%s|%s|%d-%d|%v|%s|%v|%v|%d|%d", sp.Proto, sp.Tran, sp.Lo, sp.Hi, sp.Edges, sp.Order, sp.Flip, sp.Chop, sp.WQ, sp.RQ)
}

// ---------------------------------------------------------------------------

// runHookRefuse: the application's PipeEventHook closes the first sp.Peers connections (during Attaching
// or during Attached) on a listening or dialling (sp.Flip) socket and lets the next one through.  The
// refused connections have gone (the hook's Close has returned), so a PAIR-family socket must admit the
// next peer and converse with it, and a PUSH socket must deliver every following message to the only
// connected peer.
func runHookRefuse(c *mon.Case, sp spec) {
	s := hx.MustSock(c, sp.Proto)
	push := strings.HasSuffix(sp.Proto, "push")
	if push {
		if err := s.SetOption(mangos.OptionWriteQLen, sp.WQ); err != nil {
			c.Inconclusive("setup: WriteQLen: %v", err)
			return
		}
	}
	name := hx.Uniq("c02h")
	c.Cleanup(func() { vt.Forget(name) })
	var mu sync.Mutex
	seen, refused, admitted := 0, 0, 0
	s.SetPipeEventHook(func(ev mangos.PipeEvent, p mangos.Pipe) {
		if ev == mangos.PipeEventAttaching {
			mu.Lock()
			seen++
			mu.Unlock()
		}
		mu.Lock()
		turn := refused < sp.Peers
		mu.Unlock()
		switch {
		case ev == mangos.PipeEventAttaching && sp.Hook == "attaching" && turn, ev == mangos.PipeEventAttached && sp.Hook == "attached" && turn:
			_ = p.Close()
			mu.Lock()
			refused++ // Close has returned: the connection has gone as far as the application can tell
			mu.Unlock()
			vt.Kick()
		case ev == mangos.PipeEventAttached:
			mu.Lock()
			admitted++
			mu.Unlock()
			vt.Kick()
		}
	})
	get := func(v *int) int { mu.Lock(); defer mu.Unlock(); return *v }
	var pipes func() []*vt.Pipe
	if sp.Flip {
		D := vt.D(name)
		D.SetDefault(vt.Outcome{Kind: vt.Succeed})
		_ = s.SetOption(mangos.OptionReconnectTime, time.Duration(sp.Reconn)*time.Millisecond)
		_ = s.SetOption(mangos.OptionMaxReconnectTime, 10*time.Millisecond)
		if err := s.Dial(vt.Addr(name)); err != nil {
			c.Inconclusive("setup: Dial: %v", err)
			return
		}
		pipes = D.Pipes
	} else {
		L := vt.L(name)
		if err := s.Listen(vt.Addr(name)); err != nil {
			c.Inconclusive("setup: Listen: %v", err)
			return
		}
		for i := 0; i < sp.Peers; i++ {
			L.Connect()
			i := i
			if !c.AwaitOrViolate("harness:hook-refusal-stuck", fmt.Sprintf("the hook turning connection %d away", i), func() bool { return get(&refused) > i }, mon.AwaitOpts{MaxTimer: 200 * time.Millisecond}) {
				return
			}
		}
		L.Connect()
		pipes = L.Pipes
	}
	fam := "pair"
	if push {
		fam = "push"
	}
	if !c.AwaitOrViolate(fam+"/peer-not-admitted-after-hook-refusal:"+sp.Hook, fmt.Sprintf("a peer being admitted after the hook closed %d connection(s) during %s", sp.Peers, sp.Hook),
		func() bool { return get(&refused) >= sp.Peers && get(&admitted) >= 1 && len(pipes()) > sp.Peers }, mon.AwaitOpts{MaxTimer: 200 * time.Millisecond}) {
		return
	}
	ps := pipes()
	px := ps[sp.Peers]
	c.Count("hook_refused", sp.Peers)
	if !push {
		if !vtExchange(c, s, px, sp.Proto, sp.Msgs, "after-hook-refusal") {
			return
		}
	} else {
		nonce := hx.Uniq("n")
		for q := 0; q < sp.Msgs; q++ {
			msg := payload(nonce, 0, 0, q)
			k := mon.Go(fmt.Sprintf("Send#%d", q), func() (interface{}, error) { return nil, s.Send(msg) })
			if !c.AwaitOrViolate("push/send-stuck:after-hook-refusal", fmt.Sprintf("Send %d with a peer connected", q), k.Done, mon.AwaitOpts{}) {
				return
			}
			if _, e, _ := k.Result(); e != nil {
				c.Violate("push/send-error:after-hook-refusal", "Send returned %v", e)
				return
			}
		}
		if !c.AwaitOrViolate("push/message-lost-after-hook-refusal:"+sp.Hook, fmt.Sprintf("%d messages reaching the only connected peer", sp.Msgs), func() bool { return px.SentCount() >= sp.Msgs }, mon.AwaitOpts{}) {
			return
		}
		sl := px.SentLog()
		for q := 0; q < sp.Msgs && q < len(sl); q++ {
			if want := payload(nonce, 0, 0, q); string(sl[q].Body) != string(want) {
				c.Violate("push/order-or-content:after-hook-refusal", "message %d at the peer is %q, want %q", q, sl[q].Body, want)
				return
			}
		}
		if len(sl) > sp.Msgs {
			c.Violate("push/duplicate:after-hook-refusal", "peer got %d messages, %d sent", len(sl), sp.Msgs)
			return
		}
		c.Count("delivered", len(sl))
	}
	for i := 0; i < sp.Peers; i++ {
		if n := ps[i].SentCount(); n != 0 {
			c.Violate(fam+"/refused-peer-got-traffic:hook", "connection %d, closed by the hook, was sent %d message(s)", i, n)
			return
		}
	}
	c.Nontrivial()
	side := "listen"
	if sp.Flip {
		side = "dial"
	}
	c.Sig("hookrefuse|%s|%s|%s|%d", sp.Proto, sp.Hook, side, sp.Peers)
}
