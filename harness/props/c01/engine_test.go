package c01

import (
	"bytes"
	"encoding/binary"
	"fmt"
	"sync"
	"sync/atomic"
	"time"

	"go.nanomsg.org/mangos/v3"

	"verifharness/hx"
	"verifharness/mon"
)

// ---- patterns -------------------------------------------------------------------

const (
	kDuplex = iota // both ends send and receive (pair, pair1, bus, star)
	kOneway        // A sends, B receives (push->pull, pub->sub)
	kReqRep        // A asks, B answers (req<->rep, surveyor<->respondent)
)

type c01Pat struct {
	name    string
	a, b    string // cooked protocol of side A and side B; the raw one is "x"+name
	kind    int
	wireHdr int // bytes the protocol puts in front of the body on the wire (they count against MaxRecvSize)
}

var c01Pats = []c01Pat{
	{"pair", "pair", "pair", kDuplex, 0},
	{"pair1", "pair1", "pair1", kDuplex, 4},
	{"bus", "bus", "bus", kDuplex, 0},
	{"star", "star", "star", kDuplex, 4},
	{"pushpull", "push", "pull", kOneway, 0},
	{"pubsub", "pub", "sub", kOneway, 0},
	{"reqrep", "req", "rep", kReqRep, 4},
	{"survey", "surveyor", "respondent", kReqRep, 4},
}

func c01PatByName(n string) c01Pat {
	for _, p := range c01Pats {
		if p.name == n {
			return p
		}
	}
	panic("pattern " + n)
}

// ---- bodies -----------------------------------------------------------------------

// c01Body builds the body of message id: every byte depends on (id, position);
// id, length and ^id are embedded when there is room, so shifted, merged,
// truncated or recycled data cannot be mistaken for the original.
func c01Body(id uint32, n int, fill int, val byte) []byte {
	b := make([]byte, n)
	for i := range b {
		x := uint32(i)*0x9E3779B1 + id*0x85EBCA6B
		x ^= x >> 15
		x *= 0x2C1B3C6D
		x ^= x >> 12
		b[i] = byte(x)
	}
	if n >= 12 {
		binary.BigEndian.PutUint32(b[0:], id)
		binary.BigEndian.PutUint32(b[4:], uint32(n))
		binary.BigEndian.PutUint32(b[8:], ^id)
	}
	switch fill {
	case 1: // looks like a hop-count header
		if n >= 4 {
			copy(b, []byte{0, 0, 0, 1})
		}
	case 2: // looks like a request id (top bit set)
		if n >= 4 {
			b[0] |= 0x80
		}
	case 3: // looks like a backtrace entry (top bit clear)
		if n >= 4 {
			b[0] &= 0x7f
		}
	case 4: // one byte value throughout (never the ledger's poison value)
		for i := range b {
			b[i] = val
		}
	}
	return b
}

// c01Region labels a body length for evidence and signatures.
func c01Region(n int) string {
	if n <= 9 {
		return "z"
	}
	for _, cl := range c01Classes {
		if n >= cl-9 && n <= cl+9 {
			return fmt.Sprintf("c%d", cl)
		}
	}
	if n > mib-64 && n <= mib {
		return "mib"
	}
	for _, cl := range c01Classes {
		if n < cl {
			return fmt.Sprintf("lt%d", cl)
		}
	}
	if n > mib {
		return "gtmib"
	}
	return "gt64k"
}

// ---- endpoints ----------------------------------------------------------------------

type c01Watch struct {
	mu       sync.Mutex
	attached int
	detached int
	ids      []uint32
}

func c01WatchSock(s mangos.Socket) *c01Watch {
	w := &c01Watch{}
	s.SetPipeEventHook(func(ev mangos.PipeEvent, p mangos.Pipe) {
		w.mu.Lock()
		switch ev {
		case mangos.PipeEventAttached:
			w.attached++
			w.ids = append(w.ids, p.ID())
		case mangos.PipeEventDetached:
			w.detached++
		}
		w.mu.Unlock()
	})
	return w
}

func (w *c01Watch) att() int { w.mu.Lock(); defer w.mu.Unlock(); return w.attached }
func (w *c01Watch) det() int { w.mu.Lock(); defer w.mu.Unlock(); return w.detached }
func (w *c01Watch) firstID() uint32 {
	w.mu.Lock()
	defer w.mu.Unlock()
	if len(w.ids) == 0 {
		return 0
	}
	return w.ids[0]
}

type c01End struct {
	role  string // "A" | "B"
	proto string // socket constructor name
	raw   bool
	sock  mangos.Socket
	w     *c01Watch
}

// one message to transfer
type c01Item struct {
	id       uint32
	n        int
	want     []byte
	hop      byte   // hop count a raw pair1/star sender puts in its header
	foreign  bool   // raw bus sender adds a 4-byte header naming some other pipe
	rid      uint32 // request/survey id a raw requester puts in its header
	sentinel bool
	reply    *c01Item // req/rep patterns: the answer to this request
	hdrSeen  []byte   // header a raw responder received with the request (echoed in its reply)
}

type c01Progress struct {
	op    string // send | recv
	at    *c01End
	from  *c01End
	it    *c01Item
	burst int
	nth   int
	conc  *c01Conc // set during a concurrent phase
}

type c01Run struct {
	c        *mon.Case
	sp       c01Spec
	pat      c01Pat
	A, B     *c01End
	srv, cli *c01End // the listening and the dialing end
	seq      uint32
	over     atomic.Bool // the verdict is in; the script must not report any more
	abort    atomic.Bool // a Send was refused: the case cannot be decided
	concFail atomic.Bool // a goroutine of a concurrent req/rep phase gave up

	mu       sync.Mutex
	prog     c01Progress
	finished bool
	regions  map[string]bool
	// expected bodies of the case (for classifying a mismatch)
	all []*c01Item
}

func (r *c01Run) setProg(p c01Progress) { r.mu.Lock(); r.prog = p; r.mu.Unlock() }
func (r *c01Run) getProg() c01Progress  { r.mu.Lock(); defer r.mu.Unlock(); return r.prog }

func (r *c01Run) route(from, at *c01End) string { return from.proto + ">" + at.proto }

// connect with extra endpoint options (the "ep" way of setting MaxRecvSize);
// otherwise identical to hx.Connect.
func c01ConnectOpts(c *mon.Case, chop bool, srv, cli mangos.Socket, tr string, extra map[string]interface{}) error {
	lo, do := map[string]interface{}{}, map[string]interface{}{}
	for k, v := range extra {
		lo[k], do[k] = v, v
	}
	if hx.NeedsTLS(tr) {
		s, c := hx.TlsConfigs()
		lo[mangos.OptionTLSConfig], do[mangos.OptionTLSConfig] = s, c
	}
	l, err := srv.NewListener(hx.ListenAddr(tr), lo)
	if err != nil {
		return fmt.Errorf("NewListener: %w", err)
	}
	if err := l.Listen(); err != nil {
		return fmt.Errorf("Listen: %w", err)
	}
	addr := l.Address()
	if chop {
		u, stop, err := hx.ChopRelay(addr, c.Rand.Int63())
		if err != nil {
			return fmt.Errorf("relay: %w", err)
		}
		c.Cleanup(stop)
		c.Count("connections_through_resegmenting_relay", 1)
		addr = u
	}
	d, err := cli.NewDialer(addr, do)
	if err != nil {
		return fmt.Errorf("NewDialer(%s): %w", addr, err)
	}
	if err := d.Dial(); err != nil {
		return fmt.Errorf("Dial(%s): %w", addr, err)
	}
	return nil
}

// limitOpt is the MaxRecvSize option value of the case (Limit -1 means "0 = unlimited").
func (sp c01Spec) limitOpt() int {
	if sp.Limit < 0 {
		return 0
	}
	return sp.Limit
}

func c01Run1(c *mon.Case, sp c01Spec) *c01Run {
	r := &c01Run{c: c, sp: sp, pat: c01PatByName(sp.Pat), regions: map[string]bool{}}
	rawA := sp.Mode == "raw" || sp.Mode == "rawA"
	rawB := sp.Mode == "raw" || sp.Mode == "rawB"
	name := func(p string, raw bool) string {
		if raw {
			return "x" + p
		}
		return p
	}
	r.A = &c01End{role: "A", proto: name(r.pat.a, rawA), raw: rawA}
	r.B = &c01End{role: "B", proto: name(r.pat.b, rawB), raw: rawB}
	for _, e := range []*c01End{r.A, r.B} {
		e.sock = hx.MustSock(c, e.proto)
		e.w = c01WatchSock(e.sock)
		switch e.proto {
		case "req":
			// one transmission per request: a retransmission would be a second message on the wire
			if err := e.sock.SetOption(mangos.OptionRetryTime, time.Hour); err != nil {
				c.Inconclusive("setup: req RetryTime: %v", err)
				return nil
			}
		case "surveyor":
			if err := e.sock.SetOption(mangos.OptionSurveyTime, time.Hour); err != nil {
				c.Inconclusive("setup: surveyor SurveyTime: %v", err)
				return nil
			}
		case "sub":
			if err := e.sock.SetOption(mangos.OptionSubscribe, []byte{}); err != nil {
				c.Inconclusive("setup: sub Subscribe: %v", err)
				return nil
			}
		}
		if sp.Limit != 0 && sp.Via == "sock" {
			if err := e.sock.SetOption(mangos.OptionMaxRecvSize, sp.limitOpt()); err != nil {
				c.Inconclusive("setup: MaxRecvSize=%d on %s: %v", sp.Limit, e.proto, err)
				return nil
			}
		}
	}
	srv, cli := r.A, r.B
	if sp.Flip {
		srv, cli = r.B, r.A
	}
	r.srv, r.cli = srv, cli
	c.Cleanup(r.teardown) // runs before the sockets' own cleanups (LIFO)
	var err error
	if sp.Limit != 0 && sp.Via == "ep" {
		err = c01ConnectOpts(c, sp.Chop, srv.sock, cli.sock, sp.Tr, map[string]interface{}{mangos.OptionMaxRecvSize: sp.limitOpt()})
	} else if sp.Chop {
		err = c01ConnectOpts(c, true, srv.sock, cli.sock, sp.Tr, nil)
	} else {
		_, _, err = hx.Connect(srv.sock, cli.sock, sp.Tr)
	}
	if err != nil {
		c.Inconclusive("setup: connect over %s: %v", sp.Tr, err)
		return nil
	}
	// both ends must have the pipe before a best-effort sender (pub, bus, star, surveyor) is used
	res := mon.Await(func() bool { return r.A.w.att() >= 1 && r.B.w.att() >= 1 }, mon.AwaitOpts{MaxTimer: 200 * time.Millisecond})
	if res.V != mon.Done {
		c.Inconclusive("setup: pipes did not attach on both ends over %s (%v after %v)", sp.Tr, res.V, res.Waited)
		return nil
	}
	return r
}

// teardown closes the listening socket first and the dialing one once it has
// seen the connection go away.  The end that closes a TCP connection first keeps
// it in TIME_WAIT; on the accepted side that is harmless (SO_REUSEADDR), on the
// dialing side it pins an ephemeral port for a minute — thousands of cases
// would exhaust the port range for everybody on the machine.  Never a verdict.
func (r *c01Run) teardown() {
	r.over.Store(true)
	det0 := r.cli.w.det()
	att := r.cli.w.att()
	_ = r.srv.sock.Close()
	if att > det0 && r.sp.Tr != "inproc" && r.sp.Tr != "ipc" {
		mon.Await(func() bool { return r.cli.w.det() >= att }, mon.AwaitOpts{Watchdog: 2 * time.Second})
	}
	_ = r.cli.sock.Close()
}

// ---- the oracle -----------------------------------------------------------------------

func c01PoisonRun(b []byte) int {
	best, cur := 0, 0
	for _, x := range b {
		if x == 0xDB {
			cur++
			if cur > best {
				best = cur
			}
		} else {
			cur = 0
		}
	}
	return best
}

// classify says how got differs from want (stable class names for signatures).
func (r *c01Run) classify(got, want []byte, it *c01Item) string {
	if c01PoisonRun(got) >= 8 && c01PoisonRun(want) < 8 {
		return "poison"
	}
	for _, o := range r.all {
		if o != it && len(o.want) >= 12 && bytes.Equal(o.want, got) {
			if o.id < it.id {
				return "other-message-earlier"
			}
			return "other-message-later"
		}
	}
	switch {
	case len(got) < len(want) && bytes.Equal(got, want[:len(got)]):
		return "truncated"
	case len(got) > len(want) && bytes.Equal(got[:len(want)], want):
		return "padded-or-merged"
	case len(got) < len(want) && bytes.Equal(got, want[len(want)-len(got):]):
		return "head-cut"
	}
	for k := 1; k <= 16; k++ {
		if len(got) > k && len(want) > k {
			n := len(got) - k
			if n > len(want) {
				n = len(want)
			}
			if n >= 8 && bytes.Equal(got[k:k+n], want[:n]) {
				return fmt.Sprintf("shifted+%d", k)
			}
			n = len(want) - k
			if n > len(got) {
				n = len(got)
			}
			if n >= 8 && bytes.Equal(want[k:k+n], got[:n]) {
				return fmt.Sprintf("shifted-%d", k)
			}
		}
	}
	if len(got) == len(want) {
		return "content"
	}
	return "length"
}

func c01Hex(b []byte) string {
	if len(b) <= 48 {
		return fmt.Sprintf("%x", b)
	}
	return fmt.Sprintf("%x…%x", b[:32], b[len(b)-16:])
}

func c01FirstDiff(a, b []byte) int {
	n := len(a)
	if len(b) < n {
		n = len(b)
	}
	for i := 0; i < n; i++ {
		if a[i] != b[i] {
			return i
		}
	}
	return n
}

// cooked sockets whose SendMsg defines the protocol header itself (whatever the message carried)
var c01CookedSetsHeader = map[string]bool{"req": true, "rep": true, "surveyor": true, "respondent": true, "pair1": true, "star": true, "bus": true}

// sendRaw transmits item it from end e (hdr: raw header to supply).  A Send that
// fails did not accept the message — the property is silent about it: inconclusive.
func (r *c01Run) sendRaw(e *c01End, it *c01Item, hdr []byte) bool {
	var err error
	if e.raw || r.sp.API == "msg" {
		var m *mangos.Message
		if it.id%3 == 0 {
			m = mangos.NewMessage(0) // body grows past the pooled buffer
		} else {
			m = mangos.NewMessage(it.n)
		}
		m.Body = append(m.Body, it.want...)
		if e.raw {
			m.Header = append(m.Header, hdr...)
		} else if it.id%4 == 1 && c01CookedSetsHeader[e.proto] {
			// an application that sends a message object it received earlier: Header still holds what
			// the cooked socket left there on receipt (an id, a backtrace).  Cooked sockets of these
			// patterns define the header themselves, so the peer must still get exactly the body.
			m.Header = append(m.Header, byte(0x80|it.id>>24), byte(it.id>>16), byte(it.id>>8), byte(it.id))
			if it.id%8 == 1 {
				m.Header = append(m.Header, 0, 0, 0, byte(it.id))
			}
			r.c.Count("sent_with_leftover_header", 1)
		}
		if err = e.sock.SendMsg(m); err != nil {
			m.Free()
		}
	} else {
		err = e.sock.Send(it.want)
	}
	if r.over.Load() {
		return false
	}
	if err != nil {
		r.c.Inconclusive("%s Send of %d bytes (msg %08x) returned %v — message not accepted, nothing to compare", e.proto, it.n, it.id, err)
		r.abort.Store(true)
		return false
	}
	r.c.Count("messages_sent", 1)
	return true
}

// send is sendRaw with the progress note the stuck verdict reports.  false = stop the script.
func (r *c01Run) send(e, to *c01End, it *c01Item, hdr []byte, burst, nth int) bool {
	r.setProg(c01Progress{op: "send", at: e, from: e, it: it, burst: burst, nth: nth})
	return r.sendRaw(e, it, hdr)
}

// take receives one message at end e through the API of the case.
func (r *c01Run) take(e *c01End) (body, hdr []byte, pipe uint32, err error) {
	if e.raw || r.sp.API == "msg" {
		var m *mangos.Message
		if m, err = e.sock.RecvMsg(); err == nil {
			body = append([]byte{}, m.Body...)
			hdr = append([]byte{}, m.Header...)
			if m.Pipe != nil {
				pipe = m.Pipe.ID()
			}
			m.Free()
		}
		return
	}
	body, err = e.sock.Recv()
	return
}

func (r *c01Run) regionOrLimit(it *c01Item) string {
	if r.sp.Limit > 0 {
		return fmt.Sprintf("L%d", r.sp.Limit)
	}
	return c01Region(it.n)
}

func (r *c01Run) mismatch(e, from *c01End, it *c01Item, body []byte, where string) {
	cl := r.classify(body, it.want, it)
	r.c.Violate(fmt.Sprintf("c01/body-%s:%s:%s:%s", cl, r.sp.Tr, r.route(from, e), r.regionOrLimit(it)),
		"%s: received body differs from the sent one (%s): got %d bytes, want %d bytes, first difference at offset %d\n got  %s\n want %s",
		where, cl, len(body), len(it.want), c01FirstDiff(body, it.want), c01Hex(body), c01Hex(it.want))
}

// accepted books a message that arrived byte-identical and checks the raw header.
func (r *c01Run) accepted(e, from *c01End, it *c01Item, hdr []byte, pipe uint32, wantHdr func(got []byte, pipe uint32) string, where string) bool {
	r.c.Count("messages_compared", 1)
	r.c.Count("bytes_compared", it.n)
	r.c.Count("compared_"+r.sp.Tr, 1)
	r.c.Count("compared_pat_"+r.sp.Pat, 1)
	r.c.Count("compared_mode_"+r.sp.Mode, 1)
	if it.sentinel {
		r.c.Count("sentinels_confirmed", 1)
	}
	total := it.n + r.pat.wireHdr
	switch {
	case r.sp.Limit > 0 && total == r.sp.Limit:
		r.c.Count("limit_sized_delivered", 1)
	case r.sp.Limit > 0 && total == r.sp.Limit-1:
		r.c.Count("limit_minus_one_delivered", 1)
	case r.sp.Limit == 0 && total == mib:
		r.c.Count("default_limit_sized_delivered", 1)
	case total > mib:
		r.c.Count("above_default_limit_delivered", 1)
	}
	r.mu.Lock()
	r.regions[c01Region(it.n)] = true
	r.mu.Unlock()
	if e.raw && wantHdr != nil {
		if pipe == 0 {
			pipe = e.w.firstID()
		}
		if bad := wantHdr(hdr, pipe); bad != "" {
			r.c.Violate(fmt.Sprintf("c01/raw-header:%s:%s", r.sp.Tr, r.route(from, e)),
				"%s: raw-mode header of the received message is %x; %s", where, hdr, bad)
			return false
		}
		r.c.Count("raw_headers_compared", 1)
	}
	it.hdrSeen = hdr
	return true
}

func (r *c01Run) whereMsg(e, from *c01End, it *c01Item, burst, nth int) string {
	return fmt.Sprintf("%s over %s, burst %d message %d (id %08x, %d bytes, region %s%s)", r.route(from, e), r.sp.Tr, burst, nth, it.id, it.n, c01Region(it.n), map[bool]string{true: ", sentinel", false: ""}[it.sentinel])
}

// recv receives one message at end e and demands it is exactly item it, sent by from.
func (r *c01Run) recv(e, from *c01End, it *c01Item, wantHdr func(got []byte, pipe uint32) string, burst, nth int) bool {
	r.setProg(c01Progress{op: "recv", at: e, from: from, it: it, burst: burst, nth: nth})
	body, hdr, pipe, err := r.take(e)
	if r.over.Load() {
		return false
	}
	where := r.whereMsg(e, from, it, burst, nth)
	if err != nil {
		r.c.Violate(fmt.Sprintf("c01/recv-error:%s:%s:%v", r.sp.Tr, r.route(from, e), err),
			"%s: Recv returned %v although the message was accepted by Send on the connected peer", where, err)
		return false
	}
	if !bytes.Equal(body, it.want) {
		r.mismatch(e, from, it, body, where)
		return false
	}
	return r.accepted(e, from, it, hdr, pipe, wantHdr, where)
}

// ---- concurrent senders ------------------------------------------------------------------

type c01Rx struct {
	body, hdr []byte
	pipe      uint32
}

type c01Lane struct {
	from, to *c01End
	items    []*c01Item
	got      []c01Rx
	rerr     error
}

// c01Conc is the state of a concurrent phase (read by the case goroutine when the phase is stuck).
type c01Conc struct {
	mu    sync.Mutex
	lanes []*c01Lane
}

// outstanding returns the expected items of a lane not matched by what was received so far,
// and the received messages that match no expected item (exact content, each item at most once).
func (l *c01Lane) outstanding() (missing []*c01Item, extra []c01Rx) {
	byBody := map[string][]*c01Item{}
	for _, it := range l.items {
		byBody[string(it.want)] = append(byBody[string(it.want)], it)
	}
	for _, g := range l.got {
		q := byBody[string(g.body)]
		if len(q) == 0 {
			extra = append(extra, g)
			continue
		}
		byBody[string(g.body)] = q[1:]
	}
	for _, it := range l.items {
		for _, o := range byBody[string(it.want)] {
			if o == it {
				missing = append(missing, it)
			}
		}
	}
	return
}

// concPhase: 2-4 goroutines per sending end call Send concurrently on the same
// socket while one goroutine per receiving end receives.  The order between
// senders is free, so the oracle is multiset equality: every received message
// is byte-identical to exactly one accepted send, each send received once.
func (r *c01Run) concPhase(sizes []int) bool {
	cs := &c01Conc{}
	hop := byte(r.c.Rand.Intn(7))
	mk := func(from, to *c01End, sz []int) *c01Lane {
		l := &c01Lane{from: from, to: to}
		for _, n := range sz {
			it := r.newItem(n, false)
			it.hop = hop // one hop value per phase: the expected header does not depend on which item matched
			l.items = append(l.items, it)
		}
		return l
	}
	cs.lanes = append(cs.lanes, mk(r.A, r.B, sizes))
	if r.pat.kind == kDuplex {
		rv := make([]int, len(sizes))
		for i, n := range sizes {
			rv[len(sizes)-1-i] = n
		}
		cs.lanes = append(cs.lanes, mk(r.B, r.A, rv))
	}
	r.setProg(c01Progress{op: "recv", conc: cs})
	var wg sync.WaitGroup
	for _, l := range cs.lanes {
		l := l
		wg.Add(1)
		go func() { // receiver
			defer wg.Done()
			for range l.items {
				body, hdr, pipe, err := r.take(l.to)
				cs.mu.Lock()
				if err != nil {
					l.rerr = err
					cs.mu.Unlock()
					return
				}
				l.got = append(l.got, c01Rx{body, hdr, pipe})
				cs.mu.Unlock()
			}
		}()
		k := 2 + r.c.Rand.Intn(3)
		for s := 0; s < k; s++ {
			var mine []*c01Item
			for i := s; i < len(l.items); i += k {
				mine = append(mine, l.items[i])
			}
			wg.Add(1)
			go func() { // sender
				defer wg.Done()
				for _, it := range mine {
					if !r.sendRaw(l.from, it, r.hdrFor(l.from, it, false, nil)) {
						return
					}
				}
			}()
		}
		r.c.Count("concurrent_sender_goroutines", k)
	}
	wg.Wait()
	if r.over.Load() || r.abort.Load() {
		return false
	}
	for _, l := range cs.lanes {
		where := fmt.Sprintf("%s over %s, concurrent phase (%d messages, %d received)", r.route(l.from, l.to), r.sp.Tr, len(l.items), len(l.got))
		if l.rerr != nil {
			r.c.Violate(fmt.Sprintf("c01/recv-error:%s:%s:%v", r.sp.Tr, r.route(l.from, l.to), l.rerr),
				"%s: Recv returned %v although the messages were accepted by Send on the connected peer", where, l.rerr)
			return false
		}
		missing, extra := l.outstanding()
		if len(extra) > 0 {
			// compare with the message it claims to be (embedded ^id), else with the first one still missing
			g := extra[0]
			var it *c01Item
			if len(g.body) >= 12 {
				id := ^binary.BigEndian.Uint32(g.body[8:12])
				for _, o := range l.items {
					if o.id == id {
						it = o
					}
				}
			}
			if it == nil && len(missing) > 0 {
				it = missing[0]
			}
			if it == nil {
				it = l.items[0]
			}
			r.mismatch(l.to, l.from, it, g.body, where+fmt.Sprintf(": a received message equals none of the accepted sends still outstanding (%d missing)", len(missing)))
			return false
		}
		// no extra and len(got) == len(items): every item matched exactly once
		byBody := map[string]*c01Item{}
		for _, it := range l.items {
			byBody[string(it.want)] = it
		}
		for _, g := range l.got {
			it := byBody[string(g.body)]
			if !r.accepted(l.to, l.from, it, g.hdr, g.pipe, r.hdrWant(l.from, it, false, nil), where) {
				return false
			}
		}
		r.c.Count("concurrent_messages_matched", len(l.got))
	}
	// nothing extra is queued behind the phase
	for _, l := range cs.lanes {
		st := r.newItem(r.sentinelSize(), true)
		if !r.send(l.from, l.to, st, r.hdrFor(l.from, st, false, nil), 0, len(l.items)) ||
			!r.recv(l.to, l.from, st, r.hdrWant(l.from, st, false, nil), 0, len(l.items)) {
			return false
		}
	}
	return true
}

// ---- concurrent request/reply --------------------------------------------------------------

// c01RW is what a goroutine of a concurrent req/rep phase talks through: a
// context of a cooked socket, or the raw socket itself.
type c01RW interface {
	SendMsg(*mangos.Message) error
	RecvMsg() (*mangos.Message, error)
}

// concRR: a cooked requester runs 2-4 contexts, each with its own sequence of
// round trips, concurrently over the one connection; a raw requester pipelines
// all requests from one goroutine.  A cooked responder answers from 2-3
// contexts concurrently, a raw one from one goroutine.  Requests arriving at
// the responder are matched as a multiset; each reply must be byte-identical
// to the answer that belongs to the request it answers.
func (r *c01Run) concRR(sizes []int) bool {
	cs := &c01Conc{}
	reqLane := &c01Lane{from: r.A, to: r.B}
	repLane := &c01Lane{from: r.B, to: r.A}
	// A responder tells requests apart by their content only, so requests with
	// identical bodies (short ones, one-value fills) get identical answers.
	sameAs := map[string]*c01Item{}
	for i, n := range sizes {
		q := r.newItem(n, false)
		q.reply = r.newItem(sizes[len(sizes)-1-i], false)
		if first := sameAs[string(q.want)]; first != nil {
			q.reply.n, q.reply.want = first.reply.n, first.reply.want
		} else {
			sameAs[string(q.want)] = q
		}
		reqLane.items = append(reqLane.items, q)
		repLane.items = append(repLane.items, q.reply)
	}
	cs.lanes = []*c01Lane{reqLane, repLane}
	r.setProg(c01Progress{op: "recv", conc: cs})
	fail := func() { r.concFail.Store(true) }
	var closing atomic.Bool

	sendOn := func(rw c01RW, e *c01End, it *c01Item, hdr []byte) bool {
		m := mangos.NewMessage(it.n)
		m.Body = append(m.Body, it.want...)
		if e.raw {
			m.Header = append(m.Header, hdr...)
		} else if it.id%4 == 1 && c01CookedSetsHeader[e.proto] {
			m.Header = append(m.Header, byte(0x80|it.id>>24), byte(it.id>>16), byte(it.id>>8), byte(it.id))
			r.c.Count("sent_with_leftover_header", 1)
		}
		if err := rw.SendMsg(m); err != nil {
			m.Free()
			if !r.over.Load() && !closing.Load() {
				r.c.Inconclusive("%s Send of %d bytes (msg %08x) returned %v — message not accepted, nothing to compare", e.proto, it.n, it.id, err)
				r.abort.Store(true)
			}
			return false
		}
		r.c.Count("messages_sent", 1)
		return true
	}
	recvOn := func(rw c01RW) (c01Rx, error) {
		m, err := rw.RecvMsg()
		if err != nil {
			return c01Rx{}, err
		}
		x := c01Rx{body: append([]byte{}, m.Body...), hdr: append([]byte{}, m.Header...)}
		if m.Pipe != nil {
			x.pipe = m.Pipe.ID()
		}
		m.Free()
		return x, nil
	}

	// responder side
	pending := map[string][]*c01Item{} // request body -> requests not yet seen at B (under cs.mu)
	for _, q := range reqLane.items {
		pending[string(q.want)] = append(pending[string(q.want)], q)
	}
	serve := func(rw c01RW, max int) {
		for n := 0; max < 0 || n < max; n++ {
			x, err := recvOn(rw)
			if err != nil {
				if !closing.Load() && !r.over.Load() {
					r.c.Violate(fmt.Sprintf("c01/recv-error:%s:%s:%v", r.sp.Tr, r.route(r.A, r.B), err),
						"%s over %s, concurrent request phase: Recv returned %v although the messages were accepted by Send on the connected peer", r.route(r.A, r.B), r.sp.Tr, err)
					fail()
				}
				return
			}
			cs.mu.Lock()
			var q *c01Item
			if l := pending[string(x.body)]; len(l) > 0 {
				q, pending[string(x.body)] = l[0], l[1:]
			}
			var missing []*c01Item
			if q == nil {
				missing, _ = reqLane.outstanding()
			}
			reqLane.got = append(reqLane.got, x)
			cs.mu.Unlock()
			if q == nil {
				// a request that equals no outstanding one: compare with the one it claims to be (embedded ^id)
				it := reqLane.items[0]
				if len(missing) > 0 {
					it = missing[0]
				}
				if len(x.body) >= 12 {
					id := ^binary.BigEndian.Uint32(x.body[8:12])
					for _, o := range reqLane.items {
						if o.id == id {
							it = o
						}
					}
				}
				r.mismatch(r.B, r.A, it, x.body, fmt.Sprintf("%s over %s, concurrent request phase: a received request equals none of the accepted sends still outstanding (%d missing)", r.route(r.A, r.B), r.sp.Tr, len(missing)))
				fail()
				return
			}
			where := fmt.Sprintf("%s over %s, concurrent request phase (id %08x, %d bytes)", r.route(r.A, r.B), r.sp.Tr, q.id, q.n)
			if !r.accepted(r.B, r.A, q, x.hdr, x.pipe, r.hdrWant(r.A, q, false, nil), where) {
				fail()
				return
			}
			if !sendOn(rw, r.B, q.reply, r.hdrFor(r.B, q.reply, true, q)) {
				fail()
				return
			}
		}
	}
	var servers, askers sync.WaitGroup
	var bctx []mangos.Context
	if r.B.raw {
		servers.Add(1)
		go func() { defer servers.Done(); serve(r.B.sock, len(reqLane.items)) }()
		r.c.Count("concurrent_responder_goroutines", 1)
	} else {
		k := 2 + r.c.Rand.Intn(2)
		for i := 0; i < k; i++ {
			cx, err := r.B.sock.OpenContext()
			if err != nil {
				r.c.Inconclusive("setup: OpenContext on %s: %v", r.B.proto, err)
				r.abort.Store(true)
				return false
			}
			bctx = append(bctx, cx)
			servers.Add(1)
			go func() { defer servers.Done(); serve(cx, -1) }()
		}
		r.c.Count("concurrent_responder_goroutines", k)
	}

	// requester side
	gotReply := func(q *c01Item, x c01Rx) bool {
		cs.mu.Lock()
		repLane.got = append(repLane.got, x)
		cs.mu.Unlock()
		where := fmt.Sprintf("%s over %s, concurrent reply phase (reply id %08x, %d bytes, to request id %08x)", r.route(r.B, r.A), r.sp.Tr, q.reply.id, q.reply.n, q.id)
		if !bytes.Equal(x.body, q.reply.want) {
			r.mismatch(r.A, r.B, q.reply, x.body, where)
			return false
		}
		return r.accepted(r.A, r.B, q.reply, x.hdr, x.pipe, r.hdrWant(r.B, q.reply, true, q), where)
	}
	if r.A.raw {
		askers.Add(1)
		go func() {
			defer askers.Done()
			byRid := map[uint32]*c01Item{}
			for _, q := range reqLane.items {
				byRid[q.rid] = q
				if !sendOn(r.A.sock, r.A, q, r.hdrFor(r.A, q, false, nil)) {
					fail()
					return
				}
			}
			for range reqLane.items {
				x, err := recvOn(r.A.sock)
				if err != nil {
					if !r.over.Load() {
						r.c.Violate(fmt.Sprintf("c01/recv-error:%s:%s:%v", r.sp.Tr, r.route(r.B, r.A), err),
							"%s over %s, concurrent reply phase: Recv returned %v although the reply was accepted by Send on the connected peer", r.route(r.B, r.A), r.sp.Tr, err)
					}
					fail()
					return
				}
				// the raw requester tells replies apart by the id it put in the request header
				var q *c01Item
				if len(x.hdr) == 4 {
					q = byRid[binary.BigEndian.Uint32(x.hdr)]
					delete(byRid, binary.BigEndian.Uint32(x.hdr))
				}
				if q == nil {
					cs.mu.Lock()
					repLane.got = append(repLane.got, x)
					cs.mu.Unlock()
					r.c.Violate(fmt.Sprintf("c01/raw-header:%s:%s", r.sp.Tr, r.route(r.B, r.A)),
						"%s over %s, concurrent reply phase: raw-mode header of a received reply is %x; want the id of a request still unanswered", r.route(r.B, r.A), r.sp.Tr, x.hdr)
					fail()
					return
				}
				if !gotReply(q, x) {
					fail()
					return
				}
			}
		}()
		r.c.Count("concurrent_sender_goroutines", 1)
	} else {
		k := 2 + r.c.Rand.Intn(3)
		for i := 0; i < k; i++ {
			cx, err := r.A.sock.OpenContext()
			if err != nil {
				r.c.Inconclusive("setup: OpenContext on %s: %v", r.A.proto, err)
				r.abort.Store(true)
				return false
			}
			var mine []*c01Item
			for j := i; j < len(reqLane.items); j += k {
				mine = append(mine, reqLane.items[j])
			}
			askers.Add(1)
			go func() {
				defer askers.Done()
				defer cx.Close()
				for _, q := range mine {
					if !sendOn(cx, r.A, q, nil) {
						fail()
						return
					}
					x, err := recvOn(cx)
					if err != nil {
						if !r.over.Load() {
							r.c.Violate(fmt.Sprintf("c01/recv-error:%s:%s:%v", r.sp.Tr, r.route(r.B, r.A), err),
								"%s over %s, concurrent reply phase: Recv returned %v although the reply was accepted by Send on the connected peer", r.route(r.B, r.A), r.sp.Tr, err)
						}
						fail()
						return
					}
					if !gotReply(q, x) {
						fail()
						return
					}
				}
			}()
		}
		r.c.Count("concurrent_sender_goroutines", k)
	}
	askers.Wait()
	closing.Store(true)
	for _, cx := range bctx {
		cx.Close()
	}
	servers.Wait()
	if r.over.Load() || r.abort.Load() {
		return false
	}
	if r.concFail.Load() || r.c.Failed() {
		return false
	}
	r.c.Count("concurrent_messages_matched", len(reqLane.got)+len(repLane.got))
	// nothing extra is queued behind the phase: one more round trip on the sockets themselves
	q := r.newItem(r.sentinelSize(), true)
	q.reply = r.newItem(r.sentinelSize(), true)
	return r.send(r.A, r.B, q, r.hdrFor(r.A, q, false, nil), 0, len(sizes)) &&
		r.recv(r.B, r.A, q, r.hdrWant(r.A, q, false, nil), 0, len(sizes)) &&
		r.send(r.B, r.A, q.reply, r.hdrFor(r.B, q.reply, true, q), 0, len(sizes)) &&
		r.recv(r.A, r.B, q.reply, r.hdrWant(r.B, q.reply, true, q), 0, len(sizes))
}

// ---- headers (raw mode), read off each x-protocol's SendMsg / receiver ------------------

// hdrFor returns the header a raw sender e must supply for item it.
func (r *c01Run) hdrFor(e *c01End, it *c01Item, isReply bool, req *c01Item) []byte {
	switch r.pat.name {
	case "pair1", "star":
		return []byte{0, 0, 0, it.hop}
	case "bus":
		if it.foreign {
			return hx.Be32(e.w.firstID() ^ 0x2a5a5a5a) // any pipe but ours: delivered, header stripped
		}
		return nil
	case "reqrep", "survey":
		if isReply {
			return req.hdrSeen // xrep/xrespondent: exactly the header that came with the request
		}
		return hx.Be32(it.rid)
	}
	return nil
}

// hdrWant returns the check of the header a raw receiver must see.
func (r *c01Run) hdrWant(from *c01End, it *c01Item, isReply bool, req *c01Item) func([]byte, uint32) string {
	switch r.pat.name {
	case "pair", "pushpull", "pubsub":
		return func(got []byte, _ uint32) string {
			if len(got) != 0 {
				return "this protocol carries no header, want empty"
			}
			return ""
		}
	case "pair1", "star":
		hop := byte(0)
		if from.raw {
			hop = it.hop
		}
		return func(got []byte, _ uint32) string {
			if !bytes.Equal(got, []byte{0, 0, 0, hop + 1}) {
				return fmt.Sprintf("want 000000%02x (sender's hop count %d plus one)", hop+1, hop)
			}
			return ""
		}
	case "bus":
		return func(got []byte, pipe uint32) string {
			if !bytes.Equal(got, hx.Be32(pipe)) {
				return fmt.Sprintf("want the receiving pipe's id %08x", pipe)
			}
			return ""
		}
	case "reqrep", "survey":
		if isReply {
			rid := req.rid
			return func(got []byte, _ uint32) string {
				if !bytes.Equal(got, hx.Be32(rid)) {
					return fmt.Sprintf("want the request id %08x this raw socket sent", rid)
				}
				return ""
			}
		}
		rid, rawFrom := it.rid, from.raw
		return func(got []byte, pipe uint32) string {
			if len(got) != 8 || !bytes.Equal(got[:4], hx.Be32(pipe)) {
				return fmt.Sprintf("want 8 bytes: receiving pipe id %08x, then the request id", pipe)
			}
			if rawFrom && !bytes.Equal(got[4:], hx.Be32(rid)) {
				return fmt.Sprintf("want request id %08x as sent by the raw peer", rid)
			}
			if !rawFrom && got[4]&0x80 == 0 {
				return "want a request id with the top bit set"
			}
			return ""
		}
	}
	return nil
}

// ---- plan and script -----------------------------------------------------------------------

func (r *c01Run) newItem(n int, sentinel bool) *c01Item {
	r.seq++
	id := uint32(r.c.Idx&0xffff)<<16 | (r.seq & 0xffff)
	fill := 0
	val := byte(0)
	if !sentinel {
		switch x := r.c.Rand.Intn(20); {
		case x < 2:
			fill = 1
		case x < 4:
			fill = 2
		case x < 6:
			fill = 3
		case x < 8:
			fill = 4
			val = byte(r.c.Rand.Intn(256))
			if val == 0xDB {
				val = 0xDC
			}
		}
	}
	it := &c01Item{id: id, n: n, want: c01Body(id, n, fill, val), sentinel: sentinel,
		hop: byte(r.c.Rand.Intn(7)), foreign: r.c.Rand.Intn(3) == 0, rid: 0x80000000 | (id & 0x7fffffff)}
	r.all = append(r.all, it)
	return it
}

func (r *c01Run) sentinelSize() int {
	n := 24
	if r.sp.Limit > 0 && r.sp.Limit-r.pat.wireHdr < n {
		n = r.sp.Limit - r.pat.wireHdr
	}
	return n
}

type c01Burst struct {
	dir   int   // 0: A->B, 1: B->A, 2: both directions loaded before anything is received
	sizes []int // body sizes (requests, for req/rep patterns)
	rsz   []int // reply sizes (req/rep patterns)
}

func (r *c01Run) plan() []c01Burst {
	sizes := r.sp.Sizes
	rev := make([]int, len(sizes))
	for i, s := range sizes {
		rev[len(sizes)-1-i] = s
	}
	var out []c01Burst
	ramp := 0
	for i := 0; i < len(sizes); {
		n := 1
		switch r.sp.Shape {
		case "b2":
			n = 2
		case "b16":
			n = 16
		case "ramp":
			ramp = ramp%16 + 1
			n = ramp
		case "rand":
			n = 2 + r.c.Rand.Intn(15)
		}
		if sizes[i] > 65536+9 && n > 4 {
			n = 4 // keep at most ~4 MiB queued inside the library per direction
		}
		if i+n > len(sizes) {
			n = len(sizes) - i
		}
		b := c01Burst{sizes: sizes[i : i+n], rsz: rev[i : i+n]}
		if r.pat.kind == kDuplex {
			b.dir = r.c.Rand.Intn(3)
		}
		out = append(out, b)
		i += n
	}
	return out
}

// oneWay moves items from -> to, all sends first, then all receives (a burst back to back).
func (r *c01Run) sendAll(from, to *c01End, items []*c01Item, bi int) bool {
	for k, it := range items {
		if !r.send(from, to, it, r.hdrFor(from, it, false, nil), bi, k) {
			return false
		}
	}
	return true
}
func (r *c01Run) recvAll(from, to *c01End, items []*c01Item, bi int) bool {
	for k, it := range items {
		if !r.recv(to, from, it, r.hdrWant(from, it, false, nil), bi, k) {
			return false
		}
	}
	return true
}

func (r *c01Run) items(sizes []int) []*c01Item {
	var out []*c01Item
	for _, n := range sizes {
		out = append(out, r.newItem(n, false))
	}
	// the sentinel closes every burst: it must be the very next message after the burst's last one
	return append(out, r.newItem(r.sentinelSize(), true))
}

func (r *c01Run) script(plan []c01Burst) {
	if r.sp.Shape == "conc" {
		ok := false
		if r.pat.kind == kReqRep {
			ok = r.concRR(r.sp.Sizes)
		} else {
			ok = r.concPhase(r.sp.Sizes)
		}
		if !ok {
			return
		}
		r.c.Count("bursts", 1)
		r.mu.Lock()
		r.finished = true
		r.mu.Unlock()
		return
	}
	for bi, b := range plan {
		switch r.pat.kind {
		case kOneway, kDuplex:
			var ab, ba []*c01Item
			if b.dir == 0 || b.dir == 2 {
				ab = r.items(b.sizes)
			}
			if b.dir == 1 || b.dir == 2 {
				rv := append([]int{}, b.sizes...)
				if b.dir == 2 {
					for i, j := 0, len(rv)-1; i < j; i, j = i+1, j-1 {
						rv[i], rv[j] = rv[j], rv[i]
					}
				}
				ba = r.items(rv)
			}
			if !r.sendAll(r.A, r.B, ab, bi) || !r.sendAll(r.B, r.A, ba, bi) {
				return
			}
			if !r.recvAll(r.A, r.B, ab, bi) || !r.recvAll(r.B, r.A, ba, bi) {
				return
			}
		case kReqRep:
			reqs := r.items(b.sizes)
			for k, q := range reqs {
				n := r.sentinelSize()
				if k < len(b.rsz) {
					n = b.rsz[k]
				}
				q.reply = r.newItem(n, q.sentinel)
			}
			ask := func(k int) bool {
				return r.send(r.A, r.B, reqs[k], r.hdrFor(r.A, reqs[k], false, nil), bi, k)
			}
			take := func(k int) bool {
				return r.recv(r.B, r.A, reqs[k], r.hdrWant(r.A, reqs[k], false, nil), bi, k)
			}
			answer := func(k int) bool {
				return r.send(r.B, r.A, reqs[k].reply, r.hdrFor(r.B, reqs[k].reply, true, reqs[k]), bi, k)
			}
			get := func(k int) bool {
				return r.recv(r.A, r.B, reqs[k].reply, r.hdrWant(r.B, reqs[k].reply, true, reqs[k]), bi, k)
			}
			all := func(f func(int) bool) bool {
				for k := range reqs {
					if !f(k) {
						return false
					}
				}
				return true
			}
			switch {
			case r.A.raw && r.B.raw: // fully pipelined
				if !all(ask) || !all(take) || !all(answer) || !all(get) {
					return
				}
			case r.A.raw: // requests pipelined, the cooked responder answers one at a time
				if !all(ask) || !all(func(k int) bool { return take(k) && answer(k) }) || !all(get) {
					return
				}
			default: // a cooked requester has one request outstanding
				if !all(func(k int) bool { return ask(k) && take(k) && answer(k) && get(k) }) {
					return
				}
			}
		}
		r.c.Count("bursts", 1)
	}
	r.mu.Lock()
	r.finished = true
	r.mu.Unlock()
}

// ---- the case ------------------------------------------------------------------------------------

func c01Case(c *mon.Case, sp c01Spec) {
	r := c01Run1(c, sp)
	if r == nil {
		return
	}
	defer r.over.Store(true)
	plan := r.plan()
	call := mon.Go("c01-script", func() (interface{}, error) { r.script(plan); return nil, nil })
	dropped := func() bool { return r.A.w.det() > 0 || r.B.w.det() > 0 }
	res := mon.Await(func() bool { return call.Done() || dropped() || r.abort.Load() || r.concFail.Load() }, mon.AwaitOpts{Watchdog: 120 * time.Second})
	if r.abort.Load() || (r.concFail.Load() && (c.Failed() || c.Undecided())) {
		r.over.Store(true) // a Send was refused or a concurrent goroutine recorded its verdict; nothing more to decide
		return
	}
	p := r.getProg()
	// what was in flight when the wait ended (for a concurrent phase: the first message still missing)
	inflight := func() (from, at *c01End, it *c01Item, text string) {
		if p.conc != nil {
			p.conc.mu.Lock()
			defer p.conc.mu.Unlock()
			for _, l := range p.conc.lanes {
				missing, _ := l.outstanding()
				if len(missing) > 0 {
					var ms []string
					for k, m := range missing {
						if k < 6 {
							ms = append(ms, fmt.Sprintf("id %08x %d bytes", m.id, m.n))
						}
					}
					return l.from, l.to, missing[0], fmt.Sprintf("%s over %s, concurrent phase: %d of %d received, %d missing (%v)", r.route(l.from, l.to), sp.Tr, len(l.got), len(l.items), len(missing), ms)
				}
			}
			return r.A, r.B, nil, "concurrent phase, nothing missing"
		}
		if p.it == nil {
			return r.A, r.B, nil, "before the first message"
		}
		return p.from, p.at, p.it, fmt.Sprintf("%s over %s, burst %d message %d (id %08x, %d bytes, region %s), blocked in %s at %s", r.route(p.from, p.at), sp.Tr, p.burst, p.nth, p.it.id, p.it.n, c01Region(p.it.n), p.op, p.at.proto)
	}
	var pf, pa *c01End
	var pit *c01Item
	var ptext string
	where := func() string { return ptext }
	reg := func() string {
		if sp.Limit > 0 {
			return fmt.Sprintf("L%d", sp.Limit)
		}
		if pit == nil {
			return "-"
		}
		return c01Region(pit.n)
	}
	rt := func() string { return r.route(pf, pa) }
	pf, pa, pit, ptext = inflight()
	switch {
	case res.V == mon.Done && call.Done():
		// the script ended: completed, or stopped at a violation / inconclusive it recorded itself
	case res.V == mon.Done && !dropped():
		r.over.Store(true)
		c.Inconclusive("a goroutine of the concurrent phase gave up without recording why: %s", where())
		return
	case res.V == mon.Done:
		// a pipe went away under an open connection carrying only in-contract messages
		// (give the script a moment to finish on its own: the drop may have come after the last receive)
		res2 := mon.Await(call.Done, mon.AwaitOpts{Watchdog: 3 * time.Second})
		if res2.V == mon.Done {
			break
		}
		p = r.getProg()
		pf, pa, pit, ptext = inflight()
		r.over.Store(true)
		c.Violate(fmt.Sprintf("c01/conn-dropped:%s:%s:%s", sp.Tr, rt(), reg()),
			"the connection was dropped (pipes detached: A=%d B=%d) while only in-contract messages were in flight (MaxRecvSize %d, wire header %d); not delivered: %s",
			r.A.w.det(), r.B.w.det(), sp.Limit, r.pat.wireHdr, where())
		return
	case res.V == mon.Stuck:
		r.over.Store(true)
		c.Violate(fmt.Sprintf("c01/%s-stuck:%s:%s:%s", p.op, sp.Tr, rt(), reg()),
			"a message accepted by Send was never returned by Recv on the connected peer: %s; every goroutine parked, identical over 5 samples after %v\n%s", where(), res.Waited, res.Dump)
		return
	default:
		r.over.Store(true)
		c.Inconclusive("script not finished after %v, process still active: %s", res.Waited, where())
		return
	}
	r.mu.Lock()
	fin := r.finished
	var regs []string
	for k := range r.regions {
		regs = append(regs, k)
	}
	r.mu.Unlock()
	if !fin {
		return
	}
	for _, g := range regs {
		c.Sig("%s|%s|%s|%s|%s", sp.Tr, sp.Pat, sp.Mode, g, sp.Shape)
	}
	if sp.Limit > 0 {
		c.Sig("%s|%s|%s|L%d|%s", sp.Tr, sp.Pat, sp.Mode, sp.Limit, sp.Via)
	}
	c.Nontrivial()
	if sp.Limit > 0 && sp.Tr != "inproc" && sp.Flip {
		// only where the receiver B is the listening end: the end that rejects closes first (see teardown)
		r.overLimitProbe()
	}
}

// overLimitProbe is evidence only (no verdict either way): one message whose
// total is limit+1 goes A -> B; a receiver that enforces the limit drops the
// connection.  It shows the limit of the limit-sized cases was really in force.
func (r *c01Run) overLimitProbe() {
	n := r.sp.Limit + 1 - r.pat.wireHdr
	it := &c01Item{id: 0xffff0000 | uint32(r.c.Idx&0xffff), n: n, hop: 0, rid: 0x80000001}
	it.want = c01Body(it.id, n, 0, 0)
	det0 := r.B.w.det()
	r.over.Store(true) // from here on nothing is a verdict
	call := mon.Go("c01-overlimit-send", func() (interface{}, error) {
		m := mangos.NewMessage(n)
		m.Body = append(m.Body, it.want...)
		if r.A.raw {
			m.Header = append(m.Header, r.hdrFor(r.A, it, false, nil)...)
		}
		if err := r.A.sock.SendMsg(m); err != nil {
			m.Free()
		}
		return nil, nil
	})
	res := mon.Await(func() bool { return call.Done() && r.B.w.det() > det0 }, mon.AwaitOpts{Watchdog: 4 * time.Second})
	if res.V == mon.Done {
		r.c.Count("overlimit_probe_rejected", 1)
	} else {
		r.c.Count("overlimit_probe_not_rejected", 1)
	}
}
