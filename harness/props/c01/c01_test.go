package c01

import (
	"math/rand"
	"sort"
	"testing"

	"verifharness/hx"
	"verifharness/mon"
)

// C01 — messages arrive byte-identical and whole over every transport.
//
// One case = one (transport, pattern, mode, listener side, size list, burst
// shape) configuration on a fresh 1:1 connection over a real transport.  The
// case list is a function of (VERIF_SEED, tier) only; the sizes a case sends
// are part of its spec.

type c01Spec struct {
	Tr    string `json:"tr"`              // inproc ipc tcp tls+tcp ws wss
	Pat   string `json:"pat"`             // pair pair1 bus star pushpull pubsub reqrep survey
	Mode  string `json:"mode"`            // cooked | raw | rawA | rawB   (which ends are raw sockets)
	Flip  bool   `json:"flip"`            // false: side A listens and B dials; true: B listens, A dials
	Set   string `json:"set"`             // what the size list is about (evidence label)
	Limit int    `json:"limit,omitempty"` // MaxRecvSize put on both sockets before connecting (0: library default 1 MiB; -1: option value 0 = no limit)
	Via   string `json:"via,omitempty"`   // sock: Socket.SetOption before NewListener/NewDialer; ep: option map of the listener/dialer
	Shape string `json:"shape"`           // b1 b2 b16 ramp rand: how the list is cut into back-to-back bursts; conc: concurrent sender goroutines
	API   string `json:"api"`             // bytes: Send/Recv on cooked ends; msg: SendMsg/RecvMsg
	Sizes []int  `json:"sizes"`           // body lengths in send order (replies of req/rep patterns use the list reversed)
	Chop  bool   `json:"chop,omitempty"`  // the connection runs through hx.ChopRelay: both byte streams arrive re-segmented into PRNG-sized pieces
}

const mib = 1 << 20

var c01Classes = []int{64, 128, 256, 512, 1024, 4096, 8192, 65536}
var c01Limits = []int{1, 64, 100, 4096, 65536, mib}
var c01Shapes = []string{"b1", "b2", "b16", "ramp", "rand"}

func TestMain(m *testing.M) { hx.Main(m) }

func TestC01(t *testing.T) {
	r := mon.NewRunner(t, "C01")
	cases := c01Cases(r)
	r.Run(cases, func(c *mon.Case) { c01Case(c, c.Spec.(c01Spec)) })
}

// ---- case list ----------------------------------------------------------------

func c01Order(rnd *rand.Rand, sizes []int) []int {
	out := append([]int{}, sizes...)
	switch rnd.Intn(5) {
	case 0:
		sort.Ints(out)
	case 1:
		sort.Sort(sort.Reverse(sort.IntSlice(out)))
	case 2: // zigzag: largest, smallest, second largest, ...
		sort.Ints(out)
		z := make([]int, 0, len(out))
		for i, j := 0, len(out)-1; i <= j; i, j = i+1, j-1 {
			z = append(z, out[j])
			if i != j {
				z = append(z, out[i])
			}
		}
		out = z
	default:
		rnd.Shuffle(len(out), func(i, j int) { out[i], out[j] = out[j], out[i] })
	}
	return out
}

// c01RandSize draws a size log-uniformly from 0..2^(bits-1) (so every pool
// class region and the un-pooled region above 64 KiB are hit), capped at max.
func c01RandSize(rnd *rand.Rand, nbits, max int) int {
	bits := rnd.Intn(nbits + 1)
	n := 0
	if bits == 0 {
		n = rnd.Intn(2)
	} else {
		n = 1<<(bits-1) + rnd.Intn(1<<(bits-1))
	}
	if n > max {
		n = max - rnd.Intn(64)
	}
	return n
}

func c01Chunk(sizes []int, n int) [][]int {
	var out [][]int
	for len(sizes) > n {
		out = append(out, sizes[:n])
		sizes = sizes[n:]
	}
	if len(sizes) > 0 {
		out = append(out, sizes)
	}
	return out
}

func c01Cases(r *mon.Runner) []mon.CaseSpec {
	rnd := r.Rand()
	var cases []mon.CaseSpec
	add := func(sp c01Spec) {
		// every fourth case over a stream transport goes through the re-segmenting relay
		sp.Chop = sp.Tr != "inproc" && len(cases)%4 == 1
		name := sp.Tr + "/" + sp.Pat + "/" + sp.Mode + "/" + sp.Set
		if sp.Chop {
			name += "/chop"
		}
		cases = append(cases, mon.CaseSpec{Name: name, Spec: sp})
	}
	base := func(tr, pat, mode string) c01Spec {
		return c01Spec{Tr: tr, Pat: pat, Mode: mode, Flip: rnd.Intn(2) == 0,
			Shape: c01Shapes[rnd.Intn(len(c01Shapes))], API: []string{"bytes", "msg"}[rnd.Intn(2)]}
	}
	limitSizes := func(maxBody int) []int {
		if maxBody+4 >= mib {
			return []int{maxBody - 1, maxBody, maxBody}
		}
		s := []int{maxBody, maxBody}
		if maxBody > 0 {
			s = append(s, maxBody-1, maxBody-1)
		}
		for i := 0; i < 3; i++ {
			s = append(s, rnd.Intn(maxBody+1))
		}
		rnd.Shuffle(len(s), func(i, j int) { s[i], s[j] = s[j], s[i] })
		return append(s, maxBody) // the last data message of the case is limit-sized as well
	}
	// tier parameters (counts, never time budgets)
	classReps := r.Pick(2, 12)
	sweeps := [][2]int{{0, 600}}
	nRnd, rndBits := r.Pick(80, 600), r.Pick(19, 21) // sizes to 256 KiB / 1 MiB
	nConc := r.Pick(2, 10)
	mibKs := []int{0, -1} // -1: a PRNG k in 1..12
	if r.Thorough() {
		sweeps = [][2]int{{0, 2100}, {3896, 4296}, {7992, 8392}, {65336, 65736}}
		mibKs = []int{0, 1, 2, 3, 4, 5, 6, 7, 8, 9, 10, 11, 12}
	}
	cfg := 0
	for _, tr := range hx.Transports {
		for _, pd := range c01Pats {
			modes := []string{"cooked", "raw", []string{"rawA", "rawB"}[rnd.Intn(2)]}
			if r.Thorough() {
				modes = []string{"cooked", "raw", "rawA", "rawB"}
			}
			for _, mode := range modes {
				cfg++
				sizeCases := func(set string, all []int, per int) {
					rnd.Shuffle(len(all), func(i, j int) { all[i], all[j] = all[j], all[i] })
					for _, ch := range c01Chunk(all, per) {
						sp := base(tr, pd.name, mode)
						sp.Set, sp.Sizes = set, c01Order(rnd, ch)
						add(sp)
					}
				}
				// every pool class at -9..+9 (header-shifted totals 4, 8, 12 bytes off a class are hit too) and 0..9
				for rep := 0; rep < classReps; rep++ {
					var all []int
					for s := 0; s <= 9; s++ {
						all = append(all, s)
					}
					for _, cl := range c01Classes {
						for o := -9; o <= 9; o++ {
							all = append(all, cl+o)
						}
					}
					sizeCases("classes", all, 41)
				}
				// every length in a window (contiguous sweep)
				var sw []int
				for _, w := range sweeps {
					for s := w[0]; s <= w[1]; s++ {
						sw = append(sw, s)
					}
				}
				sizeCases("sweep", sw, 43)
				// PRNG sizes
				var rs []int
				for i := 0; i < nRnd; i++ {
					rs = append(rs, c01RandSize(rnd, rndBits, mib-pd.wireHdr))
				}
				sizeCases("rnd", rs, 40)
				// concurrent senders: 2-4 goroutines per sending end (req/rep patterns: contexts)
				{
					for i := 0; i < nConc; i++ {
						sp := base(tr, pd.name, mode)
						sp.Set, sp.Shape = "conc", "conc"
						for k := 0; k < 36; k++ {
							if k%3 == 0 {
								cl := c01Classes[rnd.Intn(len(c01Classes))]
								sp.Sizes = append(sp.Sizes, cl-9+rnd.Intn(19))
							} else {
								sp.Sizes = append(sp.Sizes, c01RandSize(rnd, 18, mib-pd.wireHdr))
							}
						}
						add(sp)
					}
				}
				// receive limits: totals L-1 and L
				if r.Thorough() {
					for _, L := range c01Limits {
						if L < pd.wireHdr {
							continue
						}
						for _, via := range []string{"sock", "ep"} {
							if via == "ep" && tr == "inproc" {
								continue // inproc endpoints know no options at all
							}
							sp := base(tr, pd.name, mode)
							sp.Set, sp.Limit, sp.Via = "limit", L, via
							sp.Sizes = limitSizes(L - pd.wireHdr)
							add(sp)
						}
					}
					// a limit that is no power of two and larger than the default; and no limit at all
					L := 3000000 + rnd.Intn(1000)
					sp := base(tr, pd.name, mode)
					sp.Set, sp.Limit, sp.Via = "limit", L, c01Via(rnd, tr)
					sp.Sizes = []int{L - pd.wireHdr, mib + 1 + rnd.Intn(1000), L - pd.wireHdr - 1, L - pd.wireHdr}
					add(sp)
					sp = base(tr, pd.name, mode)
					sp.Set, sp.Limit, sp.Via = "unlimited", -1, c01Via(rnd, tr)
					sp.Sizes = []int{mib + 1 - pd.wireHdr, 2*mib + 3 + rnd.Intn(1000), mib - pd.wireHdr}
					add(sp)
				} else {
					// two limits per configuration, rotating so that every L meets every transport and pattern
					n := 0
					for k := 0; k < len(c01Limits) && n < 2; k++ {
						L := c01Limits[(cfg*2+k)%len(c01Limits)]
						if L < pd.wireHdr {
							continue
						}
						sp := base(tr, pd.name, mode)
						sp.Set, sp.Limit, sp.Via = "limit", L, c01Via(rnd, tr)
						sp.Sizes = limitSizes(L - pd.wireHdr)
						add(sp)
						n++
					}
				}
				// no limit at all (both tiers): totals on and around whole multiples of 64 KiB, the unit in
				// which an unlimited receive path may read a large body, and one total above the default limit of 1 MiB
				// ("no limit" must not quietly mean "the default limit")
				{
					sp := base(tr, pd.name, mode)
					sp.Set, sp.Limit, sp.Via = "unlimited", -1, c01Via(rnd, tr)
					k := 2 + rnd.Intn(3)
					sp.Sizes = []int{k*65536 - pd.wireHdr, 2*65536 - pd.wireHdr - 1, 2*65536 - pd.wireHdr + 1, 65536 - pd.wireHdr, (5+rnd.Intn(4))*65536 - pd.wireHdr, mib + 1 + rnd.Intn(1000), 100 + rnd.Intn(1000)}
					add(sp)
				}
				// the default 1 MiB limit: totals 1 MiB-12 .. 1 MiB
				var ks []int
				for _, k := range mibKs {
					if k < 0 {
						k = 1 + rnd.Intn(12)
					}
					ks = append(ks, k)
				}
				rnd.Shuffle(len(ks), func(i, j int) { ks[i], ks[j] = ks[j], ks[i] })
				for _, ch := range c01Chunk(ks, 4) {
					sp := base(tr, pd.name, mode)
					sp.Set = "mib-boundary"
					for _, k := range ch {
						sp.Sizes = append(sp.Sizes, mib-pd.wireHdr-k)
					}
					add(sp)
				}
			}
		}
	}
	return cases
}

func c01Via(rnd *rand.Rand, tr string) string {
	if tr != "inproc" && rnd.Intn(2) == 0 {
		return "ep" // inproc endpoints know no options at all; the socket-level option is the only way there
	}
	return "sock"
}
