package props

import "runtime"

func runtimeGosched() { runtime.Gosched() }
