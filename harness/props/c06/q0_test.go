package c06

import (
	"fmt"
	"sync/atomic"

	"go.nanomsg.org/mangos/v3"

	"verifharness/mon"
)

// ---- neighbours of a context that cannot take a message ----------------------
//
// "Contexts do not affect one another", "losing some only when a queue
// overflows": on every SUB socket a non-empty set of contexts (possibly the
// socket itself) is made "short": ReadQLen 0 (an accepted value: an unbuffered
// queue, a message is handed over only to a Recv that is already waiting) or a
// queue of 1-2 that the burst overflows.  A short context is either left unread
// or has a Recv loop running on it.  The other contexts of the socket keep the
// default queue (never near full) and subscribe to overlapping topics.
//
//   - every neighbour (and the witness) is exact, as in seq: whatever happens to
//     a message at a short context, it is still offered to all the others;
//   - what a short context delivers is, per publisher, an order-preserving
//     duplicate-free subsequence of its matching messages, unmodified;
//   - at the end of a round every short context gets ReadQLen 4 and one sentinel
//     per publisher is published: a queue with room, so the sentinel must be
//     delivered (this also ends the Recv loops without any deadline).

const q0Tag = "/beside-short-queue-context"

type shortM struct {
	cx     *ctxM
	q      int
	reader bool
	st     *rxState
	call   *mon.Call
	want   [][][]byte // per publisher: matching messages of the round, in order
}

func runQ0(c *mon.Case, sp spec) {
	g := newRig(c, sp)
	if g == nil || c.Failed() {
		return
	}
	g.lossTag = q0Tag
	r := c.Rand
	// who is short: on socket 0 always, on the others usually; at least one context of every
	// socket besides the witness stays a normal neighbour.
	short := map[*ctxM]bool{}
	var shorts []*shortM
	for si, ss := range g.socks {
		if si > 0 && r.Intn(4) == 0 {
			continue
		}
		perm := r.Perm(len(ss.ctxs))
		k := 1 + r.Intn(len(ss.ctxs)-1)
		for _, i := range perm[:k] {
			short[ss.ctxs[i]] = true
			shorts = append(shorts, &shortM{cx: ss.ctxs[i]})
		}
	}
	// subscriptions: a topic shared by most contexts of a socket, the sentinel family, some others
	for _, ss := range g.socks {
		shared := randTopic(r)
		for _, cx := range ss.ctxs {
			if short[cx] || r.Intn(100) < 80 {
				if !g.subscribe(cx, sentTopic) {
					return
				}
			}
			if r.Intn(100) < 75 {
				if !g.subscribe(cx, shared) {
					return
				}
			}
			for k := r.Intn(3); k > 0; k-- {
				if !g.subscribe(cx, randTopic(r)) {
					return
				}
			}
		}
	}
	var live []*ctxM
	for _, cx := range g.subjects() {
		if !short[cx] {
			live = append(live, cx)
		}
	}
	setQ := func(cx *ctxM, q int) bool {
		_, err, ok := g.call("SetOption ReadQLen "+cx.name, "sub/setoption-stuck:READQ-LEN", 0, func() (interface{}, error) {
			return nil, cx.api.SetOption(mangos.OptionReadQLen, q)
		})
		if !ok {
			return false
		}
		if err != nil {
			c.Violate("sub/readqlen-rejected", "%s: SetOption(ReadQLen,%d) returned %v", cx.name, q, err)
			return false
		}
		return true
	}
	forget := func(cx *ctxM) {
		for p := range cx.pend {
			cx.pend[p] = nil
		}
		cx.offered = 0
	}
	drainLive := func() bool {
		if !g.sync() {
			return false
		}
		for _, cx := range live {
			if !g.drain(cx) {
				return false
			}
		}
		return true
	}
	sig := fmt.Sprintf("q0|%s|%d|%d|%d", sp.Tr, sp.NPub, sp.NSub, sp.NCtx)
	for round := 0; round < sp.Steps && !c.Failed() && !c.Undecided(); round++ {
		if round > 0 {
			for k := r.Intn(3); k > 0; k-- {
				if !randomOp(g, live[r.Intn(len(live))]) {
					return
				}
			}
		}
		var stopID atomic.Int32
		seenStop := func(got [][]byte) bool {
			id := int(stopID.Load())
			if id == 0 {
				return false
			}
			seen := 0
			for _, b := range got {
				if isSentinel(b) && sentID(b) == id {
					seen++
				}
			}
			return seen >= sp.NPub
		}
		for _, sh := range shorts {
			sh.q = []int{0, 0, 0, 0, 1, 2}[r.Intn(6)]
			sh.reader = r.Intn(3) == 0
			sh.st, sh.call = &rxState{}, nil
			if !setQ(sh.cx, sh.q) {
				return
			}
			forget(sh.cx)
			if sh.reader {
				cx, st := sh.cx, sh.st
				useMsg := r.Intn(2) == 0
				sh.call = mon.Go("Recv loop "+cx.name, func() (interface{}, error) {
					for {
						b, err := g.recvOne(cx, useMsg)
						if err != nil {
							return nil, err
						}
						st.mu.Lock()
						st.got = append(st.got, b)
						done := seenStop(st.got)
						st.mu.Unlock()
						if done {
							return nil, nil
						}
					}
				})
				if r.Intn(2) == 0 {
					sh.call.ParkedIn("RecvMsg") // usually, not always, the burst finds the Recv already waiting
				}
			}
		}
		// the burst
		batches := make([][][]byte, sp.NPub)
		for p := range batches {
			batches[p] = g.genBatch(p, []int{1, 3, 8, 12, 20}[r.Intn(5)], topicsInUse(g.subjects()))
		}
		if _, ok := g.publish(batches); !ok {
			return
		}
		sharedUnread, sharedAny := 0, 0
		for _, sh := range shorts {
			sh.want = make([][][]byte, sp.NPub)
			for p := range sh.cx.pend {
				sh.want[p] = append([][]byte{}, sh.cx.pend[p]...)
				for _, b := range sh.want[p] {
					for _, cx := range g.socks[sh.cx.sock].ctxs {
						if !short[cx] && !cx.closed && cx.wants(b) {
							sharedAny++
							if sh.q == 0 && !sh.reader && !isSentinel(b) {
								sharedUnread++
							}
							break
						}
					}
				}
			}
			forget(sh.cx)
		}
		// every neighbour is exact
		if !drainLive() {
			return
		}
		// room for the barrier, then the barrier
		for _, sh := range shorts {
			if !setQ(sh.cx, 4) {
				return
			}
		}
		stopID.Store(int32(g.step + 1))
		id, ok := g.publish(nil)
		if !ok {
			return
		}
		if id != int(stopID.Load()) {
			c.Inconclusive("harness: barrier id %d, announced %d", id, stopID.Load())
			return
		}
		for _, sh := range shorts {
			forget(sh.cx)
		}
		if !drainLive() {
			return
		}
		for _, sh := range shorts {
			sh := sh
			judge := func(got [][]byte, complete bool, dump string) bool {
				gotP := make([][][]byte, sp.NPub)
				for _, d := range got {
					p := attribute(d, sp.NPub)
					if p < 0 || !g.hist[p][string(d)] {
						c.Violate("sub/delivered-unpublished", "%s (ReadQLen %d) delivered %x, which no publisher sent (modified or invented)", sh.cx.name, sh.q, d)
						return false
					}
					gotP[p] = append(gotP[p], d)
				}
				for p := range gotP {
					wantAll := append(append([][]byte{}, sh.want[p]...), g.sentinel(p, id))
					if !isSubsequence(gotP[p], wantAll) {
						c.Violate(fmt.Sprintf("sub/short-queue-not-a-subsequence:q%d", sh.q), "%s (ReadQLen %d, Recv loop %v, subscriptions %s): delivered from pub%d %s is not an order-preserving duplicate-free subsequence of the matching messages %s", sh.cx.name, sh.q, sh.reader, hexs(sh.cx.subs), p, hexs(gotP[p]), hexs(wantAll))
						return false
					}
				}
				if !complete {
					c.Violate("sub/short-queue-barrier-not-delivered", "%s (ReadQLen %d during the burst, then 4; Recv loop %v): Recv is blocked after %s; the sentinels %d sent into a queue with room were not all delivered\n%s", sh.cx.name, sh.q, sh.reader, hexs(got), id, dump)
					return false
				}
				return true
			}
			var got [][]byte
			if sh.reader {
				res := mon.Await(sh.call.Done, mon.AwaitOpts{})
				switch res.V {
				case mon.Done:
					if _, err, _ := sh.call.Result(); err != nil {
						c.Violate("sub/recv-error", "%s: Recv on an open receiver without deadline returned %v after %d messages", sh.cx.name, err, len(sh.st.snapshot()))
						return
					}
					got = sh.st.snapshot()
				case mon.Stuck:
					judge(sh.st.snapshot(), false, res.Dump)
					return
				default:
					c.Inconclusive("%s: Recv loop not finished after %v, process still active", sh.cx.name, res.Waited)
					return
				}
			} else {
				var ok bool
				got, ok = g.recvUntil(sh.cx, seenStop, func(got [][]byte, dump string) { judge(got, false, dump) })
				if !ok {
					return
				}
			}
			if !judge(got, true, "") {
				return
			}
			nw := 0
			for p := range sh.want {
				nw += len(sh.want[p])
			}
			c.Count("deliveries_compared", len(got))
			c.Count("q0_short_context_rounds", 1)
			c.Count("q0_short_context_delivered", len(got)-sp.NPub)
			c.Count("q0_short_context_lost", nw-(len(got)-sp.NPub))
			if sh.q == 0 {
				if sh.reader {
					c.Count("q0_rendezvous_delivered", len(got)-sp.NPub)
				} else {
					c.Count("q0_unread_rounds", 1)
				}
			}
			mode := "u"
			if sh.reader {
				mode = "r"
			}
			sig += fmt.Sprintf("|%s:q%d%s:%d-%d", sh.cx.name, sh.q, mode, nw, nw-(len(got)-sp.NPub))
		}
		c.Count("q0_messages_shared_with_neighbour", sharedAny)
		c.Count("q0_unread_zero_queue_shared_with_neighbour", sharedUnread)
		if sharedUnread > 0 {
			// a message matched an unread zero-length-queue context and a neighbour, and the neighbour delivered it
			c.Nontrivial()
		}
	}
	if c.Failed() || c.Undecided() {
		return
	}
	g.checkKept()
	c.Sig("%s", sig)
}
