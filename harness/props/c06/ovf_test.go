package c06

import (
	"fmt"
	"time"

	"go.nanomsg.org/mangos/v3"

	"verifharness/mon"
)

// ---- SUB-side overflow ------------------------------------------------------
//
// One context (the subject) gets a short queue (ReadQLen q >= 1; q = 0 is the
// subject of the q0 kind, q0_test.go) and is not read while a burst longer than q arrives.
// A second context on the same socket keeps the default queue and must stay
// exact.  What the subject delivers must be an order-preserving,
// duplicate-free subsequence of its matching messages; if no more than q
// matched, nothing may be lost.  The barrier after an overflow is a second
// sentinel sent when the subject's queue is known to have room (one message
// was taken out and nothing is in flight), so that sentinel cannot be lost by
// any queue discipline.

func runOvfSub(c *mon.Case, sp spec) {
	g := newRig(c, sp)
	if g == nil || c.Failed() {
		return
	}
	r := c.Rand
	ss := g.socks[0]
	subject, other := ss.ctxs[0], ss.ctxs[1]
	if r.Intn(2) == 0 {
		subject, other = other, subject
	}
	for _, cx := range []*ctxM{subject, other} {
		if !g.subscribe(cx, sentTopic) {
			return
		}
		for k := 1 + r.Intn(2); k > 0; k-- {
			if !g.subscribe(cx, randTopic(r)) {
				return
			}
		}
	}
	sig := fmt.Sprintf("ovf-sub|%s|%s", sp.Tr, subject.name)
	for round := 0; round < sp.Steps && !c.Failed() && !c.Undecided(); round++ {
		q := []int{1, 1, 2, 3, 5, 8}[r.Intn(6)]
		if _, err, ok := g.call("SetOption ReadQLen", "sub/setoption-stuck:READQ-LEN", 0, func() (interface{}, error) {
			return nil, subject.api.SetOption(mangos.OptionReadQLen, q)
		}); !ok {
			return
		} else if err != nil {
			c.Violate("sub/readqlen-rejected", "%s: SetOption(ReadQLen,%d) returned %v", subject.name, q, err)
			return
		}
		if round > 0 && r.Intn(2) == 0 {
			if !randomOp(g, subject) {
				return
			}
			if refIndex(subject.subs, sentTopic) < 0 && !g.subscribe(subject, sentTopic) {
				return
			}
		}
		n := q + 1 + r.Intn(30)
		if r.Intn(5) == 0 {
			n = r.Intn(q + 1) // sometimes a burst that fits
		}
		inUse := topicsInUse([]*ctxM{subject})
		if len(inUse) == 0 {
			inUse = topicsInUse([]*ctxM{other})
		}
		if _, ok := g.publish([][][]byte{g.genBatch(0, n, inUse)}); !ok {
			return
		}
		if !g.sync() || !g.drain(other) {
			return
		}
		want := append([][]byte{}, subject.pend[0]...)
		if len(want) <= q {
			// cannot have overflowed: exact
			if !g.drain(subject) {
				return
			}
			c.Count("ovf_rounds_without_overflow", 1)
			sig += fmt.Sprintf("|q%d:%d=", q, len(want))
			continue
		}
		// overflowed.  Take one message out, then send the barrier.
		subject.pend[0] = nil
		subject.offered = 0
		judgeSub := func(got [][]byte, complete bool, dump string, wantAll [][]byte) bool {
			for _, d := range got {
				if !g.hist[0][string(d)] {
					c.Violate("sub/delivered-unpublished", "%s delivered %x, which no publisher sent", subject.name, d)
					return false
				}
			}
			if !isSubsequence(got, wantAll) {
				c.Violate("sub/overflow-not-a-subsequence", "%s (ReadQLen %d, subscriptions %s): delivered %s is not an order-preserving duplicate-free subsequence of the matching messages %s", subject.name, q, hexs(subject.subs), hexs(got), hexs(wantAll))
				return false
			}
			if !complete {
				c.Violate("sub/overflow-barrier-not-delivered", "%s (ReadQLen %d): Recv blocked after %s; the barrier sentinel sent into a queue with room was not delivered\n%s", subject.name, q, hexs(got), dump)
				return false
			}
			return true
		}
		first, ok := g.recvUntil(subject, func(got [][]byte) bool { return true },
			func(got [][]byte, dump string) {
				c.Violate("sub/overflow-queue-empty", "%s (ReadQLen %d): %d matching messages arrived, the queue overflowed, and Recv finds nothing\n%s", subject.name, q, len(want), dump)
			})
		if !ok {
			return
		}
		id, ok := g.publish(nil)
		if !ok {
			return
		}
		if !g.sync() || !g.drain(other) {
			return
		}
		barrier := g.sentinel(0, id)
		subject.pend[0] = nil
		subject.offered = 0
		wantAll := append(want, barrier)
		rest, ok := g.recvUntil(subject, func(got [][]byte) bool { return refEqual(got[len(got)-1], barrier) },
			func(got [][]byte, dump string) {
				judgeSub(append(append([][]byte{}, first...), got...), false, dump, wantAll)
			})
		if !ok {
			return
		}
		got := append(append([][]byte{}, first...), rest...)
		if !judgeSub(got, true, "", wantAll) {
			return
		}
		lost := len(wantAll) - len(got)
		c.Count("ovf_sub_rounds_overflowed", 1)
		c.Count("ovf_sub_delivered", len(got))
		c.Count("ovf_sub_lost", lost)
		c.Count("deliveries_compared", len(got))
		if lost > 0 {
			c.Nontrivial()
		}
		sig += fmt.Sprintf("|q%d:%d-%d", q, len(wantAll), lost)
	}
	if c.Failed() || c.Undecided() {
		return
	}
	g.checkKept()
	c.Sig("%s", sig)
}

// ---- PUB-side overflow ------------------------------------------------------
//
// The PUB socket has a short per-subscriber send queue (WriteQLen w >= 1).
//   lossless round: from a drained state, w-1 messages + sentinel cannot
//     overflow the send queue -> every context is exact;
//   blast round: a burst much longer than w is sent in a tight loop; then
//     flush sentinels are sent (re-sent while the witness's deadline-paced Recv
//     does not see the newest one — pacing only, never a verdict) until every
//     socket's witness has the same flush sentinel.  Every context must have
//     delivered an order-preserving duplicate-free subsequence of
//     (its matching burst messages ++ flush sentinels) ending with that flush
//     sentinel, and two contexts of one socket must agree on every message that
//     matches both (their own queues cannot have overflowed).

const flushPace = 15 * time.Millisecond

func runOvfPub(c *mon.Case, sp spec) {
	g := newRig(c, sp)
	if g == nil || c.Failed() {
		return
	}
	r := c.Rand
	for _, cx := range g.subjects() {
		if !g.subscribe(cx, sentTopic) {
			return
		}
		if r.Intn(3) == 0 {
			if !g.subscribe(cx, []byte{}) {
				return
			}
		}
		for k := 1 + r.Intn(2); k > 0; k-- {
			if !g.subscribe(cx, randTopic(r)) {
				return
			}
		}
	}
	sig := fmt.Sprintf("ovf-pub|%s|w%d|%d|%d", sp.Tr, sp.WQ, sp.NSub, sp.NCtx)
	for round := 0; round < sp.Steps && !c.Failed() && !c.Undecided(); round++ {
		// lossless round
		if _, ok := g.publish([][][]byte{g.genBatch(0, sp.WQ-1, topicsInUse(g.subjects()))}); !ok {
			return
		}
		if !g.sync() {
			return
		}
		for _, cx := range g.subjects() {
			if !g.drain(cx) {
				return
			}
		}
		c.Count("ovf_pub_lossless_rounds", 1)
		// blast
		n := 20 + r.Intn(31)
		blast := g.genBatch(0, n, topicsInUse(g.subjects()))
		var items []sendItem
		for _, b := range blast {
			items = append(items, sendItem{0, b})
		}
		if !g.send(items) {
			return
		}
		// flush
		var flushes [][]byte
		lastSeen := make([]int, len(g.socks)) // index into flushes (1-based) of the newest flush sentinel seen by each witness
		flushed := false
		for tries := 0; tries < 50 && !flushed; tries++ {
			g.step++
			f := g.sentinel(0, g.step)
			flushes = append(flushes, f)
			if !g.send([]sendItem{{0, f}}) {
				return
			}
			flushed = true
			for si, ss := range g.socks {
				if lastSeen[si] == len(flushes) {
					continue
				}
				wit := ss.wit
				if _, err, ok := g.call("SetOption RecvDeadline", "sub/setoption-stuck:RECV-DEADLINE", 0, func() (interface{}, error) {
					return nil, wit.api.SetOption(mangos.OptionRecvDeadline, flushPace)
				}); !ok || err != nil {
					c.Inconclusive("witness deadline: %v", err)
					return
				}
				for lastSeen[si] < len(flushes) {
					v, err, ok := g.call("witness Recv", "sub/recv-deadline-stuck", flushPace, func() (interface{}, error) { return wit.api.Recv() })
					if !ok {
						return
					}
					if err == mangos.ErrRecvTimeout {
						break
					}
					if err != nil {
						c.Violate("sub/recv-error", "%s: Recv returned %v", wit.name, err)
						return
					}
					b := v.([]byte)
					found := false
					for k := lastSeen[si]; k < len(flushes); k++ {
						if refEqual(flushes[k], b) {
							lastSeen[si] = k + 1
							found = true
							break
						}
					}
					if !found {
						c.Violate("sub/overflow-not-a-subsequence", "%s (subscribed to FEFE only) received %x; flush sentinels sent so far %s, newest seen before #%d", wit.name, b, hexs(flushes), lastSeen[si])
						return
					}
				}
				if lastSeen[si] < len(flushes) {
					flushed = false
				}
			}
		}
		for _, ss := range g.socks {
			wit := ss.wit
			if _, _, ok := g.call("SetOption RecvDeadline", "sub/setoption-stuck:RECV-DEADLINE", 0, func() (interface{}, error) {
				return nil, wit.api.SetOption(mangos.OptionRecvDeadline, time.Duration(0))
			}); !ok {
				return
			}
		}
		if !flushed {
			c.Inconclusive("flush sentinel not seen by every witness after 50 attempts")
			return
		}
		final := flushes[len(flushes)-1]
		c.Count("ovf_pub_flush_sentinels", len(flushes))
		// every context delivers a subsequence ending with the final flush sentinel
		for _, ss := range g.socks {
			type res struct {
				cx  *ctxM
				got map[string]bool
			}
			var results []res
			for _, cx := range ss.ctxs {
				if cx.closed {
					continue
				}
				var wantAll [][]byte
				for _, b := range blast {
					if cx.wants(b) {
						wantAll = append(wantAll, b)
					}
				}
				wantAll = append(wantAll, flushes...)
				check := func(got [][]byte, complete bool, dump string) bool {
					for _, d := range got {
						if !g.hist[0][string(d)] {
							c.Violate("sub/delivered-unpublished", "%s delivered %x, which no publisher sent", cx.name, d)
							return false
						}
					}
					if !isSubsequence(got, wantAll) {
						c.Violate("sub/overflow-not-a-subsequence", "%s (PUB WriteQLen %d, subscriptions %s): delivered %s is not an order-preserving duplicate-free subsequence of the matching messages %s", cx.name, sp.WQ, hexs(cx.subs), hexs(got), hexs(wantAll))
						return false
					}
					if !complete {
						c.Violate("pub/overflow-flush-not-delivered", "%s: the witness of the same socket received flush sentinel %x, this context (subscribed to FEFE, queue not full) is blocked after %s\n%s", cx.name, final, hexs(got), dump)
						return false
					}
					return true
				}
				got, ok := g.recvUntil(cx, func(got [][]byte) bool { return refEqual(got[len(got)-1], final) },
					func(got [][]byte, dump string) { check(got, false, dump) })
				if !ok {
					return
				}
				if !check(got, true, "") {
					return
				}
				set := map[string]bool{}
				nb := 0
				for _, d := range got {
					set[string(d)] = true
					if !isSentinel(d) {
						nb++
					}
				}
				results = append(results, res{cx, set})
				lost := len(wantAll) - len(flushes) - nb
				c.Count("ovf_pub_delivered", len(got))
				c.Count("ovf_pub_lost", lost)
				c.Count("deliveries_compared", len(got))
				if lost > 0 {
					c.Nontrivial()
				}
				sig += fmt.Sprintf("|%s:%d-%d", cx.name, len(wantAll)-len(flushes), lost)
			}
			// contexts of one socket see the same pipe: they agree on every message both want
			for i := 0; i < len(results); i++ {
				for j := i + 1; j < len(results); j++ {
					a, b := results[i], results[j]
					for _, m := range append(append([][]byte{}, blast...), flushes...) {
						if a.cx.wants(m) && b.cx.wants(m) && a.got[string(m)] != b.got[string(m)] {
							c.Violate("sub/contexts-disagree", "socket s%d received %x: %s delivered=%v, %s delivered=%v although both subscribe to a prefix of it and neither queue can have overflowed", ss.idx, m, a.cx.name, a.got[string(m)], b.cx.name, b.got[string(m)])
							return
						}
					}
					c.Count("ovf_pub_context_pairs_compared", 1)
				}
			}
		}
		// the witnesses may hold older flush sentinels? no: each consumed up to the final one.
		for _, cx := range g.receivers() {
			for p := range cx.pend {
				cx.pend[p] = nil
			}
			cx.offered = 0
		}
	}
	if c.Failed() || c.Undecided() {
		return
	}
	g.checkKept()
	c.Sig("%s", sig)
}

var _ = mon.Now
