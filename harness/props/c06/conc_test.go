package c06

import (
	"fmt"
	"math"
	"sync"
	"time"

	"go.nanomsg.org/mangos/v3"

	"verifharness/hx"
	"verifharness/mon"
)

// Concurrent mode.  A case is a number of rounds on one topology.  In a round
// every context has a receiver goroutine blocked in RecvMsg and a mutator
// goroutine that subscribes/unsubscribes "volatile" topics while the
// publishers publish (optionally into queues that were loaded beforehand).
// The operations on one context's subscriptions are sequential (one mutator),
// so their return values and the subscription set between operations are
// known exactly; what is not known is when a message arrives or is taken from
// the queue relative to them.  Oracle (interval semantics):
//   - delivered => some prefix topic was possibly subscribed at some instant of
//     [max(Recv call, Send call), Recv return]   (possibly subscribed: from the
//     Subscribe call to the return of the Unsubscribe that removed it);
//   - some prefix topic definitely subscribed from before the Send call until
//     the context received that publisher's final sentinel of the round =>
//     delivered (totals stay below every queue length: nothing can overflow);
//   - per publisher: publication order, no duplicates, nothing unpublished.

const cInf = time.Duration(math.MaxInt64)

type cDeliv struct {
	body      []byte
	call, ret time.Duration
}

type cOp struct {
	sub        bool
	topic      []byte
	start, end time.Duration
	err        error
}

type cPubRec struct {
	pub, idx   int
	body       []byte
	start, end time.Duration
}

type cIv struct {
	topic            []byte
	possFrom, possTo time.Duration
	defFrom, defTo   time.Duration
}

type cCtx struct {
	cx      *ctxM
	stable  [][]byte
	vol     [][]byte
	present map[string]bool // volatile topics subscribed at the start of the round
	ops     []cOp
	mu      sync.Mutex
	deliv   []cDeliv
	call    *mon.Call
}

type cLog struct {
	mu      sync.Mutex
	recs    map[string]*cPubRec
	round   []*cPubRec
	nextIdx []int
}

func runConc(c *mon.Case, sp spec) {
	g := newRig(c, sp)
	if g == nil || c.Failed() {
		return
	}
	r := c.Rand
	var ccs []*cCtx
	var inUse [][]byte
	for _, cx := range g.subjects() {
		cc := &cCtx{cx: cx, present: map[string]bool{}}
		if !g.subscribe(cx, sentTopic) {
			return
		}
		for k := r.Intn(3); k > 0; k-- {
			if !g.subscribe(cx, randTopic(r)) {
				return
			}
		}
		cc.stable = append([][]byte{}, cx.subs...)
		nvol := 2 + r.Intn(2)
		for tries := 0; len(cc.vol) < nvol && tries < 50; tries++ {
			t := randTopic(r)
			if refIndex(cx.subs, t) < 0 && refIndex(cc.vol, t) < 0 {
				cc.vol = append(cc.vol, t)
			}
		}
		inUse = append(inUse, topicsInUse([]*ctxM{cx})...)
		inUse = append(inUse, cc.vol...)
		ccs = append(ccs, cc)
	}

	lg := &cLog{recs: map[string]*cPubRec{}, nextIdx: make([]int, sp.NPub)}
	sendRec := func(p int, body []byte) error {
		rec := &cPubRec{pub: p, body: body}
		lg.mu.Lock()
		rec.idx = lg.nextIdx[p]
		lg.nextIdx[p]++
		lg.recs[string(body)] = rec
		lg.round = append(lg.round, rec)
		g.hist[p][string(body)] = true
		lg.mu.Unlock()
		rec.start = mon.Now()
		err := g.pubs[p].Send(body)
		rec.end = mon.Now()
		return err
	}
	sendAll := func(name string, lists [][][]byte) bool {
		_, err, ok := g.call(name, "pub/send-stuck", 0, func() (interface{}, error) {
			for p := range lists {
				for _, b := range lists[p] {
					if err := sendRec(p, b); err != nil {
						return nil, err
					}
				}
			}
			return nil, nil
		})
		if ok && err != nil {
			c.Violate("pub/send-error", "Send on an open PUB socket failed: %v", err)
			return false
		}
		return ok
	}
	// every sentinel is also queued at the witnesses (they subscribe to FEFE)
	witExpect := func(id int) {
		for _, ss := range g.socks {
			for p := 0; p < sp.NPub; p++ {
				ss.wit.pend[p] = append(ss.wit.pend[p], g.sentinel(p, id))
			}
		}
	}
	witDrain := func() bool {
		for _, ss := range g.socks {
			if !g.drain(ss.wit) {
				return false
			}
		}
		return true
	}

	sig := fmt.Sprintf("conc|%s|%d|%d|%d|%v|%v", sp.Tr, sp.NPub, sp.NSub, sp.NCtx, sp.Prefill, sp.Spin)
	qcap := 128 // every queue on the way; a round never has more than 3/4 of it outstanding
	if sp.QLen > 0 {
		qcap = sp.QLen
	}
	for round := 0; round < sp.Rounds && !c.Failed() && !c.Undecided(); round++ {
		lg.round = nil
		// all bodies of the round come from the case PRNG (tagged, hence unique)
		prefill := make([][][]byte, sp.NPub)
		burst := make([][][]byte, sp.NPub)
		for p := 0; p < sp.NPub; p++ {
			if sp.Prefill {
				for i, n := 0, (qcap*5/16+r.Intn(qcap/6))/sp.NPub; i < n; i++ {
					prefill[p] = append(prefill[p], g.body(p, genHead(r, inUse), false))
				}
			}
			for i, n := 0, (qcap*5/32+r.Intn(qcap/8))/sp.NPub; i < n; i++ {
				burst[p] = append(burst[p], g.body(p, genHead(r, inUse), false))
			}
		}
		if sp.Prefill {
			// load the queues before anybody receives (witness = barrier)
			g.step++
			for p := range prefill {
				prefill[p] = append(prefill[p], g.sentinel(p, g.step))
			}
			witExpect(g.step)
			if !sendAll("prefill", prefill) || !witDrain() {
				return
			}
		}
		g.step++
		finalID := g.step

		// receivers
		full := 1<<uint(sp.NPub) - 1
		for _, cc := range ccs {
			cc := cc
			cc.deliv, cc.ops = nil, nil
			cc.call = mon.Go("conc-recv "+cc.cx.name, func() (interface{}, error) {
				seen := 0
				for {
					t0 := mon.Now()
					m, err := cc.cx.api.RecvMsg()
					t1 := mon.Now()
					if err != nil {
						return nil, err
					}
					b := append([]byte{}, m.Body...)
					for j := range m.Body {
						m.Body[j] ^= 0x5A // the caller owns the message
					}
					m.Free()
					cc.mu.Lock()
					cc.deliv = append(cc.deliv, cDeliv{body: b, call: t0, ret: t1})
					cc.mu.Unlock()
					if isSentinel(b) && sentID(b) == finalID && int(b[2]) < sp.NPub {
						seen |= 1 << uint(b[2])
						if seen == full {
							return nil, nil
						}
					}
				}
			})
		}
		// mutators and publishers
		var wg sync.WaitGroup
		seed := r.Int63()
		for i, cc := range ccs {
			i, cc := i, cc
			wg.Add(1)
			go func() {
				defer wg.Done()
				rnd := hx.NewRand(seed + int64(i)*7717)
				present := map[string]bool{}
				for k, v := range cc.present {
					present[k] = v
				}
				for k := 0; k < sp.Steps; k++ {
					t := cc.vol[rnd.Intn(len(cc.vol))]
					sub := !present[string(t)]
					switch rnd.Intn(10) {
					case 0:
						sub = true // possibly a duplicate
					case 1:
						sub = false // possibly absent
					}
					opt := mangos.OptionUnsubscribe
					if sub {
						opt = mangos.OptionSubscribe
					}
					var val interface{} = string(t)
					if rnd.Intn(2) == 0 {
						val = append([]byte{}, t...)
					}
					op := cOp{sub: sub, topic: t, start: mon.Now()}
					op.err = cc.cx.api.SetOption(opt, val)
					op.end = mon.Now()
					cc.ops = append(cc.ops, op)
					if op.err == nil {
						present[string(t)] = sub
					}
					if !sp.Spin && rnd.Intn(3) != 0 {
						mon.Sleep(time.Duration(rnd.Intn(300)) * time.Microsecond)
					}
				}
			}()
		}
		var perr error
		var perrMu sync.Mutex
		for p := 0; p < sp.NPub; p++ {
			p := p
			wg.Add(1)
			go func() {
				defer wg.Done()
				rnd := hx.NewRand(seed + int64(p)*104123 + 5)
				for _, b := range burst[p] {
					if err := sendRec(p, b); err != nil {
						perrMu.Lock()
						perr = err
						perrMu.Unlock()
						return
					}
					if !sp.Spin && rnd.Intn(2) == 0 {
						mon.Sleep(time.Duration(rnd.Intn(300)) * time.Microsecond)
					}
				}
			}()
		}
		if _, _, ok := g.call("conc-workers", "sub/conc-setoption-or-send-stuck", time.Millisecond, func() (interface{}, error) { wg.Wait(); return nil, nil }); !ok {
			return
		}
		if perr != nil {
			c.Violate("pub/send-error", "Send on an open PUB socket failed: %v", perr)
			return
		}
		// subscriptions are frozen now; final sentinels of the round
		finals := make([][][]byte, sp.NPub)
		for p := range finals {
			finals[p] = [][]byte{g.sentinel(p, finalID)}
		}
		witExpect(finalID)
		if !sendAll("final-sentinels", finals) {
			return
		}
		for _, cc := range ccs {
			res := mon.Await(cc.call.Done, mon.AwaitOpts{})
			switch res.V {
			case mon.Done:
				if _, err, _ := cc.call.Result(); err != nil {
					c.Violate("sub/recv-error", "%s: RecvMsg on an open context without deadline returned %v", cc.cx.name, err)
					return
				}
				s := concJudge(c, sp, cc, lg, false, "")
				if round < 3 {
					sig += s
				}
			case mon.Stuck:
				concJudge(c, sp, cc, lg, true, res.Dump)
				if !c.Failed() {
					c.Violate("sub/conc-final-sentinel-not-delivered", "%s never received the final sentinels of round %d; receiver blocked\n%s", cc.cx.name, round, res.Dump)
				}
			default:
				c.Inconclusive("%s: receiver not finished after %v, process still active", cc.cx.name, res.Waited)
			}
			if c.Failed() || c.Undecided() {
				return
			}
		}
		if !witDrain() {
			return
		}
		c.Count("conc_rounds", 1)
		c.Count("messages_published", len(lg.round))
	}
	if c.Failed() || c.Undecided() {
		return
	}
	c.Sig("%s", sig)
}

// concIntervals turns the round's operation log of one context into
// subscription intervals, checks every return value, and updates cc.present.
func concIntervals(c *mon.Case, cc *cCtx) ([]cIv, bool) {
	var ivs []cIv
	for _, t := range cc.stable {
		ivs = append(ivs, cIv{topic: t, possFrom: -1, possTo: cInf, defFrom: -1, defTo: cInf})
	}
	cur := map[string]*cIv{}
	for _, t := range cc.vol {
		if cc.present[string(t)] {
			cur[string(t)] = &cIv{topic: t, possFrom: -2, possTo: cInf, defFrom: -2, defTo: cInf}
		}
	}
	for _, op := range cc.ops {
		k := string(op.topic)
		c.Count("conc_subscription_ops", 1)
		if op.sub {
			if op.err != nil {
				c.Violate("sub/subscribe-error", "%s: Subscribe(%x) returned %v", cc.cx.name, op.topic, op.err)
				return nil, false
			}
			if cur[k] == nil {
				cur[k] = &cIv{topic: op.topic, possFrom: op.start, defFrom: op.end, possTo: cInf, defTo: cInf}
			} else {
				c.Count("subscribe_duplicate", 1)
			}
			continue
		}
		if cur[k] == nil {
			c.Count("unsubscribe_absent", 1)
			if op.err != mangos.ErrBadValue {
				c.Violate("sub/unsubscribe-absent-not-badvalue", "%s: Unsubscribe(%x) of a topic that is not subscribed returned %v, want ErrBadValue", cc.cx.name, op.topic, op.err)
				return nil, false
			}
			continue
		}
		if op.err != nil {
			c.Violate("sub/unsubscribe-error", "%s: Unsubscribe(%x) of a subscribed topic returned %v", cc.cx.name, op.topic, op.err)
			return nil, false
		}
		cur[k].possTo, cur[k].defTo = op.end, op.start
		ivs = append(ivs, *cur[k])
		delete(cur, k)
	}
	cc.present = map[string]bool{}
	for k, iv := range cur {
		ivs = append(ivs, *iv)
		cc.present[k] = true
	}
	return ivs, true
}

func concJudge(c *mon.Case, sp spec, cc *cCtx, lg *cLog, stuck bool, dump string) string {
	ivs, ok := concIntervals(c, cc)
	if !ok {
		return ""
	}
	cc.mu.Lock()
	deliv := append([]cDeliv{}, cc.deliv...)
	cc.mu.Unlock()
	name := cc.cx.name
	// win: when set, only the subscription operations overlapping [win[0], win[1]] are listed
	var win []time.Duration
	desc := func() string {
		s := fmt.Sprintf("%s stable %s volatile %s; %d deliveries, %d subscription operations in this round", name, hexs(cc.stable), hexs(cc.vol), len(deliv), len(cc.ops))
		n := 0
		for _, op := range cc.ops {
			if len(win) == 2 && (op.start > win[1] || op.end < win[0]) {
				continue
			}
			if n++; n > 60 {
				s += "\n  ..."
				break
			}
			k := "Unsubscribe"
			if op.sub {
				k = "Subscribe"
			}
			s += fmt.Sprintf("\n  [%v..%v] %s(%x) -> %v", op.start, op.end, k, op.topic, op.err)
		}
		if len(win) == 2 {
			s += fmt.Sprintf("\n  (operations overlapping [%v..%v] only)", win[0], win[1])
		}
		return s
	}
	unsubOverlaps := func(from, to time.Duration) bool {
		for _, op := range cc.ops {
			if !op.sub && op.err == nil && op.start <= to && op.end >= from {
				return true
			}
		}
		return false
	}
	last := make([]int, sp.NPub)
	lastAt := make([]int, sp.NPub)
	for p := range last {
		last[p] = -1
	}
	got := map[string]bool{}
	finalAt := make([]time.Duration, sp.NPub)
	for p := range finalAt {
		finalAt[p] = cInf
	}
	volOnly, overlapUnsub := 0, 0
	for i, d := range deliv {
		rec := lg.recs[string(d.body)]
		if rec == nil {
			c.Violate("sub/delivered-unpublished", "%s delivered %x, which no publisher sent (modified or invented)", name, d.body)
			return ""
		}
		if got[string(d.body)] {
			c.Violate("sub/conc-duplicate", "%s delivered %x (pub%d #%d) twice\n%s", name, d.body, rec.pub, rec.idx, desc())
			return ""
		}
		got[string(d.body)] = true
		if rec.idx < last[rec.pub] {
			early := deliv[lastAt[rec.pub]]
			// the known shape: the Recv that returned the later publication early was in progress
			// during a successful Unsubscribe on this context, and both publications had been sent
			// before that Unsubscribe returned (both could be in the queue it rebuilt)
			cls := "no-concurrent-unsubscribe"
			earlyRec := lg.recs[string(early.body)]
			for _, op := range cc.ops {
				if !op.sub && op.err == nil && op.start <= early.ret && op.end >= early.call && rec.start <= op.end && earlyRec.start <= op.end {
					cls = "recv-overlaps-unsubscribe"
					break
				}
			}
			win = []time.Duration{early.call, d.ret}
			c.Violate("sub/conc-reordered:"+cls, "%s delivered pub%d #%d (%x) by the Recv [%v..%v], and only later pub%d #%d (%x) by the Recv [%v..%v]: not in the publisher's order, no queue overflowed\n%s", name,
				rec.pub, last[rec.pub], early.body, early.call, early.ret, rec.pub, rec.idx, d.body, d.call, d.ret, desc())
			return ""
		}
		last[rec.pub], lastAt[rec.pub] = rec.idx, i
		if isSentinel(d.body) {
			finalAt[rec.pub] = d.ret // the last sentinel of the round is the final one
		}
		from := d.call
		if rec.start > from {
			from = rec.start
		}
		matched, ever, stableHit := false, false, false
		for _, iv := range ivs {
			if !refHasPrefix(d.body, iv.topic) {
				continue
			}
			if iv.possTo < from {
				ever = true
			}
			if iv.possFrom <= d.ret && iv.possTo >= from {
				matched = true
				if iv.possFrom == -1 {
					stableHit = true
				}
			}
		}
		if !matched {
			win = []time.Duration{from - time.Millisecond, d.ret}
			if ever {
				c.Violate("sub/conc-stale-after-unsubscribe", "%s delivered %x by a Recv called at %v (returned %v), but every subscription that is a prefix of it had been removed by an Unsubscribe that returned before that\n%s", name, d.body, d.call, d.ret, desc())
			} else {
				c.Violate("sub/conc-delivered-nonmatching:"+relNonMatching(append(append([][]byte{}, cc.stable...), cc.vol...), d.body), "%s delivered %x (Recv [%v..%v]) although no subscription that is a prefix of it existed at any instant of that interval\n%s", name, d.body, d.call, d.ret, desc())
			}
			return ""
		}
		if !stableHit {
			volOnly++
		}
		if unsubOverlaps(d.call, d.ret) {
			overlapUnsub++
		}
	}
	// continuously subscribed => delivered
	must := 0
	now := mon.Now()
	lg.mu.Lock()
	round := append([]*cPubRec{}, lg.round...)
	lg.mu.Unlock()
	// the final sentinel of a publisher is the last record of that publisher in the round
	for _, rec := range round {
		end := finalAt[rec.pub]
		if !stuck && end == cInf {
			continue
		}
		if stuck {
			end = now
		}
		def := false
		for _, iv := range ivs {
			if refHasPrefix(rec.body, iv.topic) && iv.defFrom <= rec.start && iv.defTo >= end {
				def = true
				break
			}
		}
		if !def {
			continue
		}
		must++
		if !got[string(rec.body)] {
			c.Violate("sub/conc-matching-not-delivered", "%s did not deliver %x (pub%d #%d, Send [%v..%v]) although a prefix of it was subscribed from before the Send until the final sentinel was received (%v) and no queue can have overflowed\n%s\n%s", name, rec.body, rec.pub, rec.idx, rec.start, rec.end, end, desc(), dump)
			return ""
		}
	}
	c.Count("conc_deliveries", len(deliv))
	c.Count("conc_deliveries_volatile_topic_only", volOnly)
	c.Count("conc_must_deliver_checked", must)
	c.Count("conc_recv_overlapping_unsubscribe", overlapUnsub)
	if volOnly > 0 {
		c.Nontrivial()
	}
	return fmt.Sprintf("|%d/%d/%d", len(deliv), volOnly, must)
}
