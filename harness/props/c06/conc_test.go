package c06

import (
	"fmt"
	"math"
	"sync"
	"time"

	"go.nanomsg.org/mangos/v3"

	"verifharness/hx"
	"verifharness/mon"
)

// Concurrent mode.  Every context has a receiver goroutine blocked in RecvMsg
// and a mutator goroutine that subscribes/unsubscribes "volatile" topics while
// the publishers publish.  The operations on one context's subscriptions are
// sequential (one mutator), so their return values and the subscription set at
// every instant between operations are known exactly; what is not known is
// when a message arrives relative to them.  Oracle (interval semantics):
//   - delivered => some prefix topic was possibly subscribed at some instant of
//     [max(Recv call, Send call), Recv return]   (possibly subscribed: from the
//     Subscribe call to the return of the Unsubscribe that removed it);
//   - some prefix topic definitely subscribed from before the Send call until
//     the context received that publisher's final sentinel => delivered
//     (totals stay below every queue length, so nothing can overflow);
//   - per publisher: publication order, no duplicates, nothing unpublished.

const cInf = time.Duration(math.MaxInt64)
const cFinalID = 0xFFFF

type cDeliv struct {
	body      []byte
	call, ret time.Duration
}

type cOp struct {
	sub        bool
	topic      []byte
	start, end time.Duration
	err        error
}

type cPubRec struct {
	pub, idx   int
	body       []byte
	start, end time.Duration
}

type cIv struct {
	topic            []byte
	possFrom, possTo time.Duration
	defFrom, defTo   time.Duration
}

type cCtx struct {
	cx     *ctxM
	stable [][]byte
	vol    [][]byte
	ops    []cOp
	mu     sync.Mutex
	deliv  []cDeliv
	call   *mon.Call
}

func runConc(c *mon.Case, sp spec) {
	g := newRig(c, sp)
	if g == nil || c.Failed() {
		return
	}
	r := c.Rand
	var ccs []*cCtx
	var inUse [][]byte
	for _, cx := range g.subjects() {
		cc := &cCtx{cx: cx}
		if !g.subscribe(cx, sentTopic) {
			return
		}
		for k := r.Intn(3); k > 0; k-- {
			if !g.subscribe(cx, randTopic(r)) {
				return
			}
		}
		cc.stable = append([][]byte{}, cx.subs...)
		nvol := 2 + r.Intn(2)
		for tries := 0; len(cc.vol) < nvol && tries < 50; tries++ {
			t := randTopic(r)
			if refIndex(cx.subs, t) < 0 && refIndex(cc.vol, t) < 0 {
				cc.vol = append(cc.vol, t)
			}
		}
		inUse = append(inUse, topicsInUse([]*ctxM{cx})...)
		inUse = append(inUse, cc.vol...)
		ccs = append(ccs, cc)
	}

	// publication log
	var pmu sync.Mutex
	recs := map[string]*cPubRec{}
	nextIdx := make([]int, sp.NPub)
	sendRec := func(p int, body []byte) error {
		rec := &cPubRec{pub: p, body: body}
		pmu.Lock()
		rec.idx = nextIdx[p]
		nextIdx[p]++
		recs[string(body)] = rec
		g.hist[p][string(body)] = true
		pmu.Unlock()
		rec.start = mon.Now()
		err := g.pubs[p].Send(body)
		rec.end = mon.Now()
		return err
	}

	// all bodies are generated up front by the case PRNG (tagged, hence unique)
	prefill := make([][][]byte, sp.NPub)
	burst := make([][][]byte, sp.NPub)
	for p := 0; p < sp.NPub; p++ {
		if sp.Prefill {
			for i, n := 0, 20+r.Intn(11); i < n; i++ {
				prefill[p] = append(prefill[p], g.body(p, genHead(r, inUse), false))
			}
		}
		for i, n := 0, 15+r.Intn(11); i < n; i++ {
			burst[p] = append(burst[p], g.body(p, genHead(r, inUse), false))
		}
	}
	if sp.Prefill {
		// load the queues before anybody receives (witness = barrier)
		_, err, ok := g.call("prefill", "pub/send-stuck", 0, func() (interface{}, error) {
			for p := range prefill {
				for _, b := range append(prefill[p], g.sentinel(p, 1)) {
					if err := sendRec(p, b); err != nil {
						return nil, err
					}
				}
			}
			return nil, nil
		})
		if !ok {
			return
		}
		if err != nil {
			c.Violate("pub/send-error", "Send on an open PUB socket failed: %v", err)
			return
		}
		for _, ss := range g.socks {
			for p := 0; p < sp.NPub; p++ {
				ss.wit.pend[p] = [][]byte{g.sentinel(p, 1)}
			}
			if !g.drain(ss.wit) {
				return
			}
		}
	}

	// receivers
	full := 1<<uint(sp.NPub) - 1
	for _, cc := range ccs {
		cc := cc
		cc.call = mon.Go("conc-recv "+cc.cx.name, func() (interface{}, error) {
			seen := 0
			for {
				t0 := mon.Now()
				m, err := cc.cx.api.RecvMsg()
				t1 := mon.Now()
				if err != nil {
					return nil, err
				}
				b := append([]byte{}, m.Body...)
				for j := range m.Body {
					m.Body[j] ^= 0x5A // the caller owns the message
				}
				m.Free()
				cc.mu.Lock()
				cc.deliv = append(cc.deliv, cDeliv{body: b, call: t0, ret: t1})
				cc.mu.Unlock()
				if isSentinel(b) && sentID(b) == cFinalID && int(b[2]) < sp.NPub {
					seen |= 1 << uint(b[2])
					if seen == full {
						return nil, nil
					}
				}
			}
		})
	}
	// mutators and publishers
	var wg sync.WaitGroup
	seed := r.Int63()
	for i, cc := range ccs {
		i, cc := i, cc
		wg.Add(1)
		go func() {
			defer wg.Done()
			rnd := hx.NewRand(seed + int64(i)*7717)
			present := map[string]bool{}
			for k := 0; k < sp.Steps; k++ {
				t := cc.vol[rnd.Intn(len(cc.vol))]
				sub := !present[string(t)]
				switch rnd.Intn(10) {
				case 0:
					sub = true // possibly a duplicate
				case 1:
					sub = false // possibly absent
				}
				opt := mangos.OptionUnsubscribe
				if sub {
					opt = mangos.OptionSubscribe
				}
				var val interface{} = string(t)
				if rnd.Intn(2) == 0 {
					val = append([]byte{}, t...)
				}
				op := cOp{sub: sub, topic: t, start: mon.Now()}
				op.err = cc.cx.api.SetOption(opt, val)
				op.end = mon.Now()
				cc.ops = append(cc.ops, op)
				if op.err == nil {
					present[string(t)] = sub
				}
				if rnd.Intn(3) != 0 {
					mon.Sleep(time.Duration(rnd.Intn(300)) * time.Microsecond)
				}
			}
		}()
	}
	var perr error
	var perrMu sync.Mutex
	for p := 0; p < sp.NPub; p++ {
		p := p
		wg.Add(1)
		go func() {
			defer wg.Done()
			rnd := hx.NewRand(seed + int64(p)*104123 + 5)
			for _, b := range burst[p] {
				if err := sendRec(p, b); err != nil {
					perrMu.Lock()
					perr = err
					perrMu.Unlock()
					return
				}
				if rnd.Intn(2) == 0 {
					mon.Sleep(time.Duration(rnd.Intn(300)) * time.Microsecond)
				}
			}
		}()
	}
	if _, _, ok := g.call("conc-workers", "sub/conc-setoption-or-send-stuck", time.Millisecond, func() (interface{}, error) { wg.Wait(); return nil, nil }); !ok {
		return
	}
	if perr != nil {
		c.Violate("pub/send-error", "Send on an open PUB socket failed: %v", perr)
		return
	}
	// subscriptions are frozen now; final sentinels
	_, err, ok := g.call("final-sentinels", "pub/send-stuck", 0, func() (interface{}, error) {
		for p := 0; p < sp.NPub; p++ {
			if err := sendRec(p, g.sentinel(p, cFinalID)); err != nil {
				return nil, err
			}
		}
		return nil, nil
	})
	if !ok {
		return
	}
	if err != nil {
		c.Violate("pub/send-error", "Send on an open PUB socket failed: %v", err)
		return
	}
	sig := fmt.Sprintf("conc|%s|%d|%d|%d|%v", sp.Tr, sp.NPub, sp.NSub, sp.NCtx, sp.Prefill)
	for _, cc := range ccs {
		res := mon.Await(cc.call.Done, mon.AwaitOpts{})
		switch res.V {
		case mon.Done:
			if _, err, _ := cc.call.Result(); err != nil {
				c.Violate("sub/recv-error", "%s: RecvMsg on an open context without deadline returned %v", cc.cx.name, err)
				return
			}
			sig += concJudge(c, sp, cc, recs, false, "")
		case mon.Stuck:
			concJudge(c, sp, cc, recs, true, res.Dump)
			if !c.Failed() {
				c.Violate("sub/conc-final-sentinel-not-delivered", "%s never received the final sentinels; receiver blocked\n%s", cc.cx.name, res.Dump)
			}
		default:
			c.Inconclusive("%s: receiver not finished after %v, process still active", cc.cx.name, res.Waited)
		}
		if c.Failed() || c.Undecided() {
			return
		}
	}
	c.Sig("%s", sig)
}

func concIntervals(c *mon.Case, cc *cCtx) ([]cIv, bool) {
	var ivs []cIv
	for _, t := range cc.stable {
		ivs = append(ivs, cIv{topic: t, possFrom: -1, possTo: cInf, defFrom: -1, defTo: cInf})
	}
	cur := map[string]*cIv{}
	for _, op := range cc.ops {
		k := string(op.topic)
		c.Count("conc_subscription_ops", 1)
		if op.sub {
			if op.err != nil {
				c.Violate("sub/subscribe-error", "%s: Subscribe(%x) returned %v", cc.cx.name, op.topic, op.err)
				return nil, false
			}
			if cur[k] == nil {
				cur[k] = &cIv{topic: op.topic, possFrom: op.start, defFrom: op.end, possTo: cInf, defTo: cInf}
			} else {
				c.Count("subscribe_duplicate", 1)
			}
			continue
		}
		if cur[k] == nil {
			c.Count("unsubscribe_absent", 1)
			if op.err != mangos.ErrBadValue {
				c.Violate("sub/unsubscribe-absent-not-badvalue", "%s: Unsubscribe(%x) of a topic that is not subscribed returned %v, want ErrBadValue", cc.cx.name, op.topic, op.err)
				return nil, false
			}
			continue
		}
		if op.err != nil {
			c.Violate("sub/unsubscribe-error", "%s: Unsubscribe(%x) of a subscribed topic returned %v", cc.cx.name, op.topic, op.err)
			return nil, false
		}
		cur[k].possTo, cur[k].defTo = op.end, op.start
		ivs = append(ivs, *cur[k])
		delete(cur, k)
	}
	for _, iv := range cur {
		ivs = append(ivs, *iv)
	}
	return ivs, true
}

func concJudge(c *mon.Case, sp spec, cc *cCtx, recs map[string]*cPubRec, stuck bool, dump string) string {
	ivs, ok := concIntervals(c, cc)
	if !ok {
		return ""
	}
	cc.mu.Lock()
	deliv := append([]cDeliv{}, cc.deliv...)
	cc.mu.Unlock()
	name := cc.cx.name
	desc := func() string {
		s := fmt.Sprintf("%s stable %s volatile %s; %d deliveries, %d subscription operations", name, hexs(cc.stable), hexs(cc.vol), len(deliv), len(cc.ops))
		for _, op := range cc.ops {
			k := "Unsubscribe"
			if op.sub {
				k = "Subscribe"
			}
			s += fmt.Sprintf("\n  [%v..%v] %s(%x) -> %v", op.start, op.end, k, op.topic, op.err)
		}
		return s
	}
	last := make([]int, sp.NPub)
	for p := range last {
		last[p] = -1
	}
	got := map[string]bool{}
	finalAt := make([]time.Duration, sp.NPub)
	for p := range finalAt {
		finalAt[p] = cInf
	}
	volOnly, overlapUnsub := 0, 0
	for i, d := range deliv {
		rec := recs[string(d.body)]
		if rec == nil {
			c.Violate("sub/delivered-unpublished", "%s delivered %x, which no publisher sent (modified or invented)", name, d.body)
			return ""
		}
		if got[string(d.body)] {
			c.Violate("sub/conc-duplicate", "%s delivered %x (pub%d #%d) twice\n%s", name, d.body, rec.pub, rec.idx, desc())
			return ""
		}
		got[string(d.body)] = true
		if rec.idx < last[rec.pub] {
			prev := time.Duration(0)
			if i > 0 {
				prev = deliv[i-1].call
			}
			c.Violate("sub/conc-reordered", "%s delivered pub%d #%d (%x, Recv [%v..%v]) after pub%d #%d (previous Recv called at %v): not in the publisher's order\n%s", name, rec.pub, rec.idx, d.body, d.call, d.ret, rec.pub, last[rec.pub], prev, desc())
			return ""
		}
		last[rec.pub] = rec.idx
		if isSentinel(d.body) && sentID(d.body) == cFinalID {
			finalAt[rec.pub] = d.ret
		}
		from := d.call
		if rec.start > from {
			from = rec.start
		}
		matched, ever, stableHit := false, false, false
		for _, iv := range ivs {
			if !refHasPrefix(d.body, iv.topic) {
				continue
			}
			if iv.possTo < from {
				ever = true
			}
			if iv.possFrom <= d.ret && iv.possTo >= from {
				matched = true
				if iv.possFrom < 0 {
					stableHit = true
				}
			}
		}
		if !matched {
			if ever {
				c.Violate("sub/conc-stale-after-unsubscribe", "%s delivered %x by a Recv called at %v (returned %v), but every subscription that is a prefix of it had been removed by an Unsubscribe that returned before that\n%s", name, d.body, d.call, d.ret, desc())
			} else {
				c.Violate("sub/conc-delivered-nonmatching:"+relNonMatching(append(append([][]byte{}, cc.stable...), cc.vol...), d.body), "%s delivered %x (Recv [%v..%v]) although no subscription that is a prefix of it existed at any instant of that interval\n%s", name, d.body, d.call, d.ret, desc())
			}
			return ""
		}
		if !stableHit {
			volOnly++
		}
		for _, op := range cc.ops {
			if !op.sub && op.err == nil && op.start <= d.ret && op.end >= d.call {
				overlapUnsub++
				break
			}
		}
	}
	// continuously subscribed => delivered
	must := 0
	now := mon.Now()
	for _, rec := range recs {
		end := finalAt[rec.pub]
		if end == cInf {
			if !stuck {
				continue
			}
			end = now
		}
		def := false
		for _, iv := range ivs {
			if refHasPrefix(rec.body, iv.topic) && iv.defFrom <= rec.start && iv.defTo >= end {
				def = true
				break
			}
		}
		if !def {
			continue
		}
		must++
		if !got[string(rec.body)] {
			c.Violate("sub/conc-matching-not-delivered", "%s did not deliver %x (pub%d #%d, Send [%v..%v]) although a prefix of it was subscribed from before the Send until the final sentinel was received (%v) and no queue can have overflowed\n%s\n%s", name, rec.body, rec.pub, rec.idx, rec.start, rec.end, end, desc(), dump)
			return ""
		}
	}
	c.Count("conc_deliveries", len(deliv))
	c.Count("conc_deliveries_volatile_topic_only", volOnly)
	c.Count("conc_must_deliver_checked", must)
	c.Count("conc_recv_overlapping_unsubscribe", overlapUnsub)
	if volOnly > 0 {
		c.Nontrivial()
	}
	return fmt.Sprintf("|%d/%d/%d", len(deliv), volOnly, must)
}
