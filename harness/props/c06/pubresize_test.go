//go:build verif

package c06

import (
	"encoding/binary"
	"fmt"

	"go.nanomsg.org/mangos/v3"

	"verifharness/hx"
	"verifharness/mon"
	"verifharness/vt"
)

// runPubResize: the application changes WriteQLen on a PUB socket while subscribers are connected —
// with their senders idle, or in the middle of a paced stream.  Whatever the library does with the new
// length, "a PUB socket sends every message to every connected subscriber" (queue space permitting)
// still holds afterwards: the stream is paced so that no subscriber is ever more than `win` messages
// behind, with win smaller than every queue length that was in force at any time, so no queue can have
// been full.  Every subscriber must be sent every message once, in order.
func runPubResize(c *mon.Case, sp spec) {
	proto := "pub"
	if sp.RawPub {
		proto = "xpub"
	}
	s := hx.MustSock(c, proto)
	r := c.Rand
	qlens := []int{2, 4, 8, 16, 128}
	minQ := 128
	if sp.WQ > 0 {
		if err := s.SetOption(mangos.OptionWriteQLen, sp.WQ); err != nil {
			c.Violate("pub/resize/setoption-error", "SetOption(WriteQLen, %d) before connecting: %v", sp.WQ, err)
			return
		}
		minQ = sp.WQ
	}
	name := hx.Uniq("c06r")
	L := vt.L(name)
	c.Cleanup(func() { vt.Forget(name) })
	if err := s.Listen(vt.Addr(name)); err != nil {
		c.Inconclusive("setup: %v", err)
		return
	}
	w := hx.WatchPipes(s)
	var subs []*vt.Pipe
	for i := 0; i < 1+sp.NSub; i++ {
		subs = append(subs, L.Connect())
	}
	if !hx.WaitAttached(c, w, len(subs), "subscribers") {
		return
	}
	id := 0
	subsFrom := map[*vt.Pipe]int{} // last message published before the subscriber connected
	b := make([]byte, 12)
	publish := func(n int) bool {
		for k := 0; k < n; k++ {
			id++
			binary.BigEndian.PutUint32(b, uint32(id))
			if err := s.Send(b); err != nil {
				c.Violate("pub/resize/send-error", "Send of message %d returned %v", id, err)
				return false
			}
			// never more than one message outstanding per subscriber: no queue of length >= 1 can be full
			want := id
			if !c.AwaitOrViolate("pub/subscriber-missed-message:after-writeqlen-change", fmt.Sprintf("message %d reaching all %d connected subscribers (queues were never full; WriteQLen history min %d)", want, len(subs), minQ), func() bool {
				for _, p := range subs {
					if p.SentCount() < want-subsFrom[p] {
						return false
					}
				}
				return true
			}, mon.AwaitOpts{}) {
				return false
			}
		}
		return true
	}
	if !publish(1 + r.Intn(4)) {
		return
	}
	changes := 0
	for step := 0; step < 2+sp.Steps%4 && !c.Failed(); step++ {
		q := qlens[r.Intn(len(qlens))]
		if err := s.SetOption(mangos.OptionWriteQLen, q); err != nil {
			c.Violate("pub/resize/setoption-error", "SetOption(WriteQLen, %d) with %d subscribers connected: %v", q, len(subs), err)
			return
		}
		if q < minQ {
			minQ = q
		}
		changes++
		if r.Intn(3) == 0 {
			// a subscriber that connects after the change takes part from now on
			subs = append(subs, L.Connect())
			if !hx.WaitAttached(c, w, len(subs), "late subscriber") {
				return
			}
			// it is sent only what is published from now on
			subsFrom[subs[len(subs)-1]] = id
		}
		if !publish(1 + r.Intn(5)) {
			return
		}
	}
	checked := 0
	for i, p := range subs {
		prev := subsFrom[p]
		for _, x := range p.SentLog() {
			got := int(binary.BigEndian.Uint32(x.Body))
			if got != prev+1 {
				c.Violate("pub/subscriber-stream-wrong:after-writeqlen-change", "subscriber %d was sent message %d after message %d (every message once, in order, expected)", i, got, prev)
				return
			}
			prev = got
			checked++
		}
	}
	c.Count("pub_resize_changes", changes)
	c.Count("pub_resize_deliveries_checked", checked)
	c.Nontrivial()
	c.Sig("pub-resize|%s|%d|%d", proto, len(subs), changes)
}
