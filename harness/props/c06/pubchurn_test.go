//go:build verif

package c06

import (
	"encoding/binary"
	"fmt"
	"sync"
	"time"

	"go.nanomsg.org/mangos/v3"

	"verifharness/hx"
	"verifharness/mon"
	"verifharness/vt"
)

// runPubChurn: a PUB socket publishes a numbered stream to a set of stable subscribers while other
// subscribers keep connecting and leaving.  The stable ones take everything at once (their queues
// are never full: the publisher pauses every 48 messages until they have caught up), so each of
// them is sent every message exactly once and in order — a subscriber leaving elsewhere must not
// make the fan-out skip or repeat anybody.
func runPubChurn(c *mon.Case, sp spec) {
	proto := "pub"
	if sp.RawPub {
		proto = "xpub"
	}
	s := hx.MustSock(c, proto)
	name := hx.Uniq("c06c")
	L := vt.L(name)
	c.Cleanup(func() { vt.Forget(name) })
	if err := s.Listen(vt.Addr(name)); err != nil {
		c.Inconclusive("setup: %v", err)
		return
	}
	w := hx.WatchPipes(s)
	// churners first and last, stable ones in between, so that stable pipes sit on both sides of the
	// ones that go away whatever order the socket keeps them in
	var stable, churn []*vt.Pipe
	var cmu sync.Mutex
	for i := 0; i < 3; i++ {
		churn = append(churn, L.Connect())
	}
	for i := 0; i < 4+sp.NSub; i++ {
		stable = append(stable, L.Connect())
	}
	for i := 0; i < 3; i++ {
		churn = append(churn, L.Connect())
	}
	if !hx.WaitAttached(c, w, len(stable)+len(churn), "subscribers") {
		return
	}
	total := 1500 + 100*sp.Steps
	stop := make(chan struct{})
	var wg sync.WaitGroup
	wg.Add(1)
	seed := c.Rand.Int63()
	go func() {
		defer wg.Done()
		rnd := hx.NewRand(seed)
		for {
			select {
			case <-stop:
				return
			default:
			}
			cmu.Lock()
			i := rnd.Intn(len(churn))
			churn[i].Drop()
			churn[i] = L.Connect()
			cmu.Unlock()
			time.Sleep(time.Duration(20+rnd.Intn(200)) * time.Microsecond)
		}
	}()
	pub := mon.Go("publisher", func() (interface{}, error) {
		b := make([]byte, 16)
		for id := 1; id <= total; id++ {
			binary.BigEndian.PutUint32(b, uint32(id))
			if err := s.Send(b); err != nil {
				return id, err
			}
			if id%48 == 0 {
				for caught := false; !caught; {
					caught = true
					for _, p := range stable {
						if p.SentCount() < id-48 { // within one window: queues of 128 cannot fill
							caught = false
						}
					}
					if !caught {
						time.Sleep(50 * time.Microsecond)
					}
				}
			}
		}
		return total, nil
	})
	ok := c.AwaitOrViolate("pub/churn/publisher-stuck", "publishing while subscribers come and go (PUB never blocks; stable subscribers keep up)", pub.Done, mon.AwaitOpts{MaxTimer: time.Millisecond})
	close(stop)
	wg.Wait()
	if !ok {
		return
	}
	if v, err, _ := pub.Result(); err != nil {
		c.Violate("pub/churn/send-error", "Send %v returned %v", v, err)
		return
	}
	if !c.AwaitOrViolate("pub/healthy-subscriber-missed-message:churn", fmt.Sprintf("all %d messages reaching every stable subscriber", total), func() bool {
		for _, p := range stable {
			if p.SentCount() < total {
				// a missing message never arrives: decide on the last one
				lg := p.SentLog()
				if len(lg) > 0 && int(binary.BigEndian.Uint32(lg[len(lg)-1].Body)) == total {
					return true
				}
				return false
			}
		}
		return true
	}, mon.AwaitOpts{}) {
		return
	}
	checked := 0
	for i, p := range stable {
		prev := 0
		for _, x := range p.SentLog() {
			id := int(binary.BigEndian.Uint32(x.Body))
			switch {
			case id == prev:
				c.Violate("pub/duplicate:churn", "stable subscriber %d was sent message %d twice while other subscribers were leaving", i, id)
				return
			case id != prev+1:
				c.Violate("pub/healthy-subscriber-missed-message:churn", "stable subscriber %d was sent message %d after message %d while other subscribers were leaving (its queue was never full)", i, id, prev)
				return
			}
			prev = id
			checked++
		}
		if prev != total {
			c.Violate("pub/healthy-subscriber-missed-message:churn", "stable subscriber %d got messages up to %d of %d", i, prev, total)
			return
		}
	}
	c.Count("pub_churn_copies_checked", checked)
	c.Count("pub_churn_reconnects", w.Attached()-len(stable)-6)
	c.Nontrivial()
	c.Sig("pubchurn|%s|%d", proto, len(stable))
	_ = mangos.ErrClosed
}
