package c06

import (
	"testing"

	"verifharness/hx"
	"verifharness/mon"
)

// C06 — SUB delivers exactly the matching messages; PUB reaches every subscriber.
//
// Real pub/xpub, sub (socket + contexts) and xsub sockets over inproc and tcp.
//   seq      sequential histories with sentinel barriers: exact oracle (reference prefix matcher
//            over the publish history, model of the per-context queue incl. Unsubscribe filtering)
//   conc     subscription changes and receives race with arrivals: interval semantics
//   ovf-sub  context queue shorter than the burst: order-preserving duplicate-free subsequence
//   ovf-pub  PUB send queue shorter than the burst: the same, plus per-socket consistency
//   q0       contexts with ReadQLen 0 (or 1-2, overflowing), unread or with a Recv loop: the other
//            contexts of the socket are exact, the short ones deliver a subsequence
//   sub-redial  dialing subscribers lose the connection (pipe dropped / publisher restarted): exactly once after
//   pub-device  PUB -> mangos.Device(xsub, xpub) chain -> SUB: exact stream behind the forwarders (redial_test.go)

func TestMain(m *testing.M) { hx.Main(m) }

func TestC06(t *testing.T) {
	r := mon.NewRunner(t, "C06")
	rnd := r.Rand()
	var cases []mon.CaseSpec
	// Every tcp connection leaves a TIME_WAIT socket behind for a minute; the thorough tier would
	// exhaust the ephemeral ports (bind: address already in use, for every check on the machine),
	// so most stream-transport cases use ipc (same stream code path, no ports).
	tcpPct := r.Pick(20, 5)
	pickTr := func() string {
		switch x := rnd.Intn(100); {
		case x < 50:
			return "inproc"
		case x < 50+tcpPct:
			return "tcp"
		}
		return "ipc"
	}
	base := func(mode string) spec {
		return spec{Mode: mode, Tr: pickTr(), NPub: 1 + rnd.Intn(2), NSub: 1 + rnd.Intn(3), NCtx: 1 + rnd.Intn(3),
			RawPub: rnd.Intn(3) == 0, SubListens: rnd.Intn(2) == 0}
	}
	for i := 0; i < r.Pick(1200, 60000); i++ {
		sp := base("seq")
		sp.XSub = []int{0, 0, 1, 1, 2}[rnd.Intn(5)]
		sp.Steps = 4 + rnd.Intn(27)
		cases = append(cases, mon.CaseSpec{Name: "seq", Spec: sp})
	}
	for i := 0; i < r.Pick(400, 20000); i++ {
		sp := base("conc")
		sp.NSub = 1 + rnd.Intn(2)
		sp.Prefill = rnd.Intn(3) != 0
		sp.Spin = rnd.Intn(2) == 0
		if sp.Spin {
			sp.Steps, sp.Rounds = 100+rnd.Intn(200), 10+rnd.Intn(31)
		} else {
			sp.Steps, sp.Rounds = 20+rnd.Intn(40), 1+rnd.Intn(3) // Steps = subscription changes per context and round
		}
		cases = append(cases, mon.CaseSpec{Name: "conc", Spec: sp})
	}
	for i := 0; i < r.Pick(200, 10000); i++ {
		sp := base("ovf-sub")
		sp.NPub, sp.NSub, sp.NCtx = 1, 1, 2
		sp.Steps = 2 + rnd.Intn(4)
		cases = append(cases, mon.CaseSpec{Name: "ovf-sub", Spec: sp})
	}
	for i := 0; i < r.Pick(100, 5000); i++ {
		sp := base("ovf-pub")
		sp.NPub, sp.NSub, sp.NCtx = 1, 1+rnd.Intn(2), 1+rnd.Intn(2)
		sp.WQ = []int{1, 2, 4, 8}[rnd.Intn(4)]
		sp.Steps = 2 + rnd.Intn(3)
		cases = append(cases, mon.CaseSpec{Name: "ovf-pub", Spec: sp})
	}
	// Recv racing with Unsubscribe on loaded queues, many rounds on one small topology (the case
	// ends at the first violation): the schedule-dependent part of "in each publisher's order".
	for i := 0; i < r.Pick(16, 96); i++ {
		sp := spec{Mode: "conc", Tr: "inproc", NPub: 1, NSub: 1, NCtx: 1 + rnd.Intn(2), SubListens: rnd.Intn(2) == 0,
			Prefill: true, Spin: true, Steps: 150 + rnd.Intn(150), Rounds: 1000, QLen: 1024}
		cases = append(cases, mon.CaseSpec{Name: "conc-race", Spec: sp})
	}
	for i := 0; i < r.Pick(120, 4000); i++ {
		sp := spec{Mode: "stalled", NSub: rnd.Intn(3), RawPub: rnd.Intn(3) == 0, WQ: []int{1, 2, 4, 8}[rnd.Intn(4)], Steps: rnd.Intn(8)}
		cases = append(cases, mon.CaseSpec{Name: "pub-stalled-peer", Spec: sp})
	}
	for i := 0; i < r.Pick(12, 300); i++ {
		cases = append(cases, mon.CaseSpec{Name: "pub-churn", Spec: spec{Mode: "pubchurn", NSub: rnd.Intn(4), RawPub: i%2 == 0, Steps: rnd.Intn(10)}})
	}
	for i := 0; i < r.Pick(40, 1500); i++ {
		cases = append(cases, mon.CaseSpec{Name: "pub-resize", Spec: spec{Mode: "pubresize", NSub: rnd.Intn(3), RawPub: i%2 == 0, WQ: []int{0, 1, 2, 8}[rnd.Intn(4)], Steps: rnd.Intn(8)}})
	}
	// Contexts with a zero-length (or tiny, overflowing) queue, unread or with a Recv loop, next to
	// normal contexts on the same socket: the neighbours stay exact.
	for i := 0; i < r.Pick(160, 8000); i++ {
		sp := base("q0")
		sp.NSub, sp.NCtx = 1+rnd.Intn(2), 2+rnd.Intn(3)
		sp.Steps = 2 + rnd.Intn(3)
		cases = append(cases, mon.CaseSpec{Name: "sub-short-queue-neighbour", Spec: sp})
	}
	// Subscribers that dialed lose their connection (pipe dropped by the publisher, or publisher
	// restarted at the same address) 1-3 times: exactly-once, in-order delivery after every redial.
	for i := 0; i < r.Pick(48, 1500); i++ {
		sp := spec{Mode: "redial", Tr: pickTr(), NSub: 1 + rnd.Intn(3), NCtx: 1 + rnd.Intn(2), RawPub: rnd.Intn(3) == 0,
			Rounds: 1 + rnd.Intn(3), Restart: rnd.Intn(2) == 0}
		sp.XSub = rnd.Intn(sp.NSub+1) / 2
		cases = append(cases, mon.CaseSpec{Name: "sub-redial", Spec: sp})
	}
	// PUB -> chain of mangos.Device(xsub, xpub) forwarders -> SUB.
	for i := 0; i < r.Pick(40, 1200); i++ {
		sp := spec{Mode: "device", Tr: pickTr(), NPub: 1 + rnd.Intn(2), NSub: 1 + rnd.Intn(3), NCtx: 1 + rnd.Intn(2), RawPub: rnd.Intn(3) == 0,
			Depth: 1 + rnd.Intn(2), DevFirst: rnd.Intn(2) == 0, Steps: 1 + rnd.Intn(4)}
		sp.XSub = rnd.Intn(sp.NSub+1) / 2
		cases = append(cases, mon.CaseSpec{Name: "pub-device", Spec: sp})
	}
	// sub-redial, own-rejection dimension: the SUBSCRIBER's pipe hook closes some of its own
	// connections during Attaching or Attached; afterwards one live connection, every message once.
	for i := 0; i < r.Pick(32, 1000); i++ {
		sp := spec{Mode: "redial", Tr: pickTr(), NSub: 1 + rnd.Intn(3), NCtx: 1 + rnd.Intn(2), RawPub: rnd.Intn(3) == 0,
			Rounds: rnd.Intn(3), Reject: true}
		sp.XSub = rnd.Intn(sp.NSub+1) / 2
		cases = append(cases, mon.CaseSpec{Name: "sub-redial", Spec: sp})
	}
	r.Run(cases, func(c *mon.Case) {
		sp := c.Spec.(spec)
		switch sp.Mode {
		case "redial":
			runRedial(c, sp)
		case "device":
			runDevice(c, sp)
		case "q0":
			runQ0(c, sp)
		case "pubresize":
			runPubResize(c, sp)
		case "stalled":
			runStalledPeer(c, sp)
		case "pubchurn":
			runPubChurn(c, sp)
		case "seq":
			runSeq(c, sp)
		case "conc":
			runConc(c, sp)
		case "ovf-sub":
			runOvfSub(c, sp)
		case "ovf-pub":
			runOvfPub(c, sp)
		}
	})
}

// ---- sequential histories ---------------------------------------------------

const queueBudget = 110 // model queue length we never exceed (default ReadQLen/WriteQLen is 128)

// pickSubTopic draws a topic to subscribe: new, a duplicate, an extension or a
// prefix of an existing one, or one of the sentinel family.
func pickSubTopic(c *mon.Case, cx *ctxM) []byte {
	r := c.Rand
	if len(cx.subs) > 0 {
		t := cx.subs[r.Intn(len(cx.subs))]
		switch x := r.Intn(20); {
		case x < 3:
			return t // duplicate
		case x < 6:
			if len(t) < 4 && (len(t) == 0 || t[0] != sentByte) {
				return append(append([]byte{}, t...), alphabet[r.Intn(len(alphabet))])
			}
		case x < 8:
			if len(t) > 0 && t[0] != sentByte {
				return append([]byte{}, t[:r.Intn(len(t))]...)
			}
		}
	}
	if r.Intn(25) == 0 {
		return [][]byte{{sentByte}, sentTopic}[r.Intn(2)]
	}
	return randTopic(r)
}

func pickUnsubTopic(c *mon.Case, cx *ctxM) []byte {
	r := c.Rand
	if len(cx.subs) > 0 && r.Intn(10) < 7 {
		return cx.subs[r.Intn(len(cx.subs))]
	}
	if len(cx.subs) > 0 && r.Intn(2) == 0 {
		// a neighbour of a present topic: its proper prefix or extension (present only by coincidence)
		t := cx.subs[r.Intn(len(cx.subs))]
		if len(t) > 0 && r.Intn(2) == 0 {
			return append([]byte{}, t[:len(t)-1]...)
		}
		return append(append([]byte{}, t...), alphabet[r.Intn(len(alphabet))])
	}
	return randTopic(r)
}

// randomOp performs one Subscribe or Unsubscribe on cx, respecting the one
// restriction that keeps the oracle inside the statement: no Subscribe on a
// context between a successful Unsubscribe that pruned a non-empty queue and
// the drain of that queue.
func randomOp(g *rig, cx *ctxM) bool {
	r := g.c.Rand
	wantSub := r.Intn(100) < 55
	if len(cx.subs) >= 6 {
		wantSub = false
	}
	if cx.shrunk {
		wantSub = false
	}
	if wantSub {
		return g.subscribe(cx, pickSubTopic(g.c, cx))
	}
	return g.unsubscribe(cx, pickUnsubTopic(g.c, cx))
}

func runSeq(c *mon.Case, sp spec) {
	g := newRig(c, sp)
	if g == nil || c.Failed() {
		return
	}
	r := c.Rand
	// initial subscriptions: most contexts watch the sentinel prefix, some start with nothing at all
	for _, cx := range g.subjects() {
		if r.Intn(100) < 80 {
			if !g.subscribe(cx, sentTopic) {
				return
			}
		}
		for k := r.Intn(3); k > 0; k-- {
			if !g.subscribe(cx, randTopic(r)) {
				return
			}
		}
	}
	drainAll := func(force bool, need int) bool {
		for _, cx := range g.subjects() {
			if force || cx.pendTotal()+need > queueBudget {
				if !g.drain(cx) {
					return false
				}
			}
		}
		return true
	}
	for step := 0; step < sp.Steps && !c.Failed() && !c.Undecided(); step++ {
		subj := g.subjects()
		// subscription changes between publications (possibly on contexts with a non-empty queue)
		for k := r.Intn(4); k > 0; k-- {
			if !randomOp(g, subj[r.Intn(len(subj))]) {
				return
			}
		}
		// contexts come and go without disturbing the others
		if r.Intn(12) == 0 {
			ss := g.socks[r.Intn(len(g.socks))]
			if r.Intn(2) == 0 && len(ss.ctxs) < 4 {
				cx := g.openCtx(ss)
				if cx == nil {
					return
				}
				ss.ctxs = append(ss.ctxs, cx)
				c.Count("contexts_opened_midway", 1)
				g.tr("%s:open", cx.name)
			} else {
				for _, cx := range ss.ctxs[1:] {
					if !cx.closed {
						if err := cx.closeFn(); err != nil {
							c.Violate("sub/context-close-error", "%s: Close returned %v", cx.name, err)
							return
						}
						cx.closed = true
						c.Count("contexts_closed_midway", 1)
						g.tr("%s:close", cx.name)
						break
					}
				}
			}
			subj = g.subjects()
		}
		// the step: plain publication, or publication followed by Unsubscribe on a loaded queue
		unsubq := r.Intn(100) < 40
		var target *ctxM
		var ttopic []byte
		if unsubq {
			var cand []*ctxM
			for _, cx := range subj {
				if len(topicsInUse([]*ctxM{cx})) > 0 && !cx.shrunk {
					cand = append(cand, cx)
				}
			}
			if len(cand) == 0 {
				unsubq = false
			} else {
				target = cand[r.Intn(len(cand))]
				ts := topicsInUse([]*ctxM{target})
				ttopic = ts[r.Intn(len(ts))]
			}
		}
		batches := make([][][]byte, sp.NPub)
		need := 0
		for p := range batches {
			n := []int{0, 1, 3, 8, 12, 20}[r.Intn(6)]
			inUse := topicsInUse(subj)
			if unsubq && r.Intn(2) == 0 {
				inUse = [][]byte{ttopic}
			}
			batches[p] = g.genBatch(p, n, inUse)
			need += n + 1
		}
		if !drainAll(false, need) {
			return
		}
		if _, ok := g.publish(batches); !ok {
			return
		}
		if !g.sync() {
			return
		}
		if unsubq {
			// every message of the step is queued at target (its socket's witness has the sentinels)
			if !g.unsubscribe(target, ttopic) {
				return
			}
			for k := r.Intn(3); k > 0; k-- {
				if !g.unsubscribe(target, pickUnsubTopic(c, target)) {
					return
				}
			}
		}
		for _, cx := range g.subjects() {
			if r.Intn(100) < 65 || cx == target {
				if !g.drain(cx) {
					return
				}
			}
		}
	}
	if c.Failed() || c.Undecided() {
		return
	}
	// final barrier: everything still queued, then nothing but the sentinels may remain anywhere
	if !drainAll(true, 0) {
		return
	}
	for _, cx := range g.subjects() {
		if !g.subscribe(cx, sentTopic) {
			return
		}
	}
	if _, ok := g.publish(nil); !ok {
		return
	}
	if !g.sync() || !drainAll(true, 0) {
		return
	}
	g.checkKept()
	c.Sig("seq|%s|%d|%d|%d|%d|%s", sp.Tr, sp.NPub, sp.NSub, sp.NCtx, sp.XSub, g.trace.String())
}
