package c06

import (
	"bytes"
	"fmt"
	"time"

	"go.nanomsg.org/mangos/v3"

	"verifharness/hx"
	"verifharness/mon"
	"verifharness/vt"
)

// runStalledPeer: "a PUB socket sends every message to every connected subscriber" — one
// subscriber that is stalled (its send queue full, its transport not completing sends) must not
// make the others miss anything.  All peers are vt pipes; the healthy ones take every message
// at once, so their own queues cannot overflow.
func runStalledPeer(c *mon.Case, sp spec) {
	proto := "pub"
	if sp.RawPub {
		proto = "xpub"
	}
	s := hx.MustSock(c, proto)
	s.SetOption(mangos.OptionWriteQLen, sp.WQ)
	name := hx.Uniq("c06s")
	L := vt.L(name)
	c.Cleanup(func() { vt.Forget(name) })
	if err := s.Listen(vt.Addr(name)); err != nil {
		c.Inconclusive("setup: %v", err)
		return
	}
	w := hx.WatchPipes(s)
	var peers []*vt.Pipe
	stalled := map[int]bool{}
	n := 2 + sp.NSub
	for i := 0; i < n; i++ {
		p := L.Connect()
		peers = append(peers, p)
	}
	if !hx.WaitAttached(c, w, n, "vt subscribers") {
		return
	}
	// which peers stall is drawn per case; at least one healthy, at least one stalled
	for i := range peers {
		if c.Rand.Intn(2) == 0 {
			stalled[i] = true
		}
	}
	if len(stalled) == 0 {
		stalled[c.Rand.Intn(n)] = true
	}
	if len(stalled) == n {
		delete(stalled, c.Rand.Intn(n))
	}
	for i := range stalled {
		peers[i].HoldSends()
	}
	total := sp.WQ + 4 + sp.Steps
	for q := 0; q < total && !c.Failed(); q++ {
		msg := []byte(fmt.Sprintf("m|%s|%03d", name, q))
		k := mon.Go("Send", func() (interface{}, error) { return nil, s.Send(msg) })
		if !c.AwaitOrViolate("pub/send-blocked-by-stalled-subscriber", "PUB Send with a stalled subscriber", k.Done, mon.AwaitOpts{}) {
			return
		}
		if _, e, _ := k.Result(); e != nil {
			c.Violate("pub/send-error", "Send: %v", e)
			return
		}
		// lock step: every healthy subscriber has it before the next one is published
		for i, p := range peers {
			if stalled[i] {
				continue
			}
			i, p := i, p
			if !c.AwaitOrViolate("pub/healthy-subscriber-missed-message", fmt.Sprintf("message %d of %d reaching healthy subscriber %d while subscriber(s) %v are stalled with a full queue (WriteQLen=%d)", q, total, i, keys(stalled), sp.WQ), func() bool {
				for _, x := range p.SentFrom(0) {
					if bytes.Equal(x.Body, msg) {
						return true
					}
				}
				return false
			}, mon.AwaitOpts{}) {
				return
			}
		}
		c.Count("messages_fanned_out_past_stalled_peer", 1)
	}
	// healthy peers got every message exactly once, in order
	for i, p := range peers {
		if stalled[i] {
			continue
		}
		log := p.SentLog()
		if len(log) != total {
			c.Violate("pub/healthy-subscriber-count", "healthy subscriber %d was sent %d messages, %d were published", i, len(log), total)
		}
		for q, x := range log {
			if want := fmt.Sprintf("m|%s|%03d", name, q); string(x.Body) != want {
				c.Violate("pub/healthy-subscriber-order", "healthy subscriber %d: message %d is %q, want %q", i, q, x.Body, want)
				break
			}
		}
	}
	for i := range stalled {
		peers[i].ReleaseSends()
	}
	c.Nontrivial()
	c.Sig("stalled|%s|%d|%d|%v", proto, n, sp.WQ, keys(stalled))
	_ = time.Second
}

func keys(m map[int]bool) []int {
	var out []int
	for i := 0; i < 16; i++ {
		if m[i] {
			out = append(out, i)
		}
	}
	return out
}
