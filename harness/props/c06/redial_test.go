//go:build verif

package c06

import (
	"errors"
	"fmt"
	"strings"
	"sync"
	"time"

	"go.nanomsg.org/mangos/v3"

	"verifharness/hx"
	"verifharness/mon"
)

// Two kinds whose subject is the path between publisher and subscriber rather than the matcher:
//
//   sub-redial   subscribers that DIALED the publisher lose the connection (the publisher closes
//                the pipe, or goes away and comes back at the same address) one or more times; after
//                every reconnection each matching message is delivered exactly once and in order.
//   pub-device   PUB -> [XSUB device XPUB]{1,2} -> SUB: subscribers behind a chain of mangos.Device
//                forwarders receive exactly the matching messages, once, in each publisher's order.
//
// Both use the same stream oracle: numbered bursts (<= 8 per publisher, far below every queue) each
// closed by a sentinel per publisher; a receiver has a blocking Recv loop; when the sentinels of a
// burst have arrived, everything delivered so far is compared with the reference matcher.

type lnRecv struct {
	name string
	raw  bool
	subs [][]byte
	recv func() ([]byte, error)

	mu   sync.Mutex
	got  [][]byte
	err  error
	done int
	seen map[string]bool
	last []int // per publisher: index in its log of the last delivered message
}

func (r *lnRecv) loop() {
	for {
		b, err := r.recv()
		r.mu.Lock()
		if err != nil {
			r.err = err
			r.mu.Unlock()
			return
		}
		r.got = append(r.got, b)
		r.mu.Unlock()
	}
}

// hasSentinels: the sentinel `id` of every publisher has been delivered (or Recv failed).
func (r *lnRecv) hasSentinels(npub, id int) bool {
	r.mu.Lock()
	defer r.mu.Unlock()
	if r.err != nil {
		return true
	}
	n := 0
	for _, b := range r.got {
		if isSentinel(b) && sentID(b) == id {
			n++
		}
	}
	return n >= npub
}

type lnItem struct {
	body  []byte
	burst int
}

type lnRig struct {
	c     *mon.Case
	what  string // signature suffix: after-redial | behind-device
	npub  int
	logs  [][]lnItem     // per publisher, everything published
	index map[string]int // body -> index in its publisher's log
	rx    []*lnRecv
	burst int
	nchk  int
	nmsg  int
}

func newLnRig(c *mon.Case, what string, npub int) *lnRig {
	return &lnRig{c: c, what: what, npub: npub, logs: make([][]lnItem, npub), index: map[string]int{}}
}

func (g *lnRig) addRecv(name string, raw bool, subs [][]byte, recv func() ([]byte, error)) *lnRecv {
	r := &lnRecv{name: name, raw: raw, subs: subs, recv: recv, seen: map[string]bool{}, last: make([]int, g.npub)}
	for i := range r.last {
		r.last[i] = -1
	}
	g.rx = append(g.rx, r)
	go r.loop()
	return r
}

// burstOn publishes n tagged messages per publisher and a sentinel each, then waits until every
// receiver has the sentinels and judges what was delivered.  maxTimer: longest library timer armed.
func (g *lnRig) burstOn(pubs []mangos.Socket, n int, phase string, maxTimer time.Duration) bool {
	c := g.c
	g.burst++
	var inUse [][]byte
	for _, r := range g.rx {
		for _, t := range r.subs {
			if !refEqual(t, sentTopic) {
				inUse = append(inUse, t)
			}
		}
	}
	for p, s := range pubs {
		for k := 0; k < n; k++ {
			head := genHead(c.Rand, inUse)
			if len(head) > 0 && head[0] == sentByte {
				head = head[:0]
			}
			seq := len(g.logs[p])
			body := append(append([]byte{}, head...), tagByte, byte(p), byte(seq>>8), byte(seq))
			g.index[string(body)] = seq
			g.logs[p] = append(g.logs[p], lnItem{body: body, burst: g.burst})
			if err := s.Send(body); err != nil {
				c.Violate("pub/send-error:"+g.what, "%s: publisher %d Send returned %v", phase, p, err)
				return false
			}
			g.nmsg++
		}
		sb := []byte{sentByte, sentByte, byte(p), byte(g.burst >> 8), byte(g.burst)}
		g.index[string(sb)] = len(g.logs[p])
		g.logs[p] = append(g.logs[p], lnItem{body: sb, burst: g.burst})
		if err := s.Send(sb); err != nil {
			c.Violate("pub/send-error:"+g.what, "%s: publisher %d Send returned %v", phase, p, err)
			return false
		}
	}
	for _, r := range g.rx {
		r := r
		id := g.burst
		if !c.AwaitOrViolate("sub/matching-not-delivered:"+g.what,
			fmt.Sprintf("%s: %s (subscriptions %s) waiting for the sentinel of burst %d from %d publisher(s); delivered so far %d message(s)", phase, r.name, hexs(r.subs), id, g.npub, r.count()),
			func() bool { return r.hasSentinels(g.npub, id) }, mon.AwaitOpts{MaxTimer: maxTimer}) {
			return false
		}
		if !g.judge(r, phase) {
			return false
		}
	}
	return true
}

func (r *lnRecv) count() int { r.mu.Lock(); defer r.mu.Unlock(); return len(r.got) }

func (g *lnRig) judge(r *lnRecv, phase string) bool {
	c := g.c
	r.mu.Lock()
	got := append([][]byte{}, r.got...)
	err := r.err
	r.mu.Unlock()
	if err != nil {
		c.Violate("sub/recv-error:"+g.what, "%s: %s Recv returned %v on an open socket without deadline", phase, r.name, err)
		return false
	}
	for _, b := range got[r.done:] {
		p := attribute(b, g.npub)
		idx, known := g.index[string(b)]
		if p < 0 || !known {
			c.Violate("sub/modified-or-foreign:"+g.what, "%s: %s delivered %x which nobody published", phase, r.name, b)
			return false
		}
		if r.seen[string(b)] {
			c.Violate("sub/duplicate:"+g.what, "%s: %s delivered %x (publisher %d message %d) a second time; %d delivered before it", phase, r.name, b, p, idx, len(r.seen))
			return false
		}
		if !r.raw && !refMatches(r.subs, b) {
			c.Violate("sub/non-matching-delivered:"+g.what, "%s: %s with subscriptions %s delivered %x", phase, r.name, hexs(r.subs), b)
			return false
		}
		if idx < r.last[p] {
			c.Violate("sub/order:"+g.what, "%s: %s delivered publisher %d message %d after message %d", phase, r.name, p, idx, r.last[p])
			return false
		}
		r.seen[string(b)] = true
		r.last[p] = idx
		g.nchk++
	}
	r.done = len(got)
	// the sentinels of the current burst are in: everything matching up to them must be too
	for p := range g.logs {
		for i, it := range g.logs[p] {
			if it.burst > g.burst {
				break
			}
			if (r.raw || refMatches(r.subs, it.body)) && !r.seen[string(it.body)] {
				c.Violate("sub/matching-not-delivered:"+g.what, "%s: %s with subscriptions %s never got %x (publisher %d message %d, burst %d) although the sentinel behind it arrived; no queue held more than %d", phase, r.name, hexs(r.subs), it.body, p, i, it.burst, 2*9*g.npub)
				return false
			}
		}
	}
	return true
}

// lnSubscriber opens a sub or xsub socket (sub: socket-level subscriptions and optionally one more
// context with its own) and returns the socket; receivers are registered on g.
func (g *lnRig) subscriber(i int, raw bool, extraCtx bool) mangos.Socket {
	c := g.c
	if raw {
		s := hx.MustSock(c, "xsub")
		g.addRecv(fmt.Sprintf("xsub%d", i), true, nil, s.Recv)
		return s
	}
	s := hx.MustSock(c, "sub")
	pick := func() [][]byte {
		ts := [][]byte{sentTopic}
		for k := 1 + c.Rand.Intn(2); k > 0; k-- {
			t := randTopic(c.Rand)
			if len(t) > 0 && c.Rand.Intn(3) == 0 {
				t = t[:len(t)-1]
			}
			ts = append(ts, t)
		}
		return ts
	}
	ts := pick()
	for _, t := range ts {
		if err := s.SetOption(mangos.OptionSubscribe, t); err != nil {
			c.Violate("sub/subscribe-error:"+g.what, "Subscribe(%x) returned %v", t, err)
			return nil
		}
	}
	g.addRecv(fmt.Sprintf("sub%d", i), false, ts, s.Recv)
	if extraCtx {
		cx, err := s.OpenContext()
		if err != nil {
			c.Violate("sub/open-context-error:"+g.what, "OpenContext returned %v", err)
			return nil
		}
		ts := pick()
		for _, t := range ts {
			if err := cx.SetOption(mangos.OptionSubscribe, t); err != nil {
				c.Violate("sub/subscribe-error:"+g.what, "context Subscribe(%x) returned %v", t, err)
				return nil
			}
		}
		g.addRecv(fmt.Sprintf("sub%d.ctx", i), false, ts, cx.Recv)
	}
	return s
}

// livePipes tracks the pipes currently attached to a socket.
type livePipes struct {
	mu       sync.Mutex
	live     map[uint32]mangos.Pipe
	attached int
	detached int
}

func watchLive(s mangos.Socket) *livePipes {
	w := &livePipes{live: map[uint32]mangos.Pipe{}}
	s.SetPipeEventHook(func(ev mangos.PipeEvent, p mangos.Pipe) {
		w.mu.Lock()
		switch ev {
		case mangos.PipeEventAttached:
			w.attached++
			w.live[p.ID()] = p
		case mangos.PipeEventDetached:
			if _, ok := w.live[p.ID()]; ok {
				w.detached++
				delete(w.live, p.ID())
			}
		}
		w.mu.Unlock()
	})
	return w
}

func (w *livePipes) counts() (int, int) {
	w.mu.Lock()
	defer w.mu.Unlock()
	return w.attached, w.detached
}
func (w *livePipes) pipes() []mangos.Pipe {
	w.mu.Lock()
	defer w.mu.Unlock()
	var out []mangos.Pipe
	for _, p := range w.live {
		out = append(out, p)
	}
	return out
}

// rejTracker is a SUBSCRIBER-side pipe event hook that turns down some of the subscriber's own
// connections: the connection with ordinal i (0 = first ever) is closed when bit i of mask is
// set, either inside the Attaching event or inside the Attached event.  It also tracks the
// accepted ("good") connections so that the case can wait for exactly the state it needs.
type rejTracker struct {
	mu          sync.Mutex
	mask        uint
	atAttaching bool
	conns       int // Attaching events seen
	nrej        int
	rejected    map[uint32]bool
	good        map[uint32]bool
	liveGood    int
	goodDet     int
}

func (t *rejTracker) hook(ev mangos.PipeEvent, p mangos.Pipe) {
	closeIt := false
	t.mu.Lock()
	id := p.ID()
	switch ev {
	case mangos.PipeEventAttaching:
		delete(t.rejected, id)
		delete(t.good, id)
		ord := t.conns
		t.conns++
		if ord < 16 && t.mask>>uint(ord)&1 == 1 {
			t.rejected[id] = true
			t.nrej++
			closeIt = t.atAttaching
		}
	case mangos.PipeEventAttached:
		if t.rejected[id] {
			closeIt = !t.atAttaching
		} else {
			t.good[id] = true
			t.liveGood++
		}
	case mangos.PipeEventDetached:
		if t.good[id] {
			delete(t.good, id)
			t.liveGood--
			t.goodDet++
		}
		delete(t.rejected, id)
	}
	t.mu.Unlock()
	if closeIt {
		_ = p.Close()
	}
}

func (t *rejTracker) snap() (conns, nrej, liveGood, goodDet int) {
	t.mu.Lock()
	defer t.mu.Unlock()
	return t.conns, t.nrej, t.liveGood, t.goodDet
}

// awaitConn waits for connection set-up, which is not C06's subject: anything but success is inconclusive.
func awaitConn(c *mon.Case, what string, maxTimer time.Duration, cond func() bool) bool {
	r := mon.Await(cond, mon.AwaitOpts{MaxTimer: maxTimer})
	if r.V != mon.Done {
		c.Inconclusive("%s: %v after %v", what, r.V, r.Waited)
		return false
	}
	return true
}

// ---- sub-redial -------------------------------------------------------------

func runRedial(c *mon.Case, sp spec) {
	proto := "pub"
	if sp.RawPub {
		proto = "xpub"
	}
	g := newLnRig(c, "after-redial", 1)
	rt := time.Duration(1+c.Rand.Intn(8)) * time.Millisecond
	maxRt := time.Duration(0)
	if c.Rand.Intn(2) == 0 {
		maxRt = 4 * rt
	}
	maxTimer := 8 * rt
	var trk []*rejTracker
	pub := hx.MustSock(c, proto)
	w := watchLive(pub)
	var lo, do map[string]interface{}
	if hx.NeedsTLS(sp.Tr) {
		s, cl := hx.TlsConfigs()
		lo = map[string]interface{}{mangos.OptionTLSConfig: s}
		do = map[string]interface{}{mangos.OptionTLSConfig: cl}
	}
	l, err := pub.NewListener(hx.ListenAddr(sp.Tr), lo)
	if err == nil {
		err = l.Listen()
	}
	if err != nil {
		c.Inconclusive("setup: listen: %v", err)
		return
	}
	addr := l.Address()
	for i := 0; i < sp.NSub; i++ {
		s := g.subscriber(i, i < sp.XSub, sp.NCtx > 1 && c.Rand.Intn(2) == 0)
		if s == nil {
			return
		}
		if err := s.SetOption(mangos.OptionReconnectTime, rt); err != nil {
			c.Inconclusive("setup: %v", err)
			return
		}
		if err := s.SetOption(mangos.OptionMaxReconnectTime, maxRt); err != nil {
			c.Inconclusive("setup: %v", err)
			return
		}
		if sp.Reject {
			t := &rejTracker{atAttaching: c.Rand.Intn(2) == 0, rejected: map[uint32]bool{}, good: map[uint32]bool{}}
			if c.Rand.Intn(2) == 0 {
				t.mask = 1<<uint(1+c.Rand.Intn(3)) - 1 // only the first 1-3 connections
			} else {
				t.mask = uint(1 + c.Rand.Intn(63)) // any of the first six
			}
			s.SetPipeEventHook(t.hook)
			trk = append(trk, t)
		}
		d, err := s.NewDialer(addr, do)
		if err == nil {
			err = d.Dial()
		}
		if err != nil {
			c.Inconclusive("setup: dial %s: %v", addr, err)
			return
		}
	}
	// settled (Reject): every subscriber holds an accepted connection (and has lost gd0[i]+1 of
	// them when gd0 is given) and the publisher has attached every connection any subscriber has
	// seen, the accepted ones among them.  A subscriber with an accepted connection dials no more.
	settled := func(gd0 []int) bool {
		sum := 0
		for i, t := range trk {
			cn, _, lg, gd := t.snap()
			if lg < 1 || (gd0 != nil && gd <= gd0[i]) {
				return false
			}
			sum += cn
		}
		a, _ := w.counts()
		return a >= sum
	}
	var trace strings.Builder
	if sp.Reject {
		if !awaitConn(c, "subscribers attaching past their own rejections", maxTimer, func() bool { return settled(nil) }) {
			return
		}
		for _, t := range trk {
			fmt.Fprintf(&trace, "J%x", t.mask)
			if t.atAttaching {
				trace.WriteString("a")
			}
		}
	} else if !awaitConn(c, "subscribers attaching", maxTimer, func() bool { a, _ := w.counts(); return a >= sp.NSub }) {
		return
	}
	if !g.burstOn([]mangos.Socket{pub}, 1+c.Rand.Intn(8), "first connection", maxTimer) {
		return
	}
	redials := 0
	for gen := 1; gen <= sp.Rounds; gen++ {
		phase := fmt.Sprintf("generation %d", gen)
		restart := sp.Restart && !sp.Reject && c.Rand.Intn(2) == 0
		if sp.Reject {
			// the publisher drops every connection it has (stale rejected ones included); each
			// subscriber must lose its accepted connection and get another past its own hook
			gd0 := make([]int, len(trk))
			for i, t := range trk {
				_, _, _, gd0[i] = t.snap()
			}
			for _, p := range w.pipes() {
				_ = p.Close()
			}
			if !awaitConn(c, phase+": dropped subscribers reconnecting past their own rejections", maxTimer, func() bool { return settled(gd0) }) {
				return
			}
			redials += sp.NSub
			fmt.Fprintf(&trace, "D%d", sp.NSub)
		} else if restart {
			// the publisher goes away and a new one appears at the same address
			_ = pub.Close()
			np := hx.MustSock(c, proto)
			nw := watchLive(np)
			nl, err := np.NewListener(addr, lo)
			if err == nil {
				err = nl.Listen()
			}
			if err != nil {
				c.Inconclusive("re-listen at %s: %v", addr, err)
				return
			}
			pub, w = np, nw
			if !awaitConn(c, phase+": subscribers reconnecting to the restarted publisher", maxTimer, func() bool { a, _ := w.counts(); return a >= sp.NSub }) {
				return
			}
			redials += sp.NSub
			trace.WriteString("R")
		} else {
			// the publisher drops some or all of its connections
			ps := w.pipes()
			if len(ps) < sp.NSub {
				c.Inconclusive("%s: %d live pipes for %d subscribers", phase, len(ps), sp.NSub)
				return
			}
			c.Rand.Shuffle(len(ps), func(i, j int) { ps[i], ps[j] = ps[j], ps[i] })
			k := 1 + c.Rand.Intn(sp.NSub)
			a0, d0 := w.counts()
			for _, p := range ps[:k] {
				_ = p.Close()
			}
			if !awaitConn(c, phase+": dropped subscribers reconnecting", maxTimer, func() bool { a, d := w.counts(); return a >= a0+k && d >= d0+k }) {
				return
			}
			redials += k
			fmt.Fprintf(&trace, "D%d", k)
		}
		// several short bursts: each is a round trip, a surplus connection has time to show
		for b := 0; b < 2+c.Rand.Intn(2); b++ {
			if !g.burstOn([]mangos.Socket{pub}, c.Rand.Intn(9), phase, maxTimer) {
				return
			}
		}
	}
	// closing barriers: a copy travelling on another connection is ahead of these
	for b := 0; b < 2; b++ {
		if !g.burstOn([]mangos.Socket{pub}, 0, "closing barrier", maxTimer) {
			return
		}
	}
	nrej := 0
	for _, t := range trk {
		_, n, _, _ := t.snap()
		nrej += n
	}
	if sp.Reject {
		c.Count("redial_own_rejections", nrej)
		redials += nrej
	}
	c.Count("redial_reconnections", redials)
	c.Count("redial_deliveries_checked", g.nchk)
	c.Count("redial_published", g.nmsg)
	if redials > 0 && g.nchk > 0 {
		c.Nontrivial()
	}
	c.Sig("redial|%s|%s|%d|%d|%s|%d", proto, sp.Tr, sp.NSub, sp.XSub, trace.String(), g.nchk)
}

// ---- pub-device -------------------------------------------------------------

func runDevice(c *mon.Case, sp spec) {
	g := newLnRig(c, "behind-device", sp.NPub)
	maxTimer := 10 * time.Millisecond
	type watched struct {
		w    *livePipes
		want int
		name string
	}
	var ws []*watched
	mkPub := func(proto, name string) (mangos.Socket, *watched) {
		s := hx.MustSock(c, proto)
		x := &watched{w: watchLive(s), name: name}
		ws = append(ws, x)
		return s, x
	}
	devSock := map[mangos.Socket]bool{}
	// link connects an upstream (pub-like) socket with a downstream (sub-like) one
	link := func(up mangos.Socket, uw *watched, down mangos.Socket, what string) bool {
		var err error
		if c.Rand.Intn(2) == 0 {
			_, _, err = hx.Connect(up, down, sp.Tr)
		} else {
			_, _, err = hx.Connect(down, up, sp.Tr)
		}
		if err != nil {
			if errors.Is(err, mangos.ErrClosed) && (devSock[up] || devSock[down]) {
				c.Violate("device/socket-closed-by-forwarder", "%s: %v — a socket handed to mangos.Device(xsub, xpub) was closed although nobody closed it", what, err)
				return false
			}
			c.Inconclusive("setup: %s: %v", what, err)
			return false
		}
		uw.want++
		return true
	}
	var pubs []mangos.Socket
	var pws []*watched
	for p := 0; p < sp.NPub; p++ {
		proto := "pub"
		if sp.RawPub && p == 0 {
			proto = "xpub"
		}
		s, x := mkPub(proto, fmt.Sprintf("publisher %d", p))
		pubs, pws = append(pubs, s), append(pws, x)
	}
	type dev struct {
		front, back mangos.Socket
		bw          *watched
	}
	var devs []*dev
	for i := 0; i < sp.Depth; i++ {
		d := &dev{front: hx.MustSock(c, "xsub")}
		d.back, d.bw = mkPub("xpub", fmt.Sprintf("device %d back", i))
		devSock[d.front], devSock[d.back] = true, true
		devs = append(devs, d)
	}
	start := func(i int) bool {
		d := devs[i]
		var err error
		if c.Rand.Intn(2) == 0 {
			err = mangos.Device(d.front, d.back)
		} else {
			err = mangos.Device(d.back, d.front)
		}
		if err != nil {
			c.Violate("device/setup-error", "mangos.Device(xsub, xpub) returned %v", err)
			return false
		}
		return true
	}
	if sp.DevFirst {
		for i := range devs {
			if !start(i) {
				return
			}
		}
	}
	for p := range pubs {
		if !link(pubs[p], pws[p], devs[0].front, fmt.Sprintf("publisher %d to device 0", p)) {
			return
		}
	}
	for i := 1; i < len(devs); i++ {
		if !link(devs[i-1].back, devs[i-1].bw, devs[i].front, fmt.Sprintf("device %d to device %d", i-1, i)) {
			return
		}
	}
	for i := 0; i < sp.NSub; i++ {
		s := g.subscriber(i, i < sp.XSub, sp.NCtx > 1 && c.Rand.Intn(2) == 0)
		if s == nil {
			return
		}
		at := len(devs) - 1
		if i > 0 && c.Rand.Intn(3) == 0 {
			at = c.Rand.Intn(len(devs))
		}
		if !link(devs[at].back, devs[at].bw, s, fmt.Sprintf("subscriber %d to device %d", i, at)) {
			return
		}
	}
	for _, x := range ws {
		x := x
		if !awaitConn(c, x.name+": peers attaching", maxTimer, func() bool { a, _ := x.w.counts(); return a >= x.want }) {
			return
		}
	}
	if !sp.DevFirst {
		for i := range devs {
			if !start(i) {
				return
			}
		}
	}
	for b := 0; b < sp.Steps; b++ {
		if !g.burstOn(pubs, c.Rand.Intn(9), fmt.Sprintf("burst %d through %d device(s)", b+1, len(devs)), maxTimer) {
			return
		}
	}
	c.Count("device_deliveries_checked", g.nchk)
	c.Count("device_published", g.nmsg)
	if g.nchk > 0 {
		c.Nontrivial()
	}
	c.Sig("device|%s|%d|%d|%d|%d|%v|%d", sp.Tr, sp.Depth, sp.NPub, sp.NSub, sp.XSub, sp.DevFirst, g.nchk)
}
