package probe

import (
	"encoding/binary"
	"testing"
	"sync"

	"go.nanomsg.org/mangos/v3"
	"go.nanomsg.org/mangos/v3/protocol/pub"
	"go.nanomsg.org/mangos/v3/protocol/sub"
	_ "go.nanomsg.org/mangos/v3/transport/inproc"
)

func TestProbe(t *testing.T) {
	p, _ := pub.NewSocket()
	s, _ := sub.NewSocket()
	defer p.Close()
	defer s.Close()
	p.Listen("inproc://probe")
	s.Dial("inproc://probe")
	s.SetOption(mangos.OptionSubscribe, "m")
	wit, _ := s.OpenContext()
	wit.SetOption(mangos.OptionSubscribe, "w")
	// wait for connection
	for {
		p.Send([]byte("w"))
		wit.SetOption(mangos.OptionRecvDeadline, 10e6)
		if _, err := wit.Recv(); err == nil { break }
	}
	wit.SetOption(mangos.OptionRecvDeadline, 0)
	// drain wit
	reorders := 0
	rounds := 3000
	seq := uint32(0)
	for r := 0; r < rounds; r++ {
		n := 100
		first := seq
		for i := 0; i < n; i++ {
			b := []byte{'m', 0, 0, 0, 0}
			binary.BigEndian.PutUint32(b[1:], seq)
			seq++
			p.Send(b)
		}
		p.Send([]byte("w"))
		for { b, _ := wit.Recv(); if len(b) == 1 { break } }
		var wg sync.WaitGroup
		stop := make(chan struct{})
		wg.Add(1)
		go func() {
			defer wg.Done()
			for {
				select { case <-stop: return; default: }
				s.SetOption(mangos.OptionSubscribe, "x")
				s.SetOption(mangos.OptionUnsubscribe, "x")
			}
		}()
		last := int64(first) - 1
		for i := 0; i < n; i++ {
			b, err := s.Recv()
			if err != nil { t.Fatal(err) }
			v := int64(binary.BigEndian.Uint32(b[1:]))
			if v < last { reorders++; t.Logf("round %d: got %d after %d", r, v, last) }
			last = v
		}
		close(stop)
		wg.Wait()
	}
	t.Logf("reorders=%d in %d rounds", reorders, rounds)
}
