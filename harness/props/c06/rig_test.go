package c06

import (
	"fmt"
	"math/rand"
	"strings"
	"sync"
	"time"

	"go.nanomsg.org/mangos/v3"

	"verifharness/hx"
	"verifharness/mon"
)

// ---- reference model --------------------------------------------------------

// refHasPrefix is the reference prefix relation, written from the property
// statement (it deliberately shares no code with the library or package bytes).
func refHasPrefix(body, topic []byte) bool {
	if len(topic) > len(body) {
		return false
	}
	for i := 0; i < len(topic); i++ {
		if body[i] != topic[i] {
			return false
		}
	}
	return true
}

// refMatches: a body is wanted iff at least one current subscription is a prefix of it.
func refMatches(subs [][]byte, body []byte) bool {
	for _, t := range subs {
		if refHasPrefix(body, t) {
			return true
		}
	}
	return false
}

func refEqual(a, b []byte) bool {
	return len(a) == len(b) && refHasPrefix(a, b)
}

func refIndex(subs [][]byte, t []byte) int {
	for i, s := range subs {
		if refEqual(s, t) {
			return i
		}
	}
	return -1
}

// ---- byte strings -----------------------------------------------------------

var alphabet = []byte{0x00, 'a', 'b', 0xff}

const (
	sentByte = 0xFE // sentinels are FE FE <pub> <idHi> <idLo>
	tagByte  = 0x01 // tagged bodies are <head> 01 <pub> <seqHi> <seqLo>
)

var sentTopic = []byte{sentByte, sentByte}

func randStr(r *rand.Rand, max int) []byte {
	n := r.Intn(max + 1)
	b := make([]byte, n)
	for i := range b {
		b[i] = alphabet[r.Intn(len(alphabet))]
	}
	return b
}

// randTopicLen: lengths 0..4, short ones more often (dense prefix relations).
func randTopic(r *rand.Rand) []byte {
	n := []int{0, 1, 1, 1, 2, 2, 2, 3, 3, 4}[r.Intn(10)]
	b := make([]byte, n)
	for i := range b {
		b[i] = alphabet[r.Intn(len(alphabet))]
	}
	return b
}

func hexs(bs [][]byte) string {
	var sb strings.Builder
	sb.WriteString("[")
	for i, b := range bs {
		if i > 0 {
			sb.WriteString(" ")
		}
		if len(b) == 0 {
			sb.WriteString("''")
		} else {
			fmt.Fprintf(&sb, "%x", b)
		}
	}
	sb.WriteString("]")
	return sb.String()
}

func isSentinel(b []byte) bool { return len(b) == 5 && b[0] == sentByte && b[1] == sentByte }
func sentID(b []byte) int      { return int(b[3])<<8 | int(b[4]) }

// attribute returns the publisher a body claims to come from (-1: impossible).
func attribute(b []byte, npub int) int {
	p := 0
	switch {
	case isSentinel(b):
		p = int(b[2])
	case len(b) >= 4 && b[len(b)-4] == tagByte:
		p = int(b[len(b)-3])
	}
	if p >= npub {
		return -1
	}
	return p
}

// ---- rig --------------------------------------------------------------------

type spec struct {
	Mode       string `json:"mode"` // seq | conc | ovf-sub | ovf-pub | q0 | ...
	Tr         string `json:"tr"`
	NPub       int    `json:"npub"`
	NSub       int    `json:"nsub"`
	NCtx       int    `json:"nctx"` // contexts per SUB socket (the socket itself counts as one)
	XSub       int    `json:"xsub"` // raw subscribers
	RawPub     bool   `json:"rawpub"`
	SubListens bool   `json:"sublistens"`
	Steps      int    `json:"steps"`
	WQ         int    `json:"wq,omitempty"`
	Prefill    bool   `json:"prefill,omitempty"`
	Spin       bool   `json:"spin,omitempty"`     // conc: mutators and publishers do not pause
	Rounds     int    `json:"rounds,omitempty"`   // conc: rounds per case; redial: generations
	Restart    bool   `json:"restart,omitempty"`  // redial: generations may restart the publisher instead of dropping pipes
	Reject     bool   `json:"reject,omitempty"`   // redial: the subscribers' own pipe hooks close some of their connections (Attaching/Attached)
	Depth      int    `json:"depth,omitempty"`    // device: forwarders in the chain
	DevFirst   bool   `json:"devfirst,omitempty"` // device: mangos.Device called before the sockets are connected
	QLen       int    `json:"qlen,omitempty"`     // conc: ReadQLen of every context and WriteQLen of every PUB (0: default 128)
}

type rxAPI interface {
	SetOption(string, interface{}) error
	Recv() ([]byte, error)
	RecvMsg() (*mangos.Message, error)
}

// ctxM is the model of one receiver: a SUB socket, a SUB context or a raw XSUB socket.
type ctxM struct {
	name     string
	sock     int
	api      rxAPI
	closeFn  func() error
	raw      bool
	witness  bool
	subs     [][]byte
	pend     [][][]byte      // per publisher: what the model says is queued, in order
	filtered map[string]bool // "<pub>|<body>" removed from the model queue by Unsubscribe since the last drain
	shrunk   bool            // an Unsubscribe succeeded while something was queued (no Subscribe until drained)
	offered  int             // messages that reached the socket since the last drain
	closed   bool
}

func (cx *ctxM) pendTotal() int {
	n := 0
	for _, q := range cx.pend {
		n += len(q)
	}
	return n
}

func (cx *ctxM) wants(body []byte) bool { return cx.raw || refMatches(cx.subs, body) }

type subSock struct {
	idx  int
	sock mangos.Socket
	ctxs []*ctxM // [0] is the socket itself
	wit  *ctxM
}

type keptMsg struct {
	m    *mangos.Message
	want []byte
}

type rig struct {
	c      *mon.Case
	sp     spec
	pubs   []mangos.Socket
	socks  []*subSock
	raws   []*ctxM
	tag    []int
	step   int
	hist   []map[string]bool // per publisher: every body ever sent
	keptMu sync.Mutex
	kept   []keptMsg
	trace  strings.Builder
	nctxN  int
	// evidence
	filteredSeen bool
	lossTag      string // appended to the signature of a missing delivery (names the kind's situation)
}

func (g *rig) tr(f string, a ...interface{}) {
	if g.trace.Len() < 8000 {
		fmt.Fprintf(&g.trace, f, a...)
		g.trace.WriteByte(' ')
	}
}

// receivers lists every modelled receiver (contexts, witnesses, raw sockets).
func (g *rig) receivers() []*ctxM {
	var out []*ctxM
	for _, ss := range g.socks {
		for _, cx := range ss.ctxs {
			if !cx.closed {
				out = append(out, cx)
			}
		}
		out = append(out, ss.wit)
	}
	out = append(out, g.raws...)
	return out
}

// subjects lists the live cooked, non-witness contexts.
func (g *rig) subjects() []*ctxM {
	var out []*ctxM
	for _, ss := range g.socks {
		for _, cx := range ss.ctxs {
			if !cx.closed {
				out = append(out, cx)
			}
		}
	}
	return out
}

func (g *rig) newCtx(name string, sock int, api rxAPI, closeFn func() error) *ctxM {
	return &ctxM{name: name, sock: sock, api: api, closeFn: closeFn, pend: make([][][]byte, g.sp.NPub), filtered: map[string]bool{}}
}

// call runs f under the stuck detector. ok=false: a violation or an inconclusive note was recorded.
func (g *rig) call(name, stuckSig string, maxTimer time.Duration, f func() (interface{}, error)) (interface{}, error, bool) {
	call := mon.Go(name, f)
	r := mon.Await(call.Done, mon.AwaitOpts{MaxTimer: maxTimer})
	switch r.V {
	case mon.Done:
		v, err, _ := call.Result()
		return v, err, true
	case mon.Stuck:
		g.c.Violate(stuckSig, "%s did not return: every goroutine parked, identical over 5 samples after %v\n%s", name, r.Waited, r.Dump)
	default:
		g.c.Inconclusive("%s: not done after %v, process still active", name, r.Waited)
	}
	return nil, nil, false
}

func (g *rig) openCtx(ss *subSock) *ctxM {
	v, err, ok := g.call("OpenContext", "sub/open-context-stuck", 0, func() (interface{}, error) { return ss.sock.OpenContext() })
	if !ok {
		return nil
	}
	if err != nil {
		g.c.Violate("sub/open-context-error", "OpenContext on an open SUB socket returned %v", err)
		return nil
	}
	ctx := v.(mangos.Context)
	g.nctxN++
	cx := g.newCtx(fmt.Sprintf("s%d.c%d", ss.idx, g.nctxN), ss.idx, ctx, ctx.Close)
	g.c.Cleanup(func() { ctx.Close() })
	return cx
}

func newRig(c *mon.Case, sp spec) *rig {
	g := &rig{c: c, sp: sp, tag: make([]int, sp.NPub)}
	c.Cleanup(func() {
		g.keptMu.Lock()
		for _, k := range g.kept {
			k.m.Free()
		}
		g.kept = nil
		g.keptMu.Unlock()
	})
	var pw, rw []*hx.PipeWatch
	var rsocks []mangos.Socket
	for p := 0; p < sp.NPub; p++ {
		name := "pub"
		if sp.RawPub {
			name = "xpub"
		}
		s := hx.MustSock(c, name)
		if wq := sp.WQ + sp.QLen; wq > 0 {
			if err := s.SetOption(mangos.OptionWriteQLen, wq); err != nil {
				c.Violate("pub/writeqlen-rejected", "SetOption(WriteQLen,%d) on %s: %v", wq, name, err)
				return nil
			}
		}
		g.pubs = append(g.pubs, s)
		g.hist = append(g.hist, map[string]bool{})
		pw = append(pw, hx.WatchPipes(s))
	}
	for i := 0; i < sp.NSub; i++ {
		s := hx.MustSock(c, "sub")
		if sp.QLen > 0 { // contexts opened later inherit the socket's queue length
			if err := s.SetOption(mangos.OptionReadQLen, sp.QLen); err != nil {
				c.Violate("sub/readqlen-rejected", "SetOption(ReadQLen,%d) on sub: %v", sp.QLen, err)
				return nil
			}
		}
		ss := &subSock{idx: i, sock: s}
		ss.ctxs = append(ss.ctxs, g.newCtx(fmt.Sprintf("s%d.sock", i), i, s, nil))
		for k := 1; k < sp.NCtx; k++ {
			cx := g.openCtx(ss)
			if cx == nil {
				return nil
			}
			ss.ctxs = append(ss.ctxs, cx)
		}
		w := g.openCtx(ss)
		if w == nil {
			return nil
		}
		w.name = fmt.Sprintf("s%d.wit", i)
		w.witness = true
		ss.wit = w
		g.socks = append(g.socks, ss)
		rsocks = append(rsocks, s)
		rw = append(rw, hx.WatchPipes(s))
		if !g.subscribe(w, sentTopic) {
			return nil
		}
	}
	for i := 0; i < sp.XSub; i++ {
		s := hx.MustSock(c, "xsub")
		cx := g.newCtx(fmt.Sprintf("x%d", i), sp.NSub+i, s, nil)
		cx.raw = true
		g.raws = append(g.raws, cx)
		rsocks = append(rsocks, s)
		rw = append(rw, hx.WatchPipes(s))
	}
	for _, p := range g.pubs {
		for _, r := range rsocks {
			var err error
			if sp.SubListens {
				_, _, err = hx.Connect(r, p, sp.Tr)
			} else {
				_, _, err = hx.Connect(p, r, sp.Tr)
			}
			if err != nil {
				c.Inconclusive("cannot connect over %s: %v", sp.Tr, err)
				return nil
			}
		}
	}
	for _, w := range pw {
		if !hx.WaitAttached(c, w, len(rsocks), "subscribers at PUB") {
			return nil
		}
	}
	for _, w := range rw {
		if !hx.WaitAttached(c, w, sp.NPub, "publishers at SUB") {
			return nil
		}
	}
	return g
}

// ---- subscription operations ------------------------------------------------

// setTopic issues Subscribe/Unsubscribe with the topic as []byte or string; a
// []byte argument is overwritten after the call returned (the subscription is
// the value at the time of the call).
func (g *rig) setTopic(cx *ctxM, opt string, t []byte) (error, bool) {
	var val interface{}
	var scratch []byte
	if g.c.Rand.Intn(2) == 0 {
		val = string(t)
	} else {
		scratch = append([]byte{}, t...)
		val = scratch
	}
	_, err, ok := g.call(opt+" "+cx.name, "sub/setoption-stuck:"+opt, 0, func() (interface{}, error) { return nil, cx.api.SetOption(opt, val) })
	for i := range scratch {
		scratch[i] ^= 0xA5
	}
	return err, ok
}

func (g *rig) subscribe(cx *ctxM, t []byte) bool {
	err, ok := g.setTopic(cx, mangos.OptionSubscribe, t)
	if !ok {
		return false
	}
	present := refIndex(cx.subs, t) >= 0
	g.c.Logf("%s Subscribe(%x) present=%v -> %v", cx.name, t, present, err)
	g.c.Count("subscribe_calls", 1)
	if err != nil {
		g.c.Violate("sub/subscribe-error", "%s: Subscribe(%x) returned %v (already subscribed: %v); subscriptions %s", cx.name, t, err, present, hexs(cx.subs))
		return false
	}
	if present {
		g.c.Count("subscribe_duplicate", 1)
		g.tr("%s:S=", cx.name)
	} else {
		cx.subs = append(cx.subs, append([]byte{}, t...))
		g.tr("%s:S+", cx.name)
	}
	return true
}

func (g *rig) unsubscribe(cx *ctxM, t []byte) bool {
	err, ok := g.setTopic(cx, mangos.OptionUnsubscribe, t)
	if !ok {
		return false
	}
	i := refIndex(cx.subs, t)
	g.c.Logf("%s Unsubscribe(%x) present=%v -> %v", cx.name, t, i >= 0, err)
	g.c.Count("unsubscribe_calls", 1)
	if i < 0 {
		g.c.Count("unsubscribe_absent", 1)
		if err != mangos.ErrBadValue {
			g.c.Violate("sub/unsubscribe-absent-not-badvalue", "%s: Unsubscribe(%x) of a topic that is not subscribed returned %v, want ErrBadValue; subscriptions %s", cx.name, t, err, hexs(cx.subs))
			return false
		}
		g.tr("%s:U!", cx.name)
		return true
	}
	if err != nil {
		g.c.Violate("sub/unsubscribe-error", "%s: Unsubscribe(%x) of a subscribed topic returned %v; subscriptions %s", cx.name, t, err, hexs(cx.subs))
		return false
	}
	cx.subs = append(append([][]byte{}, cx.subs[:i]...), cx.subs[i+1:]...)
	// the queue keeps only what still matches
	dropped := 0
	if cx.pendTotal() > 0 {
		cx.shrunk = true
	}
	for p := range cx.pend {
		var keep [][]byte
		for _, b := range cx.pend[p] {
			if refMatches(cx.subs, b) {
				keep = append(keep, b)
			} else {
				cx.filtered[fmt.Sprintf("%d|%s", p, b)] = true
				dropped++
			}
		}
		cx.pend[p] = keep
	}
	if dropped > 0 {
		g.c.Count("queued_messages_unsubscribed", dropped)
		g.filteredSeen = true
	}
	g.tr("%s:U-%d", cx.name, dropped)
	return true
}

// ---- publishing -------------------------------------------------------------

func (g *rig) sentinel(p, id int) []byte {
	return []byte{sentByte, sentByte, byte(p), byte(id >> 8), byte(id)}
}

// body builds a message body for publisher p: a head, and (except for some
// bodies of publisher 0) a unique tag.
func (g *rig) body(p int, head []byte, pure bool) []byte {
	if pure && p == 0 {
		return append([]byte{}, head...)
	}
	g.tag[p]++
	return append(append([]byte{}, head...), tagByte, byte(p), byte(g.tag[p]>>8), byte(g.tag[p]))
}

// topicsInUse: non-sentinel topics of the given contexts.
func topicsInUse(cxs []*ctxM) [][]byte {
	var out [][]byte
	for _, cx := range cxs {
		for _, t := range cx.subs {
			if len(t) > 0 && t[0] == sentByte {
				continue
			}
			out = append(out, t)
		}
	}
	return out
}

// genHead draws a body head biased towards the prefix relations that matter:
// extensions of, proper prefixes of, and near misses of topics in use.
func genHead(r *rand.Rand, inUse [][]byte) []byte {
	if len(inUse) > 0 {
		t := inUse[r.Intn(len(inUse))]
		switch x := r.Intn(10); {
		case x < 4:
			return append(append([]byte{}, t...), randStr(r, 2)...)
		case x < 5:
			if len(t) > 0 {
				return append([]byte{}, t[:r.Intn(len(t))]...)
			}
		case x < 6:
			if len(t) > 0 {
				h := append([]byte{}, t...)
				h[len(h)-1] = alphabet[r.Intn(len(alphabet))]
				return append(h, randStr(r, 1)...)
			}
		}
	}
	return randStr(r, 4)
}

func (g *rig) genBatch(p, n int, inUse [][]byte) [][]byte {
	var out [][]byte
	for i := 0; i < n; i++ {
		out = append(out, g.body(p, genHead(g.c.Rand, inUse), g.c.Rand.Intn(3) == 0))
	}
	return out
}

type sendItem struct {
	p    int
	body []byte
}

// send transmits the items in order from the case's publish goroutine.
func (g *rig) send(items []sendItem) bool {
	_, err, ok := g.call("publish", "pub/send-stuck", 0, func() (interface{}, error) {
		for _, it := range items {
			if err := g.pubs[it.p].Send(it.body); err != nil {
				return nil, fmt.Errorf("pub%d Send(%x): %w", it.p, it.body, err)
			}
		}
		return nil, nil
	})
	if !ok {
		return false
	}
	if err != nil {
		g.c.Violate("pub/send-error", "Send on an open PUB socket with connected subscribers failed: %v", err)
		return false
	}
	for _, it := range items {
		g.hist[it.p][string(it.body)] = true
	}
	g.c.Count("messages_published", len(items))
	return true
}

// publish sends every publisher's batch followed by that publisher's sentinel
// (sends of different publishers interleaved at random) and updates the model
// queues of all receivers.  Returns the sentinel id.
func (g *rig) publish(batches [][][]byte) (int, bool) {
	g.step++
	lists := make([][][]byte, g.sp.NPub)
	left := 0
	for p := range lists {
		if p < len(batches) {
			lists[p] = append(lists[p], batches[p]...)
		}
		lists[p] = append(lists[p], g.sentinel(p, g.step))
		left += len(lists[p])
	}
	idx := make([]int, g.sp.NPub)
	var items []sendItem
	for left > 0 {
		p := g.c.Rand.Intn(g.sp.NPub)
		if idx[p] >= len(lists[p]) {
			continue
		}
		items = append(items, sendItem{p, lists[p][idx[p]]})
		idx[p]++
		left--
	}
	if !g.send(items) {
		return 0, false
	}
	for _, cx := range g.receivers() {
		for p := range lists {
			for _, b := range lists[p] {
				cx.offered++
				if cx.wants(b) {
					cx.pend[p] = append(cx.pend[p], b)
				}
			}
		}
	}
	g.c.Logf("publish step %d: %d messages", g.step, len(items))
	return g.step, true
}

// ---- receiving --------------------------------------------------------------

type rxState struct {
	mu  sync.Mutex
	got [][]byte
}

func (st *rxState) snapshot() [][]byte {
	st.mu.Lock()
	defer st.mu.Unlock()
	return append([][]byte{}, st.got...)
}

// recvOne receives one message from cx.  Half of the receptions of cooked
// contexts use RecvMsg and then overwrite the returned body (the caller owns
// it), keeping the message until the case ends: another context's copy of the
// same publication must not change.
func (g *rig) recvOne(cx *ctxM, useMsg bool) ([]byte, error) {
	if !useMsg {
		return cx.api.Recv()
	}
	m, err := cx.api.RecvMsg()
	if err != nil {
		return nil, err
	}
	b := append([]byte{}, m.Body...)
	for j := range m.Body {
		m.Body[j] ^= 0x5A
	}
	g.keptMu.Lock()
	g.kept = append(g.kept, keptMsg{m: m, want: append([]byte{}, m.Body...)})
	g.keptMu.Unlock()
	return b, nil
}

// recvUntil receives from cx until stop(got) is true.  complete=false with
// ok=true never happens: ok=false means a verdict (stuck) or an inconclusive
// note has been recorded; for a stuck receive the partial result is judged by onStuck.
func (g *rig) recvUntil(cx *ctxM, stop func(got [][]byte) bool, onStuck func(got [][]byte, dump string)) ([][]byte, bool) {
	st := &rxState{}
	useMsg := !cx.raw && g.c.Rand.Intn(2) == 0
	call := mon.Go("Recv "+cx.name, func() (interface{}, error) {
		for {
			b, err := g.recvOne(cx, useMsg)
			if err != nil {
				return nil, err
			}
			st.mu.Lock()
			st.got = append(st.got, b)
			done := stop(st.got)
			st.mu.Unlock()
			if done {
				return nil, nil
			}
		}
	})
	r := mon.Await(call.Done, mon.AwaitOpts{})
	switch r.V {
	case mon.Done:
		if _, err, _ := call.Result(); err != nil {
			g.c.Violate("sub/recv-error", "%s: Recv on an open receiver without deadline returned %v after %d messages", cx.name, err, len(st.snapshot()))
			return nil, false
		}
		return st.snapshot(), true
	case mon.Stuck:
		onStuck(st.snapshot(), r.Dump)
	default:
		g.c.Inconclusive("%s: receive not finished after %v, process still active", cx.name, r.Waited)
	}
	return nil, false
}

// drain receives exactly what the model says is queued for cx and compares.
func (g *rig) drain(cx *ctxM) bool {
	n := cx.pendTotal()
	offered := cx.offered
	defer func() {
		cx.offered = 0
		cx.shrunk = false
		cx.filtered = map[string]bool{}
		for p := range cx.pend {
			cx.pend[p] = nil
		}
	}()
	if n == 0 {
		return true
	}
	got, ok := g.recvUntil(cx, func(got [][]byte) bool { return len(got) >= n },
		func(got [][]byte, dump string) { g.judge(cx, got, false, dump) })
	if !ok {
		return false
	}
	if !g.judge(cx, got, true, "") {
		return false
	}
	g.c.Count("deliveries_compared", n)
	g.c.Count("drains", 1)
	if cx.raw {
		g.c.Count("xsub_deliveries", n)
	} else if !cx.witness {
		g.tr("%s:%d/%d", cx.name, n, offered)
		if n < offered {
			g.c.Nontrivial() // some of what reached the socket was filtered out, some was delivered
		}
	}
	return true
}

func relNonMatching(subs [][]byte, body []byte) string {
	if len(subs) == 0 {
		return "no-subscriptions"
	}
	for _, t := range subs {
		if len(body) < len(t) && refHasPrefix(t, body) {
			return "body-is-proper-prefix-of-topic"
		}
	}
	return "no-topic-is-prefix"
}

func relMatching(subs [][]byte, body []byte) string {
	for _, t := range subs {
		if refHasPrefix(body, t) {
			switch {
			case len(t) == 0:
				return "empty-topic"
			case len(t) == len(body):
				return "topic-equals-body"
			default:
				return "topic-proper-prefix"
			}
		}
	}
	return "raw"
}

func isSubsequence(got, want [][]byte) bool {
	i := 0
	for _, d := range got {
		for i < len(want) && !refEqual(want[i], d) {
			i++
		}
		if i == len(want) {
			return false
		}
		i++
	}
	return true
}

// judge compares what cx delivered with the model queue.  complete=false: the
// receive is stuck after `got` (something the model expects was not delivered).
func (g *rig) judge(cx *ctxM, got [][]byte, complete bool, dump string) bool {
	npub := g.sp.NPub
	gotP := make([][][]byte, npub)
	ctxDesc := func() string {
		s := fmt.Sprintf("%s subscriptions %s\n  delivered %s", cx.name, hexs(cx.subs), hexs(got))
		for p := 0; p < npub; p++ {
			s += fmt.Sprintf("\n  expected from pub%d %s", p, hexs(cx.pend[p]))
		}
		return s
	}
	for _, d := range got {
		p := attribute(d, npub)
		if p < 0 || !g.hist[p][string(d)] {
			g.c.Violate("sub/delivered-unpublished", "%s delivered %x, which no publisher sent (modified or invented)\n%s", cx.name, d, ctxDesc())
			return false
		}
		gotP[p] = append(gotP[p], d)
	}
	same := true
	for p := 0; p < npub; p++ {
		want := cx.pend[p]
		if complete {
			if len(gotP[p]) != len(want) {
				same = false
				break
			}
		} else if len(gotP[p]) > len(want) {
			same = false
			break
		}
		for i := range gotP[p] {
			if !refEqual(gotP[p][i], want[i]) {
				same = false
			}
		}
	}
	if same && complete {
		return true
	}
	// extras first
	wantCnt := map[string]int{}
	for p := 0; p < npub; p++ {
		for _, b := range cx.pend[p] {
			wantCnt[fmt.Sprintf("%d|%s", p, b)]++
		}
	}
	gotCnt := map[string]int{}
	for p := 0; p < npub; p++ {
		for _, d := range gotP[p] {
			k := fmt.Sprintf("%d|%s", p, d)
			gotCnt[k]++
			if gotCnt[k] <= wantCnt[k] {
				continue
			}
			switch {
			case wantCnt[k] > 0:
				g.c.Violate("sub/duplicate", "%s delivered %x (pub%d) %d times, published/expected %d times\n%s", cx.name, d, p, gotCnt[k], wantCnt[k], ctxDesc())
			case cx.filtered[k]:
				g.c.Violate("sub/stale-after-unsubscribe", "%s delivered %x (pub%d): it was queued, then Unsubscribe returned and it matches none of the remaining subscriptions\n%s", cx.name, d, p, ctxDesc())
			case !cx.raw && !refMatches(cx.subs, d):
				g.c.Violate("sub/delivered-nonmatching:"+relNonMatching(cx.subs, d), "%s delivered %x (pub%d), which starts with none of its subscriptions\n%s", cx.name, d, p, ctxDesc())
			default:
				g.c.Violate("sub/delivered-not-matching-on-arrival", "%s delivered %x (pub%d), which matched no subscription when it arrived (or was already delivered)\n%s", cx.name, d, p, ctxDesc())
			}
			return false
		}
	}
	// no extras: order, then absence
	for p := 0; p < npub; p++ {
		if !isSubsequence(gotP[p], cx.pend[p]) {
			g.c.Violate("sub/reordered", "%s delivered the messages of pub%d out of publication order\n%s", cx.name, p, ctxDesc())
			return false
		}
	}
	for p := 0; p < npub; p++ {
		i := 0
		for _, w := range cx.pend[p] {
			if i < len(gotP[p]) && refEqual(gotP[p][i], w) {
				i++
				continue
			}
			g.c.Violate("sub/matching-not-delivered:"+relMatching(cx.subs, w)+g.lossTag, "%s did not deliver %x (pub%d) although it matched when it arrived, still matches, and no queue overflowed; Recv is blocked\n%s\n%s", cx.name, w, p, ctxDesc(), dump)
			return false
		}
	}
	g.c.Violate("sub/recv-blocked", "%s: Recv blocked although the model expects nothing further?\n%s\n%s", cx.name, ctxDesc(), dump)
	return false
}

// sync drains the witnesses and raw subscribers: once a witness has the
// sentinels, every earlier message of that step has been offered to every
// context of its socket.
func (g *rig) sync() bool {
	for _, ss := range g.socks {
		if !g.drain(ss.wit) {
			return false
		}
	}
	for _, cx := range g.raws {
		if !g.drain(cx) {
			return false
		}
	}
	return true
}

// checkKept re-reads every retained (caller-owned, overwritten) message.
func (g *rig) checkKept() {
	g.keptMu.Lock()
	defer g.keptMu.Unlock()
	for _, k := range g.kept {
		if !refEqual(k.m.Body, k.want) {
			g.c.Violate("sub/delivered-message-changed-later", "a message handed to the caller changed afterwards: have %x want %x", k.m.Body, k.want)
			return
		}
	}
	g.c.Count("retained_messages_rechecked", len(g.kept))
}
