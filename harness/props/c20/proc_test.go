package c20

import (
	"bytes"
	"fmt"
	"io"
	"net"
	"os"
	"os/exec"
	"path/filepath"
	"runtime"
	"strconv"
	"strings"
	"sync"
	"syscall"
	"time"

	"go.nanomsg.org/mangos/v3"

	"verifharness/hx"
	"verifharness/mon"
)

// wdog is the generous wall-clock watchdog of every wait on the macat child
// (its exit, its output, its connection).  Its firing is always *inconclusive*.
const wdog = 30 * time.Second

// envFailure is a failure of the harness's own environment (scratch directory
// gone, no free descriptor, fork failed, ...).  It says nothing about macat: the
// case wrapper turns it into an inconclusive outcome.
type envFailure struct{ msg string }

func envFail(format string, a ...interface{}) { panic(envFailure{fmt.Sprintf(format, a...)}) }

// ---- the built binary ---------------------------------------------------------

var binOnce sync.Once
var binPath string
var binErr error

// macatBin returns the macat binary built from the current /repo tree: the one
// the driver built ($VERIF_BUILD/macat) or, under plain `go test`, one built
// into the scratch directory.
func macatBin() (string, error) {
	binOnce.Do(func() {
		if d := os.Getenv("VERIF_BUILD"); d != "" {
			p := filepath.Join(d, "macat")
			if st, err := os.Stat(p); err == nil && !st.IsDir() {
				binPath = p
				return
			}
		}
		p := filepath.Join(hx.ScratchDir(), "macat")
		cmd := exec.Command("go", "build", "-o", p, "go.nanomsg.org/mangos/v3/macat/macat")
		cmd.Dir = "/repo"
		cmd.Env = append(os.Environ(), "GOFLAGS=-mod=mod", "GOPROXY=off", "GOSUMDB=off", "GOTOOLCHAIN=local")
		if b, err := cmd.CombinedOutput(); err != nil {
			binErr = fmt.Errorf("go build macat: %v\n%s", err, b)
			return
		}
		binPath = p
	})
	return binPath, binErr
}

// ---- child process --------------------------------------------------------------

type mproc struct {
	args []string
	cmd  *exec.Cmd
	t0   time.Duration // taken just before the process is started

	mu     sync.Mutex
	out    []byte
	errb   []byte
	note   chan struct{} // poked whenever stdout grew
	done   chan struct{} // closed once both pipes hit EOF and Wait returned
	tExit  time.Duration // taken after Wait returned (>= the real exit instant)
	code   int           // exit status (-1: killed by signal)
	killed bool
}

func startMacat(c *mon.Case, args []string) *mproc {
	bin, err := macatBin()
	if err != nil {
		envFail("%v", err)
	}
	p := &mproc{args: args, note: make(chan struct{}, 1), done: make(chan struct{})}
	p.cmd = exec.Command(bin, args...)
	p.cmd.Dir = hx.ScratchDir()
	p.cmd.Env = []string{"PATH=/usr/bin:/bin", "HOME=" + hx.ScratchDir()}
	// the child must not outlive a test process that is killed by the driver's watchdog
	p.cmd.SysProcAttr = &syscall.SysProcAttr{Pdeathsig: syscall.SIGKILL}
	so, err := p.cmd.StdoutPipe()
	if err != nil {
		envFail("%v", err)
	}
	se, err := p.cmd.StderrPipe()
	if err != nil {
		envFail("%v", err)
	}
	c.Logf("start macat %s", showArgs(args))
	p.t0 = mon.Now()
	// Pdeathsig is delivered when the *thread* that forked the child ends, so the
	// fork is done on a thread that is pinned until the child has been reaped.
	started := make(chan error, 1)
	go func() {
		runtime.LockOSThread()
		err := p.cmd.Start()
		started <- err
		if err == nil {
			<-p.done
		}
	}()
	if err := <-started; err != nil {
		envFail("cannot start macat: %v", err)
	}
	var wg sync.WaitGroup
	wg.Add(2)
	rd := func(r io.Reader, dst *[]byte, poke bool) {
		defer wg.Done()
		buf := make([]byte, 64<<10)
		for {
			n, err := r.Read(buf)
			if n > 0 {
				p.mu.Lock()
				*dst = append(*dst, buf[:n]...)
				p.mu.Unlock()
				if poke {
					select {
					case p.note <- struct{}{}:
					default:
					}
				}
			}
			if err != nil {
				return
			}
		}
	}
	go rd(so, &p.out, true)
	go rd(se, &p.errb, false)
	go func() {
		wg.Wait()
		err := p.cmd.Wait()
		p.tExit = mon.Now()
		p.code = 0
		if err != nil {
			p.code = -1
			if ee, ok := err.(*exec.ExitError); ok {
				p.code = ee.ExitCode()
			}
		}
		close(p.done)
	}()
	c.Cleanup(func() {
		p.kill()
		select {
		case <-p.done:
		case <-time.After(wdog):
		}
	})
	return p
}

func (p *mproc) kill() {
	p.mu.Lock()
	p.killed = true
	p.mu.Unlock()
	_ = p.cmd.Process.Kill()
}

func (p *mproc) exited() bool {
	select {
	case <-p.done:
		return true
	default:
		return false
	}
}

func (p *mproc) stdout() []byte {
	p.mu.Lock()
	defer p.mu.Unlock()
	return append([]byte(nil), p.out...)
}
func (p *mproc) stderr() []byte {
	p.mu.Lock()
	defer p.mu.Unlock()
	return append([]byte(nil), p.errb...)
}
func (p *mproc) outLen() int { p.mu.Lock(); defer p.mu.Unlock(); return len(p.out) }

// waitExit blocks until the process is gone; false = watchdog.
func (p *mproc) waitExit() bool {
	t := time.NewTimer(wdog)
	defer t.Stop()
	select {
	case <-p.done:
		return true
	case <-t.C:
		return false
	}
}

// waitOutSuffix blocks until stdout ends with suf ("ok"), the process is gone
// ("exited") or the watchdog fires ("watchdog").  It is a pacing device only.
func (p *mproc) waitOutSuffix(suf []byte) string {
	t := time.NewTimer(wdog)
	defer t.Stop()
	has := func() bool { p.mu.Lock(); defer p.mu.Unlock(); return bytes.HasSuffix(p.out, suf) }
	for {
		if has() {
			return "ok"
		}
		select {
		case <-p.note:
		case <-p.done:
			if has() {
				return "ok"
			}
			return "exited"
		case <-t.C:
			return "watchdog"
		}
	}
}

// panicked reports whether stderr shows a Go panic / runtime crash.
func (p *mproc) panicked() bool {
	e := p.stderr()
	return bytes.Contains(e, []byte("panic:")) || bytes.Contains(e, []byte("fatal error:")) || bytes.Contains(e, []byte("goroutine 1 ["))
}

func (p *mproc) describe() string {
	st := "running"
	if p.exited() {
		st = fmt.Sprintf("exit status %d after <=%v", p.code, p.tExit-p.t0)
	}
	return fmt.Sprintf("macat %s\n  %s; stdout %d bytes; stderr %q", showArgs(p.args), st, p.outLen(), trunc(p.stderr(), 600))
}

// showArgs renders argv for witnesses (long / binary arguments abbreviated).
func showArgs(args []string) string {
	var b strings.Builder
	for i, a := range args {
		if i > 0 {
			b.WriteByte(' ')
		}
		if len(a) > 80 {
			fmt.Fprintf(&b, "%q…(%d bytes)", a[:60], len(a))
		} else {
			b.WriteString(strconv.Quote(a))
		}
	}
	return b.String()
}

// ---- harness peer ------------------------------------------------------------------

var peerProto = map[string]string{
	"pull": "push", "push": "pull", "sub": "pub", "pub": "sub", "req": "rep", "rep": "req",
	"pair": "pair", "bus": "bus", "star": "star", "surveyor": "respondent", "respondent": "surveyor",
}

type peer struct {
	c       *mon.Case
	proto   string
	sock    mangos.Socket
	url     string // full address URL
	tr      string
	path    string // ipc path or tcp port (for the -x/-l style options)
	mu      sync.Mutex
	att     int
	det     int
	ev      chan struct{} // poked on attach / detach
	in      chan rcv      // result of the one outstanding harness Recv
	pending bool
}

func freePort() string {
	l, err := net.Listen("tcp", "127.0.0.1:0")
	if err != nil {
		envFail("%v", err)
	}
	defer l.Close()
	return strconv.Itoa(l.Addr().(*net.TCPAddr).Port)
}

// newPeer opens the harness socket that talks to a macat of protocol mproto.
// macatBinds=false: the harness listens now and macat will connect;
// macatBinds=true: an unused address is chosen, the harness dials it (dialPeer) after macat started.
func newPeer(c *mon.Case, mproto, tr string, macatBinds bool) *peer {
	pe := &peer{c: c, proto: peerProto[mproto], tr: tr, ev: make(chan struct{}, 1), in: make(chan rcv, 1)}
	pe.sock = hx.MustSock(c, pe.proto)
	pe.sock.SetPipeEventHook(func(ev mangos.PipeEvent, _ mangos.Pipe) {
		pe.mu.Lock()
		switch ev {
		case mangos.PipeEventAttached:
			pe.att++
		case mangos.PipeEventDetached:
			pe.det++
		}
		pe.mu.Unlock()
		select {
		case pe.ev <- struct{}{}:
		default:
		}
	})
	must := func(err error) {
		if err != nil {
			envFail("harness peer %s: %v", pe.proto, err)
		}
	}
	switch pe.proto {
	case "req":
		must(pe.sock.SetOption(mangos.OptionRetryTime, time.Hour)) // one transmission per request
	case "surveyor":
		must(pe.sock.SetOption(mangos.OptionSurveyTime, time.Hour))
	case "sub":
		must(pe.sock.SetOption(mangos.OptionSubscribe, []byte{}))
	}
	_ = pe.sock.SetOption(mangos.OptionSendDeadline, wdog)
	must(pe.sock.SetOption(mangos.OptionMaxRecvSize, 0)) // payloads over the 1 MiB default must reach the harness
	if !macatBinds {
		la := hx.ListenAddr(tr)
		if tr == "tcp" {
			la = "tcp://127.0.0.1:0" // macat's -l / --connect-local forms name a port on 127.0.0.1
		}
		l, err := pe.sock.NewListener(la, nil)
		must(err)
		must(l.Listen())
		pe.url = l.Address()
	} else if tr == "ipc" {
		pe.url = hx.ListenAddr("ipc")
	} else {
		pe.url = "tcp://127.0.0.1:" + freePort()
	}
	switch tr {
	case "ipc":
		pe.path = strings.TrimPrefix(pe.url, "ipc://")
	default:
		pe.path = pe.url[strings.LastIndex(pe.url, ":")+1:]
	}
	return pe
}

// dialPeer makes the harness connect (asynchronously, retrying fast) to the address macat binds.
func (pe *peer) dialPeer() {
	d, err := pe.sock.NewDialer(pe.url, nil)
	if err != nil {
		envFail("%v", err)
	}
	_ = d.SetOption(mangos.OptionDialAsynch, true)
	_ = d.SetOption(mangos.OptionReconnectTime, 3*time.Millisecond)
	_ = d.SetOption(mangos.OptionMaxReconnectTime, 30*time.Millisecond)
	if err := d.Dial(); err != nil {
		envFail("%v", err)
	}
}

func (pe *peer) counts() (att, det int) { pe.mu.Lock(); defer pe.mu.Unlock(); return pe.att, pe.det }

// waitAttached blocks until a macat connection is attached ("ok"), macat is gone ("exited") or the watchdog fires.
func (pe *peer) waitAttached(p *mproc) string {
	t := time.NewTimer(wdog)
	defer t.Stop()
	for {
		if a, _ := pe.counts(); a > 0 {
			return "ok"
		}
		select {
		case <-pe.ev:
		case <-p.done:
			if a, _ := pe.counts(); a > 0 {
				return "ok"
			}
			return "exited"
		case <-t.C:
			return "watchdog"
		}
	}
}

type rcv struct {
	b   []byte
	err error
	t   time.Duration
}

func (pe *peer) startRecv() {
	if pe.pending {
		return
	}
	pe.pending = true
	go func() { b, err := pe.sock.Recv(); pe.in <- rcv{b, err, mon.Now()} }()
}

func (pe *peer) took(r rcv) ([]byte, time.Duration, string) {
	pe.pending = false
	if r.err != nil {
		pe.c.Logf("harness %s Recv: %v", pe.proto, r.err)
		return nil, 0, "error"
	}
	return r.b, r.t, "ok"
}

// recv returns the next message from macat ("ok", with the harness time just
// after it was received).  "gone": macat has exited, every connection it had has
// reached end-of-stream at the harness — so everything it wrote has been read
// and queued — and the pending Recv still got nothing for `grace`.  "watchdog":
// nothing decidable happened for the whole watchdog.  "error": harness socket error.
func (pe *peer) recv(p *mproc, grace time.Duration) ([]byte, time.Duration, string) {
	pe.startRecv()
	t := time.NewTimer(wdog)
	defer t.Stop()
	done := (<-chan struct{})(p.done)
	for {
		if done == nil {
			if a, d := pe.counts(); a == d {
				g := time.NewTimer(grace)
				select {
				case r := <-pe.in:
					g.Stop()
					return pe.took(r)
				case <-g.C:
					return nil, 0, "gone"
				}
			}
		}
		select {
		case r := <-pe.in:
			return pe.took(r)
		case <-done:
			done = nil
		case <-pe.ev:
		case <-t.C:
			return nil, 0, "watchdog"
		}
	}
}

func (pe *peer) send(b []byte) error { return pe.sock.Send(b) }
