package c20

import (
	"bytes"
	"time"
)

// bindLost reports whether macat ended because it could not bind an address ("address already in
// use": the port the harness had found free was taken by another process in between).  Such a macat
// never sent anything, so bytes that reached the harness through that address came from whoever
// holds the port and say nothing about macat.  Called only on a mismatch; macat exits within
// milliseconds of a failed bind, the wait is a grace period for its exit to be observed.
func bindLost(p *mproc) bool {
	t := time.NewTimer(2 * time.Second)
	defer t.Stop()
	select {
	case <-p.done:
	case <-t.C:
		return false
	}
	e := p.stderr()
	return bytes.Contains(e, []byte("bind(")) && bytes.Contains(e, []byte("in use"))
}
