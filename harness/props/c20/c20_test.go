// Package c20 checks property C20: the macat command prints every received
// message faithfully in the selected format, sends exactly the bytes given by
// --data/--file the number of times requested, reads bare-integer durations as
// seconds and rejects conflicting or missing options.
//
// The *built binary* is run as a child process connected over loopback tcp /
// ipc to harness sockets living in this test process; its stdout is decoded by
// the independent decoders of decode_test.go.
//
// Verdict discipline: nothing the child does is judged by elapsed wall time
// except *lower* bounds ("not before D"), measured from just before the
// process is started to the first instant the harness knew of the event, which
// can only over-estimate the real interval.  Every wait on the child has a
// generous watchdog whose firing is inconclusive.  "All output is there" is
// decided by FIFO + sentinel: a last message is sent on the same connection and
// the output is read until its record appears; "no further message was sent"
// by process exit + end-of-stream on every connection the child had.
package c20

import (
	"bytes"
	"fmt"
	"math/rand"
	"os"
	"path/filepath"
	"strings"
	"syscall"
	"testing"
	"time"
	"unicode/utf8"

	"verifharness/hx"
	"verifharness/mon"
)

func TestMain(m *testing.M) { hx.Main(m) }

type c20Spec struct {
	Kind  string   `json:"kind"`            // recv | lock | send | dur | reject | ival | given | multi | sendto | big
	Proto string   `json:"proto,omitempty"` // macat's protocol option
	Tr    string   `json:"tr,omitempty"`    // tcp | ipc
	Bind  bool     `json:"bind,omitempty"`  // macat binds and the harness dials (else macat connects)
	AForm int      `json:"aform,omitempty"` // spelling of the address option
	Fmt   string   `json:"fmt,omitempty"`   // raw | ascii | quoted | msgpack | "" (none)
	FForm int      `json:"fform,omitempty"` // spelling of the format option
	Lens  []int    `json:"lens,omitempty"`  // lengths of the messages the harness sends
	Cls   []int    `json:"cls,omitempty"`   // content class of each
	Reply bool     `json:"reply,omitempty"` // recv: macat also has --data (replies / sends once first)
	Sub   bool     `json:"sub,omitempty"`   // recv/sub: with --subscribe prefixes
	DLen  int      `json:"dlen,omitempty"`  // length of --data / --file content
	DCls  int      `json:"dcls,omitempty"`
	DForm int      `json:"dform,omitempty"` // spelling of the data option
	N     int      `json:"n,omitempty"`     // --count
	IForm int      `json:"iform,omitempty"` // spelling of the zero interval
	Var   string   `json:"var,omitempty"`   // dur: which option; reject: which combination; given: empty | dash
	Val   string   `json:"val,omitempty"`   // dur: the duration text; given/dash: the option look-alike
	ValNs int64    `json:"val_ns,omitempty"`
	Ans   []bool   `json:"ans,omitempty"` // ival: which of macat's transmissions the harness peer answers
	RT    string   `json:"rt,omitempty"`  // ival: --recv-timeout text ("" = none given)
	Eps   []string `json:"eps,omitempty"` // multi: the endpoints in command-line order, "b:TRANSPORT" (bind) / "c:TRANSPORT" (connect)
}

var lenBoundary = []int{0, 1, 2, 254, 255, 256, 257, 65534, 65535, 65536, 65537}

func pickLen(r *rand.Rand) int {
	switch x := r.Intn(100); {
	case x < 42:
		return lenBoundary[r.Intn(len(lenBoundary))]
	case x < 75:
		return r.Intn(70)
	case x < 96:
		return r.Intn(6000)
	default:
		return 65538 + r.Intn(150000)
	}
}

var (
	recvProtos = []string{"pull", "sub", "rep", "pair", "bus", "respondent", "star"}
	formats    = []string{"raw", "ascii", "quoted", "msgpack"}
	lockProtos = []string{"req", "surveyor", "pair", "bus", "star"}
	sendProtos = []string{"push", "pub"}
	trs        = []string{"ipc", "tcp"}
)

type durVal struct {
	Text string
	D    time.Duration
}

// bare integers (the subject of the statement) dominate; unit forms ride along.
var durVals = []durVal{{"1", time.Second}, {"1", time.Second}, {"1", time.Second}, {"1s", time.Second}, {"1000ms", time.Second},
	{"1", time.Second}, {"300ms", 300 * time.Millisecond}, {"2", 2 * time.Second}, {"1", time.Second}, {"1.5s", 1500 * time.Millisecond},
	{"01", time.Second}, {"+1", time.Second}}

var durVars = []string{"recv-timeout", "send-interval", "send-delay", "req-interval", "recv-timeout", "send-timeout"}

var rejects = []string{"two-protocols", "no-protocol", "no-address", "data-and-file", "data-twice", "file-twice", "two-formats",
	"format-flag-and-format", "bad-format", "subscribe-without-sub", "cert-twice", "key-twice", "missing-data-file",
	"missing-cacert-file", "missing-cert-file", "tls-bind-no-cert", "tls-connect-no-ca", "push-no-data", "pub-no-data", "missing-value", "payload-twice-empty-first"}

func TestC20(t *testing.T) {
	r := mon.NewRunner(t, "C20")
	rnd := r.Rand()
	var cases []mon.CaseSpec
	add := func(sp c20Spec) { cases = append(cases, mon.CaseSpec{Name: sp.Kind, Spec: sp}) }
	lens := func(n int) (l, k []int) {
		for j := 0; j < n; j++ {
			l = append(l, pickLen(rnd))
			k = append(k, rnd.Intn(nBodyClasses))
		}
		return
	}
	nRecv, nLock, nSend, nDur, nRej := r.Pick(190, 15000), r.Pick(70, 5400), r.Pick(30, 1800), r.Pick(30, 1800), r.Pick(80, 6000)
	off := rnd.Intn(28)
	for i := 0; i < nRecv; i++ {
		sp := c20Spec{Kind: "recv", Proto: recvProtos[(i+off)%7], Fmt: formats[((i+off)/7)%4], Tr: trs[rnd.Intn(2)],
			Bind: rnd.Intn(3) == 0, AForm: rnd.Intn(nAddrForms), FForm: rnd.Intn(4)}
		sp.Lens, sp.Cls = lens(2 + rnd.Intn(5))
		if i%5 == 0 {
			sp.Lens[0], sp.Cls[0] = 256+rnd.Intn(300), 1 // a sweep over every byte value
		}
		if sp.Proto != "pull" && sp.Proto != "sub" && rnd.Intn(3) == 0 {
			sp.Reply = true
			sp.DLen, sp.DCls, sp.DForm = pickLen(rnd), rnd.Intn(nBodyClasses), rnd.Intn(nDataForms)
			if sp.Proto == "pair" || sp.Proto == "bus" || sp.Proto == "star" {
				sp.Bind = false // macat sends at once: it must be the connecting side to have a peer
			}
		}
		if sp.Proto == "sub" && rnd.Intn(2) == 0 {
			sp.Sub = true
		}
		add(sp)
	}
	for i := 0; i < nLock; i++ {
		sp := c20Spec{Kind: "lock", Proto: lockProtos[(i+off)%5], Tr: trs[rnd.Intn(2)], AForm: rnd.Intn(nAddrForms), FForm: rnd.Intn(4),
			N: 1 + rnd.Intn(6), IForm: rnd.Intn(nZeroForms), DLen: pickLen(rnd), DCls: rnd.Intn(nBodyClasses), DForm: rnd.Intn(nDataForms)}
		if f := rnd.Intn(5); f < 4 {
			sp.Fmt = formats[f]
		}
		if sp.Proto == "req" {
			sp.Bind = rnd.Intn(3) == 0
			if rnd.Intn(4) == 0 {
				sp.IForm, sp.N = onceForm, 1 // no interval, no count: one request, first reply printed, exit
			}
		}
		sp.Lens, sp.Cls = lens(sp.N)
		add(sp)
	}
	for i := 0; i < nSend; i++ {
		add(c20Spec{Kind: "send", Proto: sendProtos[(i+off)%2], Tr: trs[rnd.Intn(2)], AForm: rnd.Intn(nAddrForms),
			N: rnd.Intn(4), IForm: rnd.Intn(nZeroForms + 2), DLen: pickLen(rnd), DCls: rnd.Intn(nBodyClasses), DForm: rnd.Intn(nDataForms)})
	}
	for i := 0; i < nDur; i++ {
		dv := durVals[rnd.Intn(len(durVals))]
		sp := c20Spec{Kind: "dur", Var: durVars[(i+off)%len(durVars)], Val: dv.Text, ValNs: int64(dv.D), Tr: trs[rnd.Intn(2)],
			AForm: rnd.Intn(nAddrForms), FForm: rnd.Intn(3), DLen: 1 + rnd.Intn(40), DCls: 3, DForm: rnd.Intn(2)}
		switch sp.Var {
		case "recv-timeout":
			sp.Proto = recvProtos[rnd.Intn(7)]
			sp.Bind = rnd.Intn(2) == 0
		case "req-interval", "send-timeout":
			sp.Proto = "req"
		default:
			sp.Proto = "push"
		}
		add(sp)
	}
	// zero-padded bare integers are decimal seconds too ("010" is ten, not eight)
	for i := 0; i < r.Pick(2, 24); i++ {
		dv := []durVal{{"010", 10 * time.Second}, {"0010", 10 * time.Second}, {"011", 11 * time.Second}}[i%3]
		sp := c20Spec{Kind: "dur", Var: []string{"recv-timeout", "send-delay"}[i%2], Val: dv.Text, ValNs: int64(dv.D), Tr: trs[rnd.Intn(2)],
			AForm: rnd.Intn(nAddrForms), FForm: rnd.Intn(3), DLen: 1 + rnd.Intn(40), DCls: 3, DForm: rnd.Intn(2), Proto: "push"}
		if sp.Var == "recv-timeout" {
			sp.Proto = recvProtos[rnd.Intn(7)]
		}
		add(sp)
	}
	for i := 0; i < nRej; i++ {
		sp := c20Spec{Kind: "reject", Var: rejects[(i+off)%len(rejects)], Tr: trs[rnd.Intn(2)], AForm: rnd.Intn(nAddrForms),
			DLen: 1 + rnd.Intn(30), DCls: 3, DForm: rnd.Intn(3)}
		all := []string{"push", "pub", "req", "surveyor", "pair", "bus", "star", "pull", "sub", "rep", "respondent"}
		sp.Proto = all[rnd.Intn(len(all))]
		switch sp.Var {
		case "data-and-file", "data-twice", "file-twice", "missing-data-file", "payload-twice-empty-first":
			sp.Proto = all[rnd.Intn(7)]
		case "push-no-data":
			sp.Proto = "push"
		case "pub-no-data":
			sp.Proto = "pub"
		case "subscribe-without-sub":
			for sp.Proto == "sub" {
				sp.Proto = all[rnd.Intn(len(all))]
			}
		}
		add(sp)
	}
	// a real send interval with a count, against a peer that leaves transmissions unanswered (appended last:
	// the cases above keep their indices)
	for i := 0; i < r.Pick(25, 1500); i++ {
		add(ivalSpec(rnd, i, off, r.Thorough(), lens))
	}
	// payloads that are given but empty, or that look like options (appended last again)
	for _, sp := range givenSpecs(rnd, off, r.Pick(27, 1800), r.Pick(30, 2400), r.Pick(5, 400), r.Thorough(), lens) {
		add(sp)
	}
	// several endpoints of mixed transports on one command line; sends that reach their deadline (appended last again)
	for _, sp := range multiSpecs(rnd, off, r.Pick(40, 2400)) {
		add(sp)
	}
	for _, sp := range sendtoSpecs(rnd, off, r.Pick(14, 700), r.Thorough()) {
		add(sp)
	}
	// large payloads: 64 KiB up to a few MiB given to macat, up to just under 1 MiB printed by it (appended last again)
	for _, sp := range bigSpecs(rnd, off, r.Pick(22, 1400)) {
		add(sp)
	}
	r.Run(cases, func(c *mon.Case) {
		defer func() {
			if x := recover(); x != nil {
				e, ok := x.(envFailure)
				if !ok {
					panic(x)
				}
				c.Count("harness_environment_failures", 1)
				c.Inconclusive("harness environment: %s", e.msg)
			}
		}()
		_ = os.MkdirAll(hx.ScratchDir(), 0o700) // (re)create it should someone have swept the temp directory
		sp := c.Spec.(c20Spec)
		switch sp.Kind {
		case "recv":
			runRecv(c, sp)
		case "lock":
			runLock(c, sp)
		case "send":
			runSend(c, sp)
		case "dur":
			runDur(c, sp)
		case "reject":
			runReject(c, sp)
		case "ival":
			runIval(c, sp)
		case "given":
			runGiven(c, sp)
		case "multi":
			runMulti(c, sp)
		case "sendto":
			runSendto(c, sp)
		case "big":
			runBig(c, sp)
		}
	})
}

// ---- message bodies -------------------------------------------------------------

const nBodyClasses = 6

var specials = []byte{'\\', '"', '\n', '\r', 0, 0x01, 0x1f, 0x20, 0x7e, 0x7f, 0x80, 0x9f, 0xa0, 0xa1, 0xad, 0xff, 'x', 'n', 'r', '\t', '.', 0xc4, 0xc5, 0xc6, '0', 'f'}

// mkBody makes n bytes of content class cls.  argv=true keeps NUL out (the
// bytes travel as a command-line argument).
func mkBody(r *rand.Rand, n, cls int, argv bool) []byte {
	b := make([]byte, n)
	switch cls {
	case 0: // uniform random
		r.Read(b)
	case 1: // sweep through every byte value from a random start
		s := r.Intn(256)
		for i := range b {
			b[i] = byte(s + i)
		}
	case 2: // bytes that matter to the encoders
		for i := range b {
			b[i] = specials[r.Intn(len(specials))]
		}
	case 3: // printable ASCII
		for i := range b {
			b[i] = byte(0x20 + r.Intn(0x5f))
		}
	case 4: // text that looks like escapes already
		frag := []string{`\x41`, `\n`, `\\`, `\"`, `"`, `\`, `\x`, `\x4`, "a", `\r`, "\n", "\r", `\\n`}
		var o []byte
		for len(o) < n {
			o = append(o, frag[r.Intn(len(frag))]...)
		}
		copy(b, o)
	case 5: // bytes that look like msgpack bin headers
		for i := range b {
			switch r.Intn(4) {
			case 0:
				b[i] = byte(0xc4 + r.Intn(3))
			case 1:
				b[i] = byte(r.Intn(4))
			default:
				b[i] = byte(r.Intn(256))
			}
		}
	}
	if argv {
		for i := range b {
			if b[i] == 0 {
				b[i] = byte(1 + r.Intn(255))
			}
		}
	}
	return b
}

// sweeps counts the bodies that contain every byte value.
func sweeps(bodies [][]byte) (n int) {
	for _, b := range bodies {
		var seen [256]bool
		k := 0
		for _, x := range b {
			if !seen[x] {
				seen[x] = true
				k++
			}
		}
		if k == 256 {
			n++
		}
	}
	return
}

func mkBodies(r *rand.Rand, lens, cls []int, avoid []byte) [][]byte {
	var out [][]byte
	for i := range lens {
		b := mkBody(r, lens[i], cls[i], false)
		for len(avoid) > 0 && bytes.Contains(b, avoid) {
			b[bytes.Index(b, avoid)] ^= 0x55
		}
		out = append(out, b)
	}
	return out
}

// ---- command-line spellings --------------------------------------------------------

const nAddrForms = 6

func addrArgs(pe *peer, bind bool, form int) []string {
	verb := "connect"
	short := map[string]string{"ipc": "-x", "tcp": "-l"}[pe.tr]
	if bind {
		verb = "bind"
		short = map[string]string{"ipc": "-X", "tcp": "-L"}[pe.tr]
	}
	spec := "--" + verb + map[string]string{"ipc": "-ipc", "tcp": "-local"}[pe.tr]
	switch form {
	case 0:
		return []string{"--" + verb, pe.url}
	case 1:
		return []string{"--" + verb + "=" + pe.url}
	case 2:
		return []string{short, pe.path}
	case 3:
		return []string{spec, pe.path}
	case 4:
		return []string{short + pe.path}
	default:
		return []string{spec + "=" + pe.path}
	}
}

func fmtArgs(f string, form int) []string {
	switch {
	case f == "":
		return nil
	case form == 1:
		return []string{"--format", f}
	case form == 2:
		return []string{"--format=" + f}
	case form == 3 && f == "ascii":
		return []string{"-A"}
	case form == 3 && f == "quoted":
		return []string{"-Q"}
	}
	return []string{"--" + f}
}

const nDataForms = 10

// dataArgs builds the option that gives macat its payload and returns the
// bytes that payload is; form names the spelling for signatures.
func dataArgs(c *mon.Case, n, cls, form int) (args []string, data []byte, name string) {
	switch form {
	case 0, 1, 2:
		data = mkBody(c.Rand, capArg(n), cls, true)
		switch form {
		case 0:
			return []string{"--data", string(data)}, data, "data-long"
		case 1:
			return []string{"--data=" + string(data)}, data, "data-eq"
		}
		return []string{"-D", string(data)}, data, "data-short"
	case 3: // -DTEXT: attached to the short option; valid UTF-8, not empty, not starting with '='
		data = mkBody(c.Rand, capArg(n), 3, true)
		if len(data) == 0 {
			data = []byte("a")
		}
		if data[0] == '=' {
			data[0] = 'e'
		}
		if len(data) > 3 && c.Rand.Intn(2) == 0 {
			copy(data[1:], "é")
		}
		return []string{"-D" + string(data)}, data, "data-short-attached"
	case 4: // -DBYTES attached, arbitrary non-NUL bytes
		data = mkBody(c.Rand, capArg(n), cls, true)
		if len(data) == 0 {
			data = []byte{0xff}
		}
		if data[0] == '=' {
			data[0] = 0xfe
		}
		name = "data-short-attached"
		if !utf8.Valid(data) {
			name = "data-short-attached-nonutf8"
		}
		return []string{"-D" + string(data)}, data, name
	}
	data = mkBody(c.Rand, n, cls, false)
	path := filepath.Join(hx.ScratchDir(), hx.Uniq("f"))
	if form == 9 {
		// --file naming something that is not a regular file (a FIFO, as with /dev/stdin or <(cmd)): its
		// size is not known before it is read
		if err := syscall.Mkfifo(path, 0o600); err != nil {
			envFail("mkfifo: %v", err)
		}
		go func() {
			w, err := os.OpenFile(path, os.O_WRONLY, 0)
			if err != nil {
				return
			}
			w.Write(data)
			w.Close()
		}()
		c.Cleanup(func() {
			// release a writer nobody ever read from, then remove the name
			if r, err := os.OpenFile(path, os.O_RDONLY|syscall.O_NONBLOCK, 0); err == nil {
				r.Close()
			}
			os.Remove(path)
		})
		return []string{"--file", path}, data, "file-fifo"
	}
	if err := os.WriteFile(path, data, 0o644); err != nil {
		envFail("%v", err)
	}
	c.Cleanup(func() { os.Remove(path) })
	switch form {
	case 5:
		return []string{"--file", path}, data, "file-long"
	case 6:
		return []string{"--file=" + path}, data, "file-eq"
	case 7:
		return []string{"-F", path}, data, "file-short"
	}
	return []string{"-F" + path}, data, "file-short-attached"
}

// capArg keeps a single argv string under the kernel's 128 KiB limit.
func capArg(n int) int {
	if n > 120000 {
		return 120000
	}
	return n
}

const nZeroForms = 6
const onceForm = 99 // lock/req: neither an interval nor a count

func zeroInterval(form int) []string {
	switch form {
	case 0:
		return []string{"-i", "0"}
	case 1:
		return []string{"-i0"}
	case 2:
		return []string{"--send-interval", "0"}
	case 3:
		return []string{"--send-interval=0"}
	case 4:
		return []string{"-i", "0s"}
	case 5:
		return []string{"-i", "0ms"}
	}
	return nil
}

// shuffled flattens option groups in a random order (macat's options are order-independent).
func shuffled(r *rand.Rand, groups [][]string) []string {
	r.Shuffle(len(groups), func(i, j int) { groups[i], groups[j] = groups[j], groups[i] })
	var out []string
	for _, g := range groups {
		out = append(out, g...)
	}
	return out
}

// ---- shared verdict helpers ----------------------------------------------------------

// abnormal handles a macat that ended when the case did not expect it to.
// A crash is a violation; any other early exit cannot be judged against this property.
func abnormal(c *mon.Case, p *mproc, when string) {
	if p.panicked() {
		c.Violate("macat/crash:"+when, "macat crashed %s\n%s\nstderr:\n%s", when, p.describe(), trunc(p.stderr(), 3000))
		return
	}
	c.Count("unexpected_exit", 1)
	c.Inconclusive("macat exited on its own %s: %s", when, p.describe())
}

func stalled(c *mon.Case, p *mproc, what string) {
	c.Inconclusive("watchdog (%v) while %s: %s", wdog, what, p.describe())
}

// sameBytes compares what macat sent with what it was given.
func sameBytes(c *mon.Case, p *mproc, got, want []byte, dname, what string) bool {
	if bytes.Equal(got, want) {
		c.Count("sent_messages_compared", 1)
		c.Count("sent_bytes_compared", len(want))
		return true
	}
	if bindLost(p) {
		c.Count("unexpected_exit", 1)
		c.Inconclusive("%s: macat could not bind its address (taken by another process), what arrived there is not macat's: %s", what, p.describe())
		return false
	}
	s, d := firstDiff(got, want)
	if bytes.Equal(got, []byte(string([]rune(string(want))))) {
		// exactly what a round trip through []rune does to invalid UTF-8: one stable signature
		s = "utf8-replacement"
	}
	c.Violate("send/bytes-differ:"+dname+":"+s, "%s: macat was given %d bytes (%s) and sent %d bytes; %s\n%s", what, len(want), dname, len(got), d, p.describe())
	return false
}

func printedVerdict(c *mon.Case, p *mproc, f string, want [][]byte, complete bool) {
	v := checkPrinted(f, p.stdout(), want, complete)
	c.Count("printed_records_compared", v.Compared)
	c.Count("printed_bytes_compared", v.Bytes)
	c.Count("msgpack_nonminimal_class", v.NonMin)
	if v.Sig != "" {
		lens := make([]int, len(want))
		for i := range want {
			lens[i] = len(want[i])
		}
		c.Violate(v.Sig, "%s\nexpected %d records with message lengths %v\n%s", v.Detail, len(want), lens, p.describe())
		return
	}
	if complete && v.Compared > 0 {
		c.Count("runs_printed_"+f, 1)
		c.Count("printed_bodies_with_all_256_byte_values_"+f, sweeps(want))
		c.Nontrivial()
	}
}

func lensSig(lens []int) string {
	var s []string
	for _, n := range lens {
		s = append(s, lenClass(n))
	}
	return strings.Join(s, ",")
}

// ---- recv: macat prints what it receives -------------------------------------------------

func runRecv(c *mon.Case, sp c20Spec) {
	pe := newPeer(c, sp.Proto, sp.Tr, sp.Bind)
	sentinel := []byte(fmt.Sprintf("~S~%08x~E", c.Rand.Uint32()))
	bodies := mkBodies(c.Rand, sp.Lens, sp.Cls, sentinel)
	groups := [][]string{{"--" + sp.Proto}, addrArgs(pe, sp.Bind, sp.AForm), fmtArgs(sp.Fmt, sp.FForm)}
	var data []byte
	dname := ""
	if sp.Reply {
		var da []string
		da, data, dname = dataArgs(c, sp.DLen, sp.DCls, sp.DForm)
		groups = append(groups, da)
	}
	var prefixes [][]byte
	if sp.Sub {
		pfx := mkBody(c.Rand, c.Rand.Intn(4), c.Rand.Intn(4), true)
		prefixes = [][]byte{pfx, []byte("~S~")}
		groups = append(groups, []string{"--subscribe", string(pfx)}, []string{"--subscribe=~S~"})
		for i := range bodies {
			if c.Rand.Intn(2) == 0 && len(bodies[i]) >= len(pfx) {
				copy(bodies[i], pfx)
			}
		}
	}
	if c.Rand.Intn(4) == 0 {
		groups = append(groups, []string{"--recv-timeout", []string{"3600", "1h", "90m"}[c.Rand.Intn(3)]})
	}
	p := startMacat(c, shuffled(c.Rand, groups))
	if sp.Bind {
		pe.dialPeer()
	}
	switch pe.waitAttached(p) {
	case "exited":
		abnormal(c, p, "before connecting")
		return
	case "watchdog":
		stalled(c, p, "waiting for macat's connection")
		return
	}
	peerish := sp.Proto == "pair" || sp.Proto == "bus" || sp.Proto == "star"
	if sp.Reply && peerish {
		// macat --data on PAIR/BUS/STAR sends once, then prints what it receives
		b, _, st := pe.recv(p, 3*time.Second)
		switch st {
		case "ok":
			if !sameBytes(c, p, b, data, dname, "initial message") {
				return
			}
		case "gone":
			abnormal(c, p, "before its message arrived")
			return
		default:
			stalled(c, p, "waiting for macat's initial message")
			return
		}
	}
	var want [][]byte
	for _, m := range append(append([][]byte{}, bodies...), sentinel) {
		if sp.Sub {
			hit := false
			for _, pf := range prefixes {
				hit = hit || bytes.HasPrefix(m, pf)
			}
			if !hit {
				c.Count("sub_filtered_out", 1)
				if err := pe.send(m); err != nil {
					stalled(c, p, "harness send: "+err.Error())
					return
				}
				continue
			}
		}
		want = append(want, m)
		if err := pe.send(m); err != nil {
			stalled(c, p, "harness send: "+err.Error())
			return
		}
		if sp.Reply && !peerish {
			// REP / RESPONDENT with --data: every request is printed and answered with the data
			b, _, st := pe.recv(p, 3*time.Second)
			switch st {
			case "ok":
				if !sameBytes(c, p, b, data, dname, fmt.Sprintf("reply to request %d", len(want)-1)) {
					return
				}
			case "gone":
				abnormal(c, p, "before replying")
				return
			default:
				stalled(c, p, "waiting for macat's reply")
				return
			}
		}
	}
	suffix := sentinel
	if sp.Fmt == "ascii" || sp.Fmt == "quoted" {
		suffix = append(append([]byte{}, sentinel...), '\n')
	}
	st := p.waitOutSuffix(suffix)
	selfExit := st == "exited"
	p.kill()
	if !p.waitExit() {
		c.Inconclusive("macat did not die after SIGKILL")
		return
	}
	switch {
	case st == "ok":
		printedVerdict(c, p, sp.Fmt, want, true)
	case selfExit:
		printedVerdict(c, p, sp.Fmt, want, false) // judge what was printed; the rest is unknowable
		if !c.Failed() {
			abnormal(c, p, "before printing the last message")
		}
	default:
		printedVerdict(c, p, sp.Fmt, want, false)
		if !c.Failed() {
			stalled(c, p, fmt.Sprintf("waiting for the sentinel record in stdout (%d bytes so far)", p.outLen()))
		}
	}
	c.Count("recv_runs", 1)
	c.Sig("recv|%s|%s|%s|bind=%v|a%d|f%d|reply=%v:%s|sub=%v|%s", sp.Proto, sp.Fmt, sp.Tr, sp.Bind, sp.AForm, sp.FForm, sp.Reply, dname, sp.Sub, lensSig(sp.Lens))
}

// ---- lock: macat sends N times in lock step with the harness --------------------------------

func runLock(c *mon.Case, sp c20Spec) {
	pe := newPeer(c, sp.Proto, sp.Tr, sp.Bind)
	da, data, dname := dataArgs(c, sp.DLen, sp.DCls, sp.DForm)
	replies := mkBodies(c.Rand, sp.Lens, sp.Cls, nil)
	count := []string{"--count", fmt.Sprint(sp.N)}
	if sp.IForm%2 == 1 {
		count = []string{fmt.Sprintf("--count=%d", sp.N)}
	}
	if sp.IForm == onceForm {
		count = nil
	}
	groups := [][]string{{"--" + sp.Proto}, addrArgs(pe, sp.Bind, sp.AForm), da, zeroInterval(sp.IForm), count, fmtArgs(sp.Fmt, sp.FForm)}
	p := startMacat(c, shuffled(c.Rand, groups))
	if sp.Bind {
		pe.dialPeer()
	}
	got := 0
	last := ""
	for got < sp.N {
		b, _, st := pe.recv(p, 3*time.Second)
		last = st
		if st != "ok" {
			break
		}
		if !sameBytes(c, p, b, data, dname, fmt.Sprintf("transmission %d of %d", got+1, sp.N)) {
			return
		}
		got++
		if err := pe.send(replies[got-1]); err != nil {
			stalled(c, p, "harness reply: "+err.Error())
			return
		}
	}
	c.Sig("lock|%s|%s|%s|bind=%v|n=%d|i%d|%s|%s|%s", sp.Proto, sp.Fmt, sp.Tr, sp.Bind, sp.N, sp.IForm, dname, lenClass(len(data)), lensSig(sp.Lens))
	if got < sp.N {
		switch {
		case last == "gone" && p.code == 0:
			if w := mon.CanaryWorst(); w > 200*time.Millisecond {
				c.Inconclusive("macat exited 0 after %d of %d transmissions, but the scheduler canary overslept %v", got, sp.N, w)
				return
			}
			c.Violate(fmt.Sprintf("send/count-short:%s", sp.Proto), "--count %d with a zero interval: the harness %s received %d transmissions (each answered), then macat exited with status 0 and its connection reached end-of-stream\n%s", sp.N, pe.proto, got, p.describe())
		case last == "gone":
			abnormal(c, p, fmt.Sprintf("after %d of %d transmissions", got, sp.N))
		default:
			stalled(c, p, fmt.Sprintf("waiting for transmission %d of %d", got+1, sp.N))
		}
		return
	}
	// exactly N: nothing further may arrive.  Wait for whichever comes first — a further transmission (then the
	// count was exceeded; a command that goes on sending never exits, so waiting for its exit first would only
	// end in the watchdog) or the end of the process, whose end-of-stream follows all its data.
	b, _, st := pe.recv(p, 150*time.Millisecond)
	if st == "watchdog" {
		stalled(c, p, "waiting for macat to exit after its last transmission was answered")
		return
	}
	if st == "ok" {
		if el := mon.Now() - p.t0; sp.Proto == "req" && el > 50*time.Second {
			c.Inconclusive("an extra request arrived, but the run took %v and macat's REQ retry (60 s) may have fired", el)
			return
		}
		c.Violate(fmt.Sprintf("send/count-exceeds:%s", sp.Proto), "--count %d: a further transmission (%d bytes, equal to data: %v) arrived after the %d expected ones\n%s", sp.N, len(b), bytes.Equal(b, data), sp.N, p.describe())
		return
	}
	if !p.waitExit() {
		stalled(c, p, "waiting for macat to exit after its last transmission was answered")
		return
	}
	if p.code != 0 {
		abnormal(c, p, "after all transmissions were answered")
		return
	}
	c.Count("lockstep_runs_count_exact", 1)
	c.Count("lockstep_transmissions", got)
	c.Nontrivial()
	if sp.Fmt != "" {
		if sp.Proto == "surveyor" && p.tExit-p.t0 >= time.Second {
			// a response that arrives after macat's 1 s survey time is legitimately not printed
			c.Count("survey_expiry_tolerated", 1)
			return
		}
		printedVerdict(c, p, sp.Fmt, replies, true)
	}
}

// ---- send: PUSH / PUB, best-effort delivery ---------------------------------------------

func runSend(c *mon.Case, sp c20Spec) {
	pe := newPeer(c, sp.Proto, sp.Tr, false)
	da, data, dname := dataArgs(c, sp.DLen, sp.DCls, sp.DForm)
	groups := [][]string{{"--" + sp.Proto}, addrArgs(pe, false, sp.AForm), da, zeroInterval(sp.IForm)}
	if sp.N != 1 || sp.IForm < nZeroForms || c.Rand.Intn(2) == 0 {
		groups = append(groups, []string{"--count", fmt.Sprint(sp.N)}) // (an interval without a count repeats forever)
	}
	p := startMacat(c, shuffled(c.Rand, groups))
	if !p.waitExit() {
		stalled(c, p, "waiting for macat to exit after sending")
		return
	}
	if p.code != 0 {
		abnormal(c, p, "instead of sending")
		return
	}
	got := 0
	for {
		b, _, st := pe.recv(p, 150*time.Millisecond)
		if st != "ok" {
			break
		}
		if !sameBytes(c, p, b, data, dname, fmt.Sprintf("message %d", got+1)) {
			return
		}
		got++
		if got > sp.N {
			c.Violate("send/count-exceeds:"+sp.Proto, "--count %d: %d messages arrived\n%s", sp.N, got, p.describe())
			return
		}
	}
	// PUSH/PUB hand the message to a queue and macat exits 20 ms later: fewer than N arriving is
	// within the contract of these patterns and is only counted.
	c.Count("besteffort_asked", sp.N)
	c.Count("besteffort_arrived", got)
	if got > 0 || sp.N == 0 {
		c.Nontrivial()
	}
	c.Sig("send|%s|%s|n=%d|i%d|%s|%s|arrived=%d", sp.Proto, sp.Tr, sp.N, sp.IForm, dname, lenClass(len(data)), got)
}

// ---- dur: bare integers are seconds (exact lower bounds) ---------------------------------------

func runDur(c *mon.Case, sp c20Spec) {
	D := time.Duration(sp.ValNs)
	opt := func(long, short string) []string {
		switch sp.FForm {
		case 0:
			return []string{"--" + long, sp.Val}
		case 1:
			return []string{"--" + long + "=" + sp.Val}
		}
		if short != "" && !strings.HasPrefix(sp.Val, "+") {
			return []string{short, sp.Val}
		}
		return []string{"--" + long, sp.Val}
	}
	early := func(what string, at time.Duration, p *mproc) {
		c.Count("lower_bounds_checked", 1)
		if at-p.t0 < D {
			c.Violate(fmt.Sprintf("duration/%s:%s:early", sp.Var, sp.Val), "%s happened %v after the process was started, but --%s %s means %v\n%s", what, at-p.t0, sp.Var, sp.Val, D, p.describe())
		}
	}
	c.Sig("dur|%s|%s|%s|%s|bind=%v|f%d", sp.Var, sp.Val, sp.Proto, sp.Tr, sp.Bind, sp.FForm)
	switch sp.Var {
	case "recv-timeout":
		// idle peer: macat must wait the whole timeout before giving up
		pe := newPeer(c, sp.Proto, sp.Tr, sp.Bind)
		groups := [][]string{{"--" + sp.Proto}, addrArgs(pe, sp.Bind, sp.AForm), opt("recv-timeout", ""), fmtArgs(formats[c.Rand.Intn(4)], 0)}
		p := startMacat(c, shuffled(c.Rand, groups))
		if sp.Bind && c.Rand.Intn(2) == 0 {
			pe.dialPeer()
		}
		if !p.waitExit() {
			stalled(c, p, "waiting for the receive timeout to end macat")
			return
		}
		if p.code != 0 {
			abnormal(c, p, "instead of timing out")
			return
		}
		early("exit", p.tExit, p)
		if n := p.outLen(); n != 0 {
			c.Violate("print/idle-output", "macat printed %d bytes although nothing was sent to it\n%s", n, p.describe())
		}
		c.Nontrivial()
	case "send-interval", "send-delay":
		pe := newPeer(c, "push", sp.Tr, false)
		da, data, dname := dataArgs(c, sp.DLen, sp.DCls, sp.DForm)
		groups := [][]string{{"--push"}, addrArgs(pe, false, sp.AForm), da}
		nth := 1
		if sp.Var == "send-interval" {
			groups = append(groups, opt("send-interval", "-i"), []string{"--count", "2"})
			nth = 2
		} else {
			groups = append(groups, opt("send-delay", "-d"))
		}
		p := startMacat(c, shuffled(c.Rand, groups))
		for k := 1; k <= nth; k++ {
			b, at, st := pe.recv(p, 150*time.Millisecond)
			if st != "ok" {
				break // best-effort pattern: a lost message only loses this observation
			}
			if !sameBytes(c, p, b, data, dname, fmt.Sprintf("message %d", k)) {
				return
			}
			if k == nth {
				early(fmt.Sprintf("arrival of message %d", k), at, p)
				c.Nontrivial()
			}
		}
		if !p.waitExit() {
			stalled(c, p, "waiting for macat to exit")
			return
		}
		if p.code != 0 {
			abnormal(c, p, "instead of sending")
			return
		}
		early("exit", p.tExit, p)
	case "req-interval":
		pe := newPeer(c, "req", sp.Tr, false)
		da, data, dname := dataArgs(c, sp.DLen, sp.DCls, sp.DForm)
		groups := [][]string{{"--req"}, addrArgs(pe, false, sp.AForm), da, opt("send-interval", "-i"), {"--count", "2"}}
		p := startMacat(c, shuffled(c.Rand, groups))
		for k := 1; k <= 2; k++ {
			b, at, st := pe.recv(p, 3*time.Second)
			if st == "gone" {
				abnormal(c, p, fmt.Sprintf("before request %d", k))
				return
			}
			if st != "ok" {
				stalled(c, p, fmt.Sprintf("waiting for request %d", k))
				return
			}
			if !sameBytes(c, p, b, data, dname, fmt.Sprintf("request %d", k)) {
				return
			}
			if k == 2 {
				early("arrival of request 2", at, p)
				c.Nontrivial()
			}
			if err := pe.send([]byte("ok")); err != nil {
				stalled(c, p, "harness reply: "+err.Error())
				return
			}
		}
		if !p.waitExit() {
			stalled(c, p, "waiting for macat to exit")
			return
		}
		early("exit", p.tExit, p)
	case "send-timeout":
		// REQ bound to an address nobody connects to: the send cannot complete, so
		// macat can only end through the send timeout.
		pe := newPeer(c, "req", "ipc", true)
		da, _, _ := dataArgs(c, sp.DLen, sp.DCls, sp.DForm)
		groups := [][]string{{"--req"}, addrArgs(pe, true, sp.AForm), da, opt("send-timeout", "")}
		p := startMacat(c, shuffled(c.Rand, groups))
		if !p.waitExit() {
			stalled(c, p, "waiting for the send timeout to end macat")
			return
		}
		if p.panicked() {
			abnormal(c, p, "instead of timing out")
			return
		}
		if !bytes.Contains(p.stderr(), []byte("send:")) {
			c.Inconclusive("macat ended for another reason than a failed send: %s", p.describe())
			return
		}
		early("exit", p.tExit, p)
		c.Nontrivial()
	}
}

// ---- reject: conflicting / missing options ---------------------------------------------------

func runReject(c *mon.Case, sp c20Spec) {
	sender := map[string]bool{"push": true, "pub": true, "req": true, "surveyor": true, "pair": true, "bus": true, "star": true}[sp.Proto]
	pe := newPeer(c, sp.Proto, sp.Tr, false) // a live peer: a macat that wrongly runs would reach it
	proto := []string{"--" + sp.Proto}
	addr := addrArgs(pe, false, sp.AForm)
	var da []string
	if sender {
		da, _, _ = dataArgs(c, sp.DLen, sp.DCls, sp.DForm)
	}
	// every base is a command line that would run, send (senders) and end by itself with status 0
	extra := [][]string{{"--recv-timeout", "200ms"}}
	if c.Rand.Intn(2) == 0 {
		extra = append(extra, fmtArgs(formats[c.Rand.Intn(4)], c.Rand.Intn(4)))
	}
	nofile := filepath.Join(hx.ScratchDir(), hx.Uniq("absent"))
	other := func() string {
		all := []string{"push", "pull", "pub", "sub", "req", "rep", "surveyor", "respondent", "bus", "pair", "star"}
		return "--" + all[c.Rand.Intn(len(all))] // may equal the first: selecting a protocol twice conflicts too
	}
	var tail []string // placed last, unshuffled
	groups := [][]string{proto, addr, da}
	switch sp.Var {
	case "two-protocols":
		groups = append(groups, []string{other()})
	case "no-protocol":
		groups = [][]string{addr, da}
	case "no-address":
		groups = [][]string{proto, da}
	case "data-and-file":
		f, _, _ := dataArgs(c, 5, 3, 5+c.Rand.Intn(4)) // da is a --data spelling here
		groups = append(groups, f)
	case "data-twice":
		groups = [][]string{proto, addr, {"--data", "one"}, {[]string{"-D", "--data"}[c.Rand.Intn(2)], "two"}}
	case "file-twice":
		f1, _, _ := dataArgs(c, 5, 3, 5)
		f2, _, _ := dataArgs(c, 5, 3, 7)
		groups = [][]string{proto, addr, f1, f2}
	case "payload-twice-empty-first":
		// the first payload is given and empty (an empty message is a legal payload), the second conflicts with it
		var first []string
		if c.Rand.Intn(2) == 0 {
			first = [][]string{{"--data", ""}, {"--data="}, {"-D", ""}}[c.Rand.Intn(3)]
		} else {
			first, _, _ = dataArgs(c, 0, 3, 5+c.Rand.Intn(4)) // an empty file
		}
		second, _, _ := dataArgs(c, 1+c.Rand.Intn(20), 3, []int{0, 1, 2, 5, 6, 7}[c.Rand.Intn(6)])
		groups = [][]string{proto, addr, append(append([]string{}, first...), second...)}
	case "two-formats":
		a, b := c.Rand.Intn(4), c.Rand.Intn(4)
		extra = [][]string{{"--recv-timeout", "200ms"}, {"--" + formats[a]}, {"--" + formats[b]}}
	case "format-flag-and-format":
		extra = [][]string{{"--recv-timeout", "200ms"}, {"--" + formats[c.Rand.Intn(4)]}, {"--format", formats[c.Rand.Intn(4)]}}
	case "bad-format":
		extra = [][]string{{"--recv-timeout", "200ms"}, {"--format", []string{"xml", "RAW", "json", "hex", "msgpack2", " ascii", ""}[c.Rand.Intn(7)]}}
	case "subscribe-without-sub":
		groups = append(groups, []string{"--subscribe", []string{"a", "", "topic"}[c.Rand.Intn(3)]})
	case "cert-twice":
		groups = append(groups, []string{"--cert", nofile}, []string{[]string{"-E", "--cert"}[c.Rand.Intn(2)], nofile + "2"})
	case "key-twice":
		groups = append(groups, []string{"--key", nofile}, []string{"--key", nofile + "2"})
	case "missing-data-file":
		groups = [][]string{proto, addr, {[]string{"--file", "-F"}[c.Rand.Intn(2)], nofile}}
	case "missing-cacert-file":
		groups = append(groups, []string{"--cacert", nofile})
	case "missing-cert-file":
		groups = append(groups, []string{"--cert", nofile})
	case "tls-bind-no-cert":
		groups = [][]string{proto, {"--bind", []string{"tls+tcp", "wss"}[c.Rand.Intn(2)] + "://127.0.0.1:" + freePort()}, da}
	case "tls-connect-no-ca":
		groups = [][]string{proto, {"--connect", []string{"tls+tcp", "wss"}[c.Rand.Intn(2)] + "://127.0.0.1:" + freePort()}, da}
	case "push-no-data", "pub-no-data":
		groups = [][]string{proto, addr}
	case "missing-value":
		tail = []string{[]string{"--data", "--file", "--connect", "--bind", "--format", "--recv-timeout", "--send-interval", "--count", "--subscribe", "-D", "-i", "-x"}[c.Rand.Intn(12)]}
	}
	groups = append(groups, extra...)
	args := append(shuffled(c.Rand, groups), tail...)
	p := startMacat(c, args)
	c.Sig("reject|%s|%s|%s|%d", sp.Var, sp.Proto, sp.Tr, len(args))
	if !p.waitExit() {
		stalled(c, p, "waiting for macat to reject its options (it is still running)")
		return
	}
	c.Count("rejections_checked", 1)
	c.Count("reject_"+sp.Var, 1)
	sig := "reject/" + sp.Var + "/"
	if p.panicked() {
		c.Count("reject_by_panic", 1)
	}
	if p.code == 0 {
		c.Violate(sig+"ran-exit-0", "macat accepted the combination and ended with status 0 (stdout %d bytes)\n%s", p.outLen(), p.describe())
	} else if len(bytes.TrimSpace(p.stderr())) == 0 {
		c.Violate(sig+"no-error-message", "exit status %d but nothing on stderr\n%s", p.code, p.describe())
	}
	if n := p.outLen(); n != 0 {
		c.Violate(sig+"printed", "%d bytes on stdout: %q\n%s", n, trunc(p.stdout(), 100), p.describe())
	}
	if sender {
		if b, _, st := pe.recv(p, 150*time.Millisecond); st == "ok" {
			c.Violate(sig+"sent-message", "a %d-byte message reached the harness %s socket\n%s", len(b), pe.proto, p.describe())
		}
	}
	c.Nontrivial()
}
