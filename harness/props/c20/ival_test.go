package c20

import (
	"bytes"
	"fmt"
	"math/rand"
	"os"
	"strconv"
	"strings"
	"time"

	"verifharness/mon"
)

// ---- ival: a real send interval, a count, and a peer that does not answer every transmission ----
//
// macat --pair/--bus/--star/--req/--surveyor with --data/--file, --count N>1 and a
// non-zero --send-interval runs its send-and-receive loop: send, wait for an answer
// for at most the interval, send again.  The harness peer answers only some of the
// transmissions (possibly none).  The data must still arrive exactly N times,
// never sooner than the interval allows, and macat must end by itself with status 0.
//
// "macat neither sends again nor exits" is decided by the stuck detector of this
// process (every harness goroutine parked, identical over 5 samples, >= 10x the
// longest timer macat armed that ends its wait on the unchanged library: the send
// interval, or for SURVEYOR the 1 s survey time) AND, after that, by the child
// itself: every thread of the macat process asleep and its CPU time not advancing
// over further samples (a child that is runnable but starved of CPU is state R and
// gives an inconclusive outcome).  macat's REQ retry (60 s) is not such a timer:
// it can only repeat the same request to a peer that does not answer it; it does
// not end macat's wait.

// ivalVals: the intervals.  Short unit forms keep the runs short; the bare
// integer (seconds) is part of the thorough tier's list only.
var ivalVals = []durVal{{"40ms", 40 * time.Millisecond}, {"60ms", 60 * time.Millisecond}, {"0.05s", 50 * time.Millisecond},
	{"100ms", 100 * time.Millisecond}, {"75ms", 75 * time.Millisecond}, {"0.1s", 100 * time.Millisecond}, {"45000us", 45 * time.Millisecond},
	{"1", time.Second}}

var ivalProtos = []string{"pair", "req", "bus", "star", "surveyor"}

const nIvalForms = 4

func intervalArgs(val string, form int) []string {
	switch form {
	case 0:
		return []string{"-i", val}
	case 1:
		return []string{"-i" + val}
	case 2:
		return []string{"--send-interval", val}
	}
	return []string{"--send-interval=" + val}
}

// ivalSpec draws one case of the kind from the case-list PRNG.
func ivalSpec(rnd *rand.Rand, i, off int, thorough bool, lens func(int) ([]int, []int)) c20Spec {
	nv := len(ivalVals) - 1
	if thorough && rnd.Intn(12) == 0 {
		nv = len(ivalVals)
	}
	dv := ivalVals[rnd.Intn(nv)]
	sp := c20Spec{Kind: "ival", Proto: ivalProtos[(i+off)%len(ivalProtos)], Tr: trs[rnd.Intn(2)], AForm: rnd.Intn(nAddrForms), FForm: rnd.Intn(4),
		N: 2 + rnd.Intn(3), IForm: rnd.Intn(nIvalForms), Val: dv.Text, ValNs: int64(dv.D),
		DLen: pickLen(rnd), DCls: rnd.Intn(nBodyClasses), DForm: rnd.Intn(nDataForms)}
	if sp.DForm == 4 {
		sp.DForm = 3 // -D<bytes> with invalid UTF-8 is the lock/send kinds' subject (known finding D22); here it would only end the run early
	}
	if f := rnd.Intn(5); f < 4 {
		sp.Fmt = formats[f]
	}
	// which transmissions the peer answers: never all of them
	sp.Ans = make([]bool, sp.N)
	switch rnd.Intn(4) {
	case 0: // a peer that never answers
	case 1: // only the last one is answered
		sp.Ans[sp.N-1] = true
	default:
		for k := range sp.Ans {
			sp.Ans[k] = rnd.Intn(2) == 0
		}
		sp.Ans[rnd.Intn(sp.N)] = false
	}
	// mostly no receive timeout at all; sometimes one that is far longer than the interval
	if rnd.Intn(10) < 3 {
		sp.RT = []string{"3600", "1h", "90m"}[rnd.Intn(3)]
	}
	sp.Lens, sp.Cls = lens(sp.N)
	for k := range sp.Lens {
		if sp.Lens[k] > 6000 {
			sp.Lens[k] %= 6000 // replies stay small: what is printed is not this kind's subject
		}
	}
	return sp
}

// threadsAsleep samples the macat process: true only if, over 4 samples 40 ms
// apart, every one of its threads is in state S (sleeping: not running, not
// runnable, not in uninterruptible I/O) and the sum of their CPU times has not
// moved.  Anything else (including an unreadable /proc) is "not known to be asleep".
func (p *mproc) threadsAsleep() (bool, string) {
	pid := p.cmd.Process.Pid
	last := int64(-1)
	nthr := 0
	for s := 0; s < 4; s++ {
		if s > 0 {
			mon.Sleep(40 * time.Millisecond)
		}
		dir := fmt.Sprintf("/proc/%d/task", pid)
		ents, err := os.ReadDir(dir)
		if err != nil || len(ents) == 0 {
			return false, fmt.Sprintf("cannot list %s: %v", dir, err)
		}
		var ticks int64
		for _, e := range ents {
			b, err := os.ReadFile(dir + "/" + e.Name() + "/stat")
			if err != nil {
				return false, "a thread ended between samples"
			}
			i := bytes.LastIndexByte(b, ')')
			if i < 0 {
				return false, "unparsable stat"
			}
			f := strings.Fields(string(b[i+1:]))
			if len(f) < 13 {
				return false, "unparsable stat"
			}
			if f[0] != "S" {
				return false, fmt.Sprintf("thread %s is in state %s", e.Name(), f[0])
			}
			u, err1 := strconv.ParseInt(f[11], 10, 64)
			v, err2 := strconv.ParseInt(f[12], 10, 64)
			if err1 != nil || err2 != nil {
				return false, "unparsable stat"
			}
			ticks += u + v
		}
		if last >= 0 && ticks != last {
			return false, "the process used CPU time between samples"
		}
		last, nthr = ticks, len(ents)
	}
	return true, fmt.Sprintf("all %d threads of pid %d in state S, CPU time constant at %d ticks over 4 samples", nthr, pid, last)
}

type ivalEvent struct {
	b  []byte
	at time.Duration
	st string
}

func runIval(c *mon.Case, sp c20Spec) {
	I := time.Duration(sp.ValNs)
	pe := newPeer(c, sp.Proto, sp.Tr, false)
	da, data, dname := dataArgs(c, sp.DLen, sp.DCls, sp.DForm)
	replies := mkBodies(c.Rand, sp.Lens, sp.Cls, nil)
	groups := [][]string{{"--" + sp.Proto}, addrArgs(pe, false, sp.AForm), da, intervalArgs(sp.Val, sp.IForm),
		{"--count", fmt.Sprint(sp.N)}, fmtArgs(sp.Fmt, sp.FForm)}
	rt := "none"
	if sp.RT != "" {
		groups = append(groups, []string{"--recv-timeout", sp.RT})
		rt = "long"
	}
	nUn := 0
	ans := ""
	for _, a := range sp.Ans {
		if a {
			ans += "a"
		} else {
			ans += "-"
			nUn++
		}
	}
	c.Sig("ival|%s|%s|%s|n=%d|%s|i%d|rt=%s|ans=%s|%s|%s", sp.Proto, sp.Fmt, sp.Tr, sp.N, sp.Val, sp.IForm, rt, ans, dname, lenClass(len(data)))
	// the longest timer that ends a wait of macat (or of the harness's own receive helper) in this scenario
	maxT := I + 20*time.Millisecond
	if sp.Proto == "surveyor" && maxT < time.Second {
		maxT = time.Second // the survey expires by itself
	}
	if maxT < 150*time.Millisecond {
		maxT = 150 * time.Millisecond // the grace of pe.recv
	}
	p := startMacat(c, shuffled(c.Rand, groups))

	// next: the next thing macat does, under the stuck detector.
	// "ok": a transmission; "gone": macat ended and nothing more is in flight;
	// "stuck": macat does nothing and cannot do anything any more; else undecidable.
	next := func() (ev ivalEvent, why string) {
		call := mon.Go("harness peer.recv", func() (interface{}, error) {
			b, at, st := pe.recv(p, 150*time.Millisecond)
			return ivalEvent{b, at, st}, nil
		})
		res := mon.Await(call.Done, mon.AwaitOpts{MaxTimer: maxT, Watchdog: wdog - 3*time.Second})
		if res.V == mon.Stuck {
			asleep, how := p.threadsAsleep()
			if call.Done() {
				res.V = mon.Done
			} else if asleep {
				return ivalEvent{st: "stuck"}, fmt.Sprintf("harness quiescent after %v; %s", res.Waited, how)
			} else {
				return ivalEvent{st: "undecided"}, "harness quiescent but the macat process is not known to be asleep: " + how
			}
		}
		if res.V != mon.Done {
			return ivalEvent{st: "watchdog"}, ""
		}
		v, _, _ := call.Result()
		return v.(ivalEvent), ""
	}

	var sentReplies [][]byte
	got := 0
	for got < sp.N {
		ev, why := next()
		switch ev.st {
		case "ok":
		case "stuck":
			last := "none arrived yet"
			if got > 0 {
				last = fmt.Sprintf("transmission %d was %s", got, map[bool]string{true: "answered", false: "not answered"}[sp.Ans[got-1]])
			}
			c.Count("interval_stalls", 1)
			c.Violate(fmt.Sprintf("send/interval-stalled:%s:rt=%s", sp.Proto, rt),
				"--count %d --send-interval %s (recv timeout: %s): %d of %d transmissions arrived (%s, answers %q), then macat neither sent again nor exited: %s\n%s",
				sp.N, sp.Val, rt, got, sp.N, last, ans, why, p.describe())
			return
		case "gone":
			if p.code != 0 {
				abnormal(c, p, fmt.Sprintf("after %d of %d transmissions", got, sp.N))
				return
			}
			// Transmissions arrive in order on one connection and an answered one has arrived, so only a
			// tail of unanswered ones can be missing.  Data that fits the kernel's socket buffer is written
			// without the harness's help long before macat closes (interval + 20 ms later); larger data may
			// legitimately be cut off by the close when the harness reads slowly.
			if len(data) > 4096 {
				c.Count("interval_tail_lost_large", 1)
				c.Inconclusive("macat exited 0 after %d of %d transmissions of %d bytes arrived; the unanswered tail may have been cut off by its close", got, sp.N, len(data))
				return
			}
			if w := mon.CanaryWorst(); w > 200*time.Millisecond {
				c.Inconclusive("macat exited 0 after %d of %d transmissions, but the scheduler canary overslept %v", got, sp.N, w)
				return
			}
			c.Violate(fmt.Sprintf("send/count-short:%s:interval", sp.Proto),
				"--count %d --send-interval %s: the harness %s received %d transmissions (answers %q), then macat exited with status 0 and its connection reached end-of-stream\n%s",
				sp.N, sp.Val, pe.proto, got, ans, p.describe())
			return
		case "undecided":
			c.Inconclusive("waiting for transmission %d of %d: %s\n%s", got+1, sp.N, why, p.describe())
			return
		default:
			stalled(c, p, fmt.Sprintf("waiting for transmission %d of %d", got+1, sp.N))
			return
		}
		if !sameBytes(c, p, ev.b, data, dname, fmt.Sprintf("transmission %d of %d", got+1, sp.N)) {
			return
		}
		got++
		// transmission k is sent no sooner than (k-1) intervals after the first, which is after the start
		c.Count("lower_bounds_checked", 1)
		if lb := time.Duration(got-1) * I; ev.at-p.t0 < lb {
			c.Violate(fmt.Sprintf("duration/send-interval:%s:early", sp.Val), "transmission %d arrived %v after the process was started, but --send-interval %s puts it at least %v after the first\n%s",
				got, ev.at-p.t0, sp.Val, lb, p.describe())
			return
		}
		if sp.Ans[got-1] {
			if err := pe.send(replies[got-1]); err != nil {
				stalled(c, p, "harness reply: "+err.Error())
				return
			}
			sentReplies = append(sentReplies, replies[got-1])
		}
	}
	// exactly N so far: whichever comes first, a further transmission or the end of the process
	ev, why := next()
	switch ev.st {
	case "ok":
		if el := mon.Now() - p.t0; sp.Proto == "req" && el > 50*time.Second {
			c.Inconclusive("an extra request arrived, but the run took %v and macat's REQ retry (60 s) may have fired", el)
			return
		}
		c.Violate(fmt.Sprintf("send/count-exceeds:%s", sp.Proto), "--count %d --send-interval %s: a further transmission (%d bytes, equal to data: %v) arrived after the %d expected ones\n%s",
			sp.N, sp.Val, len(ev.b), bytes.Equal(ev.b, data), sp.N, p.describe())
		return
	case "stuck":
		c.Count("interval_stalls", 1)
		c.Violate(fmt.Sprintf("send/interval-no-exit:%s:rt=%s", sp.Proto, rt),
			"--count %d --send-interval %s (recv timeout: %s): all %d transmissions arrived (answers %q), then macat neither sent again nor exited: %s\n%s",
			sp.N, sp.Val, rt, sp.N, ans, why, p.describe())
		return
	case "undecided":
		c.Inconclusive("waiting for macat to exit after its last transmission: %s\n%s", why, p.describe())
		return
	case "gone":
	default:
		stalled(c, p, "waiting for macat to exit after its last transmission")
		return
	}
	if p.code != 0 {
		abnormal(c, p, "after all transmissions were sent")
		return
	}
	c.Count("interval_runs_count_exact", 1)
	c.Count("interval_transmissions", got)
	c.Count("interval_transmissions_unanswered", nUn)
	if sp.RT == "" {
		c.Count("interval_runs_without_recv_timeout", 1)
	}
	c.Nontrivial()
	// PAIR/BUS/STAR print every message they receive, in order; an answer that comes too late for the last
	// wait is legitimately not printed (REQ/SURVEYOR also drop answers to superseded requests: not judged).
	if sp.Fmt != "" && (sp.Proto == "pair" || sp.Proto == "bus" || sp.Proto == "star") {
		printedVerdict(c, p, sp.Fmt, sentReplies, false)
	}
}
