package c20

import (
	"bytes"
	"fmt"
	"math/rand"
	"os"
	"path/filepath"
	"strings"
	"time"

	"verifharness/hx"
	"verifharness/mon"
)

// ---- given: a payload that is given, but is not what a payload usually looks like -----------------
//
// "sends exactly the bytes given by --data or --file": the bytes given are whatever the
// value of the option is, also when that value is
//
//   empty  — --data "" / --data= / -D "" / --file naming an empty file (regular or FIFO): the
//            message is a zero-length message, and it IS sent (once; as every reply for
//            REP/RESPONDENT);
//   dash   — text that looks like an option (--help, -h, --version, --verbose, --push, --data,
//            --, -, ...), as a separate argument or attached (--data=V, -DV): the message is
//            that very text; as the value of --file it names a file of that name (the content
//            of the file is the message); as the value of --subscribe it is a prefix.
//
// Every sending protocol of macat is driven:
//   pair/bus/star  macat connects, sends at once, then prints what it receives until its
//                  --recv-timeout ends it with status 0;
//   req/surveyor   macat sends, the harness answers, macat prints the answer and ends;
//   rep/respondent the harness asks twice; every request is printed and answered with the payload;
//   push/pub       best effort: arrival is counted, not judged;
//   sub            --subscribe V: exactly the messages starting with V (and the sentinel) are printed.
//
// "The payload was never sent" is decided without a clock: macat has exited with status 0
// by itself, every connection it had has reached end-of-stream at the harness (so all it
// ever wrote has been read) and nothing arrived; for REP/RESPONDENT additionally macat's own
// stdout shows the record of the request it did not answer (so it was not its receive
// timeout that ended it before the request arrived).  The message is handed to macat's socket
// at least (recv timeout + 20 ms) before macat closes it; a scheduler canary above 200 ms
// makes the outcome inconclusive, as in the lock kind.
// "macat printed something it never received": stdout is not empty although the harness
// sent nothing at all.

var givenProtos = []string{"pair", "push", "req", "bus", "rep", "star", "pub", "surveyor", "respondent"}

// dashVals: option look-alikes.  Information flags first (what a command line is most
// often scanned for), then macat's own options, then the bare separators.
var dashVals = []string{"--help", "-h", "--version", "-V", "-?", "--usage", "-help",
	"--verbose", "-v", "--push", "--data", "-D", "--file", "--count", "--raw", "-A", "--format", "-q", "--connect", "-x",
	"--", "-", "---", "-1"}

const nEmptyForms = 8
const nDashForms = 8

func randDash(r *rand.Rand) string {
	n := 1 + r.Intn(8)
	b := make([]byte, n)
	for i := range b {
		b[i] = "abcdefghijklmnopqrstuvwxyzHV?-_0123456789"[r.Intn(41)]
	}
	return []string{"-", "--"}[r.Intn(2)] + string(b)
}

// givenSpecs appends the cases of the kind (drawn from the case-list PRNG).
func givenSpecs(rnd *rand.Rand, off int, nEmpty, nDash, nSub int, thorough bool, lens func(int) ([]int, []int)) (out []c20Spec) {
	finish := func(sp c20Spec) c20Spec {
		sp.Kind, sp.Tr, sp.AForm, sp.FForm = "given", trs[rnd.Intn(2)], rnd.Intn(nAddrForms), rnd.Intn(4)
		if f := rnd.Intn(6); f < 4 {
			sp.Fmt = formats[f]
		}
		nb := 1
		switch sp.Proto {
		case "pair", "bus", "star":
			sp.RT = []string{"1", "600ms", "0.5s", "700ms"}[rnd.Intn(4)]
		case "rep", "respondent":
			// the receive timeout only ends a macat that does not answer; it is generous so that it
			// rarely fires before the harness's request arrives
			sp.RT = []string{"3", "2", "2500ms"}[rnd.Intn(3)]
			sp.Bind = rnd.Intn(3) == 0
			if sp.Fmt == "" {
				sp.Fmt = formats[rnd.Intn(4)] // the record of the request is how the harness knows it arrived
			}
			nb = 2
		case "req":
			sp.Bind = rnd.Intn(3) == 0
		case "sub":
			sp.Bind = rnd.Intn(3) == 0
			sp.Fmt = formats[rnd.Intn(4)]
			nb = 3 + rnd.Intn(4)
		}
		sp.Lens, sp.Cls = lens(nb)
		for k := range sp.Lens {
			if sp.Lens[k] > 6000 {
				sp.Lens[k] %= 6000 // what is printed at length is the recv kind's subject
			}
			if sp.Lens[k] == 0 && sp.Proto != "sub" {
				sp.Lens[k] = 1 + rnd.Intn(40) // a request / an answer leaves a visible record in every format
			}
		}
		return sp
	}
	offF, offV := rnd.Intn(nEmptyForms), rnd.Intn(len(dashVals)) // which spelling / value meets which protocol varies with the seed
	for k := 0; k < nEmpty; k++ {
		out = append(out, finish(c20Spec{Proto: givenProtos[(k+off)%len(givenProtos)], Var: "empty", DForm: (k + offF) % nEmptyForms}))
	}
	for k := 0; k < nDash; k++ {
		sp := c20Spec{Proto: givenProtos[(k+off)%len(givenProtos)], Var: "dash", Val: dashVals[(k+offV)%len(dashVals)],
			DLen: 1 + rnd.Intn(40), DCls: rnd.Intn(nBodyClasses)}
		if k < len(dashVals) {
			// the first pass gives every value as an argument of its own
			sp.DForm = []int{0, 1, 0, 1, 4, 5}[rnd.Intn(6)]
		} else {
			sp.DForm = rnd.Intn(nDashForms)
			if thorough && rnd.Intn(3) == 0 {
				sp.Val = randDash(rnd)
			}
		}
		out = append(out, finish(sp))
	}
	for k := 0; k < nSub; k++ {
		sp := c20Spec{Proto: "sub", Var: "dash", Val: dashVals[(k*5+offV)%len(dashVals)], DForm: k % 2}
		if thorough && rnd.Intn(3) == 0 {
			sp.Val = randDash(rnd)
		}
		out = append(out, finish(sp))
	}
	return out
}

// givenArgs builds the payload option of the case.
func givenArgs(c *mon.Case, sp c20Spec) (args []string, data []byte, dname string) {
	if sp.Var == "empty" {
		switch sp.DForm {
		case 0:
			return []string{"--data", ""}, []byte{}, "data-long"
		case 1:
			return []string{"--data="}, []byte{}, "data-eq"
		case 2:
			return []string{"-D", ""}, []byte{}, "data-short"
		}
		return dataArgs(c, 0, 3, sp.DForm+2) // 5..9: the four --file spellings, and a FIFO that is closed without a byte
	}
	v := sp.Val
	switch sp.DForm {
	case 0:
		return []string{"--data", v}, []byte(v), "data-long"
	case 1:
		return []string{"-D", v}, []byte(v), "data-short"
	case 2:
		return []string{"--data=" + v}, []byte(v), "data-eq"
	case 3:
		return []string{"-D" + v}, []byte(v), "data-short-attached"
	}
	// a file of that name in macat's working directory
	data = mkBody(c.Rand, sp.DLen, sp.DCls, false)
	path := filepath.Join(hx.ScratchDir(), v)
	if err := os.WriteFile(path, data, 0o644); err != nil {
		envFail("%v", err)
	}
	c.Cleanup(func() { os.Remove(path) })
	switch sp.DForm {
	case 4:
		return []string{"--file", v}, data, "file-long"
	case 5:
		return []string{"-F", v}, data, "file-short"
	case 6:
		return []string{"--file=" + v}, data, "file-eq"
	}
	return []string{"-F" + v}, data, "file-short-attached"
}

// givenClass names the payload class for signatures: listed values by name, drawn ones as "other".
func givenClass(sp c20Spec) string {
	if sp.Var == "empty" {
		return "empty"
	}
	for _, v := range dashVals {
		if v == sp.Val {
			return "dash(" + v + ")"
		}
	}
	return "dash(other)"
}

type givenRun struct {
	c     *mon.Case
	sp    c20Spec
	p     *mproc
	pe    *peer
	data  []byte
	dname string
	class string
}

// unreceived: stdout holds bytes although the harness has not sent a single message.
func (g *givenRun) unreceived() bool {
	if n := g.p.outLen(); n != 0 {
		g.c.Violate("print/unreceived-output:"+g.sp.Proto, "macat (payload %s, %s) printed %d bytes on stdout although the harness had not sent it any message: %q\n%s",
			g.class, g.dname, n, trunc(g.p.stdout(), 120), g.p.describe())
		return true
	}
	return false
}

// refused: macat ended with a non-zero status instead of sending a payload that was given.
// A crash is a violation of its own; failures of the connection or the file system say nothing.
func (g *givenRun) refused(when string) {
	if g.p.panicked() {
		abnormal(g.c, g.p, when)
		return
	}
	e := string(g.p.stderr())
	for _, m := range []string{"dial(", "bind(", "send:", "recv:", "no such file", "too many open", "temporarily unavailable", "permission denied", "cannot allocate"} {
		if strings.Contains(e, m) {
			abnormal(g.c, g.p, when)
			return
		}
	}
	g.c.Violate(fmt.Sprintf("send/payload-refused:%s:%s", g.sp.Proto, g.class), "the payload (%s, %s, %d bytes) was given, yet macat ended with status %d %s instead of sending it\n%s",
		g.class, g.dname, len(g.data), g.p.code, when, g.p.describe())
}

// notSent: macat has exited and all its connections have reached end-of-stream without the message.
func (g *givenRun) notSent(what string) {
	if g.p.code != 0 {
		g.refused("before " + what + " arrived")
		return
	}
	if w := mon.CanaryWorst(); w > 200*time.Millisecond {
		g.c.Inconclusive("macat exited 0 and %s never arrived, but the scheduler canary overslept %v", what, w)
		return
	}
	g.c.Violate(fmt.Sprintf("send/payload-not-sent:%s:%s:%s", g.sp.Proto, g.class, g.dname),
		"the payload (%s, %s, %d bytes) was given, but %s never arrived at the harness %s: macat exited with status 0 and its connection reached end-of-stream\n%s",
		g.class, g.dname, len(g.data), what, g.pe.proto, g.p.describe())
}

func runGiven(c *mon.Case, sp c20Spec) {
	if sp.Proto == "sub" {
		runGivenSub(c, sp)
		return
	}
	g := &givenRun{c: c, sp: sp, class: givenClass(sp)}
	g.pe = newPeer(c, sp.Proto, sp.Tr, sp.Bind)
	var da []string
	da, g.data, g.dname = givenArgs(c, sp)
	bodies := mkBodies(c.Rand, sp.Lens, sp.Cls, nil)
	groups := [][]string{{"--" + sp.Proto}, addrArgs(g.pe, sp.Bind, sp.AForm), da, fmtArgs(sp.Fmt, sp.FForm)}
	if sp.RT != "" {
		groups = append(groups, []string{"--recv-timeout", sp.RT})
	}
	c.Sig("given|%s|%s|%s|%s|%s|bind=%v|a%d|rt=%s", sp.Proto, g.class, g.dname, sp.Fmt, sp.Tr, sp.Bind, sp.AForm, sp.RT)
	g.p = startMacat(c, shuffled(c.Rand, groups))
	if sp.Bind {
		g.pe.dialPeer()
	}
	switch sp.Proto {
	case "push", "pub":
		g.bestEffort()
	case "rep", "respondent":
		g.replies(bodies)
	default:
		g.first(bodies[0])
	}
}

// first: PAIR/BUS/STAR/REQ/SURVEYOR — macat sends the payload before anything else.
func (g *givenRun) first(answer []byte) {
	c, p, pe, sp := g.c, g.p, g.pe, g.sp
	b, _, st := pe.recv(p, 150*time.Millisecond)
	switch st {
	case "ok":
	case "gone":
		g.unreceived()
		g.notSent("the message")
		return
	default:
		stalled(c, p, "waiting for macat's message")
		return
	}
	if !sameBytes(c, p, b, g.data, g.dname, "the message ("+g.class+")") {
		return
	}
	if err := pe.send(answer); err != nil {
		stalled(c, p, "harness answer: "+err.Error())
		return
	}
	// once: whichever comes first, a further message or the end of the process
	b, _, st = pe.recv(p, 150*time.Millisecond)
	switch st {
	case "ok":
		if el := mon.Now() - p.t0; sp.Proto == "req" && el > 50*time.Second {
			c.Inconclusive("a second request arrived, but the run took %v and macat's REQ retry (60 s) may have fired", el)
			return
		}
		c.Violate("send/count-exceeds:"+sp.Proto, "no --count: a second message (%d bytes, equal to data: %v) arrived after the one expected\n%s", len(b), bytes.Equal(b, g.data), p.describe())
		return
	case "gone":
	default:
		stalled(c, p, "waiting for macat to exit after its message was answered")
		return
	}
	if p.code != 0 {
		abnormal(c, p, "after its message was answered")
		return
	}
	c.Count("given_runs_sent_exactly_once", 1)
	c.Count("given_"+sp.Var+"_payloads_arrived", 1)
	c.Nontrivial()
	if sp.Fmt != "" {
		// an answer that comes after macat's receive timeout (PAIR/BUS/STAR) or survey time is legitimately not printed
		complete := sp.Proto == "req" || (sp.Proto == "surveyor" && p.tExit-p.t0 < time.Second)
		printedVerdict(c, p, sp.Fmt, [][]byte{answer}, complete)
	}
}

// replies: REP/RESPONDENT — every request is printed and answered with the payload.
func (g *givenRun) replies(reqs [][]byte) {
	c, p, pe, sp := g.c, g.p, g.pe, g.sp
	switch pe.waitAttached(p) {
	case "exited":
		if p.code == 0 && g.unreceived() {
			return
		}
		if p.code != 0 {
			g.refused("before connecting")
			return
		}
		abnormal(c, p, "before connecting")
		return
	case "watchdog":
		stalled(c, p, "waiting for macat's connection")
		return
	}
	for k, q := range reqs {
		if err := pe.send(q); err != nil {
			stalled(c, p, "harness request: "+err.Error())
			return
		}
		b, _, st := pe.recv(p, 150*time.Millisecond)
		switch st {
		case "ok":
		case "gone":
			if p.code != 0 {
				g.refused(fmt.Sprintf("before the reply to request %d", k+1))
				return
			}
			v := checkPrinted(sp.Fmt, p.stdout(), reqs[:k+1], false)
			if v.Sig != "" {
				c.Violate(v.Sig, "%s\n%s", v.Detail, p.describe())
				return
			}
			if v.Compared < k+1 {
				c.Count("given_request_not_seen", 1)
				c.Inconclusive("macat exited 0 without printing request %d: its receive timeout (%s) may have ended it before the request arrived\n%s", k+1, sp.RT, p.describe())
				return
			}
			g.notSent(fmt.Sprintf("the reply to request %d (which macat printed)", k+1))
			return
		default:
			stalled(c, p, fmt.Sprintf("waiting for the reply to request %d", k+1))
			return
		}
		if !sameBytes(c, p, b, g.data, g.dname, fmt.Sprintf("reply to request %d (%s)", k+1, g.class)) {
			return
		}
		c.Count("given_"+sp.Var+"_payloads_arrived", 1)
	}
	// the record of a request is written before its reply is sent: all of them are in the pipe now
	p.kill()
	if !p.waitExit() {
		c.Inconclusive("macat did not die after SIGKILL")
		return
	}
	c.Count("given_runs_every_request_answered", 1)
	c.Nontrivial()
	printedVerdict(c, p, sp.Fmt, reqs, true)
}

// bestEffort: PUSH/PUB — never more than once, never other bytes, nothing printed; loss is counted.
func (g *givenRun) bestEffort() {
	c, p, pe, sp := g.c, g.p, g.pe, g.sp
	if !p.waitExit() {
		stalled(c, p, "waiting for macat to exit after sending")
		return
	}
	if g.unreceived() {
		return
	}
	if p.code != 0 {
		g.refused("instead of sending")
		return
	}
	got := 0
	for {
		b, _, st := pe.recv(p, 150*time.Millisecond)
		if st != "ok" {
			break
		}
		if !sameBytes(c, p, b, g.data, g.dname, fmt.Sprintf("message %d (%s)", got+1, g.class)) {
			return
		}
		got++
		if got > 1 {
			c.Violate("send/count-exceeds:"+sp.Proto, "no --count: %d messages arrived\n%s", got, p.describe())
			return
		}
	}
	c.Count("besteffort_asked", 1)
	c.Count("besteffort_arrived", got)
	if got > 0 {
		c.Count("given_"+sp.Var+"_payloads_arrived", 1)
		c.Nontrivial()
	}
}

// runGivenSub: --sub --subscribe V with V an option look-alike.
func runGivenSub(c *mon.Case, sp c20Spec) {
	g := &givenRun{c: c, sp: sp, class: givenClass(sp), dname: []string{"subscribe-long", "subscribe-eq"}[sp.DForm%2]}
	g.pe = newPeer(c, "sub", sp.Tr, sp.Bind)
	pe := g.pe
	sentinel := []byte(fmt.Sprintf("~S~%08x~E", c.Rand.Uint32()))
	pfx := []byte(sp.Val)
	bodies := mkBodies(c.Rand, sp.Lens, sp.Cls, sentinel)
	var want [][]byte
	for i := range bodies {
		if c.Rand.Intn(2) == 0 {
			bodies[i] = append(append([]byte{}, pfx...), bodies[i]...)
			want = append(want, bodies[i])
		} else if bytes.HasPrefix(bodies[i], pfx) || bytes.HasPrefix(bodies[i], []byte("~S~")) {
			bodies[i][0] = 'x'
		}
	}
	want = append(want, sentinel)
	sub := []string{"--subscribe", sp.Val}
	if sp.DForm%2 == 1 {
		sub = []string{"--subscribe=" + sp.Val}
	}
	groups := [][]string{{"--sub"}, addrArgs(pe, sp.Bind, sp.AForm), fmtArgs(sp.Fmt, sp.FForm), sub, {"--subscribe=~S~"}}
	c.Sig("given|sub|%s|%s|%s|%s|bind=%v|a%d|%s", g.class, g.dname, sp.Fmt, sp.Tr, sp.Bind, sp.AForm, lensSig(sp.Lens))
	g.p = startMacat(c, shuffled(c.Rand, groups))
	p := g.p
	if sp.Bind {
		pe.dialPeer()
	}
	switch pe.waitAttached(p) {
	case "exited":
		if p.code == 0 && g.unreceived() {
			return
		}
		abnormal(c, p, "before connecting")
		return
	case "watchdog":
		stalled(c, p, "waiting for macat's connection")
		return
	}
	for _, m := range append(append([][]byte{}, bodies...), sentinel) {
		if err := pe.send(m); err != nil {
			stalled(c, p, "harness send: "+err.Error())
			return
		}
	}
	c.Count("sub_filtered_out", len(bodies)+1-len(want))
	suffix := sentinel
	if sp.Fmt == "ascii" || sp.Fmt == "quoted" {
		suffix = append(append([]byte{}, sentinel...), '\n')
	}
	st := p.waitOutSuffix(suffix)
	p.kill()
	if !p.waitExit() {
		c.Inconclusive("macat did not die after SIGKILL")
		return
	}
	printedVerdict(c, p, sp.Fmt, want, st == "ok")
	if c.Failed() {
		return
	}
	switch st {
	case "ok":
		c.Count("given_runs_subscribed", 1)
	case "exited":
		abnormal(c, p, "before printing the last message")
	default:
		stalled(c, p, fmt.Sprintf("waiting for the sentinel record in stdout (%d bytes so far)", p.outLen()))
	}
}
