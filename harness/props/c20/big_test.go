package c20

// big: large payloads.  --file (and --data up to the kernel's limit for one
// argument) payloads of 64 KiB up to a few MiB — around and above the 1 MiB
// default receive limit, which the harness peer lifts on its own socket — must
// be sent byte for byte, and large received messages (up to just under macat's
// own default receive limit) must be printed exactly.  The runs are the lock /
// recv / send exchanges with these sizes; the oracles are theirs.

import (
	"math/rand"

	"verifharness/mon"
)

const miB = 1 << 20

// bigDLen draws the size of the payload macat is given: over (two of three) or up to 1 MiB.
func bigDLen(r *rand.Rand, i int) int {
	if i%3 != 2 {
		switch r.Intn(6) {
		case 0:
			return miB + 1 + r.Intn(3)
		case 1:
			return miB + 1 + r.Intn(miB)
		case 2:
			return 2*miB + r.Intn(3) - 1
		case 3:
			return 2*miB + r.Intn(2*miB)
		case 4:
			return miB + 4096*(1+r.Intn(16))
		}
		return 3*miB + r.Intn(miB+2)
	}
	switch r.Intn(5) {
	case 0:
		return 65535 + r.Intn(3)
	case 1:
		return 100000 + r.Intn(20000)
	case 2:
		return miB - r.Intn(2)
	case 3:
		return 131071 + r.Intn(3)
	}
	return 200000 + r.Intn(800000)
}

// bigMsgLen draws the size of a message the harness sends to macat: it stays under macat's
// own receive limit (1 MiB by default, protocol headers included).
func bigMsgLen(r *rand.Rand) int {
	switch r.Intn(4) {
	case 0:
		return 65534 + r.Intn(4)
	case 1:
		return 131070 + r.Intn(4)
	case 2:
		return 900000 + r.Intn(100000)
	}
	return 65538 + r.Intn(800000)
}

var bigProtos = []struct{ via, proto string }{
	{"lock", "req"}, {"recv", "rep"}, {"send", "push"}, {"lock", "pair"}, {"lock", "surveyor"}, {"recv", "respondent"},
	{"send", "pub"}, {"lock", "bus"}, {"lock", "star"}, {"recv", "pull"}, {"recv", "sub"},
}

func bigSpecs(rnd *rand.Rand, off, n int) (out []c20Spec) {
	for i := 0; i < n; i++ {
		bp := bigProtos[(i+off)%len(bigProtos)]
		sp := c20Spec{Kind: "big", Var: bp.via, Proto: bp.proto, Tr: trs[rnd.Intn(2)], AForm: rnd.Intn(nAddrForms), FForm: rnd.Intn(4),
			IForm: rnd.Intn(nZeroForms), DLen: bigDLen(rnd, i), DCls: rnd.Intn(nBodyClasses), DForm: 5 + rnd.Intn(4)}
		if sp.DLen <= 120000 && rnd.Intn(2) == 0 {
			sp.DForm = rnd.Intn(3) // --data as one argument
		}
		sp.Fmt = "raw"
		if rnd.Intn(3) == 0 {
			sp.Fmt = formats[rnd.Intn(4)]
		}
		nm := 1 + rnd.Intn(2)
		switch bp.via {
		case "lock":
			sp.N = nm
			if sp.Proto == "req" {
				sp.Bind = rnd.Intn(3) == 0
			}
		case "send":
			sp.N = nm
			nm = 0
		case "recv":
			sp.Bind = rnd.Intn(3) == 0
			sp.Reply = sp.Proto == "rep" || sp.Proto == "respondent"
			nm++
		}
		for j := 0; j < nm; j++ {
			sp.Lens = append(sp.Lens, bigMsgLen(rnd))
			sp.Cls = append(sp.Cls, rnd.Intn(nBodyClasses))
		}
		out = append(out, sp)
	}
	return out
}

func runBig(c *mon.Case, sp c20Spec) {
	switch sp.Var {
	case "lock":
		runLock(c, sp)
	case "recv":
		runRecv(c, sp)
	case "send":
		runSend(c, sp)
	}
	c.Count("big_runs", 1)
	if sp.DLen > miB && (sp.Var != "recv" || sp.Reply) {
		c.Count("big_runs_payload_over_1MiB", 1)
	}
	c.Sig("big|%s|%s|%s", sp.Var, sp.Proto, lenClass(sp.DLen))
}
