package c20

import (
	"bytes"
	"crypto/ecdsa"
	"crypto/elliptic"
	crand "crypto/rand"
	"crypto/tls"
	"crypto/x509"
	"crypto/x509/pkix"
	"encoding/pem"
	"fmt"
	"math/big"
	"math/rand"
	"net"
	"os"
	"path/filepath"
	"strings"
	"sync"
	"time"

	"go.nanomsg.org/mangos/v3"

	"verifharness/hx"
	"verifharness/mon"
)

// ---- multi: several endpoints on one command line ----------------------------------------------
//
// macat accepts any number of --bind / --connect options, of any transports.  "Prints every
// received message" and "sends exactly the bytes given" hold for whatever endpoint the message
// crosses: a valid command line naming two or three endpoints (tcp, ipc, ws, tls+tcp, wss; TLS
// ones with --cert/--key when macat binds, --insecure when it connects; in every order) must
// serve each of them.  Every endpoint has a harness socket of its own.
//
//   receivers (pull/sub/bus/star): the harness sends one message through endpoint 1, waits (by
//     state: stdout ends with the message's unique token) for its record, then endpoint 2, ...;
//     stdout must be exactly those records in that order.
//   senders (pub/bus with --data and an endless non-zero interval): the payload must arrive,
//     unchanged, at the peer of every endpoint.
//
// "An endpoint does not work" is decided by macat's own exit: it ended by itself with a non-zero
// status and a bind(ADDR)/dial(ADDR) message although ADDR was free (bind) / listened on by the
// harness (connect).  "address in use" (another process took the port in between) is inconclusive.

var multiTrs = []string{"tcp", "ipc", "ws", "tls+tcp", "wss"}
var multiRecvProtos = []string{"pull", "sub", "bus", "star"}
var multiSendProtos = []string{"pub", "bus"}

func multiSpecs(rnd *rand.Rand, off, n int) (out []c20Spec) {
	for i := 0; i < n; i++ {
		sp := c20Spec{Kind: "multi", Fmt: formats[(i+off)%4], FForm: rnd.Intn(4), DLen: 1 + rnd.Intn(300), DCls: rnd.Intn(nBodyClasses), DForm: []int{0, 1, 2, 3, 5, 6, 7, 8}[rnd.Intn(8)]}
		if i%4 == 3 {
			sp.Proto, sp.Reply = multiSendProtos[(i/4+off)%2], true // Reply: macat is the sender
		} else {
			sp.Proto = multiRecvProtos[(i+off)%4]
		}
		k := 2 + rnd.Intn(2)
		// most command lines mix TLS and plain endpoints; every order and every bind/connect mix occurs
		for j := 0; j < k; j++ {
			tr := multiTrs[rnd.Intn(len(multiTrs))]
			switch {
			case j == 0 && i%5 < 3:
				tr = []string{"tls+tcp", "wss"}[rnd.Intn(2)]
			case j == 1 && i%5 < 3:
				tr = []string{"tcp", "ipc", "ws"}[rnd.Intn(3)]
			case j == 0 && i%5 == 3:
				tr = []string{"tcp", "ipc", "ws"}[rnd.Intn(3)]
			case j == 1 && i%5 == 3:
				tr = []string{"tls+tcp", "wss"}[rnd.Intn(2)]
			}
			verb := "c"
			if rnd.Intn(2) == 0 {
				verb = "b"
			}
			sp.Eps = append(sp.Eps, verb+":"+tr)
		}
		for j := 0; j < k; j++ {
			sp.Lens = append(sp.Lens, pickLen(rnd)%70000)
			sp.Cls = append(sp.Cls, rnd.Intn(nBodyClasses))
		}
		out = append(out, sp)
	}
	return
}

// macat's own certificate (self-signed), written once per process.
var (
	certOnce          sync.Once
	certFile, keyFile string
	bothFile          string
	certErr           error
)

func macatCert() (cert, key, both string) {
	certOnce.Do(func() {
		k, err := ecdsa.GenerateKey(elliptic.P256(), crand.Reader)
		if err != nil {
			certErr = err
			return
		}
		t := &x509.Certificate{SerialNumber: big.NewInt(7), Subject: pkix.Name{CommonName: "macat-under-test"},
			NotBefore: time.Now().Add(-time.Hour), NotAfter: time.Now().Add(240 * time.Hour),
			KeyUsage: x509.KeyUsageDigitalSignature | x509.KeyUsageCertSign, IsCA: true, BasicConstraintsValid: true,
			ExtKeyUsage: []x509.ExtKeyUsage{x509.ExtKeyUsageServerAuth, x509.ExtKeyUsageClientAuth},
			IPAddresses: []net.IP{net.ParseIP("127.0.0.1")}, DNSNames: []string{"localhost"}}
		der, err := x509.CreateCertificate(crand.Reader, t, t, &k.PublicKey, k)
		if err != nil {
			certErr = err
			return
		}
		kb, err := x509.MarshalECPrivateKey(k)
		if err != nil {
			certErr = err
			return
		}
		cp := pem.EncodeToMemory(&pem.Block{Type: "CERTIFICATE", Bytes: der})
		kp := pem.EncodeToMemory(&pem.Block{Type: "EC PRIVATE KEY", Bytes: kb})
		d, err := os.MkdirTemp(hx.ScratchDir(), "tls")
		if err != nil {
			certErr = err
			return
		}
		certFile, keyFile, bothFile = filepath.Join(d, "cert.pem"), filepath.Join(d, "key.pem"), filepath.Join(d, "both.pem")
		for f, b := range map[string][]byte{certFile: cp, keyFile: kp, bothFile: append(append([]byte{}, cp...), kp...)} {
			if err := os.WriteFile(f, b, 0o600); err != nil {
				certErr = err
			}
		}
	})
	if certErr != nil {
		envFail("macat certificate: %v", certErr)
	}
	if _, err := os.Stat(certFile); err != nil {
		envFail("macat certificate: %v", err)
	}
	return certFile, keyFile, bothFile
}

// newPeerAny is newPeer for every transport macat speaks (own harness socket per endpoint).
func newPeerAny(c *mon.Case, mproto, tr string, macatBinds bool) *peer {
	if tr == "tcp" || tr == "ipc" {
		return newPeer(c, mproto, tr, macatBinds)
	}
	pe := &peer{c: c, proto: peerProto[mproto], tr: tr, ev: make(chan struct{}, 1), in: make(chan rcv, 1)}
	pe.sock = hx.MustSock(c, pe.proto)
	pe.sock.SetPipeEventHook(func(ev mangos.PipeEvent, _ mangos.Pipe) {
		pe.mu.Lock()
		switch ev {
		case mangos.PipeEventAttached:
			pe.att++
		case mangos.PipeEventDetached:
			pe.det++
		}
		pe.mu.Unlock()
		select {
		case pe.ev <- struct{}{}:
		default:
		}
	})
	if pe.proto == "sub" {
		if err := pe.sock.SetOption(mangos.OptionSubscribe, []byte{}); err != nil {
			envFail("harness peer: %v", err)
		}
	}
	_ = pe.sock.SetOption(mangos.OptionSendDeadline, wdog)
	sfx := ""
	if tr == "ws" || tr == "wss" {
		sfx = "/" + hx.Uniq("p")
	}
	if macatBinds {
		pe.url = tr + "://127.0.0.1:" + freePort() + sfx
		return pe
	}
	var lo map[string]interface{}
	if hx.NeedsTLS(tr) {
		s, _ := hx.TlsConfigs()
		lo = map[string]interface{}{mangos.OptionTLSConfig: s}
	}
	l, err := pe.sock.NewListener(tr+"://127.0.0.1:0"+sfx, lo)
	if err != nil {
		envFail("harness peer %s listener: %v", tr, err)
	}
	if err := l.Listen(); err != nil {
		envFail("harness peer %s listen: %v", tr, err)
	}
	pe.url = l.Address()
	return pe
}

// dialPeerAny is dialPeer with the TLS client configuration the transport needs (the harness
// does not judge macat's certificate: that is not what C20 is about).
func (pe *peer) dialPeerAny() {
	var do map[string]interface{}
	if hx.NeedsTLS(pe.tr) {
		do = map[string]interface{}{mangos.OptionTLSConfig: &tls.Config{InsecureSkipVerify: true, MinVersion: tls.VersionTLS12}}
	}
	d, err := pe.sock.NewDialer(pe.url, do)
	if err != nil {
		envFail("%v", err)
	}
	_ = d.SetOption(mangos.OptionDialAsynch, true)
	_ = d.SetOption(mangos.OptionReconnectTime, 3*time.Millisecond)
	_ = d.SetOption(mangos.OptionMaxReconnectTime, 30*time.Millisecond)
	if err := d.Dial(); err != nil {
		envFail("%v", err)
	}
}

type multiEp struct {
	bind bool
	tr   string
	pe   *peer
}

// endpointFailed judges a macat that ended by itself in a multi run.  true = a verdict was given.
func endpointFailed(c *mon.Case, p *mproc, eps []multiEp, when string) {
	e := p.stderr()
	if p.panicked() || p.code == 0 || !(bytes.Contains(e, []byte("bind(")) || bytes.Contains(e, []byte("dial("))) {
		abnormal(c, p, when)
		return
	}
	if bytes.Contains(e, []byte("in use")) || bytes.Contains(e, []byte("refused")) || bytes.Contains(e, []byte("too many open")) {
		c.Count("unexpected_exit", 1)
		c.Inconclusive("macat could not use an address for an environmental reason: %s", p.describe())
		return
	}
	which := "?"
	for _, ep := range eps {
		verb := "dial("
		if ep.bind {
			verb = "bind("
		}
		if bytes.Contains(e, []byte(verb+ep.pe.url+")")) {
			which = verb[:4] + ":" + ep.tr
		}
	}
	var all []string
	for _, ep := range eps {
		all = append(all, map[bool]string{true: "bind ", false: "connect "}[ep.bind]+ep.pe.url)
	}
	c.Violate("multi/endpoint-failed:"+which, "a valid command line with %d endpoints (%s; every bind address free, every connect address listened on by the harness) ended with an error %s\n%s", len(eps), strings.Join(all, ", "), when, p.describe())
}

func runMulti(c *mon.Case, sp c20Spec) {
	var eps []multiEp
	groups := [][]string{{"--" + sp.Proto}}
	var epArgs [][]string // endpoint options keep their relative order (it is part of the case)
	tlsBind, tlsDial := false, false
	for _, e := range sp.Eps {
		ep := multiEp{bind: e[0] == 'b', tr: e[2:]}
		ep.pe = newPeerAny(c, sp.Proto, ep.tr, ep.bind)
		eps = append(eps, ep)
		verb := "--connect"
		if ep.bind {
			verb = "--bind"
		}
		if c.Rand.Intn(2) == 0 {
			epArgs = append(epArgs, []string{verb, ep.pe.url})
		} else {
			epArgs = append(epArgs, []string{verb + "=" + ep.pe.url})
		}
		if hx.NeedsTLS(ep.tr) {
			tlsBind = tlsBind || ep.bind
			tlsDial = tlsDial || !ep.bind
		}
	}
	if tlsBind {
		cert, key, both := macatCert()
		switch c.Rand.Intn(3) {
		case 0:
			groups = append(groups, []string{"--cert", cert}, []string{"--key", key})
		case 1:
			groups = append(groups, []string{"-E", cert}, []string{"--key=" + key})
		default:
			groups = append(groups, []string{"--cert=" + both}) // the key defaults to the certificate file
		}
	}
	if tlsDial {
		groups = append(groups, []string{[]string{"--insecure", "-k"}[c.Rand.Intn(2)]})
	}
	var data []byte
	dname := ""
	if sp.Reply {
		var da []string
		da, data, dname = dataArgs(c, sp.DLen, sp.DCls, sp.DForm)
		groups = append(groups, da, intervalArgs([]string{"40ms", "60ms", "0.05s"}[c.Rand.Intn(3)], c.Rand.Intn(nIvalForms)))
	} else {
		groups = append(groups, fmtArgs(sp.Fmt, sp.FForm))
	}
	// the endpoint options are spread over the shuffled others; their order among themselves is kept
	c.Rand.Shuffle(len(groups), func(i, j int) { groups[i], groups[j] = groups[j], groups[i] })
	var args []string
	gi := 0
	for _, ea := range epArgs {
		for gi < len(groups) && c.Rand.Intn(3) == 0 {
			args = append(args, groups[gi]...)
			gi++
		}
		args = append(args, ea...)
	}
	for ; gi < len(groups); gi++ {
		args = append(args, groups[gi]...)
	}
	c.Sig("multi|%s|%s|send=%v|%s|%s", sp.Proto, sp.Fmt, sp.Reply, strings.Join(sp.Eps, ","), lensSig(sp.Lens))
	p := startMacat(c, args)
	for _, ep := range eps {
		if ep.bind {
			ep.pe.dialPeerAny()
		}
	}
	if sp.Reply {
		for k, ep := range eps {
			b, _, st := ep.pe.recv(p, 3*time.Second)
			switch st {
			case "ok":
				if !sameBytes(c, p, b, data, dname, fmt.Sprintf("payload at endpoint %d (%s)", k+1, sp.Eps[k])) {
					return
				}
				c.Count("multi_endpoints_served", 1)
			case "gone":
				endpointFailed(c, p, eps, fmt.Sprintf("before its payload arrived at endpoint %d", k+1))
				return
			default:
				stalled(c, p, fmt.Sprintf("waiting for the payload at endpoint %d (%s)", k+1, sp.Eps[k]))
				return
			}
		}
		c.Count("multi_runs", 1)
		c.Nontrivial()
		return
	}
	var want [][]byte
	for k, ep := range eps {
		switch ep.pe.waitAttached(p) {
		case "exited":
			endpointFailed(c, p, eps, fmt.Sprintf("before endpoint %d was connected", k+1))
			return
		case "watchdog":
			stalled(c, p, fmt.Sprintf("waiting for macat's connection on endpoint %d (%s)", k+1, sp.Eps[k]))
			return
		}
		tok := []byte(fmt.Sprintf("~S%d~%08x~E", k, c.Rand.Uint32()))
		m := append(mkBody(c.Rand, sp.Lens[k], sp.Cls[k], false), tok...)
		want = append(want, m)
		if err := ep.pe.send(m); err != nil {
			stalled(c, p, "harness send: "+err.Error())
			return
		}
		suffix := tok
		if sp.Fmt == "ascii" || sp.Fmt == "quoted" {
			suffix = append(append([]byte{}, tok...), '\n')
		}
		switch p.waitOutSuffix(suffix) {
		case "ok":
			c.Count("multi_endpoints_served", 1)
		case "exited":
			printedVerdict(c, p, sp.Fmt, want, false)
			if !c.Failed() {
				endpointFailed(c, p, eps, fmt.Sprintf("before printing the message sent through endpoint %d", k+1))
			}
			return
		default:
			printedVerdict(c, p, sp.Fmt, want, false)
			if !c.Failed() {
				stalled(c, p, fmt.Sprintf("waiting for the record of the message sent through endpoint %d (%s)", k+1, sp.Eps[k]))
			}
			return
		}
	}
	p.kill()
	if !p.waitExit() {
		c.Inconclusive("macat did not die after SIGKILL")
		return
	}
	printedVerdict(c, p, sp.Fmt, want, true)
	c.Count("multi_runs", 1)
}

// ---- sendto: a send that reaches its deadline ----------------------------------------------------
//
// "sends ... the number of times requested": PUSH (macat's send-only loop on a pattern with
// back-pressure) is bound to an address nobody ever connects to, with --send-timeout and more
// messages requested (--count 130..400, or an interval without a count = endlessly) than the
// socket's send queue (128, the library default macat does not change) can absorb.  Not one
// message was handed to anyone and at most 128 could be queued, so the command cannot have sent
// the number requested: it must not end with status 0 as if it had.  The unchanged command
// ends with "send: send time out" and status 1.  (PUB never blocks: it is the control — all N
// are "sent" to nobody and status 0 is right.)  No clock is read: the verdict is the exit status.

var sendtoVals = []string{"100ms", "150ms", "0.2s", "250ms", "120000us"}

func sendtoSpecs(rnd *rand.Rand, off, n int, thorough bool) (out []c20Spec) {
	for i := 0; i < n; i++ {
		sp := c20Spec{Kind: "sendto", Proto: "push", Tr: []string{"ipc", "tcp", "ws"}[(i+off)%3], AForm: rnd.Intn(nAddrForms), FForm: rnd.Intn(2),
			Val: sendtoVals[rnd.Intn(len(sendtoVals))], N: 130 + rnd.Intn(270), IForm: rnd.Intn(nZeroForms),
			DLen: rnd.Intn(200), DCls: rnd.Intn(nBodyClasses), DForm: []int{0, 1, 2, 3, 5, 6, 7, 8}[rnd.Intn(8)]}
		if thorough && rnd.Intn(6) == 0 {
			sp.Val = "1"
		}
		if i%4 == 2 {
			sp.N = -1 // an interval and no count: endlessly
		}
		if i%7 == 6 {
			sp.Proto = "pub" // control: never blocks, all N are sent (to nobody), status 0
			if sp.N < 0 {
				sp.N = 130 + rnd.Intn(270)
			}
		}
		out = append(out, sp)
	}
	return
}

func runSendto(c *mon.Case, sp c20Spec) {
	var addr []string
	if sp.Tr == "ws" {
		addr = []string{"--bind", "ws://127.0.0.1:" + freePort() + "/" + hx.Uniq("p")}
	} else {
		pe := newPeer(c, sp.Proto, sp.Tr, true) // the harness socket is never connected
		addr = addrArgs(pe, true, sp.AForm)
	}
	da, data, dname := dataArgs(c, sp.DLen, sp.DCls, sp.DForm)
	to := []string{"--send-timeout", sp.Val}
	if sp.FForm == 1 {
		to = []string{"--send-timeout=" + sp.Val}
	}
	groups := [][]string{{"--" + sp.Proto}, addr, da, to, zeroInterval(sp.IForm)}
	if sp.N >= 0 {
		groups = append(groups, []string{"--count", fmt.Sprint(sp.N)})
	}
	p := startMacat(c, shuffled(c.Rand, groups))
	c.Sig("sendto|%s|%s|n=%d|%s|i%d|%s|%s", sp.Proto, sp.Tr, sp.N, sp.Val, sp.IForm, dname, lenClass(len(data)))
	if !p.waitExit() {
		stalled(c, p, "waiting for the send timeout to end macat")
		return
	}
	if p.panicked() {
		abnormal(c, p, "instead of timing out")
		return
	}
	e := p.stderr()
	if sp.Proto == "pub" {
		if sp.N < 0 {
			// endless and never blocking: cannot end by itself
			abnormal(c, p, "although an endless PUB loop has no reason to end")
			return
		}
		if p.code != 0 {
			abnormal(c, p, "instead of publishing to nobody")
			return
		}
		c.Count("sendto_pub_controls", 1)
		c.Nontrivial()
		return
	}
	if p.code != 0 && !bytes.Contains(e, []byte("send")) {
		// ended for another reason (address taken, ...): says nothing about the send
		c.Count("unexpected_exit", 1)
		c.Inconclusive("macat ended for another reason than a failed send: %s", p.describe())
		return
	}
	c.Count("send_deadlines_reached", 1)
	c.Nontrivial()
	asked := fmt.Sprintf("--count %d", sp.N)
	if sp.N < 0 {
		asked = "an endless send loop"
	}
	if p.code == 0 {
		c.Violate("sendto/exit-0-short:"+sp.Proto, "%s with --send-timeout %s on a %s socket nobody ever connected to (send queue 128): no message was handed over, at most 128 were queued, yet macat ended with status 0\n%s", asked, sp.Val, sp.Proto, p.describe())
		return
	}
	if len(bytes.TrimSpace(e)) == 0 {
		c.Violate("sendto/no-error-message:"+sp.Proto, "exit status %d but nothing on stderr\n%s", p.code, p.describe())
	}
	if n := p.outLen(); n != 0 {
		c.Violate("sendto/printed:"+sp.Proto, "%d bytes on stdout of a send-only command: %q\n%s", n, trunc(p.stdout(), 100), p.describe())
	}
}
