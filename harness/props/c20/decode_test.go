package c20

import (
	"bytes"
	"fmt"
)

// Independent decoders for macat's four output formats.  Nothing here is
// shared with (or derived from) macat's printMsg: each decoder is written from
// the property statement —
//
//	raw     bytes unchanged, records simply concatenated
//	ascii   one line per message; a printable ASCII byte is itself, a
//	        non-printable byte is a dot (for bytes >= 0x80 "printable" is not
//	        fixed by the statement: a dot or the byte itself are both accepted)
//	quoted  one line per message; escapes \n \r \\ \" \xHH decode back to the body
//	msgpack bin8/bin16/bin32 objects back to back; length field and payload
//	        equal the message

// lenClass names the msgpack length class of a body length (used in signatures
// so that they are stable across seeds).
func lenClass(n int) string {
	for _, b := range lenBoundary {
		if n == b {
			return fmt.Sprintf("len=%d", n)
		}
	}
	switch {
	case n < 256:
		return "len<256"
	case n < 65536:
		return "len<65536"
	case n == 1<<20:
		return "len=1MiB"
	case n > 1<<20:
		return "len>1MiB"
	}
	return "len>=65536"
}

// splitLines cuts newline-terminated records; rest is what follows the last newline.
func splitLines(out []byte) (lines [][]byte, rest []byte) {
	for {
		i := bytes.IndexByte(out, '\n')
		if i < 0 {
			return lines, out
		}
		lines = append(lines, out[:i])
		out = out[i+1:]
	}
}

// asciiCheck reports how line fails to be the ascii rendering of body ("" if it is one).
func asciiCheck(line, body []byte) (sig, detail string) {
	if len(line) != len(body) {
		return "length:" + lenClass(len(body)), fmt.Sprintf("record has %d bytes, message has %d", len(line), len(body))
	}
	for i, b := range body {
		o := line[i]
		ok := false
		switch {
		case b >= 0x20 && b <= 0x7e:
			ok = o == b
		case b < 0x20 || b == 0x7f:
			ok = o == '.'
		default:
			ok = o == '.' || o == b
		}
		if !ok {
			return fmt.Sprintf("byte:in=0x%02x,out=0x%02x", b, o), fmt.Sprintf("offset %d: message byte 0x%02x printed as 0x%02x", i, b, o)
		}
	}
	return "", ""
}

func hexVal(c byte) int {
	switch {
	case c >= '0' && c <= '9':
		return int(c - '0')
	case c >= 'a' && c <= 'f':
		return int(c-'a') + 10
	case c >= 'A' && c <= 'F':
		return int(c-'A') + 10
	}
	return -1
}

// unquote decodes one quoted record.  A bare double quote or an unknown /
// truncated escape makes the record undecodable.
func unquote(line []byte) (body []byte, sig, detail string) {
	body = make([]byte, 0, len(line))
	for i := 0; i < len(line); i++ {
		ch := line[i]
		if ch == '"' {
			return nil, "bare-quote", fmt.Sprintf("offset %d: unescaped double quote", i)
		}
		if ch != '\\' {
			body = append(body, ch)
			continue
		}
		i++
		if i >= len(line) {
			return nil, "dangling-backslash", "record ends in a backslash"
		}
		switch line[i] {
		case 'n':
			body = append(body, '\n')
		case 'r':
			body = append(body, '\r')
		case '\\':
			body = append(body, '\\')
		case '"':
			body = append(body, '"')
		case 'x':
			if i+2 >= len(line) || hexVal(line[i+1]) < 0 || hexVal(line[i+2]) < 0 {
				return nil, "bad-hex-escape", fmt.Sprintf("offset %d: \\x not followed by two hex digits", i-1)
			}
			body = append(body, byte(hexVal(line[i+1])<<4|hexVal(line[i+2])))
			i += 2
		default:
			return nil, fmt.Sprintf("unknown-escape:0x%02x", line[i]), fmt.Sprintf("offset %d: escape \\%c", i-1, line[i])
		}
	}
	return body, "", ""
}

type mpRec struct {
	Class    int // 8, 16, 32
	Declared int
	Payload  []byte
}

// parseMsgpack reads bin objects back to back.  partial is true when the input
// ends inside an object (header or payload cut short); bad describes a byte that
// cannot start a bin object.
func parseMsgpack(out []byte) (recs []mpRec, partial bool, badSig, badDetail string) {
	off := 0
	for off < len(out) {
		var hl, cl int
		switch out[off] {
		case 0xc4:
			hl, cl = 2, 8
		case 0xc5:
			hl, cl = 3, 16
		case 0xc6:
			hl, cl = 5, 32
		default:
			return recs, false, fmt.Sprintf("bad-type-byte:0x%02x", out[off]), fmt.Sprintf("offset %d: byte 0x%02x does not start a bin8/16/32 object (after %d complete objects)", off, out[off], len(recs))
		}
		if off+hl > len(out) {
			return recs, true, "", ""
		}
		n := 0
		for _, b := range out[off+1 : off+hl] {
			n = n<<8 | int(b)
		}
		if off+hl+n > len(out) {
			return recs, true, "", ""
		}
		recs = append(recs, mpRec{Class: cl, Declared: n, Payload: out[off+hl : off+hl+n]})
		off += hl + n
	}
	return recs, false, "", ""
}

// firstDiff describes where two byte strings first differ.
func firstDiff(got, want []byte) (sig, detail string) {
	n := len(got)
	if len(want) < n {
		n = len(want)
	}
	for i := 0; i < n; i++ {
		if got[i] != want[i] {
			return fmt.Sprintf("byte:in=0x%02x,out=0x%02x", want[i], got[i]),
				fmt.Sprintf("offset %d of %d: message byte 0x%02x came out as 0x%02x (message …%x… output …%x…)", i, len(want), want[i], got[i], clip(want, i), clip(got, i))
		}
	}
	if len(got) != len(want) {
		return "length:" + lenClass(len(want)), fmt.Sprintf("decoded %d bytes, message has %d (common prefix equal)", len(got), len(want))
	}
	return "", ""
}

func clip(b []byte, i int) []byte {
	lo, hi := i-6, i+7
	if lo < 0 {
		lo = 0
	}
	if hi > len(b) {
		hi = len(b)
	}
	return b[lo:hi]
}

// printVerdict is the outcome of comparing stdout with the expected bodies.
type printVerdict struct {
	Sig      string // "" = faithful
	Detail   string
	Compared int // complete records compared equal
	Bytes    int // message bytes compared equal
	NonMin   int // msgpack objects in a larger class than needed (legal, counted)
}

// checkPrinted decides whether out is the rendering, in format f, of exactly
// the bodies in want, in order, one record each.  With complete=false out may
// stop anywhere (the process was stopped early): only complete records are
// judged and missing ones are not an error.
func checkPrinted(f string, out []byte, want [][]byte, complete bool) printVerdict {
	var v printVerdict
	fail := func(sig, format string, a ...interface{}) printVerdict {
		v.Sig, v.Detail = "print/"+f+"/"+sig, fmt.Sprintf(format, a...)
		return v
	}
	switch f {
	case "raw":
		off := 0
		for i, w := range want {
			if off+len(w) > len(out) {
				// out ends inside (or before) message i
				if s, d := firstDiff(out[off:], w[:len(out)-off]); s != "" {
					return fail(s, "message %d: %s", i, d)
				}
				if complete {
					return fail("short:"+lenClass(len(w)), "output ends %d bytes into message %d of %d (%d bytes long)", len(out)-off, i, len(want), len(w))
				}
				return v
			}
			if s, d := firstDiff(out[off:off+len(w)], w); s != "" {
				return fail(s, "message %d: %s", i, d)
			}
			off += len(w)
			v.Compared++
			v.Bytes += len(w)
		}
		if off != len(out) {
			return fail("extra-output", "%d bytes after the last message: %x…", len(out)-off, clip(out, off+6))
		}
		return v
	case "ascii", "quoted":
		lines, rest := splitLines(out)
		if len(lines) > len(want) {
			return fail("extra-record", "%d records for %d messages; record %d = %q", len(lines), len(want), len(want), trunc(lines[len(want)], 80))
		}
		for i, ln := range lines {
			if f == "ascii" {
				if s, d := asciiCheck(ln, want[i]); s != "" {
					return fail(s, "message %d: %s", i, d)
				}
			} else {
				dec, s, d := unquote(ln)
				if s != "" {
					return fail("undecodable:"+s, "message %d (%d bytes): %s; record %q", i, len(want[i]), d, trunc(ln, 120))
				}
				if s, d := firstDiff(dec, want[i]); s != "" {
					return fail(s, "message %d: %s; record %q", i, d, trunc(ln, 120))
				}
			}
			v.Compared++
			v.Bytes += len(want[i])
		}
		if complete {
			if len(rest) != 0 {
				return fail("unterminated-record", "output ends with %d bytes not followed by a newline: %q", len(rest), trunc(rest, 80))
			}
			if len(lines) != len(want) {
				return fail("missing-record", "%d records for %d messages", len(lines), len(want))
			}
		}
		return v
	case "msgpack":
		recs, partial, bs, bd := parseMsgpack(out)
		for i, r := range recs {
			if i >= len(want) {
				return fail("extra-record", "%d objects for %d messages", len(recs), len(want))
			}
			if r.Declared != len(want[i]) {
				return fail(fmt.Sprintf("length-field:bin%d,%s", r.Class, lenClass(len(want[i]))), "message %d has %d bytes, bin%d length field says %d", i, len(want[i]), r.Class, r.Declared)
			}
			if s, d := firstDiff(r.Payload, want[i]); s != "" {
				return fail(s, "message %d: %s", i, d)
			}
			if (r.Class == 16 && r.Declared < 256) || (r.Class == 32 && r.Declared < 65536) {
				v.NonMin++
			}
			v.Compared++
			v.Bytes += len(want[i])
		}
		if bs != "" {
			w := -1
			if len(recs) < len(want) {
				w = len(want[len(recs)])
			}
			return fail(bs, "%s (next message has %d bytes)", bd, w)
		}
		if complete {
			if partial {
				return fail("truncated-object", "output ends inside object %d", len(recs))
			}
			if len(recs) != len(want) {
				return fail("missing-record", "%d objects for %d messages", len(recs), len(want))
			}
		}
		return v
	}
	return fail("unknown-format", "harness: format %q", f)
}

func trunc(b []byte, n int) []byte {
	if len(b) > n {
		return b[:n]
	}
	return b
}
