//go:build verif

package c17

import (
	"time"

	"go.nanomsg.org/mangos/v3"

	"verifharness/hx"
	"verifharness/mon"
	"verifharness/vt"
)

// cancelsend: a SendMsg with no deadline is parked (no peer, or every peer busy), and a second
// goroutine does something else on the same socket / context that may end the wait: a RecvMsg that
// runs into its receive deadline, another SendMsg that runs into its send deadline, option changes,
// the peer going away, the context closing, the socket closing.  However the parked send ends, a
// failure leaves the message with the caller (reference count 1, body and header as handed in) and
// the ledger sees no second release when the caller frees it.

var cancelDisturbances = []string{"recv-deadline", "send-again", "options", "peer-drop", "ctx-close", "sock-close"}

type sendRecver interface {
	SendMsg(*mangos.Message) error
	RecvMsg() (*mangos.Message, error)
	SetOption(string, interface{}) error
}

func errName3(err error) string {
	switch err {
	case nil:
		return "accepted"
	case mangos.ErrCanceled:
		return "canceled"
	case mangos.ErrRecvTimeout:
		return "recvtimeout"
	case mangos.ErrBadHeader:
		return "badheader"
	}
	return errName(err)
}

// settledSend waits until the call has returned or its goroutine is parked inside SendMsg waiting
// for something other than a mutex (a goroutine woken by a broadcast re-acquires the lock first).
func settledSend(k *mon.Call) (parked bool) {
	mon.Await(func() bool {
		if k.Done() {
			return true
		}
		for _, g := range mon.Dump() {
			if g.ID == k.GID {
				if g.Parked() && g.HasFrame("SendMsg") && !g.HasFrame("Mutex).Lock") && !g.HasFrame("Mutex).lockSlow") {
					parked = true
					return true
				}
				return false
			}
		}
		return false
	}, mon.AwaitOpts{Watchdog: 5 * time.Second})
	return parked && !k.Done()
}

func runCancelSend(c *mon.Case, sp spec) {
	p := sp.Pat
	nparked, nended := 0, 0
	for i, dist := range cancelDisturbances {
		if sp.N&(1<<uint(i)) == 0 {
			continue
		}
		if dist == "peer-drop" && sp.Tran != "busy" {
			continue
		}
		if c.Failed() {
			return
		}
		pk, en := cancelSendOnce(c, p, sp.Tran, dist)
		nparked += pk
		nended += en
	}
	c.Count("cancelsend_parked_sends_disturbed", nparked)
	c.Count("cancelsend_parked_sends_ended_by_disturbance", nended)
	if nparked > 0 {
		c.Nontrivial()
	}
}

func cancelSendOnce(c *mon.Case, p, mode, dist string) (nparked, nended int) {
	s, err := hx.SockCtors[p]()
	if err != nil {
		c.Inconclusive("setup: %v", err)
		return
	}
	closed := false
	defer func() {
		if !closed {
			s.Close()
		}
	}()
	s.SetOption(mangos.OptionRetryTime, time.Duration(0))
	s.SetOption(mangos.OptionWriteQLen, 1)
	s.SetOption(mangos.OptionSendDeadline, time.Duration(0))
	name := hx.Uniq("c17cs")
	L := vt.L(name)
	defer vt.Forget(name)
	if err := s.Listen(vt.Addr(name)); err != nil {
		c.Inconclusive("setup: %v", err)
		return
	}
	w := hx.WatchPipes(s)
	var vp *vt.Pipe
	if mode == "busy" {
		vp = L.Connect()
		if !hx.WaitAttached(c, w, 1, "vt peer") {
			return
		}
		vp.HoldSends()
	}
	hdr := func(m *mangos.Message) {
		switch p {
		case "xpair1", "xstar":
			m.Header = append(m.Header, 0, 0, 0, 0)
		case "xreq", "xsurveyor":
			m.Header = append(m.Header, 0x80, 0, 0, 9)
		case "xrep", "xrespondent":
			var id uint32
			if ps := w.Pipes(); len(ps) > 0 {
				id = ps[len(ps)-1].ID()
			}
			m.Header = append(m.Header, byte(id>>24), byte(id>>16), byte(id>>8), byte(id), 0x80, 0, 0, 9)
		}
	}
	// the target of the parked send and of the disturbance: the socket, or a context of its own
	var tgt sendRecver = s
	var ctx mangos.Context
	if c.Rand.Intn(3) > 0 || dist == "ctx-close" {
		if x, e := s.OpenContext(); e == nil {
			ctx = x
			tgt = x
			ctx.SetOption(mangos.OptionSendDeadline, time.Duration(0))
			ctx.SetOption(mangos.OptionRetryTime, time.Duration(0))
		}
	}
	where := p + "/" + mode + "/" + dist
	type snd struct {
		k    *mon.Call
		m    *mangos.Message
		b, h []byte
	}
	launch := func(t sendRecver, id int) snd {
		b := body(uint32(id), sizeFor(c.Rand, id))
		m := mangos.NewMessage(len(b))
		m.Body = append(m.Body, b...)
		hdr(m)
		h := append([]byte{}, m.Header...)
		return snd{mon.Go("SendMsg", func() (interface{}, error) { return nil, t.SendMsg(m) }), m, b, h}
	}
	finish := func(q snd, tag string) {
		_, err, _ := q.k.Result()
		c.Count("cancelsend_"+tag+":"+errName3(err), 1)
		if err == nil {
			return
		}
		if rc := mangos.VerifRefcnt(q.m); rc != 1 {
			c.Violate("owner/failed-send-not-returned:"+errName3(err)+"/"+tag, "%s: a parked SendMsg failed with %v but the message's reference count is %d (on failure the message stays with the caller)", where, err, rc)
		} else if string(q.m.Body) != string(q.b) {
			c.Violate("owner/failed-send-body-changed:"+errName3(err)+"/"+tag, "%s: a parked SendMsg failed with %v and the body came back altered: %x... want %x...", where, err, head(q.m.Body), head(q.b))
		}
		c.Count("failed_sends_checked", 1)
		q.m.Free()
	}
	// fillers until one send parks: that one is the subject.  Fillers go through contexts of their
	// own where the protocol has them (a second send on one REQ context replaces the first).
	var subj snd
	var fillers []snd
	got := false
	for i := 0; i < 6 && !got; i++ {
		t := tgt
		if i < 5 && mode == "busy" {
			// the last attempt and every no-peer attempt is on the target itself
			t = s
			if x, e := s.OpenContext(); e == nil {
				x.SetOption(mangos.OptionSendDeadline, time.Duration(0))
				t = x
			}
			if i%2 == 1 {
				t = tgt
			}
		}
		q := launch(t, 9700+i)
		if settledSend(q.k) {
			if t == tgt {
				subj, got = q, true
			} else {
				fillers = append(fillers, q)
			}
			continue
		}
		if !q.k.Done() {
			c.Inconclusive("%s: SendMsg neither parked nor returned", where)
			return
		}
		finish(q, "unparked")
		if mode != "busy" {
			break // does not block without a peer
		}
	}
	if !got {
		s.Close()
		closed = true
		for _, q := range fillers {
			if c.AwaitOrViolate("owner/send-stuck:"+p+"/cancel-closed", where+": SendMsg parked at Close returning", q.k.Done, mon.AwaitOpts{MaxTimer: 10 * time.Millisecond}) {
				finish(q, "filler-closed")
			}
		}
		return
	}
	nparked = 1
	// the disturbance, from this (second) goroutine
	const dl = 5 * time.Millisecond
	switch dist {
	case "recv-deadline":
		tgt.SetOption(mangos.OptionRecvDeadline, dl)
		r := mon.Go("RecvMsg", func() (interface{}, error) {
			m, e := tgt.RecvMsg()
			if m != nil {
				m.Free()
			}
			return nil, e
		})
		if !c.AwaitOrViolate("owner/recv-stuck:"+p+"/cancel", where+": RecvMsg with a deadline returning", r.Done, mon.AwaitOpts{MaxTimer: dl}) {
			return
		}
		_, e, _ := r.Result()
		c.Count("cancelsend_recv:"+errName3(e), 1)
	case "send-again":
		tgt.SetOption(mangos.OptionSendDeadline, dl)
		q := launch(tgt, 9800)
		if !c.AwaitOrViolate("owner/send-stuck:"+p+"/cancel-second", where+": second SendMsg with a deadline returning", q.k.Done, mon.AwaitOpts{MaxTimer: dl}) {
			return
		}
		finish(q, "second")
	case "options":
		for _, o := range []struct {
			n string
			v interface{}
		}{{mangos.OptionSendDeadline, dl}, {mangos.OptionRecvDeadline, dl}, {mangos.OptionWriteQLen, 2}, {mangos.OptionReadQLen, 2},
			{mangos.OptionRetryTime, time.Hour}, {mangos.OptionBestEffort, true}, {mangos.OptionBestEffort, false}, {mangos.OptionFailNoPeers, true}} {
			tgt.SetOption(o.n, o.v)
			s.SetOption(o.n, o.v)
		}
	case "peer-drop":
		s.SetOption(mangos.OptionFailNoPeers, c.Rand.Intn(2) == 0)
		vp.Drop()
		hx.WaitDetached(c, w, 1, "dropped vt peer")
	case "ctx-close":
		if ctx != nil {
			ctx.Close()
		}
	case "sock-close":
		s.Close()
		closed = true
	}
	if !settledSend(subj.k) && subj.k.Done() {
		nended = 1
		finish(subj, dist)
		subj.m = nil
	}
	if !closed {
		s.Close()
		closed = true
	}
	if subj.m != nil {
		if c.AwaitOrViolate("owner/send-stuck:"+p+"/cancel-closed", where+": SendMsg parked at Close returning", subj.k.Done, mon.AwaitOpts{MaxTimer: 10 * time.Millisecond}) {
			finish(subj, "closed-after-"+dist)
		}
	}
	for _, q := range fillers {
		if c.AwaitOrViolate("owner/send-stuck:"+p+"/cancel-closed", where+": SendMsg parked at Close returning", q.k.Done, mon.AwaitOpts{MaxTimer: 10 * time.Millisecond}) {
			finish(q, "filler-closed")
		}
	}
	return
}
