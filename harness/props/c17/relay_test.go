//go:build verif

package c17

import (
	"bytes"
	"fmt"
	"sync"
	"time"

	"go.nanomsg.org/mangos/v3"

	"verifharness/hx"
	"verifharness/mon"
	"verifharness/vt"
)

// runRelay: a socket that hands a message to its application AND passes the same message on to
// other peers (the hub of a star: STAR and raw STAR relay everything they receive to every peer
// but the one it came from).  The application's copy is the application's: it uses it as scratch
// space — writes over body and header, up to the full capacity of both — or frees it at once, or
// holds it across later traffic, while the copies that are being relayed are still waiting behind
// peers that are slow to take them.  What those peers are eventually handed must be what came in.
//
// Tran "vt": the harness is every peer; a random subset of them holds its sends (slow peers), so
// the harness knows exactly how many relayed copies are still untransmitted when the application
// writes into its message.  Other transports: real STAR leaves; the slow ones have a tiny receive
// queue and do not receive until the hub's application is done with its messages, so the relayed
// copies back up in the transport and in the hub's send queues (stream transports get message
// volume for that).
//
// Demanded: a message RecvMsg returned is held by nobody else (reference count 1) at the moment it
// is handed out, and unchanged when re-verified later; every relayed copy a peer gets is, byte
// for byte, a message that was fed in (with its hop count one up for the raw view of it), each at
// most once per peer.  Whether a copy is relayed at all is not this property's subject beyond the
// lossless configuration used (bursts stay below every queue length).

type relayApp struct {
	c   *mon.Case
	k   *keeper
	pat string
	// evidence
	scratched, freedAtOnce, heldClean int
}

// classOf names how a wrong copy is wrong: the application's scribbling (0xEE), the ledger's
// poison (0xDB: a released buffer), or other content.
func classOf(b []byte) string {
	switch {
	case bytes.Contains(b, bytes.Repeat([]byte{0xEE}, 4)):
		return "app-writes"
	case bytes.Contains(b, bytes.Repeat([]byte{0xDB}, 8)):
		return "poison"
	}
	return "content"
}

// got is the hub application being handed m by RecvMsg (want: the body that was fed in).
func (a *relayApp) got(who string, m *mangos.Message, want []byte) {
	c := a.c
	if rc := mangos.VerifRefcnt(m); rc != 1 {
		c.Violate("owner/received-message-shared@relay:"+a.pat, "%s: RecvMsg returned a message with reference count %d while copies of it are being relayed to other peers (the application must be its only owner; the relay still reads it)", who, rc)
	}
	switch mode := c.Rand.Intn(3); mode {
	case 0:
		// held untouched across the traffic that follows, then re-verified, scribbled over and freed
		a.k.take(who, m, want)
		a.heldClean++
	default:
		if !bytes.Equal(m.Body, want) {
			c.Violate("owner/received-body-wrong:"+classOf(m.Body)+"@relay", "%s received a body that differs from what was fed in: got %d bytes %x..., want %d bytes %x...", who, len(m.Body), head(m.Body), len(want), head(want))
		}
		// scratch space: the message is the application's, all of it
		b, h := m.Body, m.Header
		if c.Rand.Intn(2) == 0 {
			b, h = b[:cap(b)], h[:cap(h)]
		}
		for i := range b {
			b[i] = 0xEE
		}
		for i := range h {
			h[i] = 0xEE
		}
		a.scratched++
		if mode == 1 {
			m.Free()
			a.freedAtOnce++
			return
		}
		// kept, as scribbled: nobody else may write into it either
		a.k.take(who+" (used as scratch space)", m, nil)
	}
}

type relayed struct {
	src  int
	hops byte
	b    []byte
}

func runRelay(c *mon.Case, sp spec) {
	if sp.Tran == "vt" {
		runRelayVT(c, sp)
	} else {
		runRelayReal(c, sp)
	}
}

// hubRecv: one RecvMsg of the hub's application, decided by the stuck detector.
func hubRecv(c *mon.Case, hub mangos.Socket, pat, what string) (*mangos.Message, bool) {
	call := mon.Go("RecvMsg", func() (interface{}, error) { m, e := hub.RecvMsg(); return m, e })
	if !c.AwaitOrViolate("owner/relay-stuck:"+pat+"/hub-recv", what, call.Done, mon.AwaitOpts{MaxTimer: 10 * time.Millisecond}) {
		return nil, false
	}
	v, err, _ := call.Result()
	if err != nil {
		c.Violate("harness:recv-error", "%s: RecvMsg: %v", what, err)
		return nil, false
	}
	return v.(*mangos.Message), true
}

func runRelayVT(c *mon.Case, sp spec) {
	pat := sp.Pat
	hub := hx.MustSock(c, pat)
	wq := []int{2, 4, 8, 16, 128}[c.Rand.Intn(5)]
	if err := hub.SetOption(mangos.OptionWriteQLen, wq); err != nil {
		c.Inconclusive("setup: %s WriteQLen=%d: %v", pat, wq, err)
		return
	}
	ttl := 8
	if c.Rand.Intn(2) == 0 {
		ttl = 1 + c.Rand.Intn(12)
		if err := hub.SetOption(mangos.OptionTTL, ttl); err != nil {
			c.Inconclusive("setup: %s TTL=%d: %v", pat, ttl, err)
			return
		}
	}
	name := hx.Uniq("c17rl")
	L := vt.L(name)
	c.Cleanup(func() { vt.Forget(name) })
	if err := hub.Listen(vt.Addr(name)); err != nil {
		c.Inconclusive("setup: %v", err)
		return
	}
	w := hx.WatchPipes(hub)
	npeers := 2 + c.Rand.Intn(3)
	var peers []*vt.Pipe
	for i := 0; i < npeers; i++ {
		peers = append(peers, L.Connect())
	}
	if !hx.WaitAttached(c, w, npeers, "vt peers") {
		return
	}
	app := &relayApp{c: c, k: &keeper{c: c, tag: "@relay"}, pat: pat}
	fed := map[uint32]relayed{}
	due := make([]int, npeers)  // relayed copies each peer must have been handed so far
	seen := make([]int, npeers) // ... and how many of its log were verified
	had := make([]map[uint32]bool, npeers)
	for i := range had {
		had[i] = map[uint32]bool{}
	}
	id := uint32(0)
	pendingAtWrite, copies, received := 0, 0, 0
	for round := 0; round < sp.N && !c.Failed(); round++ {
		// slow peers: a non-empty random subset
		slow := make([]bool, npeers)
		ns := 0
		for i := range slow {
			if c.Rand.Intn(2) == 0 {
				slow[i], ns = true, ns+1
			}
		}
		if ns == 0 {
			slow[c.Rand.Intn(npeers)], ns = true, 1
		}
		s0 := c.Rand.Intn(npeers) // a slow peer that is certain to have a copy waiting: the first message comes from someone else
		for !slow[s0] {
			s0 = (s0 + 1) % npeers
		}
		for i, s := range slow {
			if s {
				peers[i].HoldSends()
			}
		}
		// a burst below every queue length, from random peers
		burst := 1 + c.Rand.Intn(6)
		if burst > wq {
			burst = wq
		}
		for i := 0; i < burst; i++ {
			id++
			src := c.Rand.Intn(npeers)
			if i == 0 {
				src = (s0 + 1 + c.Rand.Intn(npeers-1)) % npeers
			}
			hops := byte(c.Rand.Intn(ttl))
			b := body(id, sizeFor(c.Rand, int(id)))
			fed[id] = relayed{src, hops, b}
			peers[src].Inject(hx.Cat([]byte{0, 0, 0, hops}, b))
			for j := range peers {
				if j != src {
					due[j]++
					if slow[j] {
						pendingAtWrite++ // (a held peer has transmitted nothing by the time the application has the message)
					}
				}
			}
		}
		// the application takes them and does as it pleases with them
		for i := 0; i < burst; i++ {
			m, ok := hubRecv(c, hub, pat, fmt.Sprintf("%s hub application receiving message %d of %d fed in by its peers (round %d)", pat, i+1, burst, round))
			if !ok {
				return
			}
			received++
			var want []byte
			if mid, _, ok := idOf(m.Body); ok {
				want = fed[mid].b
			}
			if want == nil {
				want = []byte("<not a message that was fed in>")
			}
			app.got(fmt.Sprintf("%s hub application (%d peers, %d slow)", pat, npeers, ns), m, want)
		}
		// the slow peers take delivery
		for i, s := range slow {
			if s {
				peers[i].ReleaseSends()
			}
		}
		if !c.AwaitOrViolate("owner/relay-stuck:"+pat+"/relay", pat+": the relayed copies reaching every other peer once the slow peers take delivery", func() bool {
			for j, p := range peers {
				if p.SentCount() < due[j] {
					return false
				}
			}
			return true
		}, mon.AwaitOpts{MaxTimer: 10 * time.Millisecond}) {
			return
		}
		for j, p := range peers {
			for _, s := range p.SentFrom(seen[j]) {
				seen[j]++
				mid, sz, ok := idOf(s.Body)
				e, known := fed[mid]
				if !ok || !known || sz != len(s.Body) || !bytes.Equal(s.Body, e.b) {
					c.Violate("owner/relayed-copy-wrong:"+classOf(s.Body)+":"+pat, "%s: peer %d was handed a relayed body that is not one that was fed in (%s): %d bytes %x... header %x; the hub's application had received the message and written into its own copy while this one was queued behind the slow peer", pat, j, classOf(s.Body), len(s.Body), head(s.Body), s.Header)
					continue
				}
				if wantH := []byte{0, 0, 0, e.hops + 1}; !bytes.Equal(s.Header, wantH) {
					c.Violate("owner/relayed-header-wrong:"+classOf(s.Header)+":"+pat, "%s: peer %d was handed message %d with header %x, it came in with hop count %d so %x is due (the hub's application wrote into the header of its own copy meanwhile)", pat, j, mid, s.Header, e.hops, wantH)
				}
				if had[j][mid] {
					c.Violate("owner/relayed-copy-repeated:"+pat, "%s: peer %d was handed message %d twice", pat, j, mid)
				}
				had[j][mid] = true
				copies++
			}
		}
	}
	app.k.flush()
	relayCounts(c, app, received, copies)
	c.Count("relay_copies_untransmitted_when_the_application_got_its_message", pendingAtWrite)
	if received == 0 || copies == 0 || pendingAtWrite == 0 {
		c.Inconclusive("%s: nothing was relayed behind a slow peer", pat)
		return
	}
	c.Nontrivial()
}

func relayCounts(c *mon.Case, app *relayApp, received, copies int) {
	c.Count("relay_messages_received_by_the_hub_application", received)
	c.Count("relay_messages_used_as_scratch_space", app.scratched)
	c.Count("relay_messages_freed_at_once", app.freedAtOnce)
	c.Count("relay_messages_held_untouched", app.heldClean)
	c.Count("relay_copies_verified_at_the_other_peers", copies)
	c.Count("messages_received", received)
}

func runRelayReal(c *mon.Case, sp spec) {
	pat, tr := sp.Pat, sp.Tran
	stream := tr != "inproc"
	hub := hx.MustSock(c, pat)
	wq := []int{8, 16, 128}[c.Rand.Intn(3)]
	if err := hub.SetOption(mangos.OptionWriteQLen, wq); err != nil {
		c.Inconclusive("setup: %s WriteQLen=%d: %v", pat, wq, err)
		return
	}
	src := hx.MustSock(c, "star")
	nslow := 1 + c.Rand.Intn(2)
	var slow []mangos.Socket
	for i := 0; i < nslow; i++ {
		s := hx.MustSock(c, []string{"star", "xstar"}[c.Rand.Intn(2)])
		s.SetOption(mangos.OptionReadQLen, c.Rand.Intn(2))
		slow = append(slow, s)
	}
	for _, s := range append([]mangos.Socket{hub, src}, slow...) {
		if err := s.SetOption(mangos.OptionMaxRecvSize, 0); err != nil { // (the volume message is above the default limit)
			c.Inconclusive("setup: MaxRecvSize: %v", err)
			return
		}
	}
	if !connectAll(c, tr, hub, append([]mangos.Socket{src}, slow...)...) {
		return
	}
	app := &relayApp{c: c, k: &keeper{c: c, tag: "@relay"}, pat: pat}
	id := uint32(0)
	received, copies, backedUp := 0, 0, 0
	const fat = 5 << 20
	for round := 0; round < sp.N && !c.Failed(); round++ {
		n := 3 + c.Rand.Intn(6) // (below every queue length)
		first := id + 1
		for i := 0; i < n; i++ {
			id++
			sz := sizeFor(c.Rand, int(id))
			if stream && i == 2 {
				// (volume: the slow leaves' readers hold the first one or two messages; this one is more than the
				// connection buffers take, so the write of it parks in the transport and the rest waits in the hub)
				sz = fat + c.Rand.Intn(fat/4)
			}
			if err := sendMsg(c, "source leaf", src, body(id, sz)); err != nil {
				c.Violate("harness:send-error", "source leaf SendMsg: %v", err)
				return
			}
		}
		for i := 0; i < n; i++ {
			m, ok := hubRecv(c, hub, pat, fmt.Sprintf("%s hub application receiving message %d of %d sent by a leaf (round %d, %s)", pat, i+1, n, round, tr))
			if !ok {
				return
			}
			received++
			if i == n-1 {
				backedUp += len(stalledWrites()) // writes towards the leaves that do not receive, parked in the transport
			}
			app.got(fmt.Sprintf("%s hub application (%s, %d slow leaves)", pat, tr, nslow), m, body(first+uint32(i), sizeOf(m.Body)))
		}
		// now the slow leaves receive
		var wg sync.WaitGroup
		var mu sync.Mutex
		for li, s := range slow {
			li, s := li, s
			wg.Add(1)
			go func() {
				defer wg.Done()
				for i := 0; i < n; i++ {
					m, err := s.RecvMsg()
					if err != nil {
						if !c.Failed() {
							c.Violate("harness:recv-error", "slow leaf %d: RecvMsg returned %v after %d of %d messages", li, err, i, n)
						}
						return
					}
					want := body(first+uint32(i), sizeOf(m.Body))
					if mid, sz, ok := idOf(m.Body); ok && mid > first+uint32(i) && mid < first+uint32(n) && sz == len(m.Body) && bytes.Equal(m.Body, body(mid, sz)) {
						// intact, but a later one of the round (FIFO per connection): the ones before it are gone
						c.Violate("owner/relayed-copy-missing:"+pat, "%s over %s: leaf %d received relayed message %d of the round where message %d was due (%d messages, below every queue length; the connection is in order): the copies in between, which were waiting for the leaf while the hub's application wrote into the messages it had been handed, never arrived", pat, tr, li, int(mid-first)+1, i+1, n)
						i = int(mid - first)
					} else if !bytes.Equal(m.Body, want) {
						c.Violate("owner/relayed-copy-wrong:"+classOf(m.Body)+":"+pat, "%s over %s: leaf %d received relayed message %d of the round as %d bytes %x..., what the source leaf sent is %x...; the hub's application had received the message and written into its own copy while this one was waiting for the leaf to receive", pat, tr, li, i+1, len(m.Body), head(m.Body), head(want))
						m.Free()
						return
					}
					app.k.take(fmt.Sprintf("leaf %d", li), m, nil)
					mu.Lock()
					copies++
					mu.Unlock()
				}
			}()
		}
		if !await(c, "owner/relay-stuck:"+pat+"/relay", pat+": the leaves that were slow receiving every relayed message ("+tr+")", &wg) {
			return
		}
	}
	app.k.flush()
	relayCounts(c, app, received, copies)
	c.Count("relay_rounds_with_a_write_to_a_slow_leaf_parked_in_the_transport", backedUp)
	if received == 0 || copies == 0 {
		c.Inconclusive("%s: nothing was relayed", pat)
		return
	}
	c.Nontrivial()
}

// sizeOf returns the payload size a body claims (its own length when it cannot be parsed).
func sizeOf(b []byte) int {
	if _, n, ok := idOf(b); ok && n <= 1<<21 {
		return n
	}
	return len(b)
}
