//go:build verif

package c17

import (
	"fmt"
	"sync"
	"sync/atomic"
	"time"

	"go.nanomsg.org/mangos/v3"

	"verifharness/hx"
	"verifharness/mon"
)

// runStallLoss: a sending socket loses its peer while a write towards that peer is stalled inside
// the (real) transport.  The peer is a socket of the matching protocol that never receives and
// has a tiny receive queue: its pipe reader ends up holding a message, nothing reads the
// connection any more, the sender's transport write stalls and its send queue fills behind it.
// Then the connection goes (the peer socket closes, or either side closes the pipe).  The write
// fails inside the transport with the message in hand: exactly one party must release it.  The
// ledger sees a second release at once; every SendMsg that returns an error must have left the
// message with the caller, intact; and an undisturbed PAIR conversation exchanging messages of
// the same size class in the same process at that moment must see its own messages only, each
// once, in order, intact (a twice-released message is handed out twice by the cache).

type slProto struct {
	snd, peer string
	hdr       []byte
}

var slProtos = []slProto{
	{"pair", "pair", nil}, {"xpair", "pair", nil}, {"pair1", "pair1", nil}, {"xpair1", "pair1", hops0},
	{"push", "pull", nil}, {"xpush", "pull", nil}, {"bus", "bus", nil}, {"xbus", "bus", nil},
	{"star", "star", nil}, {"xstar", "star", hops0}, {"req", "rep", nil}, {"xreq", "rep", rid7},
	{"surveyor", "respondent", nil}, {"xsurveyor", "respondent", rid7},
}

func slByName(n string) slProto {
	for _, p := range slProtos {
		if p.snd == n {
			return p
		}
	}
	panic("stallloss: protocol " + n)
}

// stalledWrites returns the ids of library goroutines parked below core.(*pipe).SendMsg, i.e.
// inside a transport's Send.
func stalledWrites() map[int]bool {
	ids := map[int]bool{}
	for _, g := range mon.Dump() {
		if g.Parked() && g.HasFrame("internal/core.(*pipe).SendMsg") {
			ids[g.ID] = true
		}
	}
	return ids
}

func runStallLoss(c *mon.Case, sp spec) {
	pr := slByName(sp.Pat)
	S, P := hx.MustSock(c, pr.snd), hx.MustSock(c, pr.peer)
	S.SetOption(mangos.OptionRetryTime, time.Hour)
	S.SetOption(mangos.OptionSurveyTime, time.Hour)
	S.SetOption(mangos.OptionWriteQLen, 1+c.Rand.Intn(3))
	P.SetOption(mangos.OptionReadQLen, c.Rand.Intn(2))
	ws, wp := hx.WatchPipes(S), hx.WatchPipes(P)
	lsn, dl := S, P
	if c.Rand.Intn(2) == 0 {
		lsn, dl = P, S
	}
	l, err := lsn.NewListener(hx.ListenAddr(sp.Tran), tlsOpt(sp.Tran, true))
	if err == nil {
		err = l.Listen()
	}
	if err != nil {
		c.Inconclusive("setup: listen: %v", err)
		return
	}
	d, err := dl.NewDialer(l.Address(), tlsOpt(sp.Tran, false))
	if err == nil {
		d.SetOption(mangos.OptionReconnectTime, time.Hour) // the lost peer stays lost
		d.SetOption(mangos.OptionMaxReconnectTime, time.Hour)
		err = d.Dial()
	}
	if err != nil {
		c.Inconclusive("setup: dial: %v", err)
		return
	}
	if !hx.WaitAttached(c, ws, 1, "sender side") || !hx.WaitAttached(c, wp, 1, "peer side") {
		return
	}

	// message sizes: one pool class for the stalled messages and for the bystanders; stream
	// transports need volume to fill the connection's buffers
	cls := classes[c.Rand.Intn(len(classes))]
	maxPump := 12
	stream := sp.Tran != "inproc"
	if stream {
		cls = 65536
		maxPump = 120
	}
	size := func(i int) int {
		if stream && i%2 == 0 {
			return 400000 + c.Rand.Intn(400000) // (above every class: fills the connection's buffers quickly)
		}
		return cls - 40 + c.Rand.Intn(36) // header and wire prefix stay within the class
	}

	// 1. pump until a transport write is stalled and the queue behind it holds messages
	type sent struct {
		k *mon.Call
		m *mangos.Message
		b []byte
	}
	var calls []sent
	var prev map[int]bool
	stalled, after, appParked := false, 0, false
	for i := 0; i < maxPump && after < 3 && !appParked; i++ {
		b := body(uint32(50000+i), size(i))
		m := mangos.NewMessage(len(b))
		m.Body = append(m.Body, b...)
		m.Header = append(m.Header, pr.hdr...)
		k := mon.Go("SendMsg", func() (interface{}, error) { return nil, S.SendMsg(m) })
		calls = append(calls, sent{k, m, b})
		polls := 0
		mon.Await(func() bool {
			if k.Done() {
				return true
			}
			if polls++; polls < 4 {
				return false
			}
			return parkedNow(k, "SendMsg")
		}, mon.AwaitOpts{Watchdog: 3 * time.Second})
		if !k.Done() {
			appParked = true // the send queue is full behind the stalled write
		}
		if stalled {
			after++
			continue
		}
		now := stalledWrites()
		for id := range now {
			if prev[id] {
				stalled = true // the same goroutine, parked in the transport across two sends
			}
		}
		prev = now
	}
	if appParked && !stalled {
		for id := range stalledWrites() {
			if prev[id] {
				stalled = true
			}
		}
	}
	c.Count("sends_before_peer_loss", len(calls))
	if stalled {
		c.Count("peer_losses_with_a_write_stalled_in_the_transport", 1)
	}

	// 2. an undisturbed conversation next to it, same size class
	by := startBystander(c, cls)
	if by == nil {
		return
	}
	by.awaitRunning()

	// 3. the peer goes away
	how := c.Rand.Intn(3)
	switch how {
	case 0:
		P.Close()
	case 1:
		if ps := wp.Pipes(); len(ps) > 0 {
			ps[0].Close()
		}
	case 2:
		if ps := ws.Pipes(); len(ps) > 0 {
			ps[0].Close()
		}
	}
	hx.WaitDetached(c, ws, 1, "the sender noticing the loss")
	settled := func() bool {
		for _, q := range calls {
			if !q.k.Done() && !q.k.ParkedIn("SendMsg") {
				return false
			}
		}
		return true
	}
	mon.Await(settled, mon.AwaitOpts{Watchdog: 3 * time.Second})
	by.finish()

	// 4. the sender closes under whatever is still waiting
	S.Close()
	outcomes := map[string]int{}
	for _, q := range calls {
		if !c.AwaitOrViolate("owner/send-stuck:"+pr.snd+"/stallloss", pr.snd+": SendMsg returning after the peer was lost and the socket closed", q.k.Done, mon.AwaitOpts{MaxTimer: 10 * time.Millisecond}) {
			return
		}
		_, err, _ := q.k.Result()
		outcomes[errName2(err)]++
		if err != nil {
			checkReturned(c, pr.snd+"/stallloss", q.m, q.b, err)
			q.m.Free()
		}
	}
	for k, v := range outcomes {
		c.Count("outcome_stallloss:"+k, v)
	}
	c.Count("peer_losses_under_backed_up_sends", 1)
	c.Count(fmt.Sprintf("peer_loss_by_%s", []string{"peer_socket_close", "peer_pipe_close", "local_pipe_close"}[how]), 1)
	c.Nontrivial()
}

// bystander: one PAIR conversation over inproc whose connection never fails.
type bystander struct {
	c       *mon.Case
	running chan struct{}
	stop    chan struct{}
	wg      sync.WaitGroup
	k       *keeper
	rcvd    atomic.Int64
	once    sync.Once
}

const byLast = 0x7fffffff

func startBystander(c *mon.Case, cls int) *bystander {
	tx, rx := hx.MustSock(c, "pair"), hx.MustSock(c, "pair")
	if !connectAll(c, "inproc", rx, tx) {
		return nil
	}
	by := &bystander{c: c, running: make(chan struct{}), stop: make(chan struct{}), k: &keeper{c: c, tag: "@bystander"}}
	limit := 1500
	if cls > 1024 {
		limit = 300
	}
	seed := c.Rand.Int63()
	by.wg.Add(2)
	go func() { // sender: up to limit messages, or until told to stop; then the closing message
		defer by.wg.Done()
		rnd := hx.NewRand(seed)
		i := 0
	loop:
		for ; i < limit; i++ {
			select {
			case <-by.stop:
				break loop
			default:
			}
			if sendMsg(c, "bystander", tx, body(uint32(i), cls-40+rnd.Intn(36))) != nil {
				return
			}
		}
		sendMsg(c, "bystander", tx, body(byLast, 8))
	}()
	go func() {
		defer by.wg.Done()
		ok := false
		defer func() {
			by.once.Do(func() { close(by.running) })
			if !ok { // the sender must not wait for a receiver that gave up
				tx.Close()
				rx.Close()
			}
		}()
		next := uint32(0)
		for {
			m, err := rx.RecvMsg()
			if err != nil {
				if !c.Failed() {
					c.Violate("harness:recv-error", "bystander RecvMsg: %v", err)
				}
				return
			}
			id, _, parsed := idOf(m.Body)
			by.k.take("undisturbed PAIR conversation", m, expectBody(m))
			if parsed && id == byLast {
				ok = true
				return
			}
			if !parsed || id != next {
				c.Violate("owner/bystander-sequence-broken", "an undisturbed PAIR conversation (inproc, its connection never failed) received message %d where message %d was due, while another socket lost its peer: a duplicated, missing or foreign message", id, next)
				return
			}
			next++
			if by.rcvd.Add(1) == 20 {
				by.once.Do(func() { close(by.running) })
			}
		}
	}()
	return by
}

// awaitRunning returns once the conversation has exchanged some messages (or cannot).
func (by *bystander) awaitRunning() {
	k := mon.Go("bystander running", func() (interface{}, error) { <-by.running; return nil, nil })
	mon.Await(func() bool { return k.Done() || by.c.Failed() }, mon.AwaitOpts{Watchdog: 3 * time.Second})
}

func (by *bystander) finish() {
	close(by.stop)
	if !await(by.c, "owner/bystander-stuck", "the undisturbed PAIR conversation receiving everything that was sent to it", &by.wg) {
		return
	}
	by.k.flush()
	by.c.Count("bystander_messages_verified", int(by.rcvd.Load()))
}
