//go:build verif

package c17

import (
	"io"
	"net"
	"sync"
	"time"

	"go.nanomsg.org/mangos/v3"

	"verifharness/hx"
	"verifharness/mon"
	"verifharness/props/c15/spcodec"
)

// runPeerLoss: a fan-out socket broadcasts large messages to a healthy real peer and to raw peers
// that stop reading and then vanish with a reset while a message is being written to them.  The
// failed write is the interesting moment: the message is shared with the other peers' queues, so
// whoever handles the error must release exactly one reference.  The ledger sees a wrong count at
// once; the healthy peer re-verifies everything it is handed.
func runPeerLoss(c *mon.Case, sp spec) {
	tr := sp.Tran
	var srvP, cliP string
	switch sp.Pat {
	case "pubsub":
		srvP, cliP = "pub", "sub"
	case "bus":
		srvP, cliP = "bus", "bus"
	default:
		srvP, cliP = "surveyor", "respondent"
	}
	srv := hx.MustSock(c, srvP)
	good := hx.MustSock(c, cliP)
	if cliP == "sub" {
		good.SetOption(mangos.OptionSubscribe, []byte{})
	}
	srv.SetOption(mangos.OptionSurveyTime, time.Hour)
	l, err := srv.NewListener(hx.ListenAddr(tr), nil)
	if err == nil {
		err = l.Listen()
	}
	if err != nil {
		c.Inconclusive("setup: %v", err)
		return
	}
	ws := hx.WatchPipes(srv)
	if err := good.Dial(l.Address()); err != nil {
		c.Inconclusive("setup: dial: %v", err)
		return
	}
	// raw peers: handshake as the client protocol, then never read
	_, host := spcodec.SplitURL(l.Address())
	network := "tcp"
	if tr == "ipc" {
		network = "unix"
	}
	nraw := 2 + c.Rand.Intn(2)
	var raws []net.Conn
	defer func() {
		for _, cn := range raws {
			cn.Close()
		}
	}()
	for i := 0; i < nraw; i++ {
		cn, err := net.Dial(network, host)
		if err != nil {
			c.Inconclusive("setup: raw dial: %v", err)
			return
		}
		spcodec.NoLinger(cn)
		raws = append(raws, cn)
		cn.Write(spcodec.Header(spcodec.ByName(cliP).Num))
		hb := make([]byte, 8)
		cn.SetReadDeadline(time.Now().Add(5 * time.Second))
		if _, err := io.ReadFull(cn, hb); err != nil {
			c.Inconclusive("setup: raw handshake: %v", err)
			return
		}
	}
	if !hx.WaitAttached(c, ws, nraw+1, "good peer and raw peers") {
		return
	}
	k := &keeper{c: c}
	n := sp.N
	var wg sync.WaitGroup
	wg.Add(1)
	stop := make(chan struct{})
	got := 0
	go func() {
		defer wg.Done()
		good.SetOption(mangos.OptionRecvDeadline, 50*time.Millisecond)
		for {
			m, err := good.RecvMsg()
			if err != nil {
				select {
				case <-stop:
					return
				default:
					continue
				}
			}
			k.take("healthy peer", m, expectBody(m))
			got++
		}
	}()
	sender := mon.Go("broadcast", func() (interface{}, error) {
		for i := 0; i < n; i++ {
			b := body(uint32(i+1), 60000+c.Rand.Intn(140000))
			if err := sendMsg(c, srvP, srv, b); err != nil {
				return i, err
			}
			if i == n/3 || i == n/2 {
				// a raw peer vanishes (reset) while writes to it are backed up
				if j := (i / (n/3 + 1)) % len(raws); raws[j] != nil {
					raws[j].Close()
				}
			}
			time.Sleep(200 * time.Microsecond)
		}
		return n, nil
	})
	if !c.AwaitOrViolate("owner/send-stuck:"+srvP+"/peerloss", srvP+": broadcasting while raw peers vanish", sender.Done, mon.AwaitOpts{MaxTimer: 50 * time.Millisecond}) {
		close(stop)
		return
	}
	for _, cn := range raws {
		cn.Close()
	}
	mon.Sleep(60 * time.Millisecond)
	close(stop)
	await(c, "harness:receiver-stuck", "healthy receiver stopping", &wg)
	k.flush()
	c.Count("peerloss_broadcasts", n)
	c.Count("messages_received", got)
	if got == 0 {
		c.Inconclusive("the healthy peer received nothing")
		return
	}
	c.Nontrivial()
}
