//go:build verif

package c17

import (
	"bytes"
	"time"

	"go.nanomsg.org/mangos/v3"

	"verifharness/hx"
	"verifharness/mon"
	"verifharness/vt"
)

// runRawFan: sustained broadcasting from one socket to several vt peers with the schedule
// perturbed inside Message.Clone and Message.Free.  A fan-out that shares a message must take
// each reference before the message becomes reachable by the goroutine that will release it;
// the pause in Clone lets that goroutine win every such race, and the ledger then sees the
// count reach zero under the broadcaster.  The peers' copies are checked too: every body is
// one that was sent, and per peer the ids strictly increase (no survey delivered twice, none
// refilled with a later one).
func runRawFan(c *mon.Case, sp spec) {
	p := sp.Pat
	s := hx.MustSock(c, p)
	name := hx.Uniq("c17rf")
	L := vt.L(name)
	c.Cleanup(func() { vt.Forget(name) })
	if err := s.Listen(vt.Addr(name)); err != nil {
		c.Inconclusive("setup: %v", err)
		return
	}
	w := hx.WatchPipes(s)
	const npeers = 3
	var peers []*vt.Pipe
	for i := 0; i < npeers; i++ {
		peers = append(peers, L.Connect())
	}
	if !hx.WaitAttached(c, w, npeers, "vt peers") {
		return
	}
	hx.SetYields(c.Rand.Int63(), &hx.YieldCfg{ProbGosched: 0.45, ProbSleep: 0.05, MaxSleep: 40 * time.Microsecond, Message: true})
	defer hx.SetYields(0, nil)
	n := sp.N
	sender := mon.Go("broadcast", func() (interface{}, error) {
		for i := 0; i < n; i++ {
			sz := 8 + c.Rand.Intn(120)
			if i%64 == 0 {
				sz = sizeFor(c.Rand, i/64)
			}
			b := body(uint32(i+1), sz)
			m := mangos.NewMessage(len(b))
			m.Body = append(m.Body, b...)
			switch p {
			case "xstar":
				m.Header = append(m.Header, 0, 0, 0, 0)
			case "xsurveyor":
				m.Header = append(m.Header, 0x80, 0, byte(i>>8), byte(i))
			}
			if err := s.SendMsg(m); err != nil {
				checkReturned(c, p+"/rawfan", m, b, err)
				m.Free()
				return i, err
			}
		}
		return n, nil
	})
	if !c.AwaitOrViolate("owner/send-stuck:"+p+"/rawfan", p+": broadcasting", sender.Done, mon.AwaitOpts{MaxTimer: 10 * time.Millisecond}) {
		return
	}
	if v, err, _ := sender.Result(); err != nil {
		c.Violate("owner/rawfan-send-error:"+p+":"+errName(err), "%s: SendMsg %d of %d failed: %v", p, v, n, err)
		return
	}
	hx.SetYields(0, nil)
	// let the per-pipe senders drain (bounded by what was accepted: wait until the logs stop growing)
	total := func() (t int) {
		for _, q := range peers {
			t += q.SentCount()
		}
		return
	}
	last := -1
	mon.Await(func() bool { t := total(); same := t == last; last = t; return same && t > 0 }, mon.AwaitOpts{Watchdog: 5 * time.Second})
	delivered := 0
	for pi, q := range peers {
		prev := uint32(0)
		for _, snt := range q.SentLog() {
			id, sz, ok := idOf(snt.Body)
			if !ok || sz != len(snt.Body) || !bytes.Equal(snt.Body, body(id, sz)) {
				cls := "content"
				if bytes.Contains(snt.Body, bytes.Repeat([]byte{0xDB}, 8)) {
					cls = "poison"
				}
				c.Violate("owner/fanout-copy-wrong:"+cls, "%s: peer %d was handed a body that is not one that was sent (%s): %d bytes %x...", p, pi, cls, len(snt.Body), head(snt.Body))
				break
			}
			if id <= prev {
				c.Violate("owner/fanout-copy-repeated", "%s: peer %d was handed message %d after message %d (a message shared by the fan-out was refilled or delivered twice)", p, pi, id, prev)
				break
			}
			prev = id
			delivered++
		}
	}
	c.Count("rawfan_sent", n)
	c.Count("rawfan_copies_checked", delivered)
	if delivered == 0 {
		c.Inconclusive("no copy reached a peer")
		return
	}
	c.Nontrivial()
}
