//go:build verif

package c17

import (
	"bytes"
	"time"

	"go.nanomsg.org/mangos/v3"

	"verifharness/hx"
	"verifharness/mon"
)

// runOwnBody: an application may point Message.Body at a buffer of its own (the field is public and
// the library's own code does it).  Handing such a message over transfers the *message*; once the
// library has released it, the application's array is the application's again: the library must
// neither write to it nor hand it out as the storage of a later message.
func runOwnBody(c *mon.Case, sp spec) {
	sizes := []int{65, 100, 200, 1000, 3000, 5000, 9000, 70000}
	check := func(what string, payload, want []byte) bool {
		if !bytes.Equal(payload, want) {
			cls := "content"
			if bytes.Contains(payload, bytes.Repeat([]byte{0xDB}, 8)) {
				cls = "poison"
			}
			c.Violate("owner/callers-array-written:"+cls, "%s: the application's own array (assigned to Message.Body of a message since released) was modified (%s): %x..., was %x...", what, cls, head(payload), head(want))
			return false
		}
		return true
	}
	alias := func(what string, payload, want []byte, n int) bool {
		// later messages of every class: scribbling over their full capacity must not show in the application's array
		for i := 0; i < n; i++ {
			for _, sz := range []int{1, 60, 100, 500, 1000, 4000, 8000, 60000} {
				m := mangos.NewMessage(sz)
				b := m.Body[:cap(m.Body)]
				for j := range b {
					b[j] = 0x5A
				}
				m.Free()
			}
			if !bytes.Equal(payload, want) {
				c.Violate("owner/callers-array-reissued", "%s: a message allocated later uses the application's own array as its storage (writing the new message changed the array: %x..., was %x...)", what, head(payload), head(want))
				return false
			}
		}
		return true
	}
	// 1. message level
	for _, sz := range sizes {
		payload := body(uint32(sz), sz)
		want := append([]byte{}, payload...)
		m := mangos.NewMessage(0)
		m.Body = payload
		m.Free()
		mangos.VerifLedgerFlush()
		if !check("NewMessage/Free", payload, want) || !alias("NewMessage/Free", payload, want, 3) {
			return
		}
		c.Count("own_arrays_checked", 1)
	}
	// 2. through a socket pair (the transport releases the message after writing it)
	snd, rcv := hx.MustSock(c, "pair"), hx.MustSock(c, "pair")
	if !connectAll(c, sp.Tran, rcv, snd) {
		return
	}
	for i, sz := range sizes {
		payload := body(uint32(7000+i), sz)
		want := append([]byte{}, payload...)
		m := mangos.NewMessage(0)
		m.Body = payload
		k := mon.Go("SendMsg", func() (interface{}, error) { return nil, snd.SendMsg(m) })
		if !c.AwaitOrViolate("owner/send-stuck:pair/ownbody", "SendMsg of a message whose Body is the application's array", k.Done, mon.AwaitOpts{MaxTimer: 10 * time.Millisecond}) {
			return
		}
		if _, err, _ := k.Result(); err != nil {
			c.Violate("harness:send-error", "SendMsg: %v", err)
			return
		}
		r := mon.Go("Recv", func() (interface{}, error) { b, e := rcv.Recv(); return b, e })
		if !c.AwaitOrViolate("owner/pipeline-stuck:pair", "the message arriving", r.Done, mon.AwaitOpts{MaxTimer: 10 * time.Millisecond}) {
			return
		}
		if v, err, _ := r.Result(); err != nil || !bytes.Equal(v.([]byte), want) {
			c.Violate("owner/received-body-wrong:content", "a message whose Body was the application's array arrived as %x... (%v), want %x...", head(v.([]byte)), err, head(want))
			return
		}
		// a few ordinary exchanges: buffers of every class get (re)used on both sides
		for j := 0; j < 6; j++ {
			b := body(uint32(8000+j), sizeFor(c.Rand, j))
			if sendMsg(c, "pair", snd, b) != nil {
				return
			}
			r := mon.Go("Recv", func() (interface{}, error) { x, e := rcv.Recv(); return x, e })
			if !c.AwaitOrViolate("owner/pipeline-stuck:pair", "a follow-up message arriving", r.Done, mon.AwaitOpts{MaxTimer: 10 * time.Millisecond}) {
				return
			}
			if v, err, _ := r.Result(); err != nil || !bytes.Equal(v.([]byte), b) {
				c.Violate("owner/received-body-wrong:content", "a follow-up message arrived altered (%v)", err)
				return
			}
		}
		mangos.VerifLedgerFlush()
		if !check("SendMsg over "+sp.Tran, payload, want) || !alias("SendMsg over "+sp.Tran, payload, want, 2) {
			return
		}
		c.Count("own_arrays_checked", 1)
	}
	c.Nontrivial()
}
