package c17

import (
	"bytes"
	"encoding/binary"
	"fmt"
	"sync"
	"sync/atomic"
	"testing"
	"time"

	"go.nanomsg.org/mangos/v3"

	"verifharness/hx"
	"verifharness/mon"
	"verifharness/vt"
)

// C17 — a message belongs to exactly one owner at a time.

func TestMain(m *testing.M) { hx.Main(m) }

type spec struct {
	Kind  string `json:"kind"` // fanout | pipeline | reusebuf | outcome | rawfan | peerloss | ownbody | resize | stallloss | relay | cancelsend | reqretain | newmsg
	Pat   string `json:"pat,omitempty"`
	Tran  string `json:"tran,omitempty"`
	N     int    `json:"n,omitempty"`
	Yield bool   `json:"yield,omitempty"`
}

var classes = []int{64, 128, 256, 512, 1024, 4096, 8192, 65536}

func TestC17(t *testing.T) {
	r := mon.NewRunner(t, "C17")
	rnd := r.Rand()
	var cases []mon.CaseSpec
	trans := hx.Transports // all six in both tiers: transport-specific aliasing (e.g. ws header/body joining) needs its transport
	reps := r.Pick(10, 400)
	for rep := 0; rep < reps; rep++ {
		for _, tr := range trans {
			for _, pat := range []string{"pubsub", "bus", "star", "survey"} {
				cases = append(cases, mon.CaseSpec{Name: "fanout/" + pat + "/" + tr, Spec: spec{Kind: "fanout", Pat: pat, Tran: tr, N: 30 + rnd.Intn(40), Yield: rnd.Intn(2) == 0}})
			}
			for _, pat := range []string{"pair", "pushpull", "pubsub", "bus", "reqrep"} {
				cases = append(cases, mon.CaseSpec{Name: "reusebuf/" + pat + "/" + tr, Spec: spec{Kind: "reusebuf", Pat: pat, Tran: tr, N: 16 + rnd.Intn(16), Yield: rnd.Intn(2) == 0}})
			}
			for _, pat := range []string{"pair", "pair1", "pushpull", "reqrep"} {
				cases = append(cases, mon.CaseSpec{Name: "pipeline/" + pat + "/" + tr, Spec: spec{Kind: "pipeline", Pat: pat, Tran: tr, N: 30 + rnd.Intn(40), Yield: rnd.Intn(2) == 0}})
			}
		}
		for _, p := range hx.AllProtos {
			cases = append(cases, mon.CaseSpec{Name: "outcome/" + p, Spec: spec{Kind: "outcome", Pat: p}})
		}
		for _, p := range []string{"xsurveyor", "xpub", "xbus", "xstar", "surveyor", "pub", "bus", "star"} {
			cases = append(cases, mon.CaseSpec{Name: "rawfan/" + p, Spec: spec{Kind: "rawfan", Pat: p, N: r.Pick(1500, 4000)}})
		}
		for _, tr := range []string{"tcp", "ipc"} {
			for _, pat := range []string{"pubsub", "bus", "survey"} {
				cases = append(cases, mon.CaseSpec{Name: "peerloss/" + pat + "/" + tr, Spec: spec{Kind: "peerloss", Pat: pat, Tran: tr, N: 30 + rnd.Intn(30)}})
			}
		}
		for _, tr := range []string{"inproc", "tcp", "ipc"} {
			cases = append(cases, mon.CaseSpec{Name: "ownbody/" + tr, Spec: spec{Kind: "ownbody", Tran: tr}})
		}
		for _, p := range rzProtos {
			cases = append(cases, mon.CaseSpec{Name: "resize/" + p.name + "/vt", Spec: spec{Kind: "resize", Pat: p.name, Tran: "vt", N: r.Pick(2, 3) + rnd.Intn(r.Pick(2, 6)), Yield: rnd.Intn(2) == 0}})
			if p.peer != "" && (r.Thorough() || rnd.Intn(2) == 0) { // (quick tier: half of them per round)
				tr := trans[rnd.Intn(len(trans))]
				cases = append(cases, mon.CaseSpec{Name: "resize/" + p.name + "/" + tr, Spec: spec{Kind: "resize", Pat: p.name, Tran: tr, N: r.Pick(2, 3) + rnd.Intn(r.Pick(2, 6)), Yield: rnd.Intn(2) == 0}})
			}
		}
		for _, p := range slProtos {
			cases = append(cases, mon.CaseSpec{Name: "stallloss/" + p.snd + "/inproc", Spec: spec{Kind: "stallloss", Pat: p.snd, Tran: "inproc", Yield: rnd.Intn(2) == 0}})
			if r.Thorough() || rnd.Intn(3) == 0 { // (the stream transports need volume to stall a write: a third of them per round in the quick tier)
				tr := trans[1+rnd.Intn(len(trans)-1)]
				cases = append(cases, mon.CaseSpec{Name: "stallloss/" + p.snd + "/" + tr, Spec: spec{Kind: "stallloss", Pat: p.snd, Tran: tr, Yield: rnd.Intn(2) == 0}})
			}
		}
		for _, p := range []string{"xstar", "star"} {
			// the hub's application writes into what it received while the relayed copies wait behind slow peers
			for v := 0; v < r.Pick(1, 2); v++ {
				cases = append(cases, mon.CaseSpec{Name: "relay/" + p + "/vt", Spec: spec{Kind: "relay", Pat: p, Tran: "vt", N: r.Pick(3, 4) + rnd.Intn(r.Pick(3, 8)), Yield: rnd.Intn(2) == 0}})
			}
			cases = append(cases, mon.CaseSpec{Name: "relay/" + p + "/inproc", Spec: spec{Kind: "relay", Pat: p, Tran: "inproc", N: r.Pick(2, 3) + rnd.Intn(r.Pick(2, 5)), Yield: rnd.Intn(2) == 0}})
			// (stream transports need volume to back up: one random one for every other hub, thorough two for every hub)
			var streams []string
			if r.Thorough() {
				i := rnd.Intn(len(trans) - 1)
				streams = []string{trans[1+i], trans[1+(i+1+rnd.Intn(len(trans)-2))%(len(trans)-1)]}
			} else if rnd.Intn(2) == 0 {
				streams = []string{trans[1+rnd.Intn(len(trans)-1)]}
			}
			for _, tr := range streams {
				cases = append(cases, mon.CaseSpec{Name: "relay/" + p + "/" + tr, Spec: spec{Kind: "relay", Pat: p, Tran: tr, N: 2 + rnd.Intn(2), Yield: rnd.Intn(2) == 0}})
			}
		}
		for _, p := range hx.AllProtos {
			// two of the six disturbances per round, every one within three rounds, then the other mode
			mode := []string{"nopeer", "busy"}[(rep/3)%2]
			cases = append(cases, mon.CaseSpec{Name: "cancelsend/" + p + "/" + mode, Spec: spec{Kind: "cancelsend", Pat: p, Tran: mode, N: 3 << uint((2*rep)%6), Yield: rnd.Intn(2) == 0}})
		}
		cases = append(cases, mon.CaseSpec{Name: "reqretain", Spec: spec{Kind: "reqretain", N: 3 + rnd.Intn(3)}})
		cases = append(cases, mon.CaseSpec{Name: "newmsg", Spec: spec{Kind: "newmsg"}})
	}
	r.Run(cases, func(c *mon.Case) {
		sp := c.Spec.(spec)
		if sp.Yield {
			hx.SetYields(c.Rand.Int63(), &hx.YieldCfg{ProbGosched: 0.25, ProbSleep: 0.1, MaxSleep: 200 * time.Microsecond})
			defer hx.SetYields(0, nil)
		}
		mangos.VerifLedgerReset()
		switch sp.Kind {
		case "fanout":
			runFanout(c, sp)
		case "pipeline":
			runPipeline(c, sp)
		case "reusebuf":
			runReuseBuf(c, sp)
		case "outcome":
			runOutcome(c, sp)
		case "rawfan":
			runRawFan(c, sp)
		case "ownbody":
			runOwnBody(c, sp)
		case "peerloss":
			runPeerLoss(c, sp)
		case "resize":
			runResize(c, sp)
		case "stallloss":
			runStallLoss(c, sp)
		case "relay":
			runRelay(c, sp)
		case "cancelsend":
			runCancelSend(c, sp)
		case "reqretain":
			runReqRetain(c, sp)
		case "newmsg":
			runNewMsg(c, sp)
		}
		ledger(c)
		c.Sig("%s|%s|%s", sp.Kind, sp.Pat, sp.Tran)
	})
}

// ledger turns ownership events recorded by the library-side ledger into violations;
// the quarantine ring is flushed so that every released buffer's poison is re-checked.
func ledger(c *mon.Case) {
	mangos.VerifLedgerFlush()
	snap := mangos.VerifLedger()
	for _, e := range snap.Events {
		site := "?"
		for _, ln := range bytes.Split([]byte(e.Stack), []byte("\n")) {
			s := string(ln)
			if len(s) > 0 && s[0] != '\t' && bytes.HasPrefix(ln, []byte("go.nanomsg.org/mangos/v3/")) && !bytes.Contains(ln, []byte("mangos/v3.(*Message)")) && !bytes.Contains(ln, []byte("mangos/v3.verif")) && !bytes.Contains(ln, []byte("mangos/v3.NewMessage")) {
				site = s
				if i := bytes.LastIndexByte(ln, '('); i > 0 {
					site = s[:i]
				}
				site = site[len("go.nanomsg.org/mangos/v3/"):]
				break
			}
		}
		c.Violate("ledger:"+e.Kind+"@"+site, "message ledger: %s %s\n%s", e.Kind, e.Info, e.Stack)
	}
	c.Count("ledger_new_messages", int(snap.News))
	c.Count("ledger_poisoned_buffers", int(snap.Poisoned))
	c.Count("ledger_poison_rechecked_intact", int(snap.Rechecked))
	mangos.VerifLedgerReset()
}

// ---- payloads ---------------------------------------------------------------

func body(id uint32, n int) []byte {
	b := make([]byte, n)
	for i := range b {
		b[i] = byte(int(id)*131 + i*7 + n)
		if b[i] == 0xDB { // never the ledger's poison value, so poison in a delivered body is unambiguous
			b[i] = 0xDC
		}
	}
	if n >= 8 {
		binary.BigEndian.PutUint32(b, id)
		binary.BigEndian.PutUint32(b[4:], uint32(n))
	}
	return b
}

func sizeFor(rnd interface{ Intn(int) int }, i int) int {
	switch i % 4 {
	case 0:
		c := classes[rnd.Intn(len(classes))]
		return c - 12 + rnd.Intn(14) // around a pool class, header-shifted totals included
	case 1:
		return 8 + rnd.Intn(300)
	case 2:
		return 8 + rnd.Intn(9000)
	}
	return 8 + rnd.Intn(70000)
}

// held is a message the application owns, with the bytes it had on receipt.
type held struct {
	m      *mangos.Message
	hdr    []byte
	body   []byte
	who    string
	expect []byte
}

// keeper implements the application side discipline: retain a window of received
// messages, re-verify them after later traffic, then scribble over them and free them.
type keeper struct {
	c   *mon.Case
	mu  sync.Mutex
	win []held
	n   int
	// all: nothing is released before flush, and every message handed out is checked against
	// the ones still held (by identity).  tag is appended to the signatures (the workload).
	all  bool
	tag  string
	ptrs map[*mangos.Message]string
}

func (k *keeper) take(who string, m *mangos.Message, expect []byte) {
	c := k.c
	if expect != nil && !bytes.Equal(m.Body, expect) {
		cls := "content"
		if bytes.Contains(m.Body, bytes.Repeat([]byte{0xDB}, 8)) {
			cls = "poison"
		}
		c.Violate("owner/received-body-wrong:"+cls+k.tag, "%s received a body that differs from what was sent (%s): got %d bytes %x..., want %d bytes %x...", who, cls, len(m.Body), head(m.Body), len(expect), head(expect))
	}
	h := held{m: m, hdr: append([]byte{}, m.Header...), body: append([]byte{}, m.Body...), who: who}
	k.mu.Lock()
	if k.all {
		if prev, dup := k.ptrs[m]; dup {
			k.mu.Unlock()
			c.Violate("owner/held-message-handed-out-again"+k.tag, "%s: RecvMsg returned a message the application already holds and has not freed (it was handed to %s)", who, prev)
			return // (it is in the window once; it is verified and freed once)
		}
		k.ptrs[m] = who
	}
	k.win = append(k.win, h)
	k.n++
	var old *held
	if len(k.win) > 16 && !k.all {
		o := k.win[0]
		k.win = k.win[1:]
		old = &o
	}
	k.mu.Unlock()
	if old != nil {
		k.release(*old)
	}
}

func head(b []byte) []byte {
	if len(b) > 16 {
		return b[:16]
	}
	return b
}

// release re-verifies a retained message, scribbles over it (the application owns it) and frees it.
func (k *keeper) release(h held) {
	c := k.c
	if !bytes.Equal(h.m.Body, h.body) {
		cls := "content"
		if bytes.Contains(h.m.Body, bytes.Repeat([]byte{0xDB}, 8)) {
			cls = "poison"
		}
		c.Violate("owner/held-body-changed:"+cls+k.tag, "%s: the body of a message returned by RecvMsg changed while the application held it (%s): now %x..., on receipt %x...", h.who, cls, head(h.m.Body), head(h.body))
	}
	if !bytes.Equal(h.m.Header, h.hdr) {
		c.Violate("owner/held-header-changed"+k.tag, "%s: the header of a message returned by RecvMsg changed while the application held it: now %x, on receipt %x", h.who, h.m.Header, h.hdr)
	}
	if rc := mangos.VerifRefcnt(h.m); rc != 1 {
		c.Violate("owner/held-message-shared"+k.tag, "%s: a message returned by RecvMsg has reference count %d (the application must be its only owner)", h.who, rc)
	}
	for i := range h.m.Body {
		h.m.Body[i] = 0xEE
	}
	for i := range h.m.Header {
		h.m.Header[i] = 0xEE
	}
	h.m.Free()
	c.Count("messages_held_verified_scribbled", 1)
}

func (k *keeper) flush() {
	k.mu.Lock()
	w := k.win
	k.win = nil
	k.mu.Unlock()
	for _, h := range w {
		k.release(h)
	}
}

// recvLoop receives until n messages were taken or an error occurs.
func recvLoop(c *mon.Case, k *keeper, who string, rcv func() (*mangos.Message, error), expect func(m *mangos.Message) []byte, n int, done *sync.WaitGroup) {
	defer done.Done()
	for i := 0; i < n; i++ {
		m, err := rcv()
		if err != nil {
			if !c.Failed() {
				c.Violate("harness:recv-error", "%s: RecvMsg returned %v after %d of %d messages", who, err, i, n)
			}
			return
		}
		k.take(who, m, expect(m))
	}
}

func idOf(b []byte) (uint32, int, bool) {
	if len(b) < 8 {
		return 0, 0, false
	}
	return binary.BigEndian.Uint32(b), int(binary.BigEndian.Uint32(b[4:])), true
}

func expectBody(m *mangos.Message) []byte {
	id, n, ok := idOf(m.Body)
	if !ok || n > 1<<21 {
		return []byte("<unparsable>")
	}
	return body(id, n)
}

func await(c *mon.Case, sig, what string, wg *sync.WaitGroup) bool {
	k := mon.Go(what, func() (interface{}, error) { wg.Wait(); return nil, nil })
	return c.AwaitOrViolate(sig, what, k.Done, mon.AwaitOpts{MaxTimer: 50 * time.Millisecond})
}

// sendMsg sends body b with SendMsg; on error the message must still be the caller's, intact.
func sendMsg(c *mon.Case, who string, s interface {
	SendMsg(*mangos.Message) error
}, b []byte) error {
	m := mangos.NewMessage(len(b))
	m.Body = append(m.Body, b...)
	err := s.SendMsg(m)
	if err != nil {
		checkReturned(c, who, m, b, err)
		m.Free()
	}
	return err
}

func checkReturned(c *mon.Case, who string, m *mangos.Message, b []byte, err error) {
	if rc := mangos.VerifRefcnt(m); rc != 1 {
		c.Violate("owner/failed-send-not-returned:"+errName(err), "%s: SendMsg failed with %v but the message's reference count is %d (on failure the message stays with the caller)", who, err, rc)
	}
	if !bytes.Equal(m.Body, b) {
		c.Violate("owner/failed-send-body-changed:"+errName(err), "%s: SendMsg failed with %v and the body came back altered: %x... want %x...", who, err, head(m.Body), head(b))
	}
	c.Count("failed_sends_checked", 1)
}

func errName(err error) string {
	switch err {
	case mangos.ErrSendTimeout:
		return "timeout"
	case mangos.ErrClosed:
		return "closed"
	case mangos.ErrNoPeers:
		return "nopeers"
	case mangos.ErrProtoState:
		return "protostate"
	case mangos.ErrProtoOp:
		return "protoop"
	}
	return "other"
}

// ---------------------------------------------------------------------------

func connectAll(c *mon.Case, tr string, srv mangos.Socket, clis ...mangos.Socket) bool {
	ws := hx.WatchPipes(srv)
	for _, cl := range clis {
		wc := hx.WatchPipes(cl)
		if _, _, err := hx.Connect(srv, cl, tr); err != nil {
			c.Inconclusive("setup: %v", err)
			return false
		}
		if !hx.WaitAttached(c, wc, 1, "client side") {
			return false
		}
	}
	return hx.WaitAttached(c, ws, len(clis), "server side")
}

func runFanout(c *mon.Case, sp spec) {
	k := &keeper{c: c}
	var wg sync.WaitGroup
	n := sp.N
	send := func(s mangos.Socket, base uint32) bool {
		for i := 0; i < n; i++ {
			b := body(base+uint32(i), sizeFor(c.Rand, i))
			if err := sendMsg(c, "sender", s, b); err != nil {
				c.Violate("harness:send-error", "SendMsg: %v", err)
				return false
			}
			if i%8 == 7 {
				mon.Sleep(300 * time.Microsecond) // keep best-effort queues far from overflow
			}
		}
		return true
	}
	switch sp.Pat {
	case "pubsub":
		pub := hx.MustSock(c, "pub")
		var subs []mangos.Socket
		for i := 0; i < 3; i++ {
			s := hx.MustSock(c, "sub")
			s.SetOption(mangos.OptionSubscribe, []byte{})
			subs = append(subs, s)
		}
		if !connectAll(c, sp.Tran, pub, subs...) {
			return
		}
		for i, s := range subs {
			who := fmt.Sprintf("sub%d", i)
			wg.Add(1)
			go recvLoop(c, k, who, s.RecvMsg, expectBody, n, &wg)
			for j := 0; j < 2; j++ {
				cx, err := s.OpenContext()
				if err != nil {
					c.Violate("harness:ctx", "%v", err)
					return
				}
				cx.SetOption(mangos.OptionSubscribe, []byte{})
				wg.Add(1)
				go recvLoop(c, k, fmt.Sprintf("%s.ctx%d", who, j), cx.RecvMsg, expectBody, n, &wg)
			}
		}
		if !send(pub, 1000) {
			return
		}
	case "bus", "star":
		proto := sp.Pat
		hub := hx.MustSock(c, proto)
		var leaves []mangos.Socket
		for i := 0; i < 3; i++ {
			leaves = append(leaves, hx.MustSock(c, proto))
		}
		if !connectAll(c, sp.Tran, hub, leaves...) {
			return
		}
		for i, s := range leaves {
			wg.Add(1)
			go recvLoop(c, k, fmt.Sprintf("leaf%d", i), s.RecvMsg, expectBody, n, &wg)
		}
		if !send(hub, 2000) {
			return
		}
	case "survey":
		sv := hx.MustSock(c, "surveyor")
		sv.SetOption(mangos.OptionSurveyTime, time.Hour)
		var rs []mangos.Socket
		for i := 0; i < 3; i++ {
			rs = append(rs, hx.MustSock(c, "respondent"))
		}
		if !connectAll(c, sp.Tran, sv, rs...) {
			return
		}
		rounds := n / 6
		if rounds < 3 {
			rounds = 3
		}
		for i, r := range rs {
			i, r := i, r
			wg.Add(1)
			go func() {
				defer wg.Done()
				for q := 0; q < rounds; q++ {
					m, err := r.RecvMsg()
					if err != nil {
						if !c.Failed() {
							c.Violate("harness:recv-error", "respondent RecvMsg: %v", err)
						}
						return
					}
					id, _, _ := idOf(m.Body)
					k.take(fmt.Sprintf("respondent%d", i), m, expectBody(m))
					if err := sendMsg(c, "respondent", r, body(id*10+uint32(i), 40+int(id%7)*900)); err != nil {
						c.Violate("harness:send-error", "respondent SendMsg: %v", err)
						return
					}
				}
			}()
		}
		for q := 0; q < rounds; q++ {
			if err := sendMsg(c, "surveyor", sv, body(3000+uint32(q), sizeFor(c.Rand, q))); err != nil {
				c.Violate("harness:send-error", "surveyor SendMsg: %v", err)
				return
			}
			var rw sync.WaitGroup
			rw.Add(1)
			go recvLoop(c, k, "surveyor", sv.RecvMsg, expectBody, len(rs), &rw)
			if !await(c, "owner/fanout-stuck:survey", "surveyor receiving every respondent's answer", &rw) {
				return
			}
		}
	}
	if !await(c, "owner/fanout-stuck:"+sp.Pat, "every receiver of the fan-out getting every message ("+sp.Pat+")", &wg) {
		return
	}
	k.flush()
	c.Count("messages_received", k.n)
	c.Nontrivial()
}

func runPipeline(c *mon.Case, sp spec) {
	k := &keeper{c: c}
	var wg sync.WaitGroup
	n := sp.N
	switch sp.Pat {
	case "pair", "pair1":
		a, b := hx.MustSock(c, sp.Pat), hx.MustSock(c, sp.Pat)
		if !connectAll(c, sp.Tran, a, b) {
			return
		}
		wg.Add(2)
		go recvLoop(c, k, "B", b.RecvMsg, expectBody, n, &wg)
		go recvLoop(c, k, "A", a.RecvMsg, expectBody, n, &wg)
		var sw sync.WaitGroup
		for _, x := range []struct {
			s    mangos.Socket
			base uint32
		}{{a, 100}, {b, 200}} {
			x := x
			sw.Add(1)
			go func() {
				defer sw.Done()
				for i := 0; i < n; i++ {
					if err := sendMsg(c, "pair", x.s, body(x.base*1000+uint32(i), sizeFor(hx.NewRand(int64(i)), i))); err != nil {
						c.Violate("harness:send-error", "SendMsg: %v", err)
						return
					}
				}
			}()
		}
		if !await(c, "owner/pipeline-stuck:"+sp.Pat, "PAIR senders finishing", &sw) {
			return
		}
	case "pushpull":
		push := hx.MustSock(c, "push")
		p1, p2 := hx.MustSock(c, "pull"), hx.MustSock(c, "pull")
		if !connectAll(c, sp.Tran, push, p1, p2) {
			return
		}
		// two pullers share n messages: each loops until the shared count is reached
		var got atomic.Int64
		stop := make(chan struct{})
		for i, p := range []mangos.Socket{p1, p2} {
			i, p := i, p
			p.SetOption(mangos.OptionRecvDeadline, 20*time.Millisecond)
			wg.Add(1)
			go func() {
				defer wg.Done()
				for {
					select {
					case <-stop:
						return
					default:
					}
					m, err := p.RecvMsg()
					if err == mangos.ErrRecvTimeout {
						continue
					}
					if err != nil {
						return
					}
					k.take(fmt.Sprintf("pull%d", i), m, expectBody(m))
					got.Add(1)
				}
			}()
		}
		for i := 0; i < n; i++ {
			if err := sendMsg(c, "push", push, body(5000+uint32(i), sizeFor(c.Rand, i))); err != nil {
				c.Violate("harness:send-error", "SendMsg: %v", err)
				close(stop)
				return
			}
		}
		ok := c.AwaitOrViolate("owner/pipeline-stuck:pushpull", "PULL peers receiving every pushed message", func() bool { return got.Load() >= int64(n) }, mon.AwaitOpts{MaxTimer: 20 * time.Millisecond, Ignore: []string{"props/c17.runPipeline"}})
		mon.Sleep(25 * time.Millisecond)
		if got.Load() > int64(n) {
			c.Violate("owner/pushpull-extra-message", "%d messages pushed, %d pulled", n, got.Load())
		}
		close(stop)
		if !ok {
			return
		}
	case "reqrep":
		rq, rp := hx.MustSock(c, "req"), hx.MustSock(c, "rep")
		rq.SetOption(mangos.OptionRetryTime, time.Hour)
		if !connectAll(c, sp.Tran, rp, rq) {
			return
		}
		rounds := n / 3
		// two REP contexts serve, two REQ contexts ask
		for j := 0; j < 2; j++ {
			cx, err := rp.OpenContext()
			if err != nil {
				c.Violate("harness:ctx", "%v", err)
				return
			}
			j := j
			go func() {
				for {
					m, err := cx.RecvMsg()
					if err != nil {
						return
					}
					id, _, _ := idOf(m.Body)
					k.take(fmt.Sprintf("rep.ctx%d", j), m, expectBody(m))
					if sendMsg(c, "rep", cx, body(id+1_000_000, 30+int(id%5)*700)) != nil {
						return
					}
				}
			}()
		}
		for j := 0; j < 2; j++ {
			cx, err := rq.OpenContext()
			if err != nil {
				c.Violate("harness:ctx", "%v", err)
				return
			}
			j := j
			wg.Add(1)
			go func() {
				defer wg.Done()
				for q := 0; q < rounds; q++ {
					id := uint32(7000 + j*1000 + q)
					if err := sendMsg(c, "req", cx, body(id, sizeFor(hx.NewRand(int64(q+j)), q))); err != nil {
						c.Violate("harness:send-error", "req SendMsg: %v", err)
						return
					}
					m, err := cx.RecvMsg()
					if err != nil {
						if !c.Failed() {
							c.Violate("harness:recv-error", "req RecvMsg: %v", err)
						}
						return
					}
					rid, _, _ := idOf(m.Body)
					if rid != id+1_000_000 {
						c.Violate("owner/received-body-wrong:other-message", "req.ctx%d got the reply to %d while waiting for the reply to %d", j, rid-1_000_000, id)
					}
					k.take(fmt.Sprintf("req.ctx%d", j), m, expectBody(m))
				}
			}()
		}
	}
	if !await(c, "owner/pipeline-stuck:"+sp.Pat, "receivers finishing ("+sp.Pat+")", &wg) {
		return
	}
	k.flush()
	c.Count("messages_received", k.n)
	c.Nontrivial()
}

// ---------------------------------------------------------------------------

// runOutcome drives every send outcome of one protocol over a vt peer and checks who owns
// the message afterwards.
func runOutcome(c *mon.Case, sp spec) {
	p := sp.Pat
	s := hx.MustSock(c, p)
	if p == "req" || p == "xreq" {
		s.SetOption(mangos.OptionRetryTime, time.Duration(0))
	}
	name := hx.Uniq("c17")
	L := vt.L(name)
	c.Cleanup(func() { vt.Forget(name) })
	if err := s.Listen(vt.Addr(name)); err != nil {
		c.Inconclusive("setup: %v", err)
		return
	}
	w := hx.WatchPipes(s)
	hdr := func(m *mangos.Message) {
		switch p {
		case "xpair1", "xstar":
			m.Header = append(m.Header, 0, 0, 0, 0)
		case "xreq", "xsurveyor":
			m.Header = append(m.Header, 0x80, 0, 0, 9)
		case "xrep", "xrespondent":
			// a reply is addressed by the pipe id leading its header (none while no peer is attached)
			var id uint32
			if ps := w.Pipes(); len(ps) > 0 {
				id = ps[len(ps)-1].ID()
			}
			m.Header = append(m.Header, byte(id>>24), byte(id>>16), byte(id>>8), byte(id), 0x80, 0, 0, 9)
		}
	}
	outcomes := map[string]int{}
	try := func(tag string, n int) (lastErr error) {
		for i := 0; i < n; i++ {
			b := body(uint32(9000+i), sizeFor(c.Rand, i))
			m := mangos.NewMessage(len(b))
			m.Body = append(m.Body, b...)
			hdr(m)
			k := mon.Go("SendMsg", func() (interface{}, error) { return nil, s.SendMsg(m) })
			if !c.AwaitOrViolate("owner/send-stuck:"+p+"/"+tag, p+": SendMsg ("+tag+") returning", k.Done, mon.AwaitOpts{MaxTimer: 10 * time.Millisecond}) {
				return nil
			}
			_, err, _ := k.Result()
			lastErr = err
			outcomes[tag+":"+errName2(err)]++
			if err != nil {
				checkReturned(c, p+"/"+tag, m, b, err)
				m.Free()
			} else {
				c.Count("accepted_sends", 1)
			}
		}
		return
	}
	// 1. no peer, short deadline: timeout / protocol errors / best-effort accept
	s.SetOption(mangos.OptionSendDeadline, 5*time.Millisecond)
	try("nopeer-deadline", 3)
	// 2. fail-no-peers
	if s.SetOption(mangos.OptionFailNoPeers, true) == nil {
		try("fail-no-peers", 2)
		s.SetOption(mangos.OptionFailNoPeers, false)
	}
	// 3. best effort with no peer
	if s.SetOption(mangos.OptionBestEffort, true) == nil {
		try("best-effort-nopeer", 3)
		s.SetOption(mangos.OptionBestEffort, false)
	}
	// 4. a silent peer (transport Send blocks), queue filling up, deadline
	vp := L.Connect()
	if !hx.WaitAttached(c, w, 1, "vt peer") {
		return
	}
	vp.HoldSends()
	s.SetOption(mangos.OptionWriteQLen, 2)
	try("slow-peer-deadline", 8)
	if s.SetOption(mangos.OptionBestEffort, true) == nil {
		try("slow-peer-best-effort", 6)
		s.SetOption(mangos.OptionBestEffort, false)
	}
	vp.ReleaseSends()
	// 5. a working peer
	try("peer-ok", 6)
	// 6. the peer goes away mid-traffic
	vp.Drop()
	try("peer-dropped", 4)
	// 6b. sends with no deadline parked behind a silent peer; the peer goes away while they wait,
	// then the socket closes under whatever is still waiting (for a peer)
	type parked struct {
		k *mon.Call
		m *mangos.Message
		b []byte
	}
	var pk []parked
	if hx.WaitDetached(c, w, 1, "dropped vt peer") {
		vp2 := L.Connect()
		if hx.WaitAttached(c, w, 2, "second vt peer") {
			vp2.HoldSends()
			s.SetOption(mangos.OptionSendDeadline, time.Duration(0))
			for i := 0; i < 8; i++ {
				b := body(uint32(9500+i), sizeFor(c.Rand, i))
				m := mangos.NewMessage(len(b))
				m.Body = append(m.Body, b...)
				hdr(m)
				pk = append(pk, parked{mon.Go("SendMsg", func() (interface{}, error) { return nil, s.SendMsg(m) }), m, b})
			}
			settled := func() bool {
				for _, q := range pk {
					if !q.k.Done() && !q.k.ParkedIn("SendMsg") {
						return false
					}
				}
				return true
			}
			mon.Await(settled, mon.AwaitOpts{Watchdog: 3 * time.Second})
			nparked := 0
			for _, q := range pk {
				if !q.k.Done() {
					nparked++
				}
			}
			c.Count("sends_parked_behind_silent_peer", nparked)
			vp2.Drop()
			hx.WaitDetached(c, w, 2, "second vt peer dropped")
			mon.Await(func() bool {
				for _, q := range pk {
					if !q.k.Done() {
						return false
					}
				}
				return true
			}, mon.AwaitOpts{Watchdog: 300 * time.Millisecond}) // (not a verdict: only which outcome column the result is counted in)
			for i := range pk {
				if q := pk[i]; q.k.Done() && q.m != nil {
					_, err, _ := q.k.Result()
					outcomes["parked-peer-dropped:"+errName2(err)]++
					if err != nil {
						checkReturned(c, p+"/parked-peer-dropped", q.m, q.b, err)
						q.m.Free()
					}
					pk[i].m = nil
				}
			}
		}
	}
	// 7. closed socket
	s.Close()
	for _, q := range pk {
		if q.m == nil {
			continue
		}
		if !c.AwaitOrViolate("owner/send-stuck:"+p+"/parked-closed", p+": SendMsg parked at Close returning", q.k.Done, mon.AwaitOpts{MaxTimer: 10 * time.Millisecond}) {
			return
		}
		_, err, _ := q.k.Result()
		outcomes["parked-closed:"+errName2(err)]++
		if err != nil {
			checkReturned(c, p+"/parked-closed", q.m, q.b, err)
			q.m.Free()
		}
	}
	try("closed", 3)
	for k, v := range outcomes {
		c.Count("outcome_"+k, v)
	}
	c.Nontrivial()
}

func errName2(err error) string {
	if err == nil {
		return "accepted"
	}
	return errName(err)
}

// runReqRetain: REQ keeps its request for retransmission while the transport frees each copy.
func runReqRetain(c *mon.Case, sp spec) {
	rig := hx.NewReqRig(c, "req", 2, 2)
	if c.Failed() {
		return
	}
	rig.SetAll(mangos.OptionRetryTime, 15*time.Millisecond)
	want := rig.ReqBody(1, 1)
	want = append(want, body(77, 3000)...)
	k := mon.Go("Send", func() (interface{}, error) { return nil, rig.Ctxs[1].Send(append([]byte{}, want...)) })
	if !c.AwaitOrViolate("owner/req-send-stuck", "REQ Send", k.Done, mon.AwaitOpts{MaxTimer: 15 * time.Millisecond}) {
		return
	}
	txs, ok := rig.AwaitTx(1, 1, sp.N, 15*time.Millisecond, "owner/req-no-retransmission")
	if !ok {
		return
	}
	for j, tx := range txs {
		if !bytes.Equal(tx.Wire[4:], want) {
			cls := "content"
			if bytes.Contains(tx.Wire, bytes.Repeat([]byte{0xDB}, 8)) {
				cls = "poison"
			}
			c.Violate("owner/retransmission-body-wrong:"+cls, "retransmission %d of a retained request differs from the request (%s): %x...", j, cls, head(tx.Wire[4:]))
		}
	}
	c.Count("retransmissions_compared", len(txs))
	rig.Pipes[0].Inject(hx.ReplyWire(txs[0].ID, 1))
	r := mon.Go("Recv", func() (interface{}, error) { b, e := rig.Ctxs[1].Recv(); return b, e })
	c.AwaitOrViolate("owner/req-recv-stuck", "REQ Recv of the reply", r.Done, mon.AwaitOpts{MaxTimer: 15 * time.Millisecond})
	c.Nontrivial()
}

// runNewMsg: a new message of any size starts empty with enough capacity, also when its
// buffer was used (and dirtied) before.
func runNewMsg(c *mon.Case, sp spec) {
	sizes := []int{}
	for s := 0; s <= 1100; s++ {
		sizes = append(sizes, s)
	}
	for _, cl := range classes {
		for d := -3; d <= 3; d++ {
			sizes = append(sizes, cl+d)
		}
	}
	for i := 0; i < 60; i++ {
		sizes = append(sizes, c.Rand.Intn(70001))
	}
	for round := 0; round < 2; round++ {
		for _, sz := range sizes {
			if sz < 0 {
				continue
			}
			m := mangos.NewMessage(sz)
			if len(m.Body) != 0 || len(m.Header) != 0 || cap(m.Body) < sz {
				c.Violate("owner/new-message-not-empty", "NewMessage(%d): len(Body)=%d len(Header)=%d cap(Body)=%d (want 0, 0, >= %d)", sz, len(m.Body), len(m.Header), cap(m.Body), sz)
				return
			}
			// dirty it completely, as an application may
			m.Body = m.Body[:cap(m.Body)]
			for i := range m.Body {
				m.Body[i] = 0xA5
			}
			m.Header = append(m.Header, 1, 2, 3, 4, 5, 6, 7, 8)
			d := m.Dup()
			if !bytes.Equal(d.Body, m.Body) || !bytes.Equal(d.Header, m.Header) || mangos.VerifRefcnt(d) != 1 {
				c.Violate("owner/dup-differs", "Dup of a %d-byte message is not an independent equal copy", sz)
			}
			m.Clone()
			u := m.MakeUnique() // shared -> must be a private copy
			if u == m || !bytes.Equal(u.Body, d.Body) {
				c.Violate("owner/makeunique-shared", "MakeUnique on a shared message (refcount 2) did not return a private equal copy")
			}
			u.Free()
			d.Free()
			m.Free()
			c.Count("new_message_sizes", 1)
		}
	}
	c.Nontrivial()
}

// runReuseBuf: Send(b) must not keep b — the caller may reuse its buffer as soon as Send returns,
// while the message is still queued or in flight.  One buffer is reused (and scribbled over) for
// every message; sizes include the region above the largest pool class.
func runReuseBuf(c *mon.Case, sp spec) {
	sizes := []int{65535, 65536, 65537, 70000, 100000, 131072, 200000, 8, 63, 64, 1000, 4096, 8192, 65000}
	n := sp.N
	var snd, rcv mangos.Socket
	var extra []mangos.Socket
	switch sp.Pat {
	case "pair":
		snd, rcv = hx.MustSock(c, "pair"), hx.MustSock(c, "pair")
	case "pushpull":
		snd, rcv = hx.MustSock(c, "push"), hx.MustSock(c, "pull")
	case "pubsub":
		snd, rcv = hx.MustSock(c, "pub"), hx.MustSock(c, "sub")
		rcv.SetOption(mangos.OptionSubscribe, []byte{})
		x := hx.MustSock(c, "sub")
		x.SetOption(mangos.OptionSubscribe, []byte{})
		extra = append(extra, x)
	case "bus":
		snd, rcv = hx.MustSock(c, "bus"), hx.MustSock(c, "bus")
		extra = append(extra, hx.MustSock(c, "bus"))
	case "reqrep":
		snd, rcv = hx.MustSock(c, "req"), hx.MustSock(c, "rep")
		snd.SetOption(mangos.OptionRetryTime, time.Hour)
	}
	if !connectAll(c, sp.Tran, snd, append([]mangos.Socket{rcv}, extra...)...) {
		return
	}
	var wg sync.WaitGroup
	got := 0
	var mu sync.Mutex
	recvOne := func(who string, s mangos.Socket) bool {
		b, err := s.Recv()
		if err != nil {
			if !c.Failed() {
				c.Violate("harness:recv-error", "%s Recv: %v", who, err)
			}
			return false
		}
		id, ln, ok := idOf(b)
		var want []byte
		if ok && ln <= 1<<21 {
			want = body(id, ln)
		}
		if !bytes.Equal(b, want) {
			c.Violate("owner/send-kept-callers-buffer", "%s received %d bytes %x... that are not what was sent: the bytes passed to Send changed after Send had returned (the caller reused its buffer), so the library did not copy them", who, len(b), head(b))
			return false
		}
		mu.Lock()
		got++
		mu.Unlock()
		return true
	}
	for i, r := range append([]mangos.Socket{rcv}, extra...) {
		i, r := i, r
		wg.Add(1)
		go func() {
			defer wg.Done()
			for q := 0; q < n; q++ {
				if !recvOne(fmt.Sprintf("receiver%d", i), r) {
					return
				}
				if sp.Pat == "reqrep" {
					if err := r.Send([]byte("ok")); err != nil {
						return
					}
				}
			}
		}()
	}
	buf := make([]byte, 200000)
	sender := mon.Go("sender", func() (interface{}, error) {
		for q := 0; q < n && !c.Failed(); q++ {
			sz := sizes[(q+c.Rand.Intn(3))%len(sizes)]
			copy(buf, body(uint32(40000+q), sz))
			if err := snd.Send(buf[:sz]); err != nil {
				return nil, err
			}
			// the caller owns buf again: scribble over it at once
			for i := 0; i < sz; i++ {
				buf[i] = 0x5A
			}
			if sp.Pat == "reqrep" {
				if _, err := snd.Recv(); err != nil {
					return nil, err
				}
			} else if q%4 == 3 {
				mon.Sleep(300 * time.Microsecond) // best-effort patterns: stay far from queue overflow
			}
		}
		return nil, nil
	})
	if !c.AwaitOrViolate("owner/reusebuf-stuck:"+sp.Pat, "sender finishing", sender.Done, mon.AwaitOpts{MaxTimer: 10 * time.Millisecond}) {
		return
	}
	if _, err, _ := sender.Result(); err != nil && !c.Failed() {
		c.Violate("harness:send-error", "sender: %v", err)
		return
	}
	if c.Failed() {
		return
	}
	if !await(c, "owner/reusebuf-stuck:"+sp.Pat, "receivers getting every message", &wg) {
		return
	}
	c.Count("messages_received", got)
	c.Nontrivial()
}
