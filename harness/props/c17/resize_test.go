//go:build verif

package c17

import (
	"fmt"
	"strings"
	"time"

	"go.nanomsg.org/mangos/v3"

	"verifharness/hx"
	"verifharness/mon"
	"verifharness/vt"
)

// runResize: OptionReadQLen is changed on a receiving socket while it is backed up, i.e. while
// its receive queue is full and (for the protocols whose pipe readers wait for room rather than
// drop) every pipe's reader goroutine is parked holding a message it could not queue.  Whatever
// the resize does with the queued and the held messages — move them, keep them for the new queue,
// discard them — anything the application is handed afterwards must be a message of its own:
// intact, held by nobody else, not one it already holds, unchanged by the traffic that follows.
// Nothing is demanded about which messages survive the resize.
//
// Tran "vt": the harness is the peer (it knows what the library has consumed, so a round ends when
// the library is idle and RecvMsg is parked).  Other transports: real peer sockets; a round ends
// at a sentinel message per connection (FIFO), or when the connection was closed by the resize.

type rzProto struct {
	name     string
	peer     string // cooked peer for real transports ("" = vt only)
	pre      []byte // what leads the payload on the wire (hop count / request id)
	single   bool   // one peer at a time
	blocking bool   // the pipe reader waits for room in the receive queue, holding the message
}

var hops0 = []byte{0, 0, 0, 0}
var rid7 = []byte{0x80, 0, 0, 7}

var rzProtos = []rzProto{
	{"pair", "pair", nil, true, true}, {"xpair", "pair", nil, true, true},
	{"pair1", "pair1", hops0, true, true}, {"xpair1", "pair1", hops0, true, true},
	{"pull", "push", nil, false, true}, {"xpull", "push", nil, false, true},
	{"bus", "bus", nil, false, true}, {"xbus", "bus", nil, false, true},
	{"star", "star", hops0, false, true}, {"xstar", "star", hops0, false, true},
	{"xreq", "", rid7, false, true}, {"xrep", "", rid7, false, true},
	{"xsurveyor", "", rid7, false, true}, {"xrespondent", "", rid7, false, true},
	{"respondent", "", rid7, false, true},
	{"sub", "", nil, true, false}, {"xsub", "", nil, true, false},
}

func rzByName(n string) rzProto {
	for _, p := range rzProtos {
		if p.name == n {
			return p
		}
	}
	panic("resize: protocol " + n)
}

// parkedReceivers counts library goroutines parked in the select of a protocol's pipe reader
// (".(*pipe).receiver" itself, not a transport Recv below it): readers holding a message.
func parkedReceivers() int {
	n := 0
	for _, g := range mon.Dump() {
		if g.State != "select" {
			continue
		}
		for _, f := range g.Frames {
			if strings.HasPrefix(f, "runtime.") {
				continue
			}
			if strings.Contains(f, ".(*pipe).receiver") {
				n++
			}
			break
		}
	}
	return n
}

const rzSentinel = 900000

func runResize(c *mon.Case, sp spec) {
	pr := rzByName(sp.Pat)
	R := hx.MustSock(c, pr.name)
	R.SetOption(mangos.OptionSubscribe, []byte{}) // (only SUB knows it)
	npipes := 1
	if !pr.single {
		npipes = 1 + c.Rand.Intn(2)
	}
	small := func() int {
		if !pr.blocking {
			return 1 + c.Rand.Intn(3) // a SUB queue of 0 holds nothing at all
		}
		return c.Rand.Intn(3)
	}
	q0 := small()
	if err := R.SetOption(mangos.OptionReadQLen, q0); err != nil {
		c.Inconclusive("setup: %s ReadQLen=%d: %v", pr.name, q0, err)
		return
	}
	base := parkedReceivers()

	// connections
	useVT := sp.Tran == "vt"
	var vps []*vt.Pipe
	var peers []mangos.Socket
	var pws []*hx.PipeWatch
	var L *vt.ListenerCtl
	var addr string
	w := hx.WatchPipes(R)
	attached := 0
	connect := func(i int) bool {
		if useVT {
			vps[i] = L.Connect()
		} else {
			p := hx.MustSock(c, pr.peer)
			p.SetOption(mangos.OptionSendDeadline, 2*time.Second)
			peers[i], pws[i] = p, hx.WatchPipes(p)
			d, err := p.NewDialer(addr, tlsOpt(sp.Tran, false))
			if err == nil {
				d.SetOption(mangos.OptionReconnectTime, time.Hour) // a connection the resize closed is replaced by the script, not behind its back
				d.SetOption(mangos.OptionMaxReconnectTime, time.Hour)
				err = d.Dial()
			}
			if err != nil {
				c.Inconclusive("setup: dial: %v", err)
				return false
			}
			if !hx.WaitAttached(c, pws[i], 1, "peer side") {
				return false
			}
		}
		attached++
		return hx.WaitAttached(c, w, attached, "receiver side")
	}
	if useVT {
		name := hx.Uniq("c17rz")
		L = vt.L(name)
		c.Cleanup(func() { vt.Forget(name) })
		if err := R.Listen(vt.Addr(name)); err != nil {
			c.Inconclusive("setup: %v", err)
			return
		}
		vps = make([]*vt.Pipe, npipes)
	} else {
		l, err := R.NewListener(hx.ListenAddr(sp.Tran), tlsOpt(sp.Tran, true))
		if err == nil {
			err = l.Listen()
		}
		if err != nil {
			c.Inconclusive("setup: listen: %v", err)
			return
		}
		addr = l.Address()
		peers, pws = make([]mangos.Socket, npipes), make([]*hx.PipeWatch, npipes)
	}
	for i := 0; i < npipes; i++ {
		if !connect(i) {
			return
		}
	}
	feed := func(i int, b []byte) bool {
		if useVT {
			vps[i].Inject(hx.Cat(pr.pre, b))
			return true
		}
		return sendMsg(c, "peer", peers[i], b) == nil
	}
	lost := func(i int) bool {
		if useVT {
			cl, _, _ := vps[i].Closed()
			return cl
		}
		return pws[i].Detached() > 0
	}
	// vt: the library consumed everything fed and every reader is back in the transport
	idle := func() bool {
		for _, p := range vps {
			if cl, _, _ := p.Closed(); cl {
				continue
			}
			if rw, _ := p.Waiters(); p.Pending() != 0 || rw == 0 {
				return false
			}
		}
		return true
	}

	k := &keeper{c: c, all: true, tag: "@resize", ptrs: map[*mangos.Message]string{}}
	var pending *mon.Call
	got := 0
	// recvOne: the next message, or (nil, true) when none can arrive any more (RecvMsg stays
	// parked and is reused), or (nil, false) when that cannot be decided.
	recvOne := func(who string, nothingMore func() bool) (*mangos.Message, bool) {
		if pending == nil {
			pending = mon.Go("RecvMsg", func() (interface{}, error) { m, e := R.RecvMsg(); return m, e })
		}
		call := pending
		polls := 0
		r := mon.Await(func() bool {
			if call.Done() {
				return true
			}
			if polls++; polls < 3 {
				return false
			}
			return nothingMore() && parkedNow(call, "RecvMsg") && !call.Done()
		}, mon.AwaitOpts{MaxTimer: 10 * time.Millisecond})
		if !call.Done() {
			if r.V != mon.Done {
				// delivery around a resize is not this property's subject
				c.Inconclusive("%s: RecvMsg neither returned nor is known to have nothing to return (%v)", who, r.V)
				return nil, false
			}
			return nil, true
		}
		pending = nil
		v, err, _ := call.Result()
		if err != nil {
			c.Violate("harness:recv-error", "%s: RecvMsg: %v", who, err)
			return nil, false
		}
		m := v.(*mangos.Message)
		k.take(who, m, expectBody(m))
		got++
		return m, true
	}
	never := func() bool { return false }
	rounds := sp.N // resizes of a backed-up queue
	backedUp, fullQ, resizes, heldAcross := 0, 0, 0, 0
	awaitBackedUp := func() bool {
		if pr.blocking {
			return mon.Await(func() bool { return parkedReceivers()-base >= npipes }, mon.AwaitOpts{Watchdog: 3 * time.Second}).V == mon.Done
		}
		return mon.Await(idle, mon.AwaitOpts{Watchdog: 3 * time.Second}).V == mon.Done
	}
	for round := 0; round < rounds; round++ {
		if round > 0 {
			// everything was drained: back to a tiny queue
			q0 = small()
			if err := R.SetOption(mangos.OptionReadQLen, q0); err != nil {
				c.Violate("harness:setoption", "%s ReadQLen=%d: %v", pr.name, q0, err)
				return
			}
		}
		// messages the application takes before the resize and holds across it
		pre := c.Rand.Intn(3)
		if round == 0 && pre == 0 {
			pre = 1
		}
		if !pr.blocking && pre > q0 {
			pre = q0 // (a dropping reader keeps no more than the queue holds)
		}
		// a burst that fills the queue and leaves every reader with a message in hand, and more behind it
		for i := 0; i < npipes; i++ {
			n := q0 + pre + 2 + c.Rand.Intn(3)
			for j := 0; j < n; j++ {
				if !feed(i, body(uint32(round*10000+i*1000+j+1), sizeFor(c.Rand, j+round))) {
					break
				}
			}
		}
		awaitBackedUp()
		for j := 0; j < pre; j++ {
			m, ok := recvOne(fmt.Sprintf("%s (ReadQLen %d, backed up, round %d)", pr.name, q0, round), never)
			if !ok {
				return
			}
			if m != nil {
				heldAcross++
			}
		}
		if awaitBackedUp() {
			if pr.blocking {
				backedUp++
			} else {
				fullQ++
			}
		}
		// the resize
		q1 := []int{0, 1, 2, 3, 4, 8, 16, 64}[c.Rand.Intn(8)]
		if !pr.blocking && q1 == 0 {
			q1 = 5
		}
		set := mon.Go("SetOption", func() (interface{}, error) { return nil, R.SetOption(mangos.OptionReadQLen, q1) })
		if r := mon.Await(set.Done, mon.AwaitOpts{MaxTimer: 10 * time.Millisecond}); r.V != mon.Done {
			// (whether SetOption returns is not this property's subject)
			c.Inconclusive("%s: SetOption(ReadQLen, %d) on a backed-up socket did not return (%v)\n%s", pr.name, q1, r.V, r.Dump)
			return
		}
		if _, err, _ := set.Result(); err != nil {
			c.Violate("harness:setoption", "%s ReadQLen=%d: %v", pr.name, q1, err)
			return
		}
		resizes++
		// what ends the round
		need := map[int]bool{}
		if !useVT {
			for i := 0; i < npipes; i++ {
				if feed(i, body(uint32(rzSentinel+round*10+i), 8+c.Rand.Intn(200))) {
					need[i] = true
				}
			}
		}
		nothingMore := func() bool {
			if useVT {
				return idle()
			}
			for i := range need {
				if !lost(i) {
					return false
				}
			}
			return true
		}
		for useVT || len(need) > 0 {
			m, ok := recvOne(fmt.Sprintf("%s (ReadQLen %d->%d while backed up, round %d)", pr.name, q0, q1, round), nothingMore)
			if !ok {
				return
			}
			if m == nil {
				break
			}
			if id, _, ok := idOf(m.Body); ok && id >= rzSentinel && id < rzSentinel+1000 {
				delete(need, int(id-rzSentinel)%10)
			}
		}
		// connections the resize closed are replaced
		nlost := 0
		for i := 0; i < npipes; i++ {
			if lost(i) {
				nlost++
			}
		}
		if nlost > 0 && round+1 < rounds {
			if !hx.WaitDetached(c, w, attached-npipes+nlost, "the connections closed by the resize") {
				break
			}
			for i := 0; i < npipes; i++ {
				if lost(i) {
					if !useVT {
						peers[i].Close()
					}
					if !connect(i) {
						return
					}
				}
			}
			c.Count("connections_closed_by_a_resize", nlost)
		}
	}
	R.Close()
	if pending != nil {
		if r := mon.Await(pending.Done, mon.AwaitOpts{MaxTimer: 10 * time.Millisecond}); r.V != mon.Done {
			c.Inconclusive("%s: RecvMsg parked at Close did not return (%v)\n%s", pr.name, r.V, r.Dump)
			return
		}
		if v, err, _ := pending.Result(); err == nil {
			m := v.(*mangos.Message)
			k.take(pr.name+" (at Close)", m, expectBody(m))
			got++
		}
	}
	k.flush()
	c.Count("resizes_of_a_loaded_receive_queue", resizes)
	c.Count("resizes_with_every_reader_holding_a_message", backedUp)
	c.Count("resizes_with_a_full_queue_of_a_dropping_reader", fullQ)
	c.Count("messages_held_across_a_resize", heldAcross)
	c.Count("messages_received", got)
	if got == 0 {
		c.Inconclusive("%s: nothing was received", pr.name)
		return
	}
	c.Nontrivial()
}

// parkedNow reports whether the call's goroutine is parked right now with a frame containing substr.
func parkedNow(call *mon.Call, substr string) bool {
	for _, g := range mon.Dump() {
		if g.ID == call.GID {
			// (waiting for an event, not for a lock it will get in a moment)
			return (g.State == "select" || g.State == "chan receive" || g.State == "chan send" || g.State == "sync.Cond.Wait") && g.HasFrame(substr)
		}
	}
	return false
}

func tlsOpt(tr string, server bool) map[string]interface{} {
	if !hx.NeedsTLS(tr) {
		return nil
	}
	s, cl := hx.TLSConfigs()
	if server {
		return map[string]interface{}{mangos.OptionTLSConfig: s}
	}
	return map[string]interface{}{mangos.OptionTLSConfig: cl}
}
