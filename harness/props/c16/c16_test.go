package c16

import (
	"bytes"
	"fmt"
	"net"
	"strings"
	"testing"
	"time"

	"github.com/gorilla/websocket"
	"go.nanomsg.org/mangos/v3"

	"verifharness/hx"
	"verifharness/mon"
	"verifharness/props/c15/spcodec"
)

// C16 — a hostile or broken peer cannot crash, stall or pollute a socket.
//
// Case kinds:
//   proto  every pattern (cooked and raw) over vt pipes: hostile transport messages vs the
//          reference model, sentinel per round, control peer on a second pipe
//   smem   hostile byte streams into transport.NewConnPipe[IPC]/NewConnHandshaker over net.Pipe
//   sreal  hostile byte streams over real tcp / tls+tcp / ipc connections into a socket that
//          also serves a well-behaved control peer; library as listener and as dialer
//   wslim  websocket messages around the receive limit
//   stall  K connections that never complete their handshake, then a good peer
//   reject a burst of K peers whose handshake is complete and wrong (stream header, TLS, websocket
//          subprotocol, failing Accept), then a good peer; further rounds (reject_test.go)
//   flood  K broken peers of a cooked SURVEYOR / REQ socket answer the current id over and over
//          while the application abandons, expires and closes what they answer (flood_test.go)
//
// A panic in a library goroutine kills the child process; the driver reports the
// running case as crashed.  Every injection is written to stderr before it is made.

type spec struct {
	Kind   string `json:"kind"`
	Sock   string `json:"sock"`
	Tr     string `json:"tr,omitempty"`
	Role   string `json:"role,omitempty"`
	TTL    int    `json:"ttl,omitempty"`
	Subs   int    `json:"subs,omitempty"`
	Rounds int    `json:"rounds,omitempty"`
	Limit  int    `json:"limit,omitempty"`
	N      int    `json:"n,omitempty"`
	K      int    `json:"k,omitempty"`
	Mode   string `json:"mode,omitempty"`
	// Late: the receive limit is not the socket's when the listener is made but is set on the
	// listener itself after Listen; connections accepted afterwards are held to it
	Late bool `json:"late,omitempty"`
	// flood: contexts besides the socket's own, answers a peer keeps unread at most (vt) or gives to each
	// request/survey in a row (real transports), survey time (microseconds), receive queue length (0: default)
	Ctx int `json:"ctx,omitempty"`
	W   int `json:"w,omitempty"`
	ST  int `json:"st_us,omitempty"`
	Q   int `json:"q,omitempty"`
}

func TestMain(m *testing.M) { hx.Main(m) }

var deliverers = []string{"xbus", "xpull", "xsub"} // raw sockets that hand every payload to the application

func TestC16(t *testing.T) {
	r := mon.NewRunner(t, "C16")
	rnd := r.Rand()
	var cases []mon.CaseSpec

	// protocol level: ~22 rounds x ~4.5 bodies per case (<= 200 injections)
	for rep := 0; rep < r.Pick(100, 1800); rep++ {
		for _, s := range hx.AllProtos {
			sp := spec{Kind: "proto", Sock: s, Rounds: 16 + rnd.Intn(12)}
			switch family(s) {
			case "bt":
				sp.TTL = []int{0, 2, 3, 5, 8}[rnd.Intn(5)]
			case "hop":
				sp.TTL = []int{0, 1, 2, 3, 5}[rnd.Intn(5)]
			case "sub":
				sp.Subs = rnd.Intn(len(subSets))
			}
			cases = append(cases, mon.CaseSpec{Name: "proto", Spec: sp})
		}
	}
	// in-memory streams
	for i := 0; i < r.Pick(1200, 18000); i++ {
		tr := []string{"tcp", "ipc"}[i%2]
		lim := limits[rnd.Intn(len(limits))]
		n := 100
		if lim >= 65536 {
			n = 30
		}
		mode := ""
		if i%10 == 9 {
			mode = "trunc" // one well-formed stream cut at every offset
		}
		cases = append(cases, mon.CaseSpec{Name: "smem", Spec: spec{Kind: "smem", Tr: tr, Sock: deliverers[rnd.Intn(3)], Limit: lim, N: n, Mode: mode}})
	}
	// real connections
	for rep := 0; rep < r.Pick(40, 500); rep++ {
		for _, tr := range []string{"tcp", "tls+tcp", "ipc"} {
			for _, role := range []string{"listen", "dial"} {
				for _, s := range deliverers {
					lim := limits[rnd.Intn(len(limits))]
					n := 16
					if lim >= 1<<20 {
						n = 6
					}
					cases = append(cases, mon.CaseSpec{Name: "sreal", Spec: spec{Kind: "sreal", Tr: tr, Role: role, Sock: s, Limit: lim, N: n, Late: role == "listen" && lim > 0 && rnd.Intn(3) == 0}})
				}
			}
		}
	}
	// websocket limit
	for rep := 0; rep < r.Pick(12, 120); rep++ {
		for _, tr := range []string{"ws", "wss"} {
			for _, s := range deliverers {
				cases = append(cases, mon.CaseSpec{Name: "wslim", Spec: spec{Kind: "wslim", Tr: tr, Role: "listen", Sock: s, Limit: []int{1, 64, 4096, 65536}[rnd.Intn(4)], N: 8, Late: rnd.Intn(2) == 0}})
			}
		}
	}
	// no receive limit at all: negative lengths
	for rep := 0; rep < r.Pick(20, 300); rep++ {
		cases = append(cases, mon.CaseSpec{Name: "unlimited", Spec: spec{Kind: "unlimited", Tr: []string{"tcp", "ipc"}[rep%2], N: 4}})
	}
	// stalled handshakes
	for rep := 0; rep < r.Pick(6, 30); rep++ {
		for _, tr := range []string{"tcp", "tls+tcp", "ipc", "ws", "wss"} {
			for _, k := range []int{1, 8, 64} {
				for _, mode := range []string{"silent", "partial", "dialer", "hangup"} {
					if mode == "dialer" && (tr == "ws" || tr == "wss") {
						continue
					}
					if mode == "hangup" && k == 64 {
						continue
					}
					cases = append(cases, mon.CaseSpec{Name: "stall", Spec: spec{Kind: "stall", Tr: tr, Sock: hx.AllProtos[rnd.Intn(len(hx.AllProtos))], K: k, Mode: mode}})
				}
			}
		}
	}
	// rejected handshakes in front of a well-behaved peer (appended last: the indices and PRNG
	// draws of the cases above are what they were)
	rejectKs := []int{9, 10, 12}
	if r.Thorough() {
		rejectKs = append(rejectKs, 16)
	}
	for rep := 0; rep < r.Pick(2, 24); rep++ {
		for _, tr := range []string{"tcp", "tls+tcp", "ipc", "vt"} {
			for _, k := range rejectKs {
				mode := ""
				if tr != "vt" && rnd.Intn(3) == 0 {
					mode = "conc"
				}
				cases = append(cases, mon.CaseSpec{Name: "reject", Spec: spec{Kind: "reject", Tr: tr, Sock: hx.AllProtos[rnd.Intn(len(hx.AllProtos))], K: k, N: 1 + rnd.Intn(2), Mode: mode}})
			}
		}
	}
	// websocket: every socket type (the subprotocol is the protocol's name), every other protocol's
	// name plus K near misses of the right one
	for rep := 0; rep < r.Pick(1, 12); rep++ {
		for _, tr := range []string{"ws", "wss"} {
			for _, s := range hx.AllProtos {
				mode := ""
				if rnd.Intn(3) == 0 {
					mode = "conc"
				}
				cases = append(cases, mon.CaseSpec{Name: "reject", Spec: spec{Kind: "reject", Tr: tr, Sock: s, K: 3 + rnd.Intn(6), N: 1 + rnd.Intn(2), Mode: mode}})
			}
		}
	}

	// the dialling side of a mismatched websocket handshake
	for rep := 0; rep < r.Pick(2, 40); rep++ {
		for _, tr := range []string{"ws", "wss"} {
			for _, s := range []string{"pair", "xpair", "bus", "xbus", "pull", "xpull", "sub", "xsub"} {
				cases = append(cases, mon.CaseSpec{Name: "wsdial", Spec: spec{Kind: "wsdial", Tr: tr, Sock: s, K: 1 + rnd.Intn(3)}})
			}
		}
	}

	// peers that answer over and over while the application abandons, expires and closes what they
	// answer (appended last, as above)
	for rep := 0; rep < r.Pick(4, 40); rep++ {
		for j, s := range []string{"surveyor", "surveyor", "surveyor", "req"} {
			sp := spec{Kind: "flood", Sock: s, K: []int{2, 4, 6, 8}[rnd.Intn(4)], Ctx: []int{0, 0, 1, 3}[rnd.Intn(4)],
				W: []int{4, 16, 64}[rnd.Intn(3)], N: r.Pick(100, 300) + rnd.Intn(r.Pick(200, 500))}
			if tr := []string{"inproc", "tcp", "ipc"}[rnd.Intn(3)]; j == 2 || j == 3 && rep%2 == 1 {
				sp.Tr = tr // peers are raw sockets behind a real transport
				sp.W /= 2  // answers in a row to each request/survey: 2, 8, 32
			}
			if s == "surveyor" {
				sp.ST = []int{200, 500, 1000, 3000}[rnd.Intn(4)]
				sp.Q = []int{0, 0, 1, 8}[rnd.Intn(4)]
			}
			cases = append(cases, mon.CaseSpec{Name: "flood", Spec: sp})
		}
	}

	r.Run(cases, func(c *mon.Case) {
		sp := c.Spec.(spec)
		defer func() {
			if p := recover(); p != nil {
				e, ok := p.(envError)
				if !ok {
					panic(p)
				}
				c.Inconclusive("environment: %v", e.err)
			}
		}()
		switch sp.Kind {
		case "proto":
			caseProto(c, sp)
		case "smem":
			caseStreamMem(c, sp)
		case "sreal":
			caseStreamReal(c, sp)
		case "wslim":
			caseWSLimit(c, sp)
		case "unlimited":
			caseUnlimited(c, sp)
		case "stall":
			caseStall(c, sp)
		case "reject":
			caseReject(c, sp)
		case "wsdial":
			caseWSDial(c, sp)
		case "flood":
			caseFlood(c, sp)
		}
		hx.LedgerCheck(c)
	})
}

var timeZero time.Time

// ---- stalled handshakes -----------------------------------------------------------------

// caseStall: K peers connect and never complete their handshake (they send
// nothing, or 1-7 bytes of a correct header / half an HTTP request); a good
// peer that connects afterwards must attach and exchange a message.  Mode
// "dialer": the socket itself dials K peers that accept and stay silent.
func caseStall(c *mon.Case, sp spec) {
	proto := spcodec.ByName(sp.Sock)
	tag := fmt.Sprintf("%s:%s:K%d", sp.Tr, sp.Mode, sp.K)
	srvTLS, cliTLS := hx.TlsConfigs()
	sock := hx.MustSock(c, sp.Sock)
	pw := watch(sock)
	isWS := sp.Tr == "ws" || sp.Tr == "wss"
	secure := sp.Tr == "wss" || sp.Tr == "tls+tcp"
	var lo, do map[string]interface{}
	if secure {
		lo = map[string]interface{}{mangos.OptionTLSConfig: srvTLS}
		do = map[string]interface{}{mangos.OptionTLSConfig: cliTLS}
	}
	l, err := sock.NewListener(hx.ListenAddr(sp.Tr), lo)
	env(err)
	env(l.Listen())
	url := l.Address()
	scheme, rest := spcodec.SplitURL(url)
	hostport := rest
	if i := strings.Index(rest, "/"); isWS && i >= 0 {
		hostport = rest[:i]
	}
	var stalled []net.Conn
	c.Cleanup(func() {
		for _, cn := range stalled {
			cn.Close()
		}
	})
	wait := func(sig, what string, call *mon.Call) bool {
		return c.AwaitOrViolate(sig+":"+tag, what+" ["+tag+"]", call.Done, mon.AwaitOpts{})
	}
	if sp.Mode == "dialer" {
		// silent servers the socket dials in the background
		for i := 0; i < sp.K; i++ {
			path := ""
			if sp.Tr == "ipc" {
				_, path = spcodec.SplitURL(hx.ListenAddr("ipc"))
			}
			// a plain listener even for tls: the peer does not even answer the TLS hello
			trl := sp.Tr
			if trl == "tls+tcp" && i%2 == 0 {
				trl = "tcp"
			}
			rl, err := spcodec.Listen(trl, path, srvTLS)
			env(err)
			c.Cleanup(rl.Close)
			u := rl.URL()
			if trl != sp.Tr {
				u = "tls+tcp://" + strings.TrimPrefix(u, "tcp://")
			}
			opts := map[string]interface{}{mangos.OptionDialAsynch: true}
			for k, v := range do {
				opts[k] = v
			}
			d, err := sock.NewDialer(u, opts)
			env(err)
			if err := d.Dial(); err != nil {
				c.Violate("stall/async-dial-error:"+tag, "asynchronous Dial returned %v", err)
				return
			}
			ac := mon.Go("raw-accept", func() (interface{}, error) { return rl.L.Accept() })
			if !wait("harness:raw-accept-stuck", "silent server accepting the library's connection", ac) {
				return
			}
			v, err, _ := ac.Result()
			env(err)
			stalled = append(stalled, v.(net.Conn)) // never read, never written
		}
	} else {
		for i := 0; i < sp.K; i++ {
			network := "tcp"
			if scheme == "ipc" {
				network = "unix"
			}
			cn, err := net.Dial(network, hostport)
			env(err)
			if sp.Mode != "hangup" {
				spcodec.NoLinger(cn) // (a hang-up must be an orderly close: the library is to see a clean end of stream)
			}
			stalled = append(stalled, cn)
			if sp.Mode == "hangup" {
				// the peer goes away before (or right after) its first handshake byte
				if i%2 == 1 && !isWS && sp.Tr != "tls+tcp" {
					cn.Write(spcodec.Header(proto.PeerNum)[:1])
				}
				cn.Close()
			}
			if sp.Mode == "partial" {
				switch {
				case isWS:
					if sp.Tr == "ws" {
						cn.Write([]byte("GET / HTTP/1.1\r\nHost: x\r\nUpgrade: websocket\r\n")) // no blank line
					} else {
						cn.Write([]byte{0x16, 0x03, 0x01}) // start of a TLS record
					}
				case sp.Tr == "tls+tcp":
					cn.Write([]byte{0x16, 0x03, 0x01, 0x02})
				default:
					cn.Write(spcodec.Header(proto.PeerNum)[:1+c.Rand.Intn(7)])
				}
			}
		}
	}
	c.Count("stalled_connections", len(stalled))
	if n := pw.Attached(); n != 0 {
		attachViolation(c, pw, "stall/attached-without-handshake:"+tag, "%d pipes attached although no peer completed a handshake", n)
		return
	}

	// the good peer
	body := []byte("GOOD!" + hx.Uniq("c16"))
	wh, wantHdr, canRecv := inboundHdr(sp.Sock, c)
	payload := append(append([]byte{}, wh...), body...)
	if isWS {
		d := &websocket.Dialer{Subprotocols: []string{spcodec.WSSubprotocol(proto.Name)}, NetDial: spcodec.DialTCPNoLinger, TLSClientConfig: cliTLS}
		dc := mon.Go("ws-dial", func() (interface{}, error) { cn, _, err := d.Dial(url, nil); return cn, err })
		if !wait("stall/good-peer-delayed", fmt.Sprintf("a well-behaved websocket peer connecting while %d connections are stalled", len(stalled)), dc) {
			return
		}
		v, err, _ := dc.Result()
		if err != nil {
			c.Violate("stall/good-peer-refused:"+tag, "well-behaved websocket peer: %v", err)
			return
		}
		cn := v.(*websocket.Conn)
		c.Cleanup(func() { cn.Close() })
		if canRecv {
			cn.WriteMessage(websocket.BinaryMessage, payload)
		}
	} else {
		dc := mon.Go("raw-dial", func() (interface{}, error) { return spcodec.Dial(url, cliTLS) })
		if !wait("stall/good-peer-delayed", fmt.Sprintf("a well-behaved peer connecting while %d connections are stalled", len(stalled)), dc) {
			return
		}
		v, err, _ := dc.Result()
		env(err)
		cn := v.(net.Conn)
		c.Cleanup(func() { cn.Close() })
		hd := mon.Go("read-header", func() (interface{}, error) {
			b := make([]byte, 8)
			_, err := readFull(cn, b)
			return b, err
		})
		if !wait("stall/good-peer-delayed", fmt.Sprintf("the library's header reaching a well-behaved peer while %d connections are stalled", len(stalled)), hd) {
			return
		}
		cn.Write(spcodec.Header(proto.PeerNum))
		if canRecv {
			cn.Write(spcodec.Frame(sp.Tr == "ipc", payload))
		}
	}
	if !c.AwaitOrViolate("stall/good-peer-delayed:"+tag, fmt.Sprintf("the well-behaved peer attaching while %d connections are stalled [%s]", len(stalled), tag), func() bool { return pw.Attached() >= 1 }, mon.AwaitOpts{}) {
		return
	}
	if canRecv {
		rc := mon.Go("RecvMsg", func() (interface{}, error) { return sock.RecvMsg() })
		if !wait("stall/good-peer-delayed", "RecvMsg of the well-behaved peer's message", rc) {
			return
		}
		v, err, _ := rc.Result()
		if err != nil {
			c.Violate("stall/good-peer-message:"+tag, "RecvMsg returned %v", err)
			return
		}
		m := v.(*mangos.Message)
		hdrOK := isRaw(sp.Sock) && (wantHdr == nil || bytes.HasSuffix(m.Header, wantHdr)) || !isRaw(sp.Sock)
		if !bytes.Equal(m.Body, body) || !hdrOK {
			c.Violate("stall/good-peer-message:"+tag, "delivered Header % x Body %q, want header suffix % x body %q", m.Header, m.Body, wantHdr, body)
			return
		}
		c.Count("good_peer_messages", 1)
	}
	if n := pw.Attached(); n != 1 {
		attachViolation(c, pw, "stall/attached-without-handshake:"+tag, "%d pipes attached, only the well-behaved peer completed a handshake", n)
		return
	}
	c.Count("good_peers_attached", 1)
	c.Nontrivial()
	c.Sig("stall|%s|%s", tag, sp.Sock)
}

func readFull(cn net.Conn, b []byte) (int, error) {
	n := 0
	for n < len(b) {
		k, err := cn.Read(b[n:])
		n += k
		if err != nil {
			return n, err
		}
	}
	return n, nil
}

// inboundHdr gives a pattern header that makes sock deliver the message (for
// patterns that can deliver without prior state), and the header suffix the
// application must see on raw sockets.
func inboundHdr(sock string, c *mon.Case) (wire, want []byte, ok bool) {
	switch sock {
	case "pair", "xpair", "bus", "xbus", "pull", "xpull", "xsub":
		return nil, nil, true
	case "xreq", "xsurveyor":
		return []byte{0x80, 0, 0, 1}, []byte{0x80, 0, 0, 1}, true
	case "rep", "xrep", "respondent", "xrespondent":
		return []byte{0x80, 0, 0, 1}, []byte{0x80, 0, 0, 1}, true
	case "pair1", "xpair1", "star", "xstar":
		return []byte{0, 0, 0, 0}, []byte{0, 0, 0, 1}, true
	}
	return nil, nil, false // sub (needs a subscription), req, surveyor, pub, push: attach only
}
