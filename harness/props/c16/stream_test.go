package c16

import (
	"bytes"
	"crypto/tls"
	"fmt"
	"io"
	"math/rand"
	"net"
	"strings"
	"time"

	"github.com/gorilla/websocket"
	"go.nanomsg.org/mangos/v3"
	"go.nanomsg.org/mangos/v3/transport"

	"verifharness/hx"
	"verifharness/mon"
	"verifharness/props/c15/spcodec"
)

// Stream level: hostile byte streams on tcp / tls+tcp / ipc (real loopback
// connections into a socket that also has a well-behaved control peer) and on
// in-memory net.Pipe connections through the public transport.NewConnPipe /
// NewConnHandshaker API.  The expectation for every stream comes from
// predictStream (spcodec + the configured limit).

var limits = []int{1, 2, 8, 64, 100, 4096, 65536, 1 << 20}

type streamInput struct {
	Stream []byte
	Kinds  []string // what the generator put in
	Split  int      // the peer pauses after this many bytes (0: no pause)
	Wait   bool     // the peer keeps the connection open and waits for the library to close it
}

func u64(v uint64) []byte {
	b := make([]byte, 8)
	for i := 0; i < 8; i++ {
		b[7-i] = byte(v >> (8 * uint(i)))
	}
	return b
}

// genStream builds one hostile stream from a small grammar.
func genStream(rnd *rand.Rand, ipc bool, limit int, wantPeer uint16, serial int) streamInput {
	var in streamInput
	add := func(kind string, b []byte) { in.Kinds = append(in.Kinds, kind); in.Stream = append(in.Stream, b...) }
	good := spcodec.Header(wantPeer)
	switch x := rnd.Intn(20); {
	case x < 15:
		add("hs-good", good)
	case x < 17:
		h := append([]byte{}, good...)
		for n := 1 + rnd.Intn(2); n > 0; n-- {
			h[rnd.Intn(8)] = byteClasses[rnd.Intn(len(byteClasses))]
		}
		add("hs-mutated", h)
	case x < 18:
		add("hs-garbage", classBytes(rnd, rnd.Intn(25)))
	default:
		add("hs-short", good[:rnd.Intn(8)])
	}
	prefix := func(n uint64) []byte {
		if ipc {
			return append([]byte{spcodec.IPCMsgType}, u64(n)...)
		}
		return u64(n)
	}
	payload := func(n int) []byte {
		b := make([]byte, n)
		tag := []byte(fmt.Sprintf("<%d.%d>", serial, len(in.Kinds)))
		for i := range b {
			b[i] = tag[i%len(tag)]
		}
		return b
	}
	sizeNear := func() int {
		switch rnd.Intn(4) {
		case 0:
			return limit
		case 1:
			if limit > 1 {
				return limit - 1
			}
			return 0
		case 2:
			return rnd.Intn(limit + 1)
		}
		n := rnd.Intn(41)
		if n > limit {
			n = limit
		}
		return n
	}
	nitems := 1 + rnd.Intn(5)
	for i := 0; i < nitems; i++ {
		switch x := rnd.Intn(24); {
		case x < 9:
			p := payload(sizeNear())
			add("valid", append(prefix(uint64(len(p))), p...))
		case x < 11:
			add("over-nobody", prefix(uint64(limit)+1))
		case x < 12:
			p := payload(limit + 1)
			add("over-body", append(prefix(uint64(len(p))), p...))
		case x < 14:
			v := []uint64{1 << 40, 1<<63 - 1, 1 << 32, uint64(limit) * 2, 1 << 31, uint64(limit) + 2}[rnd.Intn(6)]
			add("huge", append(prefix(v), classBytes(rnd, rnd.Intn(12))...))
		case x < 16:
			v := []uint64{^uint64(0), 1 << 63, ^uint64(0) - 1, 1<<63 | uint64(limit)}[rnd.Intn(4)]
			add("negative", append(prefix(v), classBytes(rnd, rnd.Intn(12))...))
		case x < 17:
			if ipc {
				p := payload(sizeNear())
				f := append(prefix(uint64(len(p))), p...)
				f[0] = []byte{0x00, 0x02, 0xff, 0x81}[rnd.Intn(4)]
				add("ipc-badtype", f)
			} else {
				p := payload(sizeNear())
				add("tcp-extra-typebyte", append(append([]byte{0x01}, prefix(uint64(len(p)))...), p...))
			}
		case x < 18:
			if ipc {
				p := payload(sizeNear())
				add("ipc-missing-typebyte", append(u64(uint64(len(p))), p...))
			} else {
				add("garbage", classBytes(rnd, 1+rnd.Intn(20)))
			}
		case x < 20:
			p := payload(sizeNear())
			f := append(prefix(uint64(len(p))), p...)
			add("partial", f[:rnd.Intn(len(f))])
			i = nitems // the stream ends inside this frame
		case x < 22:
			p := payload(sizeNear())
			f := append(prefix(uint64(len(p))), p...)
			k := rnd.Intn(len(prefix(0)))
			f[k] ^= 1 << uint(rnd.Intn(8))
			add("prefix-bitflip", f)
		default:
			add("garbage", classBytes(rnd, 1+rnd.Intn(20)))
		}
	}
	if rnd.Intn(3) == 0 && len(in.Stream) > 1 {
		in.Split = 1 + rnd.Intn(len(in.Stream)-1)
	}
	in.Wait = rnd.Intn(3) != 0
	return in
}

func lenKind(p streamPred, stream []byte, ipc bool) string {
	if !p.DropLen {
		return ""
	}
	n := stream[p.DropAt-8 : p.DropAt]
	if n[0]&0x80 != 0 {
		return "negative"
	}
	return "over-limit"
}

func describe(in streamInput, p streamPred) string {
	s := in.Stream
	if len(s) > 96 {
		s = s[:96]
	}
	return fmt.Sprintf("kinds=%v len=%d split=%d wait=%v stream=% x… -> attach=%v hsRejected=%v deliver=%d dropLen=%v@%d badType=%v partial=%d",
		in.Kinds, len(in.Stream), in.Split, in.Wait, s, p.Attach, p.HsRejected, len(p.Deliver), p.DropLen, p.DropAt, p.BadType, p.Partial)
}

func segCuts(rnd *rand.Rand, n int) []int {
	var cuts []int
	switch rnd.Intn(3) {
	case 0:
		return nil
	case 1:
		if n <= 64 {
			for i := 1; i < n; i++ {
				cuts = append(cuts, i)
			}
			return cuts
		}
	}
	for pos := 0; pos < n; {
		step := 1 + rnd.Intn(13)
		if rnd.Intn(4) == 0 {
			step = 1 + rnd.Intn(30000)
		}
		pos += step
		if pos < n {
			cuts = append(cuts, pos)
		}
	}
	return cuts
}

// compareDeliveries judges what the application / Recv loop got from one hostile connection.
// It returns false when the case should stop; the known per-input verdict about the
// IPC message-type byte is recorded and the case goes on (connections are independent
// and everything the connection delivered has been drained).
func compareDeliveries(c *mon.Case, tag string, in streamInput, p streamPred, got [][]byte, ipc bool) bool {
	want := p.Deliver
	for i := 0; i < len(got) && i < len(want); i++ {
		if !bytes.Equal(got[i], want[i]) {
			c.Violate("stream/delivery-differs:"+tag, "delivery %d is %d bytes (% x…), the stream's frame %d is %d bytes (% x…)\n%s", i, len(got[i]), head(got[i], 24), i, len(want[i]), head(want[i], 24), describe(in, p))
			return false
		}
	}
	if len(got) > len(want) {
		x := got[len(want)]
		switch {
		case p.BadType:
			c.Violate("stream/ipc-msgtype-not-checked", "an IPC frame whose first byte is %#02x (not 0x01) was followed by a delivery of %d bytes (% x…): the library does not validate the message-type byte, so bytes that are not a well-formed IPC message reach the application [%s]\n%s",
				in.Stream[p.DropAt], len(x), head(x, 24), tag, describe(in, p))
			c.Count("stream_ipc_badtype_followed_by_delivery", 1)
			return true
		case p.DropLen:
			c.Violate("stream/delivered-after-bad-length:"+lenKind(p, in.Stream, ipc)+":"+tag, "%d bytes (% x…) delivered although the preceding frame announced an out-of-range length\n%s", len(x), head(x, 24), describe(in, p))
		default:
			c.Violate("stream/delivered-unpredicted:"+tag, "%d deliveries, the stream contains %d complete in-limit frames; extra: %d bytes (% x…)\n%s", len(got), len(want), len(x), head(x, 24), describe(in, p))
		}
		return false
	}
	if len(got) < len(want) {
		c.Violate("stream/in-limit-not-delivered:"+tag, "%d deliveries, the stream contains %d complete in-limit frames (first missing: %d bytes, limit %s)\n%s", len(got), len(want), len(want[len(got)]), tag, describe(in, p))
		return false
	}
	return true
}

func head(b []byte, n int) []byte {
	if len(b) > n {
		return b[:n]
	}
	return b
}

func countInput(c *mon.Case, in streamInput, p streamPred) {
	for _, k := range in.Kinds {
		c.Count("stream_item_"+k, 1)
	}
	c.Count("stream_inputs", 1)
	c.Count("stream_frames_predicted_delivered", len(p.Deliver))
	if p.DropLen {
		c.Count("stream_bad_length_drops", 1)
	}
}

func checkMaxAlloc(c *mon.Case, limit int, tag string, in *streamInput, p *streamPred) bool {
	if mx := mangos.VerifLedger().MaxSize; mx > int64(limit) {
		d := ""
		if in != nil {
			d = describe(*in, *p)
		}
		c.Violate("stream/allocated-beyond-limit:"+tag, "NewMessage was asked for %d bytes, the receive limit is %d\n%s", mx, limit, d)
		return false
	}
	return true
}

// ---- in-memory connections through the public ConnPipe / Handshaker API ----------

type memResult struct {
	hsErr error
	got   [][]byte
	rxErr error
}

func caseStreamMem(c *mon.Case, sp spec) {
	proto := spcodec.ByName(sp.Sock)
	info := mangos.ProtocolInfo{Self: proto.Num, Peer: proto.PeerNum, SelfName: proto.Name, PeerName: proto.PeerName}
	ipc := sp.Tr == "ipc"
	tag := fmt.Sprintf("mem-%s:L%d", sp.Tr, sp.Limit)
	hx.LedgerCheck(c)
	mangos.VerifLedgerReset()
	shape := ""
	var whole []byte
	nIn := sp.N
	if sp.Mode == "trunc" {
		whole = spcodec.Header(proto.PeerNum)
		for k := 0; k < 3; k++ {
			sz := c.Rand.Intn(31)
			if sz > sp.Limit {
				sz = sp.Limit
			}
			whole = spcodec.AppendFrame(whole, ipc, bytes.Repeat([]byte{byte('p' + k)}, sz))
		}
		nIn = len(whole) + 1
	}
	for n := 0; n < nIn && !c.Undecided(); n++ {
		in := genStream(c.Rand, ipc, sp.Limit, proto.PeerNum, n)
		if whole != nil {
			in = streamInput{Stream: whole[:n], Kinds: []string{"truncated-at-offset"}}
		}
		p := predictStream(ipc, sp.Limit, proto.PeerNum, in.Stream)
		wait := in.Wait && (p.HsRejected || p.DropLen)
		note(c, "mem input %d: %s", n, describe(in, p))
		cuts := segCuts(c.Rand, len(in.Stream))

		c1, c2 := net.Pipe()
		var tp transport.ConnPipe
		if ipc {
			tp = transport.NewConnPipeIPC(c1, info)
		} else {
			tp = transport.NewConnPipe(c1, info)
		}
		tp.SetOption(mangos.OptionMaxRecvSize, sp.Limit)
		hs := transport.NewConnHandshaker()
		hs.Start(tp)
		var libHdr []byte
		peer := mon.Go("mem-peer", func() (interface{}, error) {
			h := make([]byte, spcodec.HeaderLen)
			k, _ := io.ReadFull(c2, h)
			libHdr = h[:k]
			werr := spcodec.Segment(c2, in.Stream, cuts)
			if wait {
				io.Copy(io.Discard, c2) // until the library closes
			}
			c2.Close()
			return nil, werr
		})
		lib := mon.Go("mem-lib", func() (interface{}, error) {
			var r memResult
			pp, err := hs.Wait()
			if err != nil {
				r.hsErr = err
				return r, nil
			}
			for {
				m, err := pp.Recv()
				if err != nil {
					r.rxErr = err
					pp.Close()
					break
				}
				r.got = append(r.got, append(append([]byte{}, m.Header...), m.Body...))
				m.Free()
			}
			return r, nil
		})
		stuckSig := "stream/stuck:" + tag
		if wait && p.DropLen {
			stuckSig = "stream/bad-length-not-dropped-at-once:" + lenKind(p, in.Stream, ipc) + ":" + tag
		} else if wait && p.HsRejected {
			stuckSig = "stream/bad-handshake-not-closed:" + tag
		}
		okL := c.AwaitOrViolate(stuckSig, "library side of the in-memory connection finishing: "+describe(in, p), lib.Done, mon.AwaitOpts{})
		okP := okL && c.AwaitOrViolate(stuckSig, "peer side of the in-memory connection finishing: "+describe(in, p), peer.Done, mon.AwaitOpts{})
		if !okL || !okP {
			c1.Close()
			c2.Close()
			hs.Close()
			return
		}
		hs.Close()
		v, _, _ := lib.Result()
		r := v.(memResult)
		if !bytes.Equal(libHdr, spcodec.Header(proto.Num)) {
			c.Violate("stream/own-header-wrong:"+tag, "library header % x", libHdr)
			return
		}
		if p.Attach != (r.hsErr == nil) {
			c.Violate("stream/handshake-verdict:"+tag, "handshake error %v, the model says attach=%v\n%s", r.hsErr, p.Attach, describe(in, p))
			return
		}
		if !compareDeliveries(c, tag, in, p, r.got, ipc) {
			return
		}
		if !checkMaxAlloc(c, sp.Limit, tag, &in, &p) {
			return
		}
		countInput(c, in, p)
		shape += strings.Join(in.Kinds, "+") + ";"
	}
	c.Nontrivial()
	c.Sig("smem|%s|%d|%s", sp.Tr, sp.Limit, shape)
}

// ---- real loopback connections into a socket with a control peer -----------------

type realRig struct {
	c      *mon.Case
	sp     spec
	proto  spcodec.Proto
	ipc    bool
	sock   mangos.Socket
	pw     *pipeWatch
	url    string
	rl     *spcodec.RawListener
	srvTLS *tls.Config
	cliTLS *tls.Config
	conns  []net.Conn
	ctl    net.Conn
	tag    string
	nsent  int
}

type envError struct{ err error }

func env(err error) {
	if err != nil {
		panic(envError{err})
	}
}

func newRealRig(c *mon.Case, sp spec) *realRig {
	g := &realRig{c: c, sp: sp, proto: spcodec.ByName(sp.Sock), ipc: sp.Tr == "ipc", tag: fmt.Sprintf("%s:%s:L%d", sp.Tr, sp.Role, sp.Limit)}
	g.srvTLS, g.cliTLS = hx.TlsConfigs()
	g.sock = hx.MustSock(c, sp.Sock)
	g.pw = watch(g.sock)
	if !sp.Late {
		env(g.sock.SetOption(mangos.OptionMaxRecvSize, sp.Limit))
	}
	c.Cleanup(func() {
		for _, cn := range g.conns {
			cn.Close()
		}
		if g.rl != nil {
			g.rl.Close()
		}
	})
	if sp.Role == "listen" {
		var lo map[string]interface{}
		if sp.Tr == "tls+tcp" {
			lo = map[string]interface{}{mangos.OptionTLSConfig: g.srvTLS}
		}
		l, err := g.sock.NewListener(hx.ListenAddr(sp.Tr), lo)
		env(err)
		env(l.Listen())
		if sp.Late {
			env(l.SetOption(mangos.OptionMaxRecvSize, sp.Limit))
			g.tag += ":late"
		}
		g.url = l.Address()
	} else {
		path := ""
		if g.ipc {
			_, path = spcodec.SplitURL(hx.ListenAddr("ipc"))
		}
		rl, err := spcodec.Listen(sp.Tr, path, g.srvTLS)
		env(err)
		g.rl = rl
	}
	return g
}

func (g *realRig) wait(sig, what string, call *mon.Call) bool {
	return g.c.AwaitOrViolate(sig+":"+g.tag, what+" ["+g.tag+"]", call.Done, mon.AwaitOpts{})
}

// rawConn: byte stream established and the library's header consumed.
func (g *realRig) rawConn() (net.Conn, *mon.Call, bool) {
	var cn net.Conn
	var dial *mon.Call
	if g.sp.Role == "listen" {
		dc := mon.Go("raw-dial", func() (interface{}, error) { return spcodec.Dial(g.url, g.cliTLS) })
		if !g.wait("harness:raw-dial-stuck", "raw peer connecting", dc) {
			return nil, nil, false
		}
		v, err, _ := dc.Result()
		env(err)
		cn = v.(net.Conn)
	} else {
		var do map[string]interface{}
		if g.sp.Tr == "tls+tcp" {
			do = map[string]interface{}{mangos.OptionTLSConfig: g.cliTLS}
		}
		d, err := g.sock.NewDialer(g.rl.URL(), do)
		env(err)
		// exactly one connection per dialer: no automatic re-dial into the raw listener
		env(d.SetOption(mangos.OptionReconnectTime, time.Hour))
		ac := mon.Go("raw-accept", func() (interface{}, error) { return g.rl.Accept() })
		dial = mon.Go("Dial", func() (interface{}, error) {
			err := d.Dial()
			d.Close()
			return nil, err
		})
		if !g.wait("harness:raw-accept-stuck", "raw listener accepting the library's connection", ac) {
			return nil, nil, false
		}
		v, err, _ := ac.Result()
		env(err)
		cn = v.(net.Conn)
	}
	g.conns = append(g.conns, cn)
	rd := mon.Go("read-header", func() (interface{}, error) {
		b := make([]byte, spcodec.HeaderLen)
		_, err := io.ReadFull(cn, b)
		return b, err
	})
	if !g.wait("stream/own-header-not-sent", "reading the library's header", rd) {
		return nil, nil, false
	}
	v, err, _ := rd.Result()
	if err != nil || !bytes.Equal(v.([]byte), spcodec.Header(g.proto.Num)) {
		if spcodec.ForeignTCP(cn.RemoteAddr()) {
			g.c.Inconclusive("the raw listener accepted a connection from another process (%s)", cn.RemoteAddr())
			return nil, nil, false
		}
		g.c.Violate("stream/own-header-wrong:"+g.tag, "library header % x err %v", v, err)
		return nil, nil, false
	}
	return cn, dial, true
}

func (g *realRig) connectControl() bool {
	base := g.pw.Attached()
	cn, dial, ok := g.rawConn()
	if !ok {
		return false
	}
	if _, err := cn.Write(spcodec.Header(g.proto.PeerNum)); err != nil {
		g.c.Violate("stream/control-peer-broken:"+g.tag, "writing the control peer's header: %v", err)
		return false
	}
	if dial != nil {
		if !g.wait("stream/control-dial-stuck", "Dial to the control peer", dial) {
			return false
		}
		if _, err, _ := dial.Result(); err != nil {
			g.c.Violate("stream/control-peer-broken:"+g.tag, "Dial to the well-behaved peer returned %v", err)
			return false
		}
	}
	if !g.c.AwaitOrViolate("stream/control-peer-not-attached:"+g.tag, "control peer attaching ["+g.tag+"]", func() bool { return g.pw.Attached() > base }, mon.AwaitOpts{}) {
		return false
	}
	g.ctl = cn
	return true
}

// controlExchange sends a sentinel from the control peer and drains the
// application up to it; it returns everything received before the sentinel.
func (g *realRig) controlExchange(what string) ([][]byte, bool) {
	g.nsent++
	s := []byte(fmt.Sprintf("CTL!%d!%d", g.c.Idx, g.nsent))
	if len(s) > g.sp.Limit {
		s = s[len(s)-g.sp.Limit:]
	}
	if _, err := g.ctl.Write(spcodec.Frame(g.ipc, s)); err != nil {
		g.c.Violate("stream/control-peer-broken:"+g.tag, "writing on the control connection %s: %v", what, err)
		return nil, false
	}
	var before [][]byte
	for n := 0; n < 400; n++ {
		rc := mon.Go("RecvMsg", func() (interface{}, error) { return g.sock.RecvMsg() })
		if !g.wait("stream/control-peer-broken", "RecvMsg of the control peer's sentinel "+what, rc) {
			return nil, false
		}
		v, err, _ := rc.Result()
		if err != nil {
			g.c.Violate("stream/control-peer-broken:"+g.tag, "RecvMsg returned %v %s", err, what)
			return nil, false
		}
		m := v.(*mangos.Message)
		b := append([]byte{}, m.Body...)
		m.Free()
		if bytes.Equal(b, s) {
			g.c.Count("control_exchanges", 1)
			return before, true
		}
		before = append(before, b)
	}
	g.c.Violate("stream/delivered-unpredicted:"+g.tag, "400 messages delivered without reaching the control sentinel")
	return nil, false
}

func closeWrite(cn net.Conn) {
	if cw, ok := cn.(interface{ CloseWrite() error }); ok {
		cw.CloseWrite()
		return
	}
	cn.Close()
}

func caseStreamReal(c *mon.Case, sp spec) {
	g := newRealRig(c, sp)
	hx.LedgerCheck(c)
	mangos.VerifLedgerReset()
	if !g.connectControl() {
		return
	}
	if _, ok := g.controlExchange("before any hostile input"); !ok {
		return
	}
	shape := ""
	for n := 0; n < sp.N && !c.Undecided(); n++ {
		in := genStream(c.Rand, g.ipc, sp.Limit, g.proto.PeerNum, n)
		p := predictStream(g.ipc, sp.Limit, g.proto.PeerNum, in.Stream)
		wait := in.Wait && (p.HsRejected || p.DropLen)
		note(c, "real input %d: %s", n, describe(in, p))
		baseA, baseD := g.pw.Attached(), g.pw.Detached()
		cn, dial, ok := g.rawConn()
		if !ok {
			return
		}
		var got [][]byte
		parts := [][]byte{in.Stream}
		if in.Split > 0 {
			parts = [][]byte{in.Stream[:in.Split], in.Stream[in.Split:]}
		}
		for k, part := range parts {
			part := part
			cuts := segCuts(c.Rand, len(part))
			wr := mon.Go("peer-write", func() (interface{}, error) { return nil, spcodec.Segment(cn, part, cuts) })
			if !g.wait("stream/peer-write-stuck", "hostile peer writing (the library neither reads nor closes): "+describe(in, p), wr) {
				return
			}
			if k == 0 && len(parts) == 2 {
				// pause: whatever is complete so far may arrive, nothing else
				b, ok := g.controlExchange("while a hostile stream is paused mid-way")
				if !ok {
					return
				}
				got = append(got, b...)
			}
		}
		stuckSig := "stream/not-closed-after-eof"
		if wait && p.DropLen {
			stuckSig = "stream/bad-length-not-dropped-at-once:" + lenKind(p, in.Stream, g.ipc)
		} else if wait {
			stuckSig = "stream/bad-handshake-not-closed"
		}
		if !wait {
			closeWrite(cn)
		}
		rd := mon.Go("peer-read-until-closed", func() (interface{}, error) { return spcodec.ReadUntilClosed(cn) })
		if !g.wait(stuckSig, "library closing the hostile connection: "+describe(in, p), rd) {
			return
		}
		if v, _, _ := rd.Result(); len(v.([]byte)) > 0 {
			c.Violate("stream/bytes-to-hostile-peer:"+g.tag, "library sent % x to the hostile peer\n%s", head(v.([]byte), 32), describe(in, p))
			return
		}
		cn.Close()
		if dial != nil {
			if !g.wait("stream/dial-stuck", "Dial returning: "+describe(in, p), dial) {
				return
			}
			_, err, _ := dial.Result()
			if (err == nil) != p.Attach {
				c.Violate("stream/handshake-verdict:"+g.tag, "Dial returned %v, the model says attach=%v\n%s", err, p.Attach, describe(in, p))
				return
			}
		}
		if p.Attach {
			// barrier: the pipe's receiver has finished, so all its deliveries are queued
			if !c.AwaitOrViolate("stream/handshake-verdict:"+g.tag, "pipe of the hostile connection attaching and detaching: "+describe(in, p), func() bool {
				return g.pw.Attached() > baseA && g.pw.Detached() > baseD
			}, mon.AwaitOpts{}) {
				return
			}
		}
		b, ok := g.controlExchange("after hostile input: " + describe(in, p))
		if !ok {
			return
		}
		got = append(got, b...)
		wantA := baseA
		if p.Attach {
			wantA++
		}
		if a := g.pw.Attached(); a != wantA {
			attachViolation(c, g.pw, "stream/handshake-verdict:"+g.tag, "%d pipes attached, the model says %d\n%s", a-baseA, wantA-baseA, describe(in, p))
			return
		}
		if !compareDeliveries(c, g.tag, in, p, got, g.ipc) {
			return
		}
		if !checkMaxAlloc(c, sp.Limit, g.tag, &in, &p) {
			return
		}
		countInput(c, in, p)
		shape += strings.Join(in.Kinds, "+") + ";"
	}
	c.Nontrivial()
	c.Sig("sreal|%s|%s", g.tag, shape)
}

// ---- websocket: the receive limit ---------------------------------------------------

func caseWSLimit(c *mon.Case, sp spec) {
	proto := spcodec.ByName(sp.Sock)
	tag := fmt.Sprintf("%s:%s:L%d", sp.Tr, sp.Role, sp.Limit)
	srvTLS, cliTLS := hx.TlsConfigs()
	sock := hx.MustSock(c, sp.Sock)
	pw := watch(sock)
	if !sp.Late {
		env(sock.SetOption(mangos.OptionMaxRecvSize, sp.Limit))
	}
	var lo map[string]interface{}
	if sp.Tr == "wss" {
		lo = map[string]interface{}{mangos.OptionTLSConfig: srvTLS}
	}
	l, err := sock.NewListener(hx.ListenAddr(sp.Tr), lo)
	env(err)
	env(l.Listen())
	if sp.Late {
		env(l.SetOption(mangos.OptionMaxRecvSize, sp.Limit))
		tag += ":late"
	}
	url := l.Address()
	wait := func(sig, what string, call *mon.Call) bool {
		return c.AwaitOrViolate(sig+":"+tag, what+" ["+tag+"]", call.Done, mon.AwaitOpts{})
	}
	connect := func() (*websocket.Conn, bool) {
		base := pw.Attached()
		d := &websocket.Dialer{Subprotocols: []string{spcodec.WSSubprotocol(proto.Name)}, NetDial: spcodec.DialTCPNoLinger}
		if sp.Tr == "wss" {
			d.TLSClientConfig = cliTLS
		}
		dc := mon.Go("ws-dial", func() (interface{}, error) { cn, _, err := d.Dial(url, nil); return cn, err })
		if !wait("harness:ws-dial-stuck", "raw websocket client connecting", dc) {
			return nil, false
		}
		v, err, _ := dc.Result()
		env(err)
		cn := v.(*websocket.Conn)
		c.Cleanup(func() { cn.Close() })
		if !c.AwaitOrViolate("ws/not-attached:"+tag, "websocket pipe attaching", func() bool { return pw.Attached() > base }, mon.AwaitOpts{}) {
			return nil, false
		}
		return cn, true
	}
	ctl, ok := connect()
	if !ok {
		return
	}
	nsent := 0
	exchange := func(what string) ([][]byte, bool) {
		nsent++
		s := []byte(fmt.Sprintf("CTL!%d!%d", c.Idx, nsent))
		if len(s) > sp.Limit {
			s = s[len(s)-sp.Limit:]
		}
		if err := ctl.WriteMessage(websocket.BinaryMessage, s); err != nil {
			c.Violate("ws/control-peer-broken:"+tag, "control WriteMessage %s: %v", what, err)
			return nil, false
		}
		var before [][]byte
		for n := 0; n < 100; n++ {
			rc := mon.Go("RecvMsg", func() (interface{}, error) { return sock.RecvMsg() })
			if !wait("ws/control-peer-broken", "RecvMsg of the control sentinel "+what, rc) {
				return nil, false
			}
			v, err, _ := rc.Result()
			if err != nil {
				c.Violate("ws/control-peer-broken:"+tag, "RecvMsg returned %v", err)
				return nil, false
			}
			m := v.(*mangos.Message)
			b := append([]byte{}, m.Body...)
			m.Free()
			if bytes.Equal(b, s) {
				c.Count("control_exchanges", 1)
				return before, true
			}
			before = append(before, b)
		}
		return nil, false
	}
	if _, ok := exchange("before hostile input"); !ok {
		return
	}
	shape := ""
	for n := 0; n < sp.N && !c.Failed() && !c.Undecided(); n++ {
		size := []int{sp.Limit - 1, sp.Limit, sp.Limit + 1, 2*sp.Limit + c.Rand.Intn(100), sp.Limit + 1 + c.Rand.Intn(5000)}[c.Rand.Intn(5)]
		if size < 0 {
			size = 0
		}
		mt := websocket.BinaryMessage
		baseD := pw.Detached()
		cn, ok := connect()
		if !ok {
			return
		}
		payload := bytes.Repeat([]byte{byte('a' + n%26)}, size)
		note(c, "ws input %d: binary message of %d bytes, limit %d", n, size, sp.Limit)
		wr := mon.Go("ws-write", func() (interface{}, error) { return nil, cn.WriteMessage(mt, payload) })
		if !wait("ws/peer-write-stuck", "hostile websocket peer writing", wr) {
			return
		}
		var want [][]byte
		if size <= sp.Limit {
			want = [][]byte{payload}
			// barrier on the same connection: a second in-limit message behind it
			mark := []byte{'#'}
			wm := mon.Go("ws-write", func() (interface{}, error) { return nil, cn.WriteMessage(mt, mark) })
			if !wait("ws/peer-write-stuck", "hostile websocket peer writing", wm) {
				return
			}
			want = append(want, mark)
			cn.WriteControl(websocket.CloseMessage, websocket.FormatCloseMessage(websocket.CloseNormalClosure, ""), timeZero)
		}
		rd := mon.Go("ws-read-until-closed", func() (interface{}, error) {
			for {
				if _, _, err := cn.ReadMessage(); err != nil {
					return nil, nil
				}
			}
		})
		if !wait("ws/oversize-not-dropped", fmt.Sprintf("library closing the websocket connection after a message of %d bytes (limit %d)", size, sp.Limit), rd) {
			return
		}
		if !c.AwaitOrViolate("ws/not-detached:"+tag, "pipe detaching", func() bool { return pw.Detached() > baseD }, mon.AwaitOpts{}) {
			return
		}
		got, ok := exchange(fmt.Sprintf("after a message of %d bytes", size))
		if !ok {
			return
		}
		if len(got) != len(want) || (len(got) > 0 && !bytes.Equal(got[0], want[0])) {
			if size > sp.Limit {
				c.Violate("ws/over-limit-delivered:"+tag, "message of %d bytes delivered (%d deliveries) with limit %d", size, len(got), sp.Limit)
			} else {
				c.Violate("ws/in-limit-not-delivered:"+tag, "message of %d bytes with limit %d: %d deliveries, want %d", size, sp.Limit, len(got), len(want))
			}
			return
		}
		c.Count("ws_limit_inputs", 1)
		shape += fmt.Sprintf("%d,", size-sp.Limit)
	}
	c.Nontrivial()
	c.Sig("wslimit|%s|%s", tag, shape)
}
