//go:build verif

package c16

import (
	"crypto/tls"
	"fmt"
	"net"
	"net/http"
	"sync"
	"time"

	"github.com/gorilla/websocket"
	"go.nanomsg.org/mangos/v3"

	"verifharness/hx"
	"verifharness/mon"
)

// Mismatched handshakes on the DIALLING side of ws / wss (kind "wsdial").
//
// The reject kind is about clients that offer the wrong subprotocol to a listening socket.  Here
// the socket dials, and the server it reaches completes the HTTP upgrade (101) but does not confirm
// the SP subprotocol the socket offered: it selects none, another protocol's name (pair1 for a pair
// socket is again the prefix case), or a near miss of the right name — and then sends a frame that
// the other protocol would send.  That is a mismatched handshake from a broken or hostile peer:
// the connection must not become a pipe and the frame must never reach the application.  After K
// such answers (one per connection attempt of the redialling socket) the server answers properly
// and sends GOOD: that is the first and only thing Recv may return.
func caseWSDial(c *mon.Case, sp spec) {
	peerName := map[string]string{"pair": "pair", "bus": "bus", "pull": "push", "sub": "pub", "xpull": "push", "xsub": "pub", "xbus": "bus", "xpair": "pair"}[sp.Sock]
	right := peerName + ".sp.nanomsg.org"
	// what the library offers is its PEER's name; a server of another protocol answers with its own
	wrongs := []string{"", "pair1.sp.nanomsg.org", "rep.sp.nanomsg.org", right + "x", "x" + right, peerName, peerName + ".sp.nanomsg.com", "PAIR.SP.NANOMSG.ORG"}
	var script []string
	for i := 0; i < sp.K; i++ {
		script = append(script, wrongs[c.Rand.Intn(len(wrongs))])
	}
	if sp.Sock == "pair" || sp.Sock == "xpair" {
		script[0] = "pair1.sp.nanomsg.org"
	}
	var mu sync.Mutex
	conns := 0
	var answered []string
	goodUp := make(chan struct{}, 1)
	up := websocket.Upgrader{CheckOrigin: func(*http.Request) bool { return true }}
	srv := &http.Server{Handler: http.HandlerFunc(func(w http.ResponseWriter, r *http.Request) {
		mu.Lock()
		n := conns
		conns++
		sel := right
		if n < len(script) {
			sel = script[n]
		}
		answered = append(answered, sel)
		mu.Unlock()
		h := http.Header{}
		if sel != "" {
			h.Set("Sec-Websocket-Protocol", sel)
		}
		ws, err := up.Upgrade(w, r, h)
		if err != nil {
			return
		}
		defer ws.Close()
		if sel == right {
			ws.WriteMessage(websocket.BinaryMessage, []byte("GOOD"))
			select {
			case goodUp <- struct{}{}:
			default:
			}
		} else {
			// what a PAIRv1 / STAR peer would send: a hop word, then the payload
			ws.WriteMessage(websocket.BinaryMessage, append([]byte{0, 0, 0, 1}, []byte(fmt.Sprintf("BAD!%d", n))...))
		}
		for {
			if _, _, err := ws.ReadMessage(); err != nil {
				return
			}
		}
	})}
	ln, err := net.Listen("tcp", hx.OwnIP()+":0")
	if err != nil {
		panic(envError{err})
	}
	srvTLS, cliTLS := hx.TlsConfigs()
	scheme := "ws"
	if sp.Tr == "wss" {
		scheme = "wss"
		ln = tls.NewListener(ln, srvTLS)
	}
	go srv.Serve(ln)
	c.Cleanup(func() { srv.Close() })

	s := hx.MustSock(c, sp.Sock)
	pw := hx.WatchPipes(s)
	if sp.Sock == "sub" || sp.Sock == "xsub" {
		s.SetOption(mangos.OptionSubscribe, []byte{})
	}
	const R = 5 * time.Millisecond
	s.SetOption(mangos.OptionReconnectTime, R)
	s.SetOption(mangos.OptionMaxReconnectTime, R)
	opts := map[string]interface{}{mangos.OptionDialAsynch: true}
	if sp.Tr == "wss" {
		opts[mangos.OptionTLSConfig] = cliTLS
	}
	url := fmt.Sprintf("%s://%s/%s", scheme, ln.Addr().String(), hx.Uniq("p"))
	if err := s.DialOptions(url, opts); err != nil {
		c.Violate("wsdial/dial-error:"+sp.Tr, "asynchronous Dial(%s) returned %v", url, err)
		return
	}
	rk := mon.Go("Recv", func() (interface{}, error) { b, e := s.Recv(); return b, e })
	if !c.AwaitOrViolate("wsdial/good-server-never-heard:"+sp.Tr, fmt.Sprintf("%s socket hearing the server that finally confirms %q after %d mismatched answers %q", sp.Sock, right, len(script), script), rk.Done, mon.AwaitOpts{MaxTimer: R}) {
		return
	}
	v, err, _ := rk.Result()
	mu.Lock()
	ans := append([]string{}, answered...)
	mu.Unlock()
	if err != nil {
		c.Violate("wsdial/recv-error:"+sp.Tr, "Recv returned %v (server answers so far %q)", err, ans)
		return
	}
	b := v.([]byte)
	if string(b) != "GOOD" {
		cls := "other"
		for i, a := range ans {
			if a != right && len(b) >= 4 && string(b[len(b)-len(fmt.Sprintf("BAD!%d", i)):]) == fmt.Sprintf("BAD!%d", i) {
				cls = a
				if cls == "" {
					cls = "none"
				}
			}
		}
		c.Violate("ws/dialer-accepted-mismatched-subprotocol:"+sp.Sock+":"+cls+":"+sp.Tr, "the %s socket offered %q; a server that answered the upgrade with subprotocol %q was taken for an SP peer and its frame % x was delivered to the application (server answers so far %q)", sp.Sock, right, cls, b, ans)
		return
	}
	if n := pw.Attached(); n != 1 {
		c.Violate("ws/dialer-attached-mismatched-peer:"+sp.Sock+":"+sp.Tr, "%d connections became pipes, but only one server answer confirmed the offered subprotocol (answers %q)", n, ans)
		return
	}
	c.Count("wsdial_mismatched_answers", len(script))
	c.Count("wsdial_good_messages", 1)
	c.Nontrivial()
	c.Sig("wsdial|%s|%s|%v", sp.Sock, sp.Tr, script)
}
