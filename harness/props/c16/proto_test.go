package c16

import (
	"bytes"
	"encoding/binary"
	"fmt"
	"net"
	"os"
	"sync"
	"time"

	"go.nanomsg.org/mangos/v3"

	"verifharness/hx"
	"verifharness/mon"
	"verifharness/props/c15/spcodec"
	"verifharness/vt"
)

// Protocol level: the harness is every peer (vt pipes) of one socket and
// injects hostile transport messages; the reference model predicts what the
// application may see; a sentinel on the same pipe closes every probe round.

type pipeWatch struct {
	mu       sync.Mutex
	attached int
	detached int
	ids      []uint32
	remotes  []net.Addr
	times    []time.Duration // mon.Now() inside the hook, per attach event
}

func watch(s mangos.Socket) *pipeWatch {
	w := &pipeWatch{}
	s.SetPipeEventHook(func(ev mangos.PipeEvent, p mangos.Pipe) {
		w.mu.Lock()
		switch ev {
		case mangos.PipeEventAttached:
			w.attached++
			w.times = append(w.times, mon.Now())
			w.ids = append(w.ids, p.ID())
			if v, err := p.GetOption(mangos.OptionRemoteAddr); err == nil {
				if a, ok := v.(net.Addr); ok {
					w.remotes = append(w.remotes, a)
				}
			}
		case mangos.PipeEventDetached:
			w.detached++
		}
		w.mu.Unlock()
	})
	return w
}

func (w *pipeWatch) Attached() int { w.mu.Lock(); defer w.mu.Unlock(); return w.attached }

// foreign names an attached pipe whose peer is a socket of another process
// (a stray connection to a recycled loopback port), or returns "".
func (w *pipeWatch) foreign() string {
	w.mu.Lock()
	rs := append([]net.Addr{}, w.remotes...)
	w.mu.Unlock()
	for _, a := range rs {
		if spcodec.ForeignTCP(a) {
			return a.String()
		}
	}
	return ""
}

// attachViolation reports a violation about which pipes attached, unless a
// stray connection from another process explains the count.
func attachViolation(c *mon.Case, w *pipeWatch, sig, format string, a ...interface{}) {
	if f := w.foreign(); f != "" {
		c.Inconclusive("a connection from another process (%s) attached to the socket under test", f)
		return
	}
	c.Violate(sig, format, a...)
}

// AttachTime is the time (taken in the library's goroutine, inside the hook) of the i-th attach event.
func (w *pipeWatch) AttachTime(i int) time.Duration {
	w.mu.Lock()
	defer w.mu.Unlock()
	return w.times[i]
}
func (w *pipeWatch) Detached() int { w.mu.Lock(); defer w.mu.Unlock(); return w.detached }
func (w *pipeWatch) ID(i int) uint32 {
	w.mu.Lock()
	defer w.mu.Unlock()
	return w.ids[i]
}

// note logs to the case log and to stderr (the child's log file survives a
// crash of the process; the case log does not).
func note(c *mon.Case, format string, a ...interface{}) {
	s := fmt.Sprintf(format, a...)
	c.Logf("%s", s)
	fmt.Fprintf(os.Stderr, "C16 case %d: %s\n", c.Idx, s)
}

type protoRig struct {
	c     *mon.Case
	sp    spec
	m     *model
	sock  mangos.Socket
	pw    *pipeWatch
	L     *vt.ListenerCtl
	pipes []*vt.Pipe // [0] hostile, [1] control (absent for one-peer patterns)
	ids   []uint32
	tagN  int
	olds  []uint32
	inj   map[string]int
	cur   map[*vt.Pipe]int // send-log cursor per pipe
}

func onePeer(sock string) bool {
	return sock == "pair" || sock == "xpair" || sock == "pair1" || sock == "xpair1"
}

var subSets = [][]string{{"S!"}, {"S!", ""}, {"S!", "A"}, {"S!", "\x00"}, {"S!", "AB", "\xff"}, {"S!", "S"}, {"S!", "\x80\x00"}}

func newProtoRig(c *mon.Case, sp spec) *protoRig {
	r := &protoRig{c: c, sp: sp, inj: map[string]int{}, cur: map[*vt.Pipe]int{}}
	r.m = &model{Sock: sp.Sock, TTL: 8}
	r.sock = hx.MustSock(c, sp.Sock)
	r.pw = watch(r.sock)
	if sp.TTL > 0 {
		if err := r.sock.SetOption(mangos.OptionTTL, sp.TTL); err != nil {
			panic(fmt.Sprintf("SetOption(TTL,%d) on %s: %v", sp.TTL, sp.Sock, err))
		}
		r.m.TTL = sp.TTL
	}
	switch sp.Sock {
	case "sub":
		for _, s := range subSets[sp.Subs%len(subSets)] {
			if err := r.sock.SetOption(mangos.OptionSubscribe, []byte(s)); err != nil {
				panic(err)
			}
			r.m.Subs = append(r.m.Subs, []byte(s))
		}
	case "req":
		r.sock.SetOption(mangos.OptionRetryTime, time.Hour) // one transmission per request
	case "surveyor":
		r.sock.SetOption(mangos.OptionSurveyTime, time.Hour)
	}
	name := hx.Uniq("c16")
	r.L = vt.L(name)
	c.Cleanup(func() { vt.Forget(name) })
	if err := r.sock.Listen(vt.Addr(name)); err != nil {
		panic(err)
	}
	n := 2
	if onePeer(sp.Sock) {
		n = 1
	}
	for i := 0; i < n; i++ {
		p := r.L.Connect()
		if !c.AwaitOrViolate("harness:vt-attach-stuck", "vt pipe attaching", func() bool { return r.pw.Attached() > i }, mon.AwaitOpts{}) {
			return nil
		}
		r.pipes = append(r.pipes, p)
		r.ids = append(r.ids, r.pw.ID(i))
	}
	return r
}

func (r *protoRig) tag() []byte {
	r.tagN++
	return []byte(fmt.Sprintf("S!%d!%d", r.c.Idx, r.tagN))
}

func (r *protoRig) drained(ps ...*vt.Pipe) bool {
	return r.c.AwaitOrViolate("proto/"+r.sp.Sock+"/receiver-stalled", "pipe receivers of "+r.sp.Sock+" taking every injected message and parking in Recv again", func() bool {
		for _, p := range ps {
			if cl, _, _ := p.Closed(); cl {
				return false
			}
			rw, _ := p.Waiters()
			if p.Pending() != 0 || rw == 0 {
				return false
			}
		}
		return true
	}, mon.AwaitOpts{})
}

type got struct {
	hdr, body []byte
	err       error
}

func (r *protoRig) recv(what string) (got, bool) {
	call := mon.Go("RecvMsg", func() (interface{}, error) { return r.sock.RecvMsg() })
	if !r.c.AwaitOrViolate("proto/"+r.sp.Sock+"/valid-not-delivered", "RecvMsg on "+r.sp.Sock+" while "+what, call.Done, mon.AwaitOpts{}) {
		return got{}, false
	}
	v, err, _ := call.Result()
	if err != nil {
		return got{err: err}, true
	}
	m := v.(*mangos.Message)
	g := got{hdr: append([]byte{}, m.Header...), body: append([]byte{}, m.Body...)}
	m.Free()
	return g, true
}

// explain decides whether the deliveries gs (in order) are an order-preserving
// selection of the predictions that skips no MUST on the way (and, when complete,
// none at the end either) and uses no DROP; it returns
// the index of the prediction behind each delivery.
func explain(ps []pred, gs []got, complete bool) ([]int, bool) {
	var rec func(i, j int) ([]int, bool)
	rec = func(i, j int) ([]int, bool) {
		if j == len(gs) {
			for ; complete && i < len(ps); i++ {
				if ps[i].V == vMust {
					return nil, false
				}
			}
			return []int{}, true
		}
		if i == len(ps) {
			return nil, false
		}
		if ps[i].V != vDrop && ps[i].matches(gs[j]) {
			if a, ok := rec(i+1, j+1); ok {
				return append([]int{i}, a...), true
			}
		}
		if ps[i].V == vMust {
			return nil, false
		}
		return rec(i+1, j)
	}
	return rec(0, 0)
}

func renderRound(ps []pred, gs []got) string {
	s := "predicted:"
	for _, p := range ps {
		s += fmt.Sprintf(" [%s % x|% x]", p.V, p.Hdr, p.Body)
	}
	s += " delivered:"
	for _, g := range gs {
		s += fmt.Sprintf(" [% x|% x]", g.hdr, g.body)
	}
	return s
}

func (p pred) matches(g got) bool {
	return bytes.Equal(p.Hdr, g.hdr) && bytes.Equal(p.Body, g.body)
}

// newSends returns the messages the library sent on p since the last call.
func (r *protoRig) newSends(p *vt.Pipe) []vt.Sent {
	s := p.SentFrom(r.cur[p])
	r.cur[p] += len(s)
	return s
}

func (r *protoRig) violate(kind string, class string, format string, a ...interface{}) {
	r.c.Violate("proto/"+r.sp.Sock+"/"+kind+":"+class, format, a...)
}

// probeRound injects k hostile bodies and a sentinel on the hostile pipe and
// receives up to the sentinel, comparing with the model.
func (r *protoRig) probeRound(k int) bool {
	c := r.c
	H := r.pipes[0]
	type probe struct {
		b     []byte
		class string
		p     pred
	}
	var ps []probe
	for j := 0; j < k; j++ {
		b, class := r.m.genBody(c.Rand, r.olds)
		p := r.m.predict(b, r.ids[0])
		note(c, "inject %s class=%s body=% x -> %s", r.sp.Sock, class, b, p)
		H.Inject(b)
		r.inj[class]++
		ps = append(ps, probe{b, class, p})
	}
	s := r.m.sentinel(r.tag())
	sp := r.m.predict(s, r.ids[0])
	if sp.V != vMust {
		panic("sentinel not MUST: " + sp.String())
	}
	note(c, "inject %s sentinel % x", r.sp.Sock, s)
	H.Inject(s)
	ps = append(ps, probe{s, "sentinel", sp})

	// receive up to the sentinel (its tag is unique), then explain the whole round at once
	var gs []got
	for {
		g, ok := r.recv(fmt.Sprintf("a sentinel is queued behind %d probes", k))
		if !ok {
			return false
		}
		if g.err != nil {
			r.violate("recv-error", "any", "RecvMsg returned %v with a deliverable sentinel injected", g.err)
			return false
		}
		gs = append(gs, g)
		if sp.matches(g) {
			break
		}
		if len(gs) > k {
			break // more deliveries than probes: cannot be explained, stop receiving
		}
	}
	preds := make([]pred, len(ps))
	for n := range ps {
		preds[n] = ps[n].p
	}
	assign, ok := explain(preds, gs, true)
	if !ok {
		// name the first delivery that cannot be placed, or the first MUST that is missing
		for n := range gs {
			if _, ok := explain(preds, gs[:n+1], false); ok {
				continue
			}
			g := gs[n]
			for _, q := range ps {
				if q.p.V == vDrop && (len(g.body) > 0 && bytes.HasSuffix(q.b, g.body) || len(q.b) == 0 && len(g.body) == 0) {
					r.violate("delivered-undeliverable", q.class, "application received Header % x Body % x; the injected transport message % x must be dropped (%s)\nround: %s", g.hdr, g.body, q.b, q.p.Why, renderRound(preds, gs))
					return false
				}
			}
			break
		}
		for _, q := range ps {
			if q.p.V != vMust {
				continue
			}
			found := false
			for _, g := range gs {
				if q.p.matches(g) {
					found = true
				}
			}
			if !found {
				r.violate("valid-not-delivered", q.class, "transport message % x -> %s was not delivered\nround: %s", q.b, q.p, renderRound(preds, gs))
				return false
			}
		}
		r.violate("delivery-differs", "any", "the deliveries of the round are not explained by the model\nround: %s", renderRound(preds, gs))
		return false
	}
	var delivered []pred
	for _, n := range assign {
		delivered = append(delivered, preds[n])
		c.Count("deliveries_predicted_"+preds[n].V.String(), 1)
	}
	c.Count("probe_rounds", 1)
	c.Count("bodies_injected", k)

	// side checks on what the pattern did with the accepted headers
	switch r.sp.Sock {
	case "rep", "respondent":
		// the reply to the last delivered message (the sentinel) must carry exactly its backtrace
		reply := []byte("reply")
		call := mon.Go("Send", func() (interface{}, error) { return nil, r.sock.Send(reply) })
		if !c.AwaitOrViolate("proto/"+r.sp.Sock+"/reply-send-stuck", "Send of the reply to the sentinel", call.Done, mon.AwaitOpts{}) {
			return false
		}
		if _, err, _ := call.Result(); err != nil {
			r.violate("reply-send-error", "any", "Send of a reply returned %v", err)
			return false
		}
		if !c.AwaitOrViolate("proto/"+r.sp.Sock+"/reply-not-sent", "reply appearing on the requester's pipe", func() bool { return H.SentCount() > r.cur[H] }, mon.AwaitOpts{}) {
			return false
		}
		for _, snt := range r.newSends(H) {
			want := append(append([]byte{}, sp.Wire...), reply...)
			if !bytes.Equal(snt.Wire(), want) {
				r.violate("reply-backtrace-differs", "any", "reply on the wire % x, want backtrace+body % x", snt.Wire(), want)
				return false
			}
			c.Count("reply_backtraces_checked", 1)
		}
	case "star", "xstar":
		// every delivered message is forwarded once to the other peer with the hop count raised
		C := r.pipes[1]
		if !c.AwaitOrViolate("proto/"+r.sp.Sock+"/forward-missing", "forwarded copies reaching the other peer", func() bool { return C.SentCount() >= r.cur[C]+len(delivered) }, mon.AwaitOpts{}) {
			return false
		}
		fw := r.newSends(C)
		if len(fw) != len(delivered) {
			r.violate("forward-count", "any", "%d messages forwarded to the other peer, %d delivered", len(fw), len(delivered))
			return false
		}
		for n, snt := range fw {
			want := append(append([]byte{}, delivered[n].Wire...), delivered[n].Body...)
			if !bytes.Equal(snt.Wire(), want) {
				r.violate("forward-differs", "any", "forwarded % x, want % x", snt.Wire(), want)
				return false
			}
		}
		c.Count("forwards_checked", len(fw))
	}
	return true
}

// controlRound proves the other connection still works.
func (r *protoRig) controlRound() bool {
	if len(r.pipes) < 2 {
		return true
	}
	C := r.pipes[1]
	s := r.m.sentinel(r.tag())
	p := r.m.predict(s, r.ids[1])
	note(r.c, "control sentinel % x", s)
	C.Inject(s)
	g, ok := r.recv("a sentinel from the well-behaved peer is queued")
	if !ok {
		return false
	}
	if g.err != nil || !p.matches(g) {
		r.violate("control-peer-broken", "any", "after hostile input on another pipe the control peer's sentinel % x arrived as Header % x Body % x err %v (want %s)", s, g.hdr, g.body, g.err, p)
		return false
	}
	r.c.Count("control_exchanges", 1)
	if r.sp.Sock == "star" || r.sp.Sock == "xstar" {
		H := r.pipes[0]
		if !r.c.AwaitOrViolate("proto/"+r.sp.Sock+"/forward-missing", "control sentinel forwarded to the hostile peer", func() bool { return H.SentCount() > r.cur[H] }, mon.AwaitOpts{}) {
			return false
		}
		r.newSends(H)
	}
	if r.sp.Sock == "rep" || r.sp.Sock == "respondent" {
		// keep the cooked state machine simple: answer it
		r.sock.Send([]byte("ok"))
		if !r.c.AwaitOrViolate("proto/"+r.sp.Sock+"/reply-not-sent", "reply to the control peer", func() bool { return C.SentCount() > r.cur[C] }, mon.AwaitOpts{}) {
			return false
		}
		r.newSends(C)
	}
	return true
}

// ---- per-family drivers ---------------------------------------------------------

func caseProto(c *mon.Case, sp spec) {
	r := newProtoRig(c, sp)
	if r == nil {
		return
	}
	ok := true
	switch family(sp.Sock) {
	case "sink":
		ok = r.runSink()
	case "id":
		ok = r.runID()
	default:
		for round := 0; round < sp.Rounds && ok; round++ {
			ok = r.probeRound(1+c.Rand.Intn(8)) && r.controlRound()
		}
	}
	shape := ""
	for k, v := range r.inj {
		c.Count("injected_"+k, v)
	}
	for _, k := range sortedKeys(r.inj) {
		shape += fmt.Sprintf("%s=%d,", k, r.inj[k])
	}
	if ok && len(r.inj) > 0 {
		c.Nontrivial()
	}
	c.Sig("proto|%s|%d|%d|%s", sp.Sock, sp.TTL, sp.Subs, shape)
}

func sortedKeys(m map[string]int) []string {
	var ks []string
	for k := range m {
		ks = append(ks, k)
	}
	for i := range ks {
		for j := i + 1; j < len(ks); j++ {
			if ks[j] < ks[i] {
				ks[i], ks[j] = ks[j], ks[i]
			}
		}
	}
	return ks
}

// runSink: pub/push sockets have no receive side; hostile input must be swallowed
// and the socket must still send.
func (r *protoRig) runSink() bool {
	c := r.c
	if _, err := r.sock.RecvMsg(); err != mangos.ErrProtoOp {
		r.violate("recv-on-send-only", "any", "RecvMsg on %s returned %v, want ErrProtoOp", r.sp.Sock, err)
		return false
	}
	for round := 0; round < r.sp.Rounds; round++ {
		k := 1 + c.Rand.Intn(8)
		for j := 0; j < k; j++ {
			b, class := r.m.genBody(c.Rand, nil)
			p := r.pipes[c.Rand.Intn(2)]
			note(c, "inject %s class=%s body=% x", r.sp.Sock, class, b)
			p.Inject(b)
			r.inj[class]++
		}
		c.Count("bodies_injected", k)
		if !r.drained(r.pipes...) {
			return false
		}
		body := r.tag()
		call := mon.Go("Send", func() (interface{}, error) { return nil, r.sock.Send(body) })
		if !c.AwaitOrViolate("proto/"+r.sp.Sock+"/send-stuck", "Send after hostile input", call.Done, mon.AwaitOpts{}) {
			return false
		}
		if _, err, _ := call.Result(); err != nil {
			r.violate("send-error", "any", "Send after hostile input returned %v", err)
			return false
		}
		want := 1
		if r.sp.Sock == "pub" || r.sp.Sock == "xpub" {
			want = 2
		}
		if !c.AwaitOrViolate("proto/"+r.sp.Sock+"/send-not-transmitted", "message reaching the peers after hostile input", func() bool {
			return r.pipes[0].SentCount()-r.cur[r.pipes[0]]+r.pipes[1].SentCount()-r.cur[r.pipes[1]] >= want
		}, mon.AwaitOpts{}) {
			return false
		}
		for _, p := range r.pipes {
			for _, s := range r.newSends(p) {
				if !bytes.Equal(s.Wire(), body) {
					r.violate("send-differs", "any", "sent % x, want % x", s.Wire(), body)
					return false
				}
			}
		}
		c.Count("control_exchanges", 1)
	}
	return true
}

// runID: req / surveyor — only answers to the outstanding id are delivered.
func (r *protoRig) runID() bool {
	c := r.c
	for round := 0; round < r.sp.Rounds; round++ {
		q := r.tag()
		call := mon.Go("Send", func() (interface{}, error) { return nil, r.sock.Send(q) })
		if !c.AwaitOrViolate("proto/"+r.sp.Sock+"/send-stuck", "Send with ready peers", call.Done, mon.AwaitOpts{}) {
			return false
		}
		if _, err, _ := call.Result(); err != nil {
			r.violate("send-error", "any", "Send returned %v", err)
			return false
		}
		wantTx := 1
		if r.sp.Sock == "surveyor" {
			wantTx = 2
		}
		var txs []vt.Sent
		if !c.AwaitOrViolate("proto/"+r.sp.Sock+"/send-not-transmitted", "request/survey reaching the peers", func() bool {
			return r.pipes[0].SentCount()-r.cur[r.pipes[0]]+r.pipes[1].SentCount()-r.cur[r.pipes[1]] >= wantTx
		}, mon.AwaitOpts{}) {
			return false
		}
		for _, p := range r.pipes {
			txs = append(txs, r.newSends(p)...)
		}
		w := txs[0].Wire()
		if len(w) < 4 || !bytes.Equal(w[4:], q) || w[0]&0x80 == 0 {
			r.violate("request-malformed", "any", "transmitted % x for body % x", w, q)
			return false
		}
		if r.m.Cur != 0 {
			r.olds = append(r.olds, r.m.Cur)
		}
		r.m.Cur = binary.BigEndian.Uint32(w)
		note(c, "%s outstanding id %08x", r.sp.Sock, r.m.Cur)

		if r.sp.Sock == "surveyor" {
			if !r.probeRound(1+c.Rand.Intn(8)) || !r.controlRound() {
				return false
			}
			continue
		}
		// req: hostile replies, then the correct one (on the hostile or the control pipe)
		roundID := r.m.Cur
		k := 1 + c.Rand.Intn(8)
		var want *pred
		var wantClass string
		for j := 0; j <= k; j++ {
			var b []byte
			class := "reply"
			pi := 0
			if j < k {
				b, class = r.m.genBody(c.Rand, r.olds)
			} else {
				b = append(be32(roundID), r.tag()...) // stale by now if a probe already answered the request
				pi = c.Rand.Intn(2)
			}
			p := r.m.predict(b, r.ids[pi])
			note(c, "inject req class=%s pipe=%d body=% x -> %s", class, pi, b, p)
			if j == k && pi == 1 {
				// cross-pipe ordering is not defined: let the hostile pipe drain first
				if !r.drained(r.pipes[0]) {
					return false
				}
			}
			r.pipes[pi].Inject(b)
			r.inj[class]++
			if p.V == vMust && want == nil {
				pp := p
				want, wantClass = &pp, class
			}
		}
		c.Count("bodies_injected", k)
		g, ok := r.recv("the reply to the outstanding request is queued")
		if !ok {
			return false
		}
		if g.err != nil || !want.matches(g) {
			r.violate("delivery-differs", wantClass, "Recv returned Header % x Body % x err %v, want %s", g.hdr, g.body, g.err, *want)
			return false
		}
		c.Count("deliveries_predicted_must", 1)
		if !r.drained(r.pipes...) {
			return false
		}
		// nothing else may be pending: a second Recv has no request to wait for
		g2, ok := r.recv("no request is outstanding (must fail at once)")
		if !ok {
			return false
		}
		if g2.err != mangos.ErrProtoState {
			r.violate("delivered-undeliverable", "after-reply", "second Recv returned Header % x Body % x err %v, want ErrProtoState", g2.hdr, g2.body, g2.err)
			return false
		}
		c.Count("probe_rounds", 1)
		c.Count("control_exchanges", 1)
	}
	return true
}
