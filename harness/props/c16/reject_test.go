package c16

import (
	"bytes"
	"crypto/tls"
	"errors"
	"fmt"
	"io"
	"math/rand"
	"net"
	"net/http"
	"sort"
	"strings"
	"time"

	"github.com/gorilla/websocket"
	"go.nanomsg.org/mangos/v3"

	"verifharness/hx"
	"verifharness/mon"
	"verifharness/props/c15/spcodec"
	"verifharness/vt"
)

// Rejected handshakes (kind "reject").
//
// The stall kind is about peers that never finish their handshake.  This kind is about peers
// whose handshake is finished and WRONG - the library has to refuse them - arriving in a burst
// in front of a well-behaved peer:
//
//   tcp / ipc      an 8-byte header that is not the one the socket expects (another protocol's
//                  number, an unassigned number, reserved bytes / version / magic wrong, garbage),
//                  followed by a well-formed frame; or 0-7 header bytes and an orderly close
//   tls+tcp        the same behind a completed TLS handshake; a plaintext header or a garbage TLS
//                  record instead of the TLS hello; a close before the TLS hello
//   ws / wss       an HTTP upgrade whose Sec-WebSocket-Protocol does not contain the listener's
//                  "<name>.sp.nanomsg.org": every other protocol's name (pair1 -> pair is the one
//                  case where one SP name is a prefix of another), near misses of the right name
//                  (suffix, prefix, truncation, case, other domain), several wrong ones, none
//   vt             the transport's Accept itself reports K failures (what a rejected handshake
//                  is to the accept loop of any transport)
//
// Oracle, from the property: (1) the library hangs up on / refuses every such peer, none of them
// becomes a pipe, and the frame behind the wrong header never reaches the application;
// (2) the well-behaved peer that connects behind them is attached and its message is the next
// thing the application receives; (3) it is not kept waiting.  (3) is an upper bound on a
// duration, so it follows DESIGN 1.2: the only delay the library is entitled to is its accept
// loop's fixed pause after a failed Accept (10 ms, internal/core/listener.go) once per rejected
// handshake that can still be ahead of the good peer; the wait is measured from the moment the
// good peer has done everything it has to do to the attach event's timestamp taken inside the
// hook, and it is a violation only if it is more than ten times that allowance (and more than
// one second) AND beyond the canary-calibrated slack; more than ten times but within the slack is
// inconclusive.  A good peer that never attaches is decided by the stuck detector.
// After the first good peer, rounds of one or two more rejected handshakes and another good peer
// follow: whatever the burst did to the accept loop must not outlive it.

const acceptErrPause = time.Second / 100

type badPeer struct {
	Class  string
	Stream []byte   // stream transports: what the peer writes
	Plain  bool     // tls+tcp: the peer does not speak TLS
	Hangup bool     // the peer closes by itself (orderly) after writing
	Offers []string // websocket: the offered subprotocols
	Err    error    // vt: what Accept returns

	cn   net.Conn
	call *mon.Call
}

type rejectRig struct {
	c      *mon.Case
	sp     spec
	proto  spcodec.Proto
	tag    string
	sock   mangos.Socket
	pw     *pipeWatch
	url    string
	net    string // "tcp" or "unix" for raw connections
	hostp  string
	isWS   bool
	isVT   bool
	ipc    bool
	srvTLS *tls.Config
	cliTLS *tls.Config
	L      *vt.ListenerCtl

	unpaid  int // rejected handshakes whose accept-loop pause can still be ahead of the next good peer
	carry   int // those among them the harness did not see being rejected (the peer hung up itself)
	nbad    int
	ngood   int
	classes map[string]int
	wh      []byte // pattern header that makes the socket deliver a message (nil: none needed)
	wantHdr []byte
	canRecv bool
	drop    func() // closes the current good peer
	serial  int
}

func newRejectRig(c *mon.Case, sp spec) *rejectRig {
	g := &rejectRig{c: c, sp: sp, proto: spcodec.ByName(sp.Sock), classes: map[string]int{}}
	g.tag = fmt.Sprintf("%s:K%d", sp.Tr, sp.K)
	if sp.Mode != "" {
		g.tag = fmt.Sprintf("%s:%s:K%d", sp.Tr, sp.Mode, sp.K)
	}
	g.srvTLS, g.cliTLS = hx.TlsConfigs()
	g.sock = hx.MustSock(c, sp.Sock)
	g.pw = watch(g.sock)
	g.isWS = sp.Tr == "ws" || sp.Tr == "wss"
	g.isVT = sp.Tr == "vt"
	g.ipc = sp.Tr == "ipc"
	g.wh, g.wantHdr, g.canRecv = inboundHdr(sp.Sock, c)
	if g.isVT {
		name := hx.Uniq("c16rej")
		g.L = vt.L(name)
		c.Cleanup(func() { vt.Forget(name) })
		env(g.sock.Listen(vt.Addr(name)))
		return g
	}
	var lo map[string]interface{}
	if sp.Tr == "wss" || sp.Tr == "tls+tcp" {
		lo = map[string]interface{}{mangos.OptionTLSConfig: g.srvTLS}
	}
	l, err := g.sock.NewListener(hx.ListenAddr(sp.Tr), lo)
	env(err)
	env(l.Listen())
	g.url = l.Address()
	scheme, rest := spcodec.SplitURL(g.url)
	g.hostp = rest
	if i := strings.Index(rest, "/"); g.isWS && i >= 0 {
		g.hostp = rest[:i]
	}
	g.net = "tcp"
	if scheme == "ipc" {
		g.net = "unix"
	}
	return g
}

func (g *rejectRig) wait(sig, what string, call *mon.Call) bool {
	return g.c.AwaitOrViolate(sig+":"+g.tag, what+" ["+g.tag+" "+g.sp.Sock+"]", call.Done, mon.AwaitOpts{})
}

// ---- what the rejected peers do ----------------------------------------------------------

var vtAcceptErrs = []error{mangos.ErrBadHeader, mangos.ErrBadVersion, mangos.ErrBadProto, io.EOF, io.ErrUnexpectedEOF,
	mangos.ErrTLSNoCert, errors.New("handshake: connection reset by peer"), errors.New("accept: too many open files")}

func (g *rejectRig) genBad(rnd *rand.Rand) *badPeer {
	g.serial++
	if g.isVT {
		e := vtAcceptErrs[rnd.Intn(len(vtAcceptErrs))]
		return &badPeer{Class: "accept-error", Err: e}
	}
	good := spcodec.Header(g.proto.PeerNum)
	h := append([]byte{}, good...)
	b := &badPeer{}
	kinds := []string{"wrong-proto", "wrong-proto", "unknown-proto", "reserved", "version", "magic", "garbage", "short-hangup"}
	if g.sp.Tr == "tls+tcp" {
		kinds = append(kinds, "plaintext", "tls-garbage")
	}
	b.Class = kinds[rnd.Intn(len(kinds))]
	switch b.Class {
	case "wrong-proto":
		for {
			p := spcodec.Protos[rnd.Intn(len(spcodec.Protos))]
			if p.Num != g.proto.PeerNum {
				h = spcodec.Header(p.Num)
				break
			}
		}
	case "unknown-proto":
		for {
			n := g.proto.PeerNum ^ uint16(1<<uint(rnd.Intn(16)))
			if _, known := spcodec.ByNum(n); !known {
				h = spcodec.Header(n)
				break
			}
		}
	case "reserved":
		h[6+rnd.Intn(2)] = byteClasses[1+rnd.Intn(len(byteClasses)-1)]
	case "version":
		h[3] = byteClasses[1+rnd.Intn(len(byteClasses)-1)]
	case "magic":
		h[rnd.Intn(3)] ^= byte(1 << uint(rnd.Intn(8)))
	case "garbage":
		for {
			h = classBytes(rnd, 8+rnd.Intn(17))
			if !spcodec.HeaderOK(h[:spcodec.HeaderLen], g.proto.PeerNum) {
				break
			}
		}
	case "short-hangup":
		b.Hangup = true
		if g.sp.Tr == "tls+tcp" {
			b.Plain = true
			h = [][]byte{nil, {0x16}, {0x16, 0x03, 0x01}}[rnd.Intn(3)]
		} else {
			h = h[:rnd.Intn(spcodec.HeaderLen)]
		}
		b.Stream = h
		return b
	case "plaintext":
		b.Plain = true // a correct SP header, but not inside TLS
	case "tls-garbage":
		b.Plain = true
		// one complete handshake record holding one complete ClientHello of n garbage bytes (an
		// incomplete record or message would be a stalled handshake, not a wrong one)
		n := 4 + rnd.Intn(30)
		b.Stream = append([]byte{0x16, 0x03, 0x01, 0x00, byte(4 + n), 0x01, 0x00, 0x00, byte(n)}, classBytes(rnd, n)...)
		return b
	}
	if b.Class != "plaintext" && spcodec.HeaderOK(h[:spcodec.HeaderLen], g.proto.PeerNum) {
		panic("c16 reject: generated a valid header for class " + b.Class)
	}
	// the message a too tolerant library would hand to the application
	msg := append(append([]byte{}, g.wh...), []byte(fmt.Sprintf("BAD!%d!%d", g.c.Idx, g.serial))...)
	b.Stream = append(h, spcodec.Frame(g.ipc, msg)...)
	return b
}

const wsSuffix = ".sp.nanomsg.org"

// wsOfferAccepted is the model of the websocket mapping: the upgrade is acceptable iff one of
// the offered subprotocol tokens is exactly the listener's protocol name + ".sp.nanomsg.org".
func wsOfferAccepted(offers []string, name string) bool {
	for _, o := range offers {
		if o == name+wsSuffix {
			return true
		}
	}
	return false
}

// wsOtherProtos: one handshake per other SP protocol name.
func wsOtherProtos(name string) []*badPeer {
	var out []*badPeer
	for _, p := range spcodec.Protos {
		if p.Name != name {
			out = append(out, &badPeer{Class: "proto-" + p.Name, Offers: []string{p.Name + wsSuffix}})
		}
	}
	return out
}

// wsNearMisses: n offers derived from the right name, none of them the right one.
func wsNearMisses(rnd *rand.Rand, name string, n int) []*badPeer {
	all := []*badPeer{
		{Class: "name+suffix", Offers: []string{name + []string{"0", "2", "x", "v1", "_", "-ng"}[rnd.Intn(6)] + wsSuffix}},
		{Class: "name+1", Offers: []string{name + "1" + wsSuffix}},
		{Class: "prefix+name", Offers: []string{[]string{"x", "1", "sp-"}[rnd.Intn(3)] + name + wsSuffix}},
		{Class: "name-truncated", Offers: []string{name[:len(name)-1] + wsSuffix}},
		{Class: "upper-case", Offers: []string{strings.ToUpper(name) + wsSuffix}},
		{Class: "bare-name", Offers: []string{name}},
		{Class: "domain-extended", Offers: []string{name + wsSuffix + []string{".example", "x", "1"}[rnd.Intn(3)]}},
		{Class: "domain-other", Offers: []string{name + []string{".sp.nanomsg.com", ".sp.nanomsg.or", ".nanomsg.org", "-sp.nanomsg.org"}[rnd.Intn(4)]}},
		{Class: "empty-name", Offers: []string{wsSuffix}},
		{Class: "none", Offers: nil},
	}
	for _, p := range spcodec.Protos {
		if p.Name == name+"1" { // (pair1: that offer is the class proto-pair1 of wsOtherProtos)
			all = append(all[:1], all[2:]...)
		}
	}
	multi := &badPeer{Class: "multi-wrong"}
	for _, i := range rnd.Perm(len(all) - 1)[:2+rnd.Intn(2)] { // (never "none")
		multi.Offers = append(multi.Offers, all[i].Offers...)
	}
	all = append(all, multi)
	rnd.Shuffle(len(all), func(i, j int) { all[i], all[j] = all[j], all[i] })
	var out []*badPeer
	for _, b := range all {
		if len(out) < n && !wsOfferAccepted(b.Offers, name) {
			out = append(out, b)
		}
	}
	return out
}

// plan returns the rejected peers of one burst.
func (g *rejectRig) plan(n int, first bool) []*badPeer {
	rnd := g.c.Rand
	var out []*badPeer
	if g.isWS {
		if first {
			out = append(wsOtherProtos(g.proto.Name), wsNearMisses(rnd, g.proto.Name, n)...)
			rnd.Shuffle(len(out), func(i, j int) { out[i], out[j] = out[j], out[i] })
			return out
		}
		pool := append(wsOtherProtos(g.proto.Name), wsNearMisses(rnd, g.proto.Name, 11)...)
		for i := 0; i < n; i++ {
			out = append(out, pool[rnd.Intn(len(pool))])
		}
		return out
	}
	for i := 0; i < n; i++ {
		out = append(out, g.genBad(rnd))
	}
	return out
}

// ---- running the rejected peers ----------------------------------------------------------

func (g *rejectRig) open(b *badPeer) bool {
	g.nbad++
	g.unpaid++
	g.classes[b.Class]++
	switch {
	case g.isVT:
		note(g.c, "rejected peer %d: Accept fails with %q", g.nbad, b.Err)
		g.L.FailAccept(b.Err)
		return true
	case g.isWS:
		note(g.c, "rejected peer %d: %s, websocket subprotocols %q", g.nbad, b.Class, b.Offers)
		d := &websocket.Dialer{Subprotocols: b.Offers, NetDial: spcodec.DialTCPNoLinger, TLSClientConfig: g.cliTLS}
		url := g.url
		b.call = mon.Go("ws-dial", func() (interface{}, error) {
			cn, resp, err := d.Dial(url, nil)
			if err != nil {
				return resp, err
			}
			return cn, nil
		})
		return true
	}
	note(g.c, "rejected peer %d: %s plain=%v hangup=%v writes % x", g.nbad, b.Class, b.Plain, b.Hangup, head(b.Stream, 48))
	dc := mon.Go("raw-dial", func() (interface{}, error) {
		if b.Plain || g.sp.Tr != "tls+tcp" {
			cn, err := net.Dial(g.net, g.hostp)
			if err == nil && !b.Hangup {
				spcodec.NoLinger(cn)
			}
			return cn, err
		}
		return spcodec.Dial(g.url, g.cliTLS)
	})
	if !g.wait("reject/connect-stuck", "a further peer completing its connect (and TLS handshake) while the others are still connected", dc) {
		return false
	}
	v, err, _ := dc.Result()
	env(err)
	b.cn = v.(net.Conn)
	g.c.Cleanup(func() { b.cn.Close() })
	return true
}

func (g *rejectRig) send(b *badPeer) {
	if b.cn == nil {
		return
	}
	b.cn.Write(b.Stream) // (the library may already have hung up: errors are expected)
	if b.Hangup {
		b.cn.Close()
		g.carry++ // nothing tells the harness when the library has noticed
	}
}

func (g *rejectRig) finish(b *badPeer) bool {
	c := g.c
	switch {
	case g.isVT:
		return true
	case g.isWS:
		if !g.wait("reject/ws-handshake-stuck:"+b.Class, fmt.Sprintf("websocket upgrade offering %q being answered", b.Offers), b.call) {
			return false
		}
		v, err, _ := b.call.Result()
		if err == nil {
			cn := v.(*websocket.Conn)
			c.Cleanup(func() { cn.Close() })
			g.wsAccepted(b, cn)
			return false
		}
		resp, _ := v.(*http.Response)
		if resp == nil {
			env(fmt.Errorf("websocket dial got no HTTP answer: %v", err))
		}
		c.Count("reject_ws_refused", 1)
		return true
	}
	if b.Hangup {
		return true
	}
	rd := mon.Go("peer-read-until-closed", func() (interface{}, error) { return spcodec.ReadUntilClosed(b.cn) })
	if !g.wait("reject/bad-handshake-not-closed:"+b.Class, fmt.Sprintf("library hanging up on a peer whose handshake is wrong (%s: % x)", b.Class, head(b.Stream, 24)), rd) {
		return false
	}
	v, _, _ := rd.Result()
	b.cn.Close()
	if got := v.([]byte); !b.Plain && !bytes.HasPrefix(spcodec.Header(g.proto.Num), got) {
		// (before it reads the peer's header the library sends its own: that much is in order)
		c.Violate("reject/bytes-to-rejected-peer:"+b.Class+":"+g.tag, "the library sent % x to a peer whose handshake it had to refuse (%s: % x); its own header is % x", head(got, 32), b.Class, head(b.Stream, 24), spcodec.Header(g.proto.Num))
		return false
	}
	c.Count("reject_stream_hung_up_on", 1)
	return true
}

// wsAccepted: the library answered a mismatched upgrade with 101.  The witness also says
// what then becomes of a message from that peer.
func (g *rejectRig) wsAccepted(b *badPeer, cn *websocket.Conn) {
	c := g.c
	fate := "the socket type delivers nothing without prior state, so no message was tried"
	if g.canRecv {
		// what the mismatched peer's own protocol would put on the wire: e.g. PAIRv1 in front of PAIR
		msg := append([]byte{0, 0, 0, 1}, []byte(fmt.Sprintf("BAD!%d", c.Idx))...)
		if len(g.wh) > 0 {
			msg = append(append([]byte{}, g.wh...), []byte(fmt.Sprintf("BAD!%d", c.Idx))...)
		}
		cn.WriteMessage(websocket.BinaryMessage, msg)
		rc := mon.Go("RecvMsg", func() (interface{}, error) { return g.sock.RecvMsg() })
		if r := mon.Await(rc.Done, mon.AwaitOpts{}); r.V == mon.Done {
			if v, err, _ := rc.Result(); err == nil {
				m := v.(*mangos.Message)
				fate = fmt.Sprintf("its message % x reached the application as Header % x Body %q", msg, m.Header, m.Body)
				c.Count("reject_ws_mismatched_peer_delivered", 1)
			} else {
				fate = fmt.Sprintf("RecvMsg then returned %v", err)
			}
		} else {
			fate = "its message was not delivered (" + r.V.String() + ")"
		}
	}
	c.Violate("reject/ws-mismatched-handshake-accepted:"+g.sp.Sock+":"+b.Class+":"+g.sp.Tr,
		"a %s listener on %s expects the subprotocol %q; an upgrade offering %q (%s) was answered with 101 Switching Protocols (%d pipes attached); %s",
		g.sp.Sock, g.sp.Tr, g.proto.Name+wsSuffix, b.Offers, b.Class, g.pw.Attached()-g.ngood, fate)
}

// burst runs the rejected peers one after the other, or (conc) all at once: every one has
// connected before the first one speaks.
func (g *rejectRig) burst(bs []*badPeer, conc bool) bool {
	if conc {
		for _, b := range bs {
			if !g.open(b) {
				return false
			}
		}
		for _, i := range g.c.Rand.Perm(len(bs)) {
			g.send(bs[i])
		}
		for _, b := range bs {
			if !g.finish(b) {
				return false
			}
		}
	} else {
		for _, b := range bs {
			if !g.open(b) {
				return false
			}
			g.send(b)
			if !g.finish(b) {
				return false
			}
		}
	}
	return g.noStranger("after the rejected handshakes")
}

func (g *rejectRig) noStranger(when string) bool {
	if n := g.pw.Attached(); n != g.ngood {
		attachViolation(g.c, g.pw, "reject/rejected-peer-attached:"+g.tag, "%d pipes attached %s, %d well-behaved peers have connected; rejected so far: %v", n, when, g.ngood, g.classList())
		return false
	}
	return true
}

func (g *rejectRig) classList() string {
	var ks []string
	for k, n := range g.classes {
		ks = append(ks, fmt.Sprintf("%s x%d", k, n))
	}
	sort.Strings(ks)
	return strings.Join(ks, ", ")
}

// ---- the well-behaved peer ---------------------------------------------------------------

func (g *rejectRig) goodPeer(phase string) bool {
	c := g.c
	pending := g.unpaid
	if pending < 1 {
		pending = 1
	}
	allowance := time.Duration(pending) * acceptErrPause
	base := g.pw.Attached()
	body := []byte(fmt.Sprintf("GOOD!%d!%d!%s", c.Idx, g.ngood, hx.Uniq("c16")))
	payload := append(append([]byte{}, g.wh...), body...)
	what := fmt.Sprintf("behind %d rejected handshakes (%s)", g.nbad, g.classList())
	var t0 time.Duration
	switch {
	case g.isVT:
		p := g.L.Connect()
		t0 = mon.Now()
		if g.canRecv {
			p.Inject(payload)
		}
		g.drop = func() { p.Drop() }
	case g.isWS:
		offers := []string{g.proto.Name + wsSuffix}
		if c.Rand.Intn(3) == 0 { // a client may offer several; the right one is among them
			extra := wsNearMisses(c.Rand, g.proto.Name, 3)
			for _, e := range extra {
				offers = append(offers, e.Offers...)
			}
			c.Rand.Shuffle(len(offers), func(i, j int) { offers[i], offers[j] = offers[j], offers[i] })
		}
		d := &websocket.Dialer{Subprotocols: offers, NetDial: spcodec.DialTCPNoLinger, TLSClientConfig: g.cliTLS}
		dc := mon.Go("ws-dial", func() (interface{}, error) { cn, _, err := d.Dial(g.url, nil); return cn, err })
		if !g.wait("reject/good-peer-never-attached", "a well-behaved websocket peer connecting "+what, dc) {
			return false
		}
		v, err, _ := dc.Result()
		if err != nil {
			c.Violate("reject/good-peer-refused:"+g.tag, "well-behaved websocket peer offering %q %s: %v", offers, what, err)
			return false
		}
		t0 = mon.Now()
		cn := v.(*websocket.Conn)
		c.Cleanup(func() { cn.Close() })
		if g.canRecv {
			cn.WriteMessage(websocket.BinaryMessage, payload)
		}
		g.drop = func() { cn.Close() }
	default:
		dc := mon.Go("raw-dial", func() (interface{}, error) { return spcodec.Dial(g.url, g.cliTLS) })
		if !g.wait("reject/good-peer-never-attached", "a well-behaved peer connecting "+what, dc) {
			return false
		}
		v, err, _ := dc.Result()
		env(err)
		cn := v.(net.Conn)
		c.Cleanup(func() { cn.Close() })
		hd := mon.Go("read-header", func() (interface{}, error) {
			b := make([]byte, spcodec.HeaderLen)
			_, err := io.ReadFull(cn, b)
			return b, err
		})
		if !g.wait("reject/good-peer-never-attached", "the library's header reaching a well-behaved peer "+what, hd) {
			return false
		}
		if v, err, _ := hd.Result(); err != nil || !bytes.Equal(v.([]byte), spcodec.Header(g.proto.Num)) {
			c.Violate("reject/good-peer-refused:"+g.tag, "well-behaved peer %s: reading the library's header gave % x, %v", what, v, err)
			return false
		}
		cn.Write(spcodec.Header(g.proto.PeerNum))
		t0 = mon.Now()
		if g.canRecv {
			cn.Write(spcodec.Frame(g.ipc, payload))
		}
		g.drop = func() { cn.Close() }
	}
	if !c.AwaitOrViolate("reject/good-peer-never-attached:"+g.tag, fmt.Sprintf("the well-behaved peer attaching %s [%s %s]", what, g.tag, g.sp.Sock),
		func() bool { return g.pw.Attached() > base }, mon.AwaitOpts{MaxTimer: allowance}) {
		return false
	}
	waited := g.pw.AttachTime(base) - t0
	if waited < 0 {
		waited = 0
	}
	c.Count("reject_good_peer_waits", 1)
	c.Count("reject_good_peer_wait_us", int(waited.Microseconds()))
	c.Count("reject_good_peer_allowance_us", int(allowance.Microseconds()))
	limit := 10 * allowance
	if limit < time.Second {
		limit = time.Second
	}
	if waited > limit {
		// The canary notes an oversleep when the sleep ENDS: after a stall of the whole process the
		// attach can be seen here before the canary has run again.  So the harness sleeps a few times
		// itself first (the canary, runnable since the stall ended, gets to finish its sleep) and
		// counts its own oversleeps like the canary's.
		own := time.Duration(0)
		for i := 0; i < 4; i++ {
			t := mon.Now()
			mon.Sleep(2 * time.Millisecond)
			if o := mon.Now() - t - 2*time.Millisecond; o > own {
				own = o
			}
		}
		if !mon.UpperBoundExceeded(waited, allowance) || waited-allowance <= 50*time.Millisecond+20*own {
			c.Inconclusive("the well-behaved peer was attached %v after it had completed its handshake %s; allowance %v, but the scheduler canary's worst oversleep in this case is %v (the harness's own: %v)", waited, what, allowance, mon.CanaryWorst(), own)
			return false
		}
		c.Violate("reject/good-peer-delayed:"+phase+":"+g.tag,
			"a well-behaved peer was attached only %v after it had completed its handshake, %s. The accept loop pauses %v after a failed Accept, and at most %d of those pauses could still be ahead of it (%v); the wait is %.0f times that (scheduler canary worst oversleep %v) [%s %s]",
			waited, what, acceptErrPause, pending, allowance, float64(waited)/float64(allowance), mon.CanaryWorst(), g.tag, g.sp.Sock)
		return false
	}
	g.ngood++
	g.unpaid = g.carry
	if g.canRecv {
		rc := mon.Go("RecvMsg", func() (interface{}, error) { return g.sock.RecvMsg() })
		if !g.wait("reject/good-peer-message", "RecvMsg of the well-behaved peer's message "+what, rc) {
			return false
		}
		v, err, _ := rc.Result()
		if err != nil {
			c.Violate("reject/good-peer-message:"+g.tag, "RecvMsg returned %v %s", err, what)
			return false
		}
		m := v.(*mangos.Message)
		if bytes.Contains(m.Body, []byte("BAD!")) || bytes.Contains(m.Header, []byte("BAD!")) {
			c.Violate("reject/rejected-peer-delivered:"+g.tag, "the application received Header % x Body %q: that is the frame a peer sent behind a handshake the library had to refuse (%s)", m.Header, m.Body, g.classList())
			return false
		}
		hdrOK := !isRaw(g.sp.Sock) || g.wantHdr == nil || bytes.HasSuffix(m.Header, g.wantHdr)
		if !bytes.Equal(m.Body, body) || !hdrOK {
			c.Violate("reject/good-peer-message:"+g.tag, "delivered Header % x Body %q, want header suffix % x body %q", m.Header, m.Body, g.wantHdr, body)
			return false
		}
		m.Free()
		c.Count("reject_good_peer_messages", 1)
	}
	c.Count("reject_good_peers_attached", 1)
	return g.noStranger("once the well-behaved peer is attached")
}

// dropGood closes the current good peer (PAIR takes one peer at a time) and waits for the detach.
func (g *rejectRig) dropGood() bool {
	g.drop()
	return g.c.AwaitOrViolate("reject/good-peer-not-detached:"+g.tag, "the pipe of the well-behaved peer detaching after the peer closed ["+g.tag+"]",
		func() bool { return g.pw.Detached() >= g.ngood }, mon.AwaitOpts{})
}

func caseReject(c *mon.Case, sp spec) {
	g := newRejectRig(c, sp)
	conc := sp.Mode == "conc"
	if !g.burst(g.plan(sp.K, true), conc) {
		return
	}
	burstN := g.nbad
	if !g.goodPeer("burst") {
		return
	}
	for round := 0; round < sp.N && !c.Failed() && !c.Undecided(); round++ {
		if !g.dropGood() {
			return
		}
		if !g.burst(g.plan(1+c.Rand.Intn(2), false), false) {
			return
		}
		if !g.goodPeer("round") {
			return
		}
	}
	c.Count("reject_handshakes_rejected", g.nbad)
	var ks []string
	for k, n := range g.classes {
		if strings.HasPrefix(k, "proto-") {
			c.Count("reject_class_other-protocol-name", n)
		} else {
			c.Count("reject_class_"+k, n)
		}
		ks = append(ks, k)
	}
	sort.Strings(ks)
	c.Nontrivial()
	c.Sig("reject|%s|%s|%d+%d|%s", g.tag, sp.Sock, burstN, g.nbad-burstN, strings.Join(ks, ","))
}
