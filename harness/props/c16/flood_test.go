package c16

import (
	"bytes"
	"encoding/binary"
	"fmt"
	"math/rand"
	"runtime"
	"sort"
	"strconv"
	"strings"
	"sync"
	"sync/atomic"
	"time"

	"go.nanomsg.org/mangos/v3"

	"verifharness/hx"
	"verifharness/mon"
	"verifharness/vt"
)

// flood: broken peers that answer over and over.  Every peer of a cooked REQ or SURVEYOR socket
// keeps sending well-formed answers that carry the id of the request/survey it saw last (sometimes
// the one before, sometimes a guess of the next one), as fast as the socket takes them, while the
// application moves on: it abandons the survey by sending the next one, lets it expire, takes a
// few answers first, or closes the context and opens another.  The answers are therefore in flight
// at the very moments the state they refer to is torn down.
//
// The peers are vt pipes held by the harness (each floods without pause, keeping at most W answers
// unread), or raw XRESPONDENT / XREP sockets over inproc, tcp or ipc that give W answers in a row to
// every request/survey that arrives (under the transport's own back-pressure).
//
// Demanded (nothing else): the process does not panic (a crash of the child is reported by the
// driver for the running case); Send and Recv return; every message handed to the application is
// one of the injected answers, unchanged, and answers the request/survey that context had
// outstanding when it was delivered; afterwards the socket still runs a survey/request to the end
// with a well-behaved answer on the first and on the last connection.

// floodStep is one step of an application script: Send, then
//
//	's' send the next one at once (the outstanding one is abandoned)
//	'r' take up to N answers first
//	'x' take answers until the survey has expired (SURVEYOR only)
//	'o' close the context and continue on a fresh one (contexts only)
type floodStep struct {
	Act byte
	N   int
}

type ctxLike interface {
	Send([]byte) error
	RecvMsg() (*mangos.Message, error)
	SetOption(string, interface{}) error
	Close() error
}

type floodSeen struct {
	ctx, step int
	id        uint32
}

// floodTx is a request/survey as a peer saw it arrive.
type floodTx struct {
	id   uint32
	body string
}

// floodPeer is one connection's far end.
type floodPeer interface {
	arrived() int                          // requests/surveys that have reached the peer so far
	news() []floodTx                       // those not returned by an earlier call (never blocks)
	room() bool                            // false while enough answers are unread on the connection
	unread() int                           // answers not yet taken by the socket (0 where that cannot be seen)
	answer(id uint32, payload []byte) bool // false: the connection is gone
}

// ---- a vt pipe

type vtPeer struct {
	p   *vt.Pipe
	w   int
	cur int
	buf []byte
}

func (v *vtPeer) arrived() int { return v.p.SentCount() }
func (v *vtPeer) room() bool   { return v.p.Pending() < v.w }
func (v *vtPeer) unread() int  { return v.p.Pending() }
func (v *vtPeer) news() []floodTx {
	ss := v.p.SentFrom(v.cur)
	if len(ss) == 0 {
		return nil
	}
	v.cur += len(ss)
	var out []floodTx
	for _, s := range ss {
		w := s.Wire()
		if len(w) >= 4 {
			out = append(out, floodTx{binary.BigEndian.Uint32(w), string(w[4:])})
		}
	}
	return out
}
func (v *vtPeer) answer(id uint32, payload []byte) bool {
	v.buf = append(v.buf[:0], byte(id>>24), byte(id>>16), byte(id>>8), byte(id))
	v.buf = append(v.buf, payload...)
	v.p.Inject(v.buf)
	closed, _, _ := v.p.Closed()
	return !closed
}

// ---- a raw XRESPONDENT / XREP socket with one connection

type sockPeer struct {
	s      mangos.Socket
	mu     sync.Mutex
	n      int
	q      []floodTx
	prefix []byte // what precedes the id in the header of what arrives (the peer's pipe id)
}

// serve is the broken peer behind a real connection: it blocks in RecvMsg and answers every
// request/survey that arrives W times in a row (now and then with the id before), under the
// transport's own back-pressure; it ends when the socket is closed.  Once the flood is over it
// only notes what arrives.
func (sp *sockPeer) serve(r *floodRig, pi int, seed int64) (interface{}, error) {
	rnd := rand.New(rand.NewSource(seed))
	var seq int64
	buf := make([]byte, 0, 64)
	for {
		m, err := sp.s.RecvMsg()
		if err != nil {
			return nil, err
		}
		if len(m.Header) < 8 {
			m.Free()
			continue
		}
		h := m.Header
		id := binary.BigEndian.Uint32(h[len(h)-4:])
		sp.mu.Lock()
		sp.n++
		sp.q = append(sp.q, floodTx{id, string(m.Body)})
		if sp.prefix == nil {
			sp.prefix = append([]byte{}, h[:len(h)-4]...)
		}
		sp.mu.Unlock()
		m.Free()
		n := 0
		for ; n < r.sp.W && !r.stop.Load(); n++ {
			aid := id
			if n > 0 && rnd.Intn(16) == 0 {
				aid = nextID(id, -1)
			}
			seq++
			buf = floodPayload(buf[:0], aid, pi, seq)
			if !sp.answer(aid, buf) {
				break
			}
		}
		r.injected.Add(int64(n))
	}
}
func (sp *sockPeer) arrived() int { sp.mu.Lock(); defer sp.mu.Unlock(); return sp.n }
func (sp *sockPeer) room() bool   { return true }
func (sp *sockPeer) unread() int  { return 0 }
func (sp *sockPeer) news() []floodTx {
	sp.mu.Lock()
	q := sp.q
	sp.q = nil
	sp.mu.Unlock()
	return q
}
func (sp *sockPeer) answer(id uint32, payload []byte) bool {
	sp.mu.Lock()
	pre := sp.prefix
	sp.mu.Unlock()
	if pre == nil {
		return true // nothing has arrived yet: no route to answer on
	}
	m := mangos.NewMessage(len(payload))
	m.Header = append(m.Header, pre...)
	m.Header = append(m.Header, byte(id>>24), byte(id>>16), byte(id>>8), byte(id))
	m.Body = append(m.Body, payload...)
	if err := sp.s.SendMsg(m); err != nil {
		m.Free()
		return false
	}
	return true
}

// ----

type floodRig struct {
	c     *mon.Case
	sp    spec
	sock  mangos.Socket
	peers []floodPeer
	nonce string
	tag   string

	latest atomic.Uint32 // newest id any peer has seen on its connection
	stop   atomic.Bool

	injected  atomic.Int64
	delivered atomic.Int64
	stalled   atomic.Int32 // peers that found their connection not being read

	mu    sync.Mutex
	wire  map[uint32]string // id -> body of the request/survey transmitted with it
	seen  map[floodSeen]int // what the application was handed, by (context, step, id)
	acts  map[byte]int      // steps run, by kind
	curOp []atomic.Value    // per application goroutine: the call it is in
}

func (r *floodRig) body(ctx, step int) string {
	return "Q|" + strconv.Itoa(ctx) + "|" + strconv.Itoa(step) + "|" + r.nonce
}

// newerID reports whether id a was issued after id b (ids count up in the low 31 bits).
func newerID(a, b uint32) bool {
	d := (a - b) & 0x7fffffff
	return d != 0 && d < 1<<30
}

func nextID(id uint32, d int) uint32 { return (id + uint32(d)) | 0x80000000 }

func (r *floodRig) sawID(id uint32) {
	for {
		l := r.latest.Load()
		if l != 0 && !newerID(id, l) || r.latest.CompareAndSwap(l, id) {
			return
		}
	}
}

// floodPayload is the body of an injected answer: it names the id it was sent with.
func floodPayload(buf []byte, id uint32, peer int, seq int64) []byte {
	const hexd = "0123456789abcdef"
	buf = append(buf, 'F')
	for sh := 28; sh >= 0; sh -= 4 {
		buf = append(buf, hexd[(id>>uint(sh))&15])
	}
	buf = append(buf, '|')
	buf = strconv.AppendInt(buf, int64(peer), 10)
	buf = append(buf, '|')
	buf = strconv.AppendInt(buf, seq, 10)
	return buf
}

func parseFloodPayload(b []byte) (uint32, bool) {
	if len(b) < 10 || b[0] != 'F' || b[9] != '|' {
		return 0, false
	}
	v, err := strconv.ParseUint(string(b[1:9]), 16, 32)
	if err != nil {
		return 0, false
	}
	return uint32(v), true
}

// flooder is the broken peer pi.  It answers every request/survey that reaches it once (as a
// well-behaved peer would) and then keeps answering the newest id any peer has seen.  When its
// connection is not read for a long stretch of yields it stops spinning and parks until the
// library does something (so that a wedged socket is decided by the stuck detector).
func (r *floodRig) flooder(pi int, seed int64) map[uint32]string {
	p := r.peers[pi]
	rnd := rand.New(rand.NewSource(seed))
	local := map[uint32]string{}
	var seq int64
	buf := make([]byte, 0, 64)
	answer := func(id uint32) bool {
		seq++
		buf = floodPayload(buf[:0], id, pi, seq)
		return p.answer(id, buf)
	}
	defer func() { r.injected.Add(seq) }()
	spins := 0
	for !r.stop.Load() {
		for _, tx := range p.news() {
			local[tx.id] = tx.body
			r.sawID(tx.id)
			if !answer(tx.id) { // the one answer a well-behaved peer gives
				return local
			}
		}
		if !p.room() {
			spins++
			if spins > 1<<21 {
				// not being read: park until the library sends or closes something
				r.stalled.Add(1)
				ver := vt.Activity()
				if !p.room() && !r.stop.Load() {
					vt.WaitActivity(ver)
				}
				r.stalled.Add(-1)
				spins = 0
				continue
			}
			runtime.Gosched()
			continue
		}
		spins = 0
		id := r.latest.Load()
		switch rnd.Intn(16) {
		case 0:
			id = nextID(id, 1) // a guess of the next id
		case 1:
			id = nextID(id, -1) // the one before
		}
		if !answer(id) {
			return local
		}
	}
	return local
}

func (r *floodRig) recvErrOK(err error) bool {
	return err == mangos.ErrProtoState || err == mangos.ErrCanceled
}

// took notes what the application was handed: a message that is not an injected answer, or whose
// header is not the id it was injected with, is reported at once; whether the id was the right
// one for (ctx, step) is decided after the run against what was seen on the wire.
func (r *floodRig) took(ctx, step int, m *mangos.Message) bool {
	id, ok := parseFloodPayload(m.Body)
	if !ok || len(m.Header) != 4 || binary.BigEndian.Uint32(m.Header) != id {
		r.c.Violate("flood/"+r.sp.Sock+"/delivery-differs", "context %d step %d was handed Header % x Body %q: not an injected answer as injected [%s]", ctx, step, m.Header, m.Body, r.tag)
		m.Free()
		return false
	}
	m.Free()
	r.delivered.Add(1)
	r.mu.Lock()
	r.seen[floodSeen{ctx, step, id}]++
	r.mu.Unlock()
	return true
}

// app runs one context's script.
func (r *floodRig) app(ci int, cx ctxLike, steps []floodStep, opts map[string]interface{}) error {
	op := &r.curOp[ci]
	acts := map[byte]int{}
	defer func() {
		r.mu.Lock()
		for k, v := range acts {
			r.acts[k] += v
		}
		r.mu.Unlock()
	}()
	for i, st := range steps {
		op.Store("Send")
		if err := cx.Send([]byte(r.body(ci, i))); err != nil {
			r.c.Violate("flood/"+r.sp.Sock+"/send-error", "context %d step %d: Send returned %v while peers flood answers [%s]", ci, i, err, r.tag)
			return err
		}
		acts[st.Act]++
		switch st.Act {
		case 'r', 'x':
		recv:
			for k := 0; st.Act == 'x' || k < st.N; k++ {
				op.Store("Recv")
				m, err := cx.RecvMsg()
				if err != nil {
					if !r.recvErrOK(err) {
						r.c.Violate("flood/"+r.sp.Sock+"/recv-error", "context %d step %d: Recv returned %v while peers flood answers [%s]", ci, i, err, r.tag)
						return err
					}
					break recv
				}
				if !r.took(ci, i, m) {
					return fmt.Errorf("bad delivery")
				}
			}
		case 'o':
			op.Store("Close")
			if err := cx.Close(); err != nil {
				r.c.Violate("flood/"+r.sp.Sock+"/context-close-error", "context %d step %d: Close returned %v [%s]", ci, i, err, r.tag)
				return err
			}
			op.Store("OpenContext")
			nx, err := r.sock.OpenContext()
			if err != nil {
				r.c.Violate("flood/"+r.sp.Sock+"/open-context-error", "context %d step %d: OpenContext returned %v [%s]", ci, i, err, r.tag)
				return err
			}
			for k, v := range opts {
				nx.SetOption(k, v)
			}
			cx = nx
		}
	}
	op.Store("done")
	if ci != 0 {
		cx.Close()
	}
	return nil
}

func floodScript(rnd *rand.Rand, sock string, isCtx bool, n int) []floodStep {
	steps := make([]floodStep, n)
	for i := range steps {
		var st floodStep
		switch x := rnd.Intn(12); {
		case x < 5:
			st.Act = 's'
		case x < 8:
			st = floodStep{'r', 1 + rnd.Intn(3)}
		case x < 11:
			if sock == "surveyor" {
				st.Act = 'x'
			} else {
				st = floodStep{'r', 1}
			}
		default:
			if isCtx {
				st.Act = 'o'
			} else {
				st.Act = 's'
			}
		}
		steps[i] = st
	}
	return steps
}

func caseFlood(c *mon.Case, sp spec) {
	st := time.Duration(sp.ST) * time.Microsecond
	r := &floodRig{c: c, sp: sp, nonce: hx.Uniq("fl"), wire: map[uint32]string{}, seen: map[floodSeen]int{}, acts: map[byte]int{}}
	tr := sp.Tr
	if tr == "" {
		tr = "vt"
	}
	r.tag = fmt.Sprintf("%s:%s:K%d:ctx%d:W%d:q%d:st%v", sp.Sock, tr, sp.K, sp.Ctx, sp.W, sp.Q, st)
	r.sock = hx.MustSock(c, sp.Sock)
	pw := watch(r.sock)
	opts := map[string]interface{}{}
	if sp.Sock == "surveyor" {
		opts[mangos.OptionSurveyTime] = st
		if sp.Q > 0 {
			opts[mangos.OptionReadQLen] = sp.Q
		}
	} else {
		opts[mangos.OptionRetryTime] = time.Hour // one transmission per request
	}
	for k, v := range opts {
		if err := r.sock.SetOption(k, v); err != nil {
			panic(fmt.Sprintf("SetOption(%s,%v) on %s: %v", k, v, sp.Sock, err))
		}
	}
	attached := func(i int) bool {
		return c.AwaitOrViolate("harness:attach-stuck", "peer attaching", func() bool { return pw.Attached() > i }, mon.AwaitOpts{})
	}
	if sp.Tr == "" {
		name := hx.Uniq("c16f")
		L := vt.L(name)
		c.Cleanup(func() { vt.Forget(name) })
		if err := r.sock.Listen(vt.Addr(name)); err != nil {
			panic(err)
		}
		for i := 0; i < sp.K; i++ {
			p := L.Connect()
			if !attached(i) {
				return
			}
			r.peers = append(r.peers, &vtPeer{p: p, w: sp.W})
		}
	} else {
		l, err := r.sock.NewListener(hx.ListenAddr(sp.Tr), nil)
		env(err)
		env(l.Listen())
		for i := 0; i < sp.K; i++ {
			ps := hx.MustSock(c, "x"+hx.PeerOf[sp.Sock])
			d, err := ps.NewDialer(l.Address(), nil)
			env(err)
			env(d.Dial())
			if !attached(i) {
				return
			}
			p := &sockPeer{s: ps}
			r.peers = append(r.peers, p)
		}
	}
	await := func(sig, what string, cond func() bool) bool {
		return c.AwaitOrViolate("flood/"+sp.Sock+"/"+sig, what+" ["+r.tag+"]", cond, mon.AwaitOpts{MaxTimer: st})
	}

	// contexts and their scripts (drawn before anything runs: the script is a function of the case)
	ctxs := []ctxLike{r.sock}
	for i := 0; i < sp.Ctx; i++ {
		cx, err := r.sock.OpenContext()
		if err != nil {
			panic(err)
		}
		for k, v := range opts {
			cx.SetOption(k, v)
		}
		ctxs = append(ctxs, cx)
	}
	scripts := make([][]floodStep, len(ctxs))
	for i := range ctxs {
		scripts[i] = floodScript(c.Rand, sp.Sock, i > 0, sp.N)
	}
	seeds := make([]int64, len(r.peers))
	for i := range seeds {
		seeds[i] = c.Rand.Int63()
	}
	r.curOp = make([]atomic.Value, len(ctxs))
	for pi, p := range r.peers {
		if sp, ok := p.(*sockPeer); ok {
			pi := pi
			mon.Go("flood-peer", func() (interface{}, error) { return sp.serve(r, pi, seeds[pi]) })
		}
	}
	note(c, "flood %s: %d peers answer the newest id over and over, %d contexts x %d steps", r.tag, sp.K, len(ctxs), sp.N)

	// scanWire takes in what has reached the peers and they have not looked at; it returns the
	// peers that body reached (only the case goroutine calls it, and only while no flooder runs)
	scanWire := func(body string) (on []int, id uint32) {
		for pi, p := range r.peers {
			for _, tx := range p.news() {
				r.wire[tx.id] = tx.body
				r.sawID(tx.id)
				if tx.body == body {
					on = append(on, pi)
					id = tx.id
				}
			}
		}
		return
	}

	// the peers start once the first request/survey has reached one (they have an id to answer then)
	warm := mon.Go("Send", func() (interface{}, error) { return nil, r.sock.Send([]byte(r.body(0, -1))) })
	if !await("send-stuck", "first Send with ready peers", warm.Done) {
		return
	}
	if _, err, _ := warm.Result(); err != nil {
		c.Violate("flood/"+sp.Sock+"/send-error", "first Send returned %v [%s]", err, r.tag)
		return
	}
	if !await("send-not-transmitted", "first request/survey reaching a peer", func() bool {
		for _, p := range r.peers {
			if p.arrived() > 0 {
				return true
			}
		}
		return false
	}) {
		return
	}
	var floods []*mon.Call
	if sp.Tr == "" {
		scanWire("")
		for pi := range r.peers {
			pi := pi
			floods = append(floods, mon.Go("flooder", func() (interface{}, error) { return r.flooder(pi, seeds[pi]), nil }))
		}
	}
	stopped := false
	stopFlood := func() bool {
		r.stop.Store(true)
		vt.Kick()
		for _, f := range floods {
			if !c.AwaitOrViolate("harness:flooder-stuck", "flooding peer stopping", f.Done, mon.AwaitOpts{}) {
				return false
			}
		}
		stopped = true
		return true
	}
	c.Cleanup(func() {
		if !stopped {
			r.stop.Store(true)
			vt.Kick()
		}
	})

	// the application
	var apps []*mon.Call
	for ci := range ctxs {
		ci := ci
		apps = append(apps, mon.Go("flood-app", func() (interface{}, error) { return nil, r.app(ci, ctxs[ci], scripts[ci], opts) }))
	}
	for ci, a := range apps {
		res := mon.Await(a.Done, mon.AwaitOpts{MaxTimer: st})
		if res.V == mon.Done {
			if _, err, _ := a.Result(); err != nil {
				return // reported by the script
			}
			continue
		}
		op, _ := r.curOp[ci].Load().(string)
		if res.V == mon.Stuck {
			sig := "flood/" + sp.Sock + "/" + strings.ToLower(op) + "-stuck"
			if r.stalled.Load() > 0 {
				sig = "flood/" + sp.Sock + "/receiver-stalled"
			}
			c.Violate(sig, "context %d in %s while peers flood answers [%s]: stuck after %v, every goroutine parked, %d peers found their connection not being read:\n%s", ci, op, r.tag, res.Waited, r.stalled.Load(), res.Dump)
		} else {
			c.Inconclusive("context %d in %s while peers flood answers [%s]: not done after %v, process still active", ci, op, r.tag, res.Waited)
		}
		return
	}
	if !stopFlood() {
		return
	}
	for _, f := range floods {
		v, _, _ := f.Result()
		for id, b := range v.(map[uint32]string) {
			r.wire[id] = b
		}
	}
	scanWire("")

	// every answer the application was handed must carry the id that was transmitted with the
	// request/survey the context had outstanding
	var keys []floodSeen
	for k := range r.seen {
		keys = append(keys, k)
	}
	sort.Slice(keys, func(a, b int) bool {
		if keys[a].ctx != keys[b].ctx {
			return keys[a].ctx < keys[b].ctx
		}
		if keys[a].step != keys[b].step {
			return keys[a].step < keys[b].step
		}
		return keys[a].id < keys[b].id
	})
	unverifiable := 0
	for _, k := range keys {
		got, known := r.wire[k.id]
		switch {
		case !known:
			unverifiable += r.seen[k] // (a guessed id whose survey was dropped from every full send queue)
		case got != r.body(k.ctx, k.step):
			c.Violate("flood/"+sp.Sock+"/answer-to-another-id-delivered", "context %d had %q outstanding and was handed %d answers carrying id %08x, the id transmitted with %q [%s]", k.ctx, r.body(k.ctx, k.step), r.seen[k], k.id, got, r.tag)
			return
		}
	}
	c.Count("flood_answers_injected", int(r.injected.Load()))
	c.Count("flood_answers_delivered", int(r.delivered.Load()))
	c.Count("flood_answers_unverifiable", unverifiable)
	c.Count("flood_steps_abandoned", r.acts['s'])
	c.Count("flood_steps_recv", r.acts['r'])
	c.Count("flood_steps_expired", r.acts['x'])
	c.Count("flood_steps_context_reopened", r.acts['o'])

	// afterwards: the connections are still read to the end, and the socket runs one more
	// survey/request with a well-behaved answer on the first and on the last connection.  (No
	// answer that is still unread can carry the id of that last one: where peers guess the next id
	// the harness sees that everything has been read before it is issued.)
	if !await("receiver-stalled", "receivers taking every answer still unread after the flood", func() bool {
		for _, p := range r.peers {
			if p.unread() != 0 {
				return false
			}
		}
		return true
	}) {
		return
	}
	if sp.Sock == "surveyor" {
		if err := r.sock.SetOption(mangos.OptionSurveyTime, time.Hour); err != nil {
			c.Violate("flood/"+sp.Sock+"/setoption-error", "SetOption(SurveyTime) after the flood returned %v [%s]", err, r.tag)
			return
		}
	}
	var on []int
	var finalID uint32
	var finalBody string
	for attempt := 0; ; attempt++ {
		// (a survey may be dropped from a send queue that is still full; after a stuck verdict every
		// sender is parked on an empty queue, so the second attempt decides)
		fb := r.body(0, sp.N+attempt)
		finalBody = fb
		fs := mon.Go("Send", func() (interface{}, error) { return nil, r.sock.Send([]byte(fb)) })
		if !c.AwaitOrViolate("flood/"+sp.Sock+"/send-stuck-after-flood", "Send after the flood ["+r.tag+"]", fs.Done, mon.AwaitOpts{}) {
			return
		}
		if _, err, _ := fs.Result(); err != nil {
			c.Violate("flood/"+sp.Sock+"/send-error-after-flood", "Send after the flood returned %v [%s]", err, r.tag)
			return
		}
		res := mon.Await(func() bool {
			if o, id := scanWire(fb); len(o) > 0 {
				on, finalID = append(on, o...), id
			}
			return len(on) > 0
		}, mon.AwaitOpts{})
		if res.V == mon.Done {
			break
		}
		if res.V == mon.Stuck && attempt == 0 {
			continue
		}
		if res.V == mon.Stuck {
			c.Violate("flood/"+sp.Sock+"/send-not-transmitted-after-flood", "a request/survey sent after the flood reaches no peer [%s]: stuck after %v\n%s", r.tag, res.Waited, res.Dump)
		} else {
			c.Inconclusive("request/survey after the flood not on the wire after %v, process still active [%s]", res.Waited, r.tag)
		}
		return
	}
	if sp.Sock == "surveyor" {
		// give the broadcast a moment to reach the other connections too (not demanded: a survey may
		// be dropped from a full send queue; the wait ends with Await's fast phase)
		mon.Await(func() bool {
			o, _ := scanWire(finalBody)
			on = append(on, o...)
			return len(on) >= len(r.peers)
		}, mon.AwaitOpts{Watchdog: time.Millisecond})
	}
	sort.Ints(on)
	targets := []int{on[0]}
	if last := on[len(on)-1]; last != on[0] {
		targets = append(targets, last)
	}
	for _, pi := range targets {
		payload := []byte(fmt.Sprintf("SENTINEL|%s|%d", r.nonce, pi))
		note(c, "flood %s: well-behaved answer %q to id %08x on connection %d", r.tag, payload, finalID, pi)
		r.peers[pi].answer(finalID, payload)
		rc := mon.Go("RecvMsg", func() (interface{}, error) { return r.sock.RecvMsg() })
		if !c.AwaitOrViolate("flood/"+sp.Sock+"/valid-not-delivered-after-flood", fmt.Sprintf("RecvMsg of a well-behaved answer on connection %d after the flood [%s]", pi, r.tag), rc.Done, mon.AwaitOpts{}) {
			return
		}
		v, err, _ := rc.Result()
		if err != nil {
			c.Violate("flood/"+sp.Sock+"/recv-error-after-flood", "RecvMsg of a well-behaved answer after the flood returned %v [%s]", err, r.tag)
			return
		}
		m := v.(*mangos.Message)
		if !bytes.Equal(m.Header, be32(finalID)) || !bytes.Equal(m.Body, payload) {
			c.Violate("flood/"+sp.Sock+"/delivery-differs-after-flood", "after the flood RecvMsg returned Header % x Body %q, want Header % x Body %q [%s]", m.Header, m.Body, be32(finalID), payload, r.tag)
			m.Free()
			return
		}
		m.Free()
		c.Count("flood_sentinels_delivered", 1)
	}
	c.Nontrivial()
	c.Sig("flood|%s|a%d.r%d.x%d.o%d", r.tag, r.acts['s']/8, r.acts['r']/8, r.acts['x']/8, r.acts['o']/4)
}
