package c16

import (
	"encoding/binary"
	"fmt"
	"io"
	"net"
	"strings"

	"go.nanomsg.org/mangos/v3"

	"verifharness/hx"
	"verifharness/mon"
)

// caseUnlimited: with the receive limit switched off (MaxRecvSize 0 = no limit) a negative announced
// length is still not a message: the connection is dropped, nothing is delivered, nothing crashes,
// and the socket keeps serving other peers.  (Huge positive lengths are not sent here: with no limit
// the library is entitled to try to allocate them.)
func caseUnlimited(c *mon.Case, sp spec) {
	tag := fmt.Sprintf("%s:unlimited", sp.Tr)
	s := hx.MustSock(c, "xpull")
	if err := s.SetOption(mangos.OptionMaxRecvSize, 0); err != nil {
		c.Inconclusive("setup: SetOption(MaxRecvSize,0): %v", err)
		return
	}
	l, err := s.NewListener(hx.ListenAddr(sp.Tr), nil)
	if err == nil {
		err = l.Listen()
	}
	if err != nil {
		c.Inconclusive("setup: %v", err)
		return
	}
	a := l.Address()
	host := a[strings.Index(a, "://")+3:]
	ipc := sp.Tr == "ipc"
	dial := func() net.Conn {
		var cn net.Conn
		var e error
		if ipc {
			cn, e = net.Dial("unix", host)
		} else {
			cn, e = net.Dial("tcp", host)
		}
		if e != nil {
			c.Inconclusive("setup: raw dial: %v", e)
			return nil
		}
		cn.Write([]byte{0, 'S', 'P', 0, 0, 0x50, 0, 0}) // we are PUSH
		hdr := make([]byte, 8)
		hk := mon.Go("read-header", func() (interface{}, error) { _, e := io.ReadFull(cn, hdr); return nil, e })
		if !c.AwaitOrViolate("stream/handshake-stuck:"+tag, "library's SP header reaching a raw peer", hk.Done, mon.AwaitOpts{}) {
			return nil
		}
		return cn
	}
	frame := func(n uint64, body []byte) []byte {
		var f []byte
		if ipc {
			f = append(f, 1)
		}
		b := make([]byte, 8)
		binary.BigEndian.PutUint64(b, n)
		return append(append(f, b...), body...)
	}
	recv := func(want string, what string) bool {
		k := mon.Go("Recv", func() (interface{}, error) { b, e := s.Recv(); return b, e })
		if !c.AwaitOrViolate("stream/in-limit-not-delivered:"+tag, what, k.Done, mon.AwaitOpts{}) {
			return false
		}
		v, e, _ := k.Result()
		if e != nil || string(v.([]byte)) != want {
			c.Violate("stream/delivered-differs:"+tag, "%s: Recv returned %q, %v; want %q", what, v, e, want)
			return false
		}
		return true
	}
	for round := 0; round < sp.N && !c.Failed(); round++ {
		cn := dial()
		if cn == nil {
			return
		}
		ok1 := fmt.Sprintf("ok-%d-a", round)
		cn.Write(frame(uint64(len(ok1)), []byte(ok1)))
		if !recv(ok1, "a well-formed message before the hostile one") {
			cn.Close()
			return
		}
		neg := []uint64{^uint64(0), 1 << 63, ^uint64(0) - 15, 1<<63 | 5}[c.Rand.Intn(4)]
		note(c, "round %d: announced length %#x with MaxRecvSize=0", round, neg)
		cn.Write(frame(neg, []byte("tail-that-is-not-a-message")))
		// the library must hang up on us
		ek := mon.Go("read-eof", func() (interface{}, error) {
			buf := make([]byte, 64)
			for {
				if _, e := cn.Read(buf); e != nil {
					return nil, nil
				}
			}
		})
		if !c.AwaitOrViolate("stream/bad-length-not-dropped-at-once:negative:"+tag, fmt.Sprintf("the library dropping a connection that announced length %#x (MaxRecvSize=0)", neg), ek.Done, mon.AwaitOpts{}) {
			cn.Close()
			return
		}
		cn.Close()
		// the socket still serves a fresh peer, and nothing from the hostile frame was delivered before it
		cn2 := dial()
		if cn2 == nil {
			return
		}
		ok2 := fmt.Sprintf("ok-%d-b", round)
		cn2.Write(frame(uint64(len(ok2)), []byte(ok2)))
		good := recv(ok2, "a well-formed message from a fresh peer after the hostile one")
		cn2.Close()
		if !good {
			return
		}
		c.Count("negative_lengths_with_no_limit", 1)
	}
	c.Nontrivial()
	c.Sig("unlimited|%s", sp.Tr)
}
