package c16

import (
	"bytes"
	"encoding/binary"
	"fmt"
	"math/rand"

	"verifharness/props/c15/spcodec"
)

// Reference models for C16, written from the property statement and DESIGN
// section 3 (C16): what a pattern's receive path may hand to the application
// for a given transport message, and what a stream of bytes on tcp/tls/ipc
// amounts to.  They share no code with the library.
//
// Verdicts are three-valued.  The exact hop limit is C09's subject, and the
// patterns do not agree on whether "hops == TTL" is still inside the limit, so
// a message exactly at the limit MAY be delivered (and if it is, it must be
// delivered exactly as predicted); everything else is MUST or DROP.

type verdict int

const (
	vDrop verdict = iota
	vMust
	vMay
)

func (v verdict) String() string { return [...]string{"drop", "must", "may"}[v] }

type pred struct {
	V    verdict
	Hdr  []byte // header the application must see (nil for cooked sockets: they strip it)
	Body []byte
	Why  string
	Wire []byte // pattern header as it would be forwarded/replied (backtrace, hop word), for side checks
}

func (p pred) String() string {
	return fmt.Sprintf("%s(hdr % x body % x) %s", p.V, p.Hdr, p.Body, p.Why)
}

type model struct {
	Sock string
	TTL  int
	Subs [][]byte
	Cur  uint32 // outstanding request / survey id (0: none)
}

func be32(v uint32) []byte { b := make([]byte, 4); binary.BigEndian.PutUint32(b, v); return b }

func isRaw(sock string) bool { return sock[0] == 'x' }

func family(sock string) string {
	switch sock {
	case "rep", "xrep", "respondent", "xrespondent":
		return "bt"
	case "req", "surveyor":
		return "id"
	case "xreq", "xsurveyor":
		return "id4"
	case "pair1", "xpair1", "star", "xstar":
		return "hop"
	case "sub":
		return "sub"
	case "pub", "xpub", "push", "xpush":
		return "sink"
	}
	return "any" // pair xpair bus xbus pull xpull xsub
}

// predict says what the application may see for transport message b arriving
// on the pipe with id pipeID.  It updates the model state (req: a delivered
// reply completes the request).
func (m *model) predict(b []byte, pipeID uint32) pred {
	raw := isRaw(m.Sock)
	switch family(m.Sock) {
	case "sink":
		return pred{V: vDrop, Why: "pattern has no receive side"}
	case "any":
		p := pred{V: vMust, Body: b}
		if m.Sock == "xbus" {
			p.Hdr = be32(pipeID)
		}
		return p
	case "sub":
		for _, s := range m.Subs {
			if bytes.HasPrefix(b, s) {
				return pred{V: vMust, Body: b, Why: fmt.Sprintf("matches %q", s)}
			}
		}
		return pred{V: vDrop, Why: "no subscription is a prefix"}
	case "id4":
		if len(b) < 4 {
			return pred{V: vDrop, Why: "shorter than an id"}
		}
		return pred{V: vMust, Hdr: b[:4], Body: b[4:]}
	case "id":
		if len(b) < 4 {
			return pred{V: vDrop, Why: "shorter than an id"}
		}
		id := binary.BigEndian.Uint32(b)
		if m.Cur == 0 || id != m.Cur {
			return pred{V: vDrop, Why: fmt.Sprintf("id %08x is not the outstanding %08x", id, m.Cur)}
		}
		if m.Sock == "req" {
			m.Cur = 0 // one reply per request
		}
		return pred{V: vMust, Hdr: b[:4], Body: b[4:], Why: "answers the outstanding id"} // the cooked sockets leave the id in Header
	case "hop":
		if len(b) < 4 {
			return pred{V: vDrop, Why: "shorter than a hop word"}
		}
		if b[0] != 0 || b[1] != 0 || b[2] != 0 || b[3] == 255 {
			return pred{V: vDrop, Why: "hop word out of range"}
		}
		h := int(b[3])
		if h > m.TTL {
			return pred{V: vDrop, Why: "hops above TTL"}
		}
		p := pred{V: vMust, Body: b[4:], Wire: []byte{0, 0, 0, b[3] + 1}}
		if raw {
			p.Hdr = p.Wire
		}
		if h == m.TTL {
			p.V, p.Why = vMay, "hops == TTL (limit convention is C09's)"
		}
		return p
	case "bt":
		k, off := 0, 0
		for {
			if len(b)-off < 4 {
				return pred{V: vDrop, Why: fmt.Sprintf("backtrace not terminated after %d words", k)}
			}
			w := b[off : off+4]
			off += 4
			k++
			if w[0]&0x80 != 0 {
				break
			}
			if k > m.TTL {
				return pred{V: vDrop, Why: "more words than TTL"}
			}
		}
		if k > m.TTL {
			return pred{V: vDrop, Why: "more words than TTL"}
		}
		p := pred{V: vMust, Body: b[off:], Wire: b[:off]}
		if raw {
			p.Hdr = append(be32(pipeID), b[:off]...)
		}
		if k == m.TTL {
			p.V, p.Why = vMay, "words == TTL (limit convention is C09's)"
		}
		return p
	}
	panic("model: " + m.Sock)
}

// sentinel returns a transport message the model says MUST be delivered, carrying tag.
func (m *model) sentinel(tag []byte) []byte {
	switch family(m.Sock) {
	case "any", "sink":
		return tag
	case "sub":
		return append(append([]byte{}, m.Subs[0]...), tag...)
	case "id4":
		return append([]byte{0x80, 0x5e, 0x17, 0x01}, tag...)
	case "id":
		return append(be32(m.Cur), tag...)
	case "hop":
		return append([]byte{0, 0, 0, 0}, tag...)
	case "bt":
		return append([]byte{0x80, 0x5e, 0x17, 0x02}, tag...)
	}
	panic("sentinel")
}

// ---- hostile body generator ---------------------------------------------------

var byteClasses = []byte{0x00, 0x01, 0x03, 0x7f, 0x80, 0xff}

func classBytes(rnd *rand.Rand, n int) []byte {
	b := make([]byte, n)
	for i := range b {
		if rnd.Intn(8) == 0 {
			b[i] = byte(rnd.Intn(256))
		} else {
			b[i] = byteClasses[rnd.Intn(len(byteClasses))]
		}
	}
	return b
}

// genBody: half purely random over byte classes (length 0..16), half near-valid
// for the pattern (a valid header with one field mutated, truncated or extended).
func (m *model) genBody(rnd *rand.Rand, olds []uint32) (b []byte, class string) {
	if rnd.Intn(2) == 0 {
		return classBytes(rnd, rnd.Intn(17)), "random"
	}
	tail := func() []byte { return classBytes(rnd, rnd.Intn(6)) }
	switch family(m.Sock) {
	case "bt":
		ks := []int{1, 2, m.TTL - 1, m.TTL, m.TTL + 1, m.TTL + 2, rnd.Intn(11)}
		k := ks[rnd.Intn(len(ks))]
		if k < 1 {
			k = 1
		}
		var h []byte
		for i := 0; i < k; i++ {
			w := classBytes(rnd, 4)
			w[0] &= 0x7f
			if i == k-1 {
				w[0] |= 0x80
			}
			h = append(h, w...)
		}
		switch rnd.Intn(7) {
		case 0, 1:
			return append(h, tail()...), fmt.Sprintf("bt-valid-k%d", rel(k, m.TTL))
		case 2:
			h[len(h)-4] &= 0x7f
			return append(h, tail()...), "bt-unterminated"
		case 3:
			h[4*rnd.Intn(k)] |= 0x80
			return append(h, tail()...), "bt-early-terminator"
		case 4:
			return h[:len(h)-1-rnd.Intn(3)], "bt-truncated"
		case 5:
			x := append(h, tail()...)
			x[rnd.Intn(len(x))] ^= 1 << uint(rnd.Intn(8))
			return x, "bt-bitflip"
		default:
			w := classBytes(rnd, 4)
			w[0] &= 0x7f
			return append(append(w, h...), tail()...), "bt-extended"
		}
	case "id":
		id := m.Cur
		if id == 0 {
			id = rnd.Uint32() | 0x80000000
		}
		switch rnd.Intn(8) {
		case 0:
			return append(be32(id), tail()...), "id-exact"
		case 1:
			return append(be32(id^(1<<uint(rnd.Intn(32)))), tail()...), "id-bitflip"
		case 2:
			return append(be32(id&0x7fffffff), tail()...), "id-topbit-cleared"
		case 3:
			return be32(id)[:rnd.Intn(4)], "id-truncated"
		case 4:
			if len(olds) > 0 {
				return append(be32(olds[rnd.Intn(len(olds))]), tail()...), "id-stale"
			}
			return append(be32(id-1), tail()...), "id-minus1"
		case 5:
			return append(be32(id+1), tail()...), "id-plus1"
		case 6:
			return be32(id), "id-exact-empty"
		default:
			return append([]byte{0}, append(be32(id), tail()...)...), "id-shifted"
		}
	case "id4":
		return classBytes(rnd, rnd.Intn(9)), "id4-short"
	case "hop":
		hs := []int{0, 1, m.TTL - 1, m.TTL, m.TTL + 1, 254, 255, rnd.Intn(256)}
		h := hs[rnd.Intn(len(hs))]
		if h < 0 {
			h = 0
		}
		b := append([]byte{0, 0, 0, byte(h)}, tail()...)
		switch rnd.Intn(5) {
		case 0, 1:
			return b, fmt.Sprintf("hop-%d", rel(h, m.TTL))
		case 2:
			b[rnd.Intn(3)] = byteClasses[1+rnd.Intn(len(byteClasses)-1)]
			return b, "hop-highbytes"
		case 3:
			return b[:rnd.Intn(4)], "hop-truncated"
		default:
			b[rnd.Intn(len(b))] ^= 1 << uint(rnd.Intn(8))
			return b, "hop-bitflip"
		}
	case "sub":
		if len(m.Subs) == 0 {
			return classBytes(rnd, rnd.Intn(9)), "sub-random"
		}
		s := append([]byte{}, m.Subs[rnd.Intn(len(m.Subs))]...)
		switch rnd.Intn(5) {
		case 0:
			return s, "sub-exact"
		case 1:
			return append(s, tail()...), "sub-extended"
		case 2:
			if len(s) > 0 {
				return s[:len(s)-1], "sub-short"
			}
			return nil, "sub-empty"
		case 3:
			if len(s) > 0 {
				s[len(s)-1] ^= 1 << uint(rnd.Intn(8))
			}
			return append(s, tail()...), "sub-bitflip"
		default:
			return append(classBytes(rnd, 1), s...), "sub-shifted"
		}
	}
	return classBytes(rnd, rnd.Intn(25)), "any"
}

// rel maps v to -1/0/+1/… relative to the limit for class names (bounded).
func rel(v, lim int) int {
	d := v - lim
	if d < -2 {
		return -9
	}
	if d > 2 {
		return 9
	}
	return d
}

// ---- stream model ----------------------------------------------------------------

// streamPred is what a byte stream sent by a peer (after reading the
// library's header) amounts to under the SP stream mappings and a receive limit.
type streamPred struct {
	Attach     bool     // the first 8 bytes are the header the library expects
	HsRejected bool     // 8 header bytes are present and wrong: the library must close
	Deliver    [][]byte // payloads of the complete, well-formed, in-limit frames, in order
	DropLen    bool     // a frame announced a negative or over-limit length: "dropped at once"
	DropAt     int      // stream offset just after the offending length field
	BadType    bool     // an IPC frame did not start with 0x01: nothing after it is a well-formed message
	Partial    int      // trailing bytes that do not complete a frame (the library must wait)
}

func predictStream(ipc bool, limit int, wantPeer uint16, stream []byte) streamPred {
	var p streamPred
	if len(stream) < spcodec.HeaderLen {
		p.Partial = len(stream)
		return p
	}
	if !spcodec.HeaderOK(stream[:spcodec.HeaderLen], wantPeer) {
		p.HsRejected = true
		return p
	}
	p.Attach = true
	d := &spcodec.Decoder{IPC: ipc, Max: uint64(limit)}
	if limit <= 0 {
		d.Max = 1 << 62
	}
	d.Write(stream[spcodec.HeaderLen:])
	for {
		before := d.Buffered()
		pl, ok, err := d.Next()
		if err != nil {
			consumed := len(stream) - before
			if bytes.Contains([]byte(err.Error()), []byte("message type")) {
				p.BadType = true
				p.DropAt = consumed
			} else {
				p.DropLen = true
				p.DropAt = consumed + spcodec.PrefixLen(ipc)
			}
			return p
		}
		if !ok {
			p.Partial = d.Buffered()
			return p
		}
		p.Deliver = append(p.Deliver, pl)
	}
}
