package c18

import (
	"fmt"
	"time"

	"go.nanomsg.org/mangos/v3"

	"verifharness/hx"
	"verifharness/mon"
)

const readyD = 2 * time.Second

func hangJudged(d time.Duration) bool { return d == 20*time.Millisecond || d == 100*time.Millisecond }

// runBlocked: positive deadline D, the call cannot complete -> the corresponding
// timeout error, not before D (exact), not hanging beyond it.
func runBlocked(c *mon.Case, sp spec) {
	w := newWorld(c, sp)
	if w == nil {
		return
	}
	if sp.Op == "send" {
		if !w.prepareSend() {
			return
		}
	} else if !w.prepareRecv() {
		return
	}
	D, O := sp.D(), sp.OD()
	if sp.FNP && !w.setOpt(optFNP, true) {
		return
	}
	if !sp.Inh {
		// the other direction's deadline (if any) first or last: the order must not matter
		otherFirst := O > 0 && c.Rand.Intn(2) == 0
		if otherFirst && !w.setOpt(w.otherDlOpt(), O) {
			return
		}
		if !w.setOpt(w.dlOpt(), D) {
			return
		}
		if O > 0 && !otherFirst && !w.setOpt(w.otherDlOpt(), O) {
			return
		}
	}
	if sp.Op == "send" {
		w.rdl = O
	}
	maxT := D
	if O > maxT {
		maxT = O // not a timer that may end this call, but one a defective library could arm for it
	}
	if sp.Inh {
		c.Count("inherited_deadline_calls", 1)
	}
	if O > 0 {
		c.Count("other_direction_deadline_calls", 1)
	}
	w.measureBlocked(D, O, maxT, sp.Peer == "vt-leave", nil, "")
}

// measureBlocked issues the timed call of the case until enough usable measurements are in and
// judges each one: the corresponding timeout error, not before D (exact), not hanging beyond it
// (stuck detector with maxT; canary rule on three consecutive attempts for D in {20,100} ms).
// pre (if any) runs before every attempt, after arm; besides (if any) describes what else is going
// on at the socket (part of the witness).
func (w *world) measureBlocked(D, O, maxT time.Duration, leave bool, pre func() bool, besides string) {
	c, sp := w.c, w.sp
	// Two good measurements for short deadlines: the second call starts >= D after
	// the option was set, so a timer armed once (at SetOption / creation) instead
	// of per call shows up as early.  A suspected overshoot is re-measured: a
	// deterministic slip repeats, scheduling noise does not.
	need := 1
	if !leave && D <= 100*time.Millisecond {
		need = 2
	}
	good, suspects := 0, 0
	var lastEl time.Duration
	for attempt := 0; attempt < 6 && good < need; attempt++ {
		if !w.arm() {
			return
		}
		if pre != nil && !pre() {
			return
		}
		tc := w.timedOp()
		if leave {
			tc.call.ParkedIn(w.frame())
			w.dropAll()
			c.Count("peers_dropped_mid_call", len(w.vps))
		}
		if !c.AwaitOrViolate("deadline-ignored/"+w.id(), fmt.Sprintf("%s with deadline %v (other direction's deadline %v, inherited from the socket: %v; peer %s, state %s)%s", w.id(), D, O, sp.Inh, sp.Peer, sp.State, besides), tc.call.Done, mon.AwaitOpts{MaxTimer: maxT}) {
			w.outcome = "no-return"
			return
		}
		err, el := tc.err(), tc.elapsed()
		lastEl = el
		c.Logf("attempt %d: %s -> %s after %v (D=%v)", attempt, w.id(), errName(err), el, D)
		c.Count("timed_calls", 1)
		switch {
		case err == w.wantTimeout():
			if el < D {
				w.outcome = "early"
				c.Violate("early-timeout/"+w.id(), "%s (peer %s, state %s, q=%d, call #%d after the option was set; other direction's deadline %v; deadlines inherited from the socket: %v)%s: %v returned %v after the call was invoked, deadline %v — %v early", w.id(), sp.Peer, sp.State, sp.Q, attempt+1, O, sp.Inh, besides, err, el, D, D-el)
				return
			}
			c.Count("timeouts_not_early", 1)
			c.Nontrivial()
			w.outcome = "timeout"
			if !leave && hangJudged(D) {
				if mon.UpperBoundExceeded(el, D) {
					suspects++
					c.Count("upper_bound_suspects", 1)
					if suspects >= 3 {
						w.outcome = "hang"
						c.Violate("hang/"+w.id(), "%s%s: deadline %v, three calls returned the timeout far beyond it (last after %v; canary worst oversleep %v)", w.id(), besides, D, lastEl, mon.CanaryWorst())
						return
					}
					continue
				}
				c.Count("upper_bounds_checked", 1)
			}
			good++
		case isTimeoutErr(err):
			w.outcome = "wrong-timeout"
			c.Violate("wrong-timeout-error/"+w.id(), "%s%s returned %v, the timeout error of the other direction", w.id(), besides, err)
			return
		case leave && err == mangos.ErrNoPeers && !sp.FNP:
			// the no-peers error belongs to fail-no-peers mode; without it a peer leaving leaves the
			// blocked call to its deadline
			w.outcome = "left:ErrNoPeers"
			c.Violate("no-peers-error-without-fail-no-peers/"+w.id(), "%s (fail-no-peers NOT set, deadline %v, state %s, q=%d): all %d peers were dropped while the call was in progress, and it returned %v after %v — want %v at the deadline", w.id(), D, sp.State, sp.Q, len(w.vps), err, el, w.wantTimeout())
			return
		case leave:
			// the peer left during the wait: any other outcome is outside the statement
			w.outcome = "left:" + errName(err)
			c.Count("left_mid_call_other_outcome", 1)
			return
		case err == nil:
			w.outcome = "not-blocked"
			c.Inconclusive("%s (peer %s, state %s, q=%d)%s: the call completed (%v) instead of blocking — state not reached", w.id(), sp.Peer, sp.State, sp.Q, besides, el)
			return
		default:
			w.outcome = "wrong-error:" + errName(err)
			c.Violate("blocked-call-wrong-error/"+w.id()+"/"+errName(err), "%s (peer %s, state %s)%s with deadline %v returned %v after %v, want %v", w.id(), sp.Peer, sp.State, besides, D, err, el, w.wantTimeout())
			return
		}
	}
	if good < need {
		c.Inconclusive("%s: deadline %v: %d of %d measurements usable (%d suspected overshoots, last %v, canary worst %v)", w.id(), D, good, need, suspects, lastEl, mon.CanaryWorst())
	}
}

// runReady: D = 2 s and the call can complete at once -> it must not be failed by the deadline.
func runReady(c *mon.Case, sp spec) {
	w := newWorld(c, sp)
	if w == nil {
		return
	}
	n := 1
	if sp.Op == "send" {
		if !w.prepareSend() {
			return
		}
	} else {
		if !w.prepareRecv() {
			return
		}
		n = sp.K
		if recvFam[sp.Proto] == "reply" || n < 1 {
			n = 1
		}
	}
	if !w.setOpt(w.dlOpt(), readyD) {
		return
	}
	if !w.arm() {
		return
	}
	if sp.Op == "recv" && !w.feed(n) {
		return
	}
	for i := 0; i < n; i++ {
		tc := w.timedOp()
		if !c.AwaitOrViolate("deadline-ignored/"+w.id(), fmt.Sprintf("%s with deadline %v and the call satisfiable at once", w.id(), readyD), tc.call.Done, mon.AwaitOpts{MaxTimer: readyD}) {
			w.outcome = "no-return"
			return
		}
		err, el := tc.err(), tc.elapsed()
		c.Logf("ready call %d: %s -> %s after %v", i, w.id(), errName(err), el)
		c.Count("timed_calls", 1)
		switch {
		case err == nil:
			c.Count("ready_calls_succeeded", 1)
			c.Nontrivial()
			w.outcome = "ok"
		case isTimeoutErr(err) && el < readyD:
			w.outcome = "failed-by-deadline"
			c.Violate("ready-call-failed-by-deadline/"+w.id(), "%s (state %s, q=%d, k=%d, %s): the call could complete at once but returned %v after %v with a deadline of %v", w.id(), sp.State, sp.Q, sp.K, sp.Tr, err, el, readyD)
			return
		case isTimeoutErr(err):
			w.outcome = "stall"
			c.Inconclusive("%s: timeout after %v >= %v although the call was satisfiable — machine stall or lost message, not decidable here", w.id(), el, readyD)
			return
		default:
			w.outcome = "err:" + errName(err)
			c.Inconclusive("%s: satisfiable call returned %v", w.id(), err)
			return
		}
	}
}

// runNoDeadline: no deadline configured -> the call waits (harness sees it parked, twice) and completes when satisfied.
func runNoDeadline(c *mon.Case, sp spec) {
	w := newWorld(c, sp)
	if w == nil {
		return
	}
	var call *mon.Call
	if sp.Op == "send" {
		if !w.prepareSend() {
			return
		}
		if sendFam[sp.Proto] == "reply" {
			call = w.parked // the subject's own send that parked on the full chain
		}
	} else if !w.prepareRecv() {
		return
	}
	if call == nil {
		if !w.arm() {
			return
		}
		call = w.timedOp().call
	}
	early := func(when string) {
		_, err, _ := call.Result()
		if isTimeoutErr(err) {
			w.outcome = "timeout"
			c.Violate("no-deadline-timeout/"+w.id(), "%s: no deadline configured, yet the call returned %v (%s)", w.id(), err, when)
			return
		}
		w.outcome = "returned:" + errName(err)
		if sp.Op == "send" && sp.Peer != "slow" {
			// queue state is deterministic here (counted fill against a held/absent peer)
			c.Violate("no-deadline/send-returned-without-waiting/"+w.id(), "%s (peer %s, q=%d full): Send without deadline returned %v %s instead of waiting", w.id(), sp.Peer, sp.Q, err, when)
			return
		}
		if sp.Op == "recv" {
			c.Violate("no-deadline/recv-returned-without-waiting/"+w.id()+"/"+errName(err), "%s: Recv without deadline and nothing to receive returned %v %s", w.id(), err, when)
			return
		}
		c.Inconclusive("%s: call returned %v %s", w.id(), err, when)
	}
	if !call.ParkedIn(w.frame()) {
		if call.Done() {
			early("before it was seen parked")
		} else {
			c.Inconclusive("%s: call neither parked nor returned", w.id())
		}
		return
	}
	mon.Sleep(60 * time.Millisecond) // pacing only
	if call.Done() || !call.ParkedIn(w.frame()) {
		if call.Done() {
			early("within 60ms of parking")
		} else {
			c.Inconclusive("%s: call left the parked state without returning", w.id())
		}
		return
	}
	c.Count("no_deadline_calls_seen_parked", 1)
	if sp.Op == "send" {
		if !w.satisfy() {
			return
		}
	} else if !w.feed(1) {
		return
	}
	if !c.AwaitOrViolate("no-deadline/not-completing-when-satisfied/"+w.id(), fmt.Sprintf("%s parked without deadline, then satisfied (peer %s)", w.id(), sp.Peer), call.Done, mon.AwaitOpts{}) {
		w.outcome = "no-return"
		return
	}
	_, err, _ := call.Result()
	switch {
	case err == nil:
		w.outcome = "waited-then-ok"
		c.Count("no_deadline_calls_completed", 1)
		c.Nontrivial()
	case isTimeoutErr(err):
		w.outcome = "timeout"
		c.Violate("no-deadline-timeout/"+w.id(), "%s: no deadline configured, yet the call returned %v", w.id(), err)
	default:
		w.outcome = "err:" + errName(err)
		c.Inconclusive("%s: satisfied call returned %v", w.id(), err)
	}
}

// runBestEffort: a best-effort send returns nil without blocking, whatever the queue / peer state.
func runBestEffort(c *mon.Case, sp spec) {
	w := newWorld(c, sp)
	if w == nil {
		return
	}
	if !w.prepareSend() {
		return
	}
	var D time.Duration
	if sp.WithDL {
		D = sp.D()
	}
	// the send deadline (if any) before or after best effort: the order must not matter
	dlFirst := sp.WithDL && c.Rand.Intn(2) == 0
	if !sp.Inh {
		if dlFirst && !w.setOpt(optSD, D) {
			return
		}
		if !w.setOpt(optBE, true) {
			return
		}
		if sp.WithDL && !dlFirst && !w.setOpt(optSD, D) {
			return
		}
	}
	if sp.Inh {
		c.Count("inherited_best_effort_calls", 1)
	}
	if !w.arm() {
		return
	}
	tc := w.timedOp()
	// "never blocks": the calling goroutine must never be seen parked on a channel, select or
	// condition inside the send (waiting for a lock is not blocking on flow control).  One
	// observation of such a state is a refutation that does not depend on how long it lasted.
	waitObs, waitAt := 0, ""
	watched := func() bool {
		if tc.call.Done() {
			return true
		}
		for _, g := range mon.Dump() {
			if g.ID != tc.call.GID || !g.HasFrame("Send") {
				continue
			}
			switch g.State {
			case "select", "chan send", "chan receive", "sync.Cond.Wait", "sleep":
				waitObs++
				waitAt = g.Short()
			}
		}
		return false
	}
	if !c.AwaitOrViolate("best-effort-blocked/"+w.id(), fmt.Sprintf("best-effort %s (peer %s, queue %s, q=%d, send deadline %v)", w.id(), sp.Peer, sp.State, sp.Q, D), watched, mon.AwaitOpts{MaxTimer: D}) {
		w.outcome = "no-return"
		return
	}
	err, el := tc.err(), tc.elapsed()
	c.Count("timed_calls", 1)
	c.Count("best_effort_waiting_observations", waitObs)
	switch {
	case waitObs > 0:
		w.outcome = "waited"
		c.Violate("best-effort/waited/"+w.id(), "best-effort %s (peer %s, queue %s, q=%d, send deadline %v) was seen waiting inside the send %d time(s) (%s); it returned %v after %v — a best-effort send queues or drops, it never waits", w.id(), sp.Peer, sp.State, sp.Q, D, waitObs, waitAt, err, el)
	case err == nil:
		w.outcome = "ok"
		c.Count("best_effort_sends_returned", 1)
		c.Nontrivial()
	case isTimeoutErr(err):
		w.outcome = "timeout"
		c.Violate("best-effort/timeout-error/"+w.id(), "best-effort %s (peer %s, queue %s) returned %v after %v: it waited for the send deadline instead of queueing or dropping", w.id(), sp.Peer, sp.State, err, el)
	default:
		w.outcome = "err:" + errName(err)
		c.Inconclusive("best-effort %s returned %v", w.id(), err)
	}
}

// runFNPNone: fail-no-peers and no connected peer -> ErrNoPeers at once.
func runFNPNone(c *mon.Case, sp spec) {
	w := newWorld(c, sp)
	if w == nil {
		return
	}
	if sendFam[sp.Proto] == "queue" && !w.setQ(mangos.OptionWriteQLen, sp.Q, true) {
		return
	}
	needReq := sp.Op == "recv" // REQ: Recv is only in contract with a request outstanding
	if sp.Left {
		if !w.addVT(false) {
			return
		}
		if needReq && !w.setup("request", func() error { return w.send(w.obj) }) {
			return
		}
		w.dropAll()
		if !c.AwaitOrViolate("harness:detach-stuck/"+sp.Proto, "dropped vt pipe detaching", func() bool { return w.watch.Detached() >= 1 }, mon.AwaitOpts{}) {
			return
		}
	} else {
		if c.Rand.Intn(2) == 0 {
			w.listenVT() // a listening endpoint nobody connected to
		}
		if needReq {
			if err := w.obj.SetOption(mangos.OptionBestEffort, true); err != nil {
				c.Inconclusive("req: BestEffort for the set-up request: %v", err)
				return
			}
			ok := w.setup("request-best-effort", func() error { return w.send(w.obj) })
			w.obj.SetOption(mangos.OptionBestEffort, false)
			if !ok {
				return
			}
		}
	}
	if !sp.Inh && !w.setOpt(optFNP, true) {
		return
	}
	if sp.Inh {
		c.Count("inherited_fail_no_peers_calls", 1)
	}
	if sp.State == "be" && sp.Op == "send" {
		// best effort set as well: with no peer connected the no-peers error still comes first
		// (best effort is about not waiting for flow control, not about hiding that nobody is there)
		if err := w.obj.SetOption(mangos.OptionBestEffort, true); err != nil {
			c.Inconclusive("%s: BestEffort next to FailNoPeers: %v", w.id(), err)
			return
		}
	}
	var D time.Duration
	if sp.WithDL {
		D = sp.D()
		if !sp.Inh && !w.setOpt(w.dlOpt(), D) {
			return
		}
	}
	tc := w.timedOp()
	if !c.AwaitOrViolate("fnp/blocked-with-no-peer/"+w.id(), fmt.Sprintf("%s with fail-no-peers and no peer (left=%v, deadline %v)", w.id(), sp.Left, D), tc.call.Done, mon.AwaitOpts{MaxTimer: D}) {
		w.outcome = "no-return"
		return
	}
	err, el := tc.err(), tc.elapsed()
	c.Count("timed_calls", 1)
	if err == mangos.ErrNoPeers {
		w.outcome = "ErrNoPeers"
		c.Count("no_peers_errors_observed", 1)
		c.Nontrivial()
		return
	}
	w.outcome = "wrong:" + errName(err)
	c.Violate("fnp/wrong-result-with-no-peer/"+w.id()+"/"+errName(err), "%s with fail-no-peers and no connected peer (a peer had left: %v; deadline %v) returned %v after %v, want ErrNoPeers", w.id(), sp.Left, D, err, el)
}

// runFNPLeave: fail-no-peers, call parked with vt peers connected; it keeps
// waiting while a peer remains and fails with ErrNoPeers when the last one leaves.
func runFNPLeave(c *mon.Case, sp spec) {
	w := newWorld(c, sp)
	if w == nil {
		return
	}
	if sp.Op == "send" {
		if !w.prepareSend() {
			return
		}
	} else if !w.prepareRecv() {
		return
	}
	if !w.arm() {
		return
	}
	if !w.setOpt(optFNP, true) {
		return
	}
	tc := w.timedOp()
	call := tc.call
	if !call.ParkedIn(w.frame()) {
		if call.Done() {
			err := tc.err()
			w.outcome = "returned:" + errName(err)
			if err == mangos.ErrNoPeers {
				c.Violate("fnp/failed-with-peer-connected/"+w.id(), "%s: fail-no-peers set, %d vt peers connected, call returned ErrNoPeers instead of waiting", w.id(), len(w.vps))
			} else {
				c.Inconclusive("%s: call returned %v instead of parking", w.id(), err)
			}
		} else {
			c.Inconclusive("%s: call neither parked nor returned", w.id())
		}
		return
	}
	for i, p := range w.vps {
		p.Drop()
		if !c.AwaitOrViolate("harness:detach-stuck/"+sp.Proto, "dropped vt pipe detaching", func() bool { return w.watch.Detached() >= i+1 }, mon.AwaitOpts{}) {
			return
		}
		c.Count("peers_dropped_mid_call", 1)
		if i == len(w.vps)-1 {
			break
		}
		mon.Sleep(20 * time.Millisecond) // pacing only
		if call.Done() {
			err := tc.err()
			w.outcome = "early:" + errName(err)
			if err == mangos.ErrNoPeers {
				c.Violate("fnp/failed-before-last-peer-left/"+w.id(), "%s: ErrNoPeers after %d of %d peers left (one still attached)", w.id(), i+1, len(w.vps))
			} else {
				c.Inconclusive("%s: call returned %v after %d of %d peers left", w.id(), err, i+1, len(w.vps))
			}
			return
		}
	}
	if !c.AwaitOrViolate("fnp/still-blocked-after-last-peer-left/"+w.id(), fmt.Sprintf("%s parked with fail-no-peers, all %d peers dropped and detached", w.id(), len(w.vps)), call.Done, mon.AwaitOpts{}) {
		w.outcome = "no-return"
		return
	}
	err := tc.err()
	c.Count("timed_calls", 1)
	if err == mangos.ErrNoPeers {
		w.outcome = "ErrNoPeers"
		c.Count("no_peers_errors_observed", 1)
		c.Nontrivial()
		return
	}
	w.outcome = "wrong:" + errName(err)
	c.Violate("fnp/wrong-result-after-last-peer-left/"+w.id()+"/"+errName(err), "%s: last of %d peers left during the wait, call returned %v, want ErrNoPeers", w.id(), len(w.vps), err)
}

// runMulti: several callers blocked at the same time — N goroutines on one
// socket (same deadline; only where the pattern allows concurrent calls on one
// object) or the socket and N-1 contexts each with its OWN deadline.  Every
// call must return the corresponding timeout error, none before its own D.
// Library yield points are on, so the interleaving of timers, wake-ups and
// cancellations varies with the case seed.
func runMulti(c *mon.Case, sp spec) {
	w := newWorld(c, spec{Kind: sp.Kind, Proto: sp.Proto, Obj: "sock", Op: sp.Op, Peer: sp.Peer, NPipes: sp.NPipes, Q: sp.Q, State: sp.State, K: sp.K, DUs: sp.DUs})
	if w == nil {
		return
	}
	w.sp = sp
	n := sp.K
	dchoices := []time.Duration{15 * time.Millisecond, 40 * time.Millisecond, 90 * time.Millisecond, 150 * time.Millisecond, 25 * time.Millisecond, 60 * time.Millisecond}
	eps := []endpoint{w.sock}
	ds := []time.Duration{sp.D()}
	if sp.Obj == "ctx" {
		for i := 1; i < n; i++ {
			cx, err := w.sock.OpenContext()
			if err != nil {
				c.Inconclusive("%s: OpenContext: %v", sp.Proto, err)
				return
			}
			cx.SetOption(mangos.OptionRetryTime, time.Hour)
			cx.SetOption(mangos.OptionSurveyTime, time.Hour)
			if sp.Proto == "sub" {
				cx.SetOption(mangos.OptionSubscribe, "")
			}
			eps = append(eps, cx)
			ds = append(ds, dchoices[c.Rand.Intn(len(dchoices))])
		}
	} else {
		for i := 1; i < n; i++ {
			eps = append(eps, w.sock)
			ds = append(ds, sp.D())
		}
	}
	// blocked state
	if sp.Op == "send" {
		if !w.prepareSend() { // queue family: counted fill; req: every vt pipe busy with a filler context's request
			return
		}
	} else if !w.prepareRecv() {
		return
	}
	opt := optName[w.dlOpt()]
	for i, ep := range eps {
		if sp.Obj != "ctx" && i > 0 {
			break
		}
		if err := ep.SetOption(opt, ds[i]); err != nil {
			if err == mangos.ErrBadOption {
				c.Violate("option-lost/"+sp.Proto+"/"+map[bool]string{true: "sock", false: "ctx"}[i == 0]+"/"+opt, "%s endpoint %d: SetOption(%s,%v) = ErrBadOption although the support table lists it", sp.Proto, i, opt, ds[i])
			} else {
				c.Inconclusive("%s endpoint %d: SetOption(%s,%v) = %v", sp.Proto, i, opt, ds[i], err)
			}
			return
		}
	}
	// REQ / SURVEYOR receivers need a request outstanding on every endpoint (vt peer: transmitted, never answered)
	if sp.Op == "recv" && (sp.Proto == "req" || sp.Proto == "surveyor") {
		for i, ep := range eps {
			ep := ep
			if !w.setup(fmt.Sprintf("request-%d", i), func() error { return ep.Send(payload) }) {
				return
			}
		}
	}
	hx.SetYields(c.Rand.Int63(), &hx.YieldCfg{ProbGosched: 0.2, ProbSleep: 0.1, MaxSleep: 300 * time.Microsecond})
	defer hx.SetYields(0, nil)
	var maxD time.Duration
	tcs := make([]*tcall, len(eps))
	order := c.Rand.Perm(len(eps))
	for _, i := range order {
		ep := eps[i]
		if ds[i] > maxD {
			maxD = ds[i]
		}
		if sp.Op == "send" {
			tcs[i] = timed("Send", func() error { return w.send(ep) })
		} else {
			tcs[i] = timed("Recv", func() error { return w.recv(ep) })
		}
	}
	allDone := func() bool {
		for _, tc := range tcs {
			if !tc.call.Done() {
				return false
			}
		}
		return true
	}
	if !c.AwaitOrViolate("deadline-ignored/multi/"+w.id(), fmt.Sprintf("%d concurrent %s calls with deadlines %v", len(eps), w.id(), ds), allDone, mon.AwaitOpts{MaxTimer: maxD}) {
		w.outcome = "no-return"
		return
	}
	ok := 0
	for i, tc := range tcs {
		err, el := tc.err(), tc.elapsed()
		c.Logf("endpoint %d: D=%v -> %s after %v", i, ds[i], errName(err), el)
		c.Count("timed_calls", 1)
		switch {
		case err == w.wantTimeout() && el < ds[i]:
			w.outcome = "early"
			c.Violate("early-timeout/multi/"+w.id(), "%s, %d concurrent callers (deadlines %v): caller %d got %v after %v, its deadline is %v — %v early", w.id(), len(eps), ds, i, err, el, ds[i], ds[i]-el)
			return
		case err == w.wantTimeout():
			ok++
			c.Count("timeouts_not_early", 1)
		case isTimeoutErr(err):
			c.Violate("wrong-timeout-error/"+w.id(), "%s returned %v, the timeout error of the other direction", w.id(), err)
			return
		case err == nil:
			c.Inconclusive("%s caller %d completed instead of blocking", w.id(), i)
			return
		default:
			w.outcome = "wrong-error:" + errName(err)
			c.Violate("blocked-call-wrong-error/multi/"+w.id()+"/"+errName(err), "%s, %d concurrent callers (deadlines %v): caller %d returned %v after %v, want %v", w.id(), len(eps), ds, i, err, el, w.wantTimeout())
			return
		}
	}
	if ok == len(tcs) {
		w.outcome = "timeouts"
		c.Count("concurrent_blocked_callers", ok)
		c.Nontrivial()
	}
}
