package c18

import (
	"fmt"
	"math/rand"

	"go.nanomsg.org/mangos/v3"

	"verifharness/mon"
)

// dl-retry: a Send that failed with the timeout error leaves the message with the caller, and the
// caller (a device, a retry loop) sends THE VERY SAME message object again while nothing has
// changed at the socket: full queue / no ready pipe / full chain towards the slow requester.
//
// Each of those retries is, on its own, a call with a positive send deadline that cannot complete,
// so it is judged exactly like dl-block: ErrSendTimeout, never before D (exact), never-returning
// decided by the stuck detector, far-too-late by the canary rule.  What the kind adds is the
// situation: the library had the message in its hands once already (headers stripped / attached,
// routing information consumed) and gave it back.  A retry that returns nil is a violation when the
// witnesses of "cannot complete" are still in place afterwards:
//
//	reply family  the filling Send without deadline, issued before, is still parked on the same path
//	vt peers      every held pipe still holds its one message and the queue was filled by count
//	no peer       no pipe ever attached
//
// (otherwise inconclusive).  The cooked repliers receive a fresh request before every attempt
// (a reply is legal once per request); the message object stays the same.

func retryObjs() (always, rest []objRef) {
	for _, o := range sendObjs() {
		switch sendFam[o.proto] {
		case "reply", "req": // the library rewrites the message's header on these paths
			always = append(always, o)
		default:
			rest = append(rest, o)
		}
	}
	return
}

func genRetry(rnd *rand.Rand, thorough bool, reps int, add func(spec), pickQ func(int) int) {
	always, rest := retryObjs()
	for rep := 0; rep < reps; rep++ {
		list := append([]objRef{}, always...)
		n := 3
		if thorough {
			n = len(rest)
		}
		for _, k := range rnd.Perm(len(rest))[:n] {
			list = append(list, rest[k])
		}
		for _, o := range list {
			d := []int64{20000, 100000}[rnd.Intn(2)]
			if thorough && rnd.Intn(3) == 0 {
				d = int64(2000 + rnd.Intn(60000))
			}
			s := spec{Kind: "dl-retry", Proto: o.proto, Obj: o.obj, Op: "send", DUs: d, NPipes: 1, Q: pickQ(1), State: "full", K: 2 + rnd.Intn(2)}
			if thorough {
				s.K = 2 + rnd.Intn(4)
			}
			switch sendFam[o.proto] {
			case "reply":
				s.Peer, s.Tr = "slow", "inproc"
			default:
				s.Peer = []string{"none", "vt"}[rnd.Intn(2)]
				if multiPeer[o.proto] && s.Peer == "vt" && rnd.Intn(2) == 0 {
					s.NPipes = 2
				}
			}
			add(s)
		}
	}
}

// newMsg builds one message in the form the subject's protocol needs (see world.send).
func (w *world) newMsg() *mangos.Message {
	var hdr []byte
	switch w.sp.Proto {
	case "xpair1":
		hdr = []byte{0, 0, 0, 0}
	case "xreq", "xsurveyor":
		hdr = w.reqHeader()
	case "xrep", "xrespondent":
		hdr = append([]byte{}, w.replyHdr...)
	}
	m := mangos.NewMessage(len(payload))
	m.Body = append(m.Body, payload...)
	m.Header = append(m.Header[:0], hdr...)
	return m
}

// stillBlocked: the witnesses that a Send on the subject cannot complete are (still) in place.
func (w *world) stillBlocked() (bool, string) {
	sp := w.sp
	switch sp.Peer {
	case "slow":
		if w.parked == nil || w.parked.Done() || !w.parked.ParkedIn("SendMsg") {
			return false, "the filling Send is no longer parked"
		}
		return true, "the Send without deadline issued before it on the same path is still parked"
	case "vt":
		if got := w.vtSendWaiters(); got < sp.NPipes {
			return false, fmt.Sprintf("%d of %d held pipes hold a message", got, sp.NPipes)
		}
		if w.watch.Attached() != sp.NPipes || w.watch.Detached() != 0 {
			return false, "pipes came or went"
		}
		return true, fmt.Sprintf("each of the %d silent pipes still holds its one message, queue of %d filled by count", sp.NPipes, sp.Q)
	case "none":
		if w.watch.Attached() != 0 {
			return false, "a pipe attached"
		}
		return true, "no peer was ever connected"
	}
	return false, "peer " + sp.Peer
}

func runRetry(c *mon.Case, sp spec) {
	w := newWorld(c, sp)
	if w == nil {
		return
	}
	if !w.prepareSend() {
		return
	}
	D := sp.D()
	if !w.setOpt(optSD, D) {
		return
	}
	m := w.newMsg()
	owned := true // the caller owns the message until a SendMsg returns nil
	defer func() {
		if owned {
			m.Free()
		}
	}()
	c.Count("same_message_retry_cases", 1)
	want := 1 + sp.K // the first Send and K retries of the same message
	good, suspects := 0, 0
	for attempt := 0; attempt < want+2 && good < want; attempt++ {
		if !w.arm() {
			return
		}
		what := "first Send of the message"
		if attempt > 0 {
			what = fmt.Sprintf("retry #%d of the same message after ErrSendTimeout", attempt)
		}
		tc := timed("Send", func() error { return w.obj.SendMsg(m) })
		if !c.AwaitOrViolate("deadline-ignored/"+w.id(), fmt.Sprintf("%s with deadline %v (peer %s, state %s, q=%d): %s", w.id(), D, sp.Peer, sp.State, sp.Q, what), tc.call.Done, mon.AwaitOpts{MaxTimer: D}) {
			w.outcome = "no-return"
			owned = false // the library still has it
			return
		}
		err, el := tc.err(), tc.elapsed()
		c.Logf("attempt %d: %s -> %s after %v (D=%v)", attempt, w.id(), errName(err), el, D)
		c.Count("timed_calls", 1)
		switch {
		case err == mangos.ErrSendTimeout:
			if el < D {
				w.outcome = "early"
				c.Violate("early-timeout/"+w.id(), "%s (peer %s, state %s, q=%d; %s): %v returned %v after the call was invoked, deadline %v — %v early", w.id(), sp.Peer, sp.State, sp.Q, what, err, el, D, D-el)
				return
			}
			c.Count("timeouts_not_early", 1)
			if attempt > 0 {
				c.Count("same_message_retries_timed_out", 1)
				c.Nontrivial()
			}
			w.outcome = "timeout"
			if hangJudged(D) {
				if mon.UpperBoundExceeded(el, D) {
					suspects++
					c.Count("upper_bound_suspects", 1)
					if suspects >= 3 {
						w.outcome = "hang"
						c.Violate("hang/"+w.id(), "%s: deadline %v, three sends of the same message returned the timeout far beyond it (last after %v; canary worst oversleep %v)", w.id(), D, el, mon.CanaryWorst())
						return
					}
					continue
				}
				c.Count("upper_bounds_checked", 1)
			}
			good++
		case err == nil:
			owned = false
			if attempt == 0 {
				w.outcome = "not-blocked"
				c.Inconclusive("%s (peer %s, state %s, q=%d): the first Send completed (%v) instead of blocking — state not reached", w.id(), sp.Peer, sp.State, sp.Q, el)
				return
			}
			if ok, why := w.stillBlocked(); !ok {
				w.outcome = "retry-completed-state-changed"
				c.Inconclusive("%s: %s returned nil after %v, but %s — state not held", w.id(), what, el, why)
				return
			} else {
				w.outcome = "retry-not-blocked"
				c.Count("same_message_retries_not_blocked", 1)
				c.Violate("retried-send-not-blocked/"+w.id(), "%s (peer %s, state %s, q=%d, deadline %v): the Send timed out %d time(s) with ErrSendTimeout, the caller sent the very same message again and this %s returned nil after %v although nothing can have taken it (%s) — want it to block and return ErrSendTimeout at the deadline; the message is lost silently", w.id(), sp.Peer, sp.State, sp.Q, D, attempt, what, el, why)
				return
			}
		case err == mangos.ErrRecvTimeout:
			w.outcome = "wrong-timeout"
			c.Violate("wrong-timeout-error/"+w.id(), "%s (%s) returned %v, the timeout error of the other direction", w.id(), what, err)
			return
		default:
			w.outcome = "wrong-error:" + errName(err)
			c.Violate("blocked-call-wrong-error/"+w.id()+"/"+errName(err), "%s (peer %s, state %s; %s) with deadline %v returned %v after %v, want %v", w.id(), sp.Peer, sp.State, what, D, err, el, mangos.ErrSendTimeout)
			return
		}
	}
	if good < want {
		c.Inconclusive("%s: deadline %v: %d of %d measurements usable (%d suspected overshoots, canary worst %v)", w.id(), D, good, want, suspects, mon.CanaryWorst())
	}
}
