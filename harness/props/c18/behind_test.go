package c18

import (
	"fmt"
	"math/rand"
	"time"

	"go.nanomsg.org/mangos/v3"

	"verifharness/mon"
)

// dl-behind: the timed call is issued while ANOTHER call is already blocked on the same socket.
//
// The property speaks about each call on its own: a call with deadline D that cannot complete
// returns its timeout error at D — whatever else is waiting on the socket at that moment.  So one
// call (the "blocked call") is parked first, with no deadline of its own or one of 20 x D:
//
//	Blk=send  a Send on a full queue / with no ready pipe / on the full chain towards a slow peer
//	Blk=recv  a Recv with nothing to receive
//
// on the socket itself where the pattern allows concurrent calls on one object (PAIR, PAIR1, raw
// REQ/REP/RESPONDENT), on another context of the socket where it does not (REQ, REP, RESPONDENT,
// SUB, SURVEYOR), and then the subject's call in the same or the other direction is measured exactly
// like dl-block: timeout error of its own direction, never before D (exact), never-returning
// decided by the stuck detector, far-too-late by the canary rule on three attempts.  The blocked
// call is judged as well, on its result only: it is still waiting at the end (no deadline), or it
// returned its own timeout error no earlier than its own deadline; a timeout error without a
// deadline, or before the deadline, is a violation (the other call's timer ended it).
//
// The order of "deadline set" and "other call blocks" is part of the case (Early).

type blocker struct {
	dir   string        // send | recv
	L     time.Duration // its own deadline (0 = none)
	what  string        // for witnesses
	tc    *tcall
	fixed bool // cannot be issued again (the filling Send that parked on the full chain)
	start func() (*tcall, bool)
}

type behindCombo struct {
	o       objRef
	op, blk string
}

// behindCombos: every (object, timed direction, blocked direction) the support table allows.
func behindCombos() (sendBlocked, rest []behindCombo) {
	for _, o := range recvObjs() {
		t := table[o.proto]
		if !t.has(o.obj, optSD) {
			continue
		}
		// a Send blocked, a Recv timed
		sendBlocked = append(sendBlocked, behindCombo{o, "recv", "send"})
		// a Recv blocked, a Send timed: not on the cooked repliers (a waiting Recv on another
		// context would take the request the subject needs before it may Send)
		if !(sendFam[o.proto] == "reply" && !isRaw(o.proto)) {
			rest = append(rest, behindCombo{o, "send", "recv"})
		}
	}
	for _, o := range recvObjs() {
		if table[o.proto].hasCtx { // a Recv blocked on another context, a Recv timed
			rest = append(rest, behindCombo{o, "recv", "recv"})
		}
	}
	for _, o := range sendObjs() {
		// a Send blocked on another context, a Send timed: REQ (the repliers' blocked sends always have
		// the filling Send of another context parked next to them: dl-block)
		if sendFam[o.proto] == "req" {
			rest = append(rest, behindCombo{o, "send", "send"})
		}
	}
	return
}

func genBehind(rnd *rand.Rand, thorough bool, reps int, add func(spec), pickQ func(int) int) {
	sb, rest := behindCombos()
	for rep := 0; rep < reps; rep++ {
		type pick struct {
			behindCombo
			i int
		}
		var list []pick
		for i, x := range sb {
			list = append(list, pick{x, i})
		}
		n := 8
		if thorough {
			n = len(rest)
		}
		for _, k := range rnd.Perm(len(rest))[:n] {
			list = append(list, pick{rest[k], k})
		}
		for _, x := range list {
			d := []int64{20000, 100000}[rnd.Intn(2)]
			if thorough && rnd.Intn(3) == 0 {
				d = int64(2000 + rnd.Intn(60000))
			}
			s := spec{Kind: "dl-behind", Proto: x.o.proto, Obj: x.o.obj, Op: x.op, Blk: x.blk, DUs: d, NPipes: 1, Q: pickQ(1)}
			// (order of option and blocking, blocked call's deadline) are stratified over the draws so
			// that every object sees every combination: 6 consecutive draws = 2x early/none,
			// 2x late/none, early/20xD, late/20xD
			switch (rep + x.i) % 6 {
			case 0, 2:
				s.Early = true
			case 3:
				s.BDUs = 20 * d
			case 4:
				s.Early, s.BDUs = true, 20*d
			}
			sendSide := x.op == "send" || x.blk == "send"
			switch {
			case sendSide && sendFam[x.o.proto] == "reply":
				s.Peer, s.Tr, s.State = "slow", "inproc", "full"
			case x.o.proto == "req":
				s.Peer = "none" // Send: no ready pipe; Recv: the (best-effort) request stays outstanding
				if sendSide {
					s.State = "full"
				}
			case sendSide:
				s.Peer, s.State = []string{"none", "vt"}[rnd.Intn(2)], "full"
			default:
				s.Peer = []string{"none", "vt"}[rnd.Intn(2)]
			}
			add(s)
		}
	}
}

func dirFrame(dir string) string {
	if dir == "send" {
		return "SendMsg"
	}
	return "RecvMsg"
}

func dirTimeout(dir string) error {
	if dir == "send" {
		return mangos.ErrSendTimeout
	}
	return mangos.ErrRecvTimeout
}

func runBehind(c *mon.Case, sp spec) {
	w := newWorld(c, sp)
	if w == nil {
		return
	}
	D, L := sp.D(), sp.BD()
	ownSet := false
	setOwn := func() bool {
		if ownSet {
			return true
		}
		ownSet = true
		return w.setOpt(w.dlOpt(), D)
	}
	if table[sp.Proto].hasCtx && !(sp.Blk == "send" && sendFam[sp.Proto] == "reply" && L == 0) {
		// the context of the blocked call is opened before any deadline is set on the socket (it
		// must not inherit the subject's) and before anything is parked
		cx, ok := w.openCtx("blocked-" + sp.Blk)
		if !ok {
			return
		}
		w.blkCtx = cx
	}
	if sp.Op == "send" || sp.Blk == "send" {
		if sp.Early && sp.Op == "recv" && sendFam[sp.Proto] == "reply" {
			w.preFill = setOwn // the filling Send that parks is the (first) blocked call
		}
		if !w.prepareSend() {
			return
		}
	} else if !w.prepareRecv() {
		return
	}
	if sp.Early && !setOwn() {
		return
	}
	if !w.makeBlocker() || !w.ensureBlocker() {
		return
	}
	if !setOwn() {
		return
	}
	maxT := D
	if L > maxT {
		maxT = L // not a timer that may end the timed call, but one that ends what it may be stuck behind
	}
	c.Count("dl_behind_timed_"+sp.Op+"_behind_blocked_"+sp.Blk, 1)
	w.measureBlocked(D, 0, maxT, false, w.ensureBlocker, ", while "+w.blk.what)
	if c.Failed() || w.outcome != "timeout" {
		return
	}
	b := w.blk
	switch {
	case b.tc.call.Done():
		w.judgeBlocker("by the time the timed calls had returned")
	case L == 0:
		c.Count("blocked_calls_still_waiting_at_the_end", 1)
	default:
		c.Count("blocked_calls_within_their_deadline_at_the_end", 1)
	}
}

// openCtx opens a further context of the subject's socket (under the stuck detector: calls may be parked).
func (w *world) openCtx(what string) (mangos.Context, bool) {
	var cx mangos.Context
	if !w.setup("open-context-"+what, func() error {
		var err error
		cx, err = w.sock.OpenContext()
		return err
	}) {
		return nil, false
	}
	for _, ov := range []struct {
		n string
		v interface{}
	}{{mangos.OptionRetryTime, time.Hour}, {mangos.OptionSurveyTime, time.Hour}} {
		if _, ok := w.guardedSet(cx, ov.n, ov.v); !ok {
			return nil, false
		}
	}
	if w.sp.Proto == "sub" {
		if err, ok := w.guardedSet(cx, mangos.OptionSubscribe, ""); !ok || err != nil {
			if ok {
				w.c.Inconclusive("sub: subscribe on the second context: %v", err)
			}
			return nil, false
		}
	}
	return cx, true
}

// setOn sets one of the options under test on ep (the blocked call's own deadline).
func (w *world) setOn(ep endpoint, o int, v interface{}) bool {
	err, ok := w.guardedSet(ep, optName[o], v)
	if !ok {
		return false
	}
	if err != nil {
		w.c.Inconclusive("%s: SetOption(%s, %v) for the blocked call = %v", w.id(), optName[o], v, err)
		return false
	}
	return true
}

// makeBlocker prepares (does not yet issue) the call that is to be blocked when the timed call is issued.
func (w *world) makeBlocker() bool {
	sp := w.sp
	L := sp.BD()
	fam := sendFam[sp.Proto]
	b := &blocker{dir: sp.Blk, L: L}
	dl := "no deadline"
	if L > 0 {
		dl = fmt.Sprintf("deadline %v", L)
	}
	where := "on the same socket"
	switch {
	case sp.Blk == "send" && fam == "reply" && L == 0:
		// the filling Send that parked on the full chain is the blocked call
		if w.parked == nil {
			panic("reply family: no parked filling send")
		}
		b.fixed = true
		b.tc = &tcall{call: w.parked}
		if !isRaw(sp.Proto) {
			where = "on another context of the socket"
		}
	case sp.Blk == "send" && fam == "reply" && isRaw(sp.Proto):
		// next to the parked filling Send (no deadline) a second one with its own deadline
		if !w.setOn(w.sock, optSD, L) {
			return false
		}
		b.start = func() (*tcall, bool) { return timed("Send", func() error { return w.send(w.sock) }), true }
	case sp.Blk == "send" && fam == "reply":
		cx := w.blkCtx
		if !w.setOn(cx, optSD, L) {
			return false
		}
		where = "on another context of the socket"
		b.start = func() (*tcall, bool) {
			if !w.prime(cx) {
				return nil, false
			}
			return timed("Send", func() error { return w.send(cx) }), true
		}
	case sp.Blk == "send" && fam == "req":
		cx := w.blkCtx
		if L > 0 && !w.setOn(cx, optSD, L) {
			return false
		}
		where = "on another context of the socket"
		b.start = func() (*tcall, bool) { return timed("Send", func() error { return w.send(cx) }), true }
	case sp.Blk == "send":
		if L > 0 && !w.setOn(w.sock, optSD, L) {
			return false
		}
		b.start = func() (*tcall, bool) { return timed("Send", func() error { return w.send(w.sock) }), true }
	case table[sp.Proto].hasCtx: // Recv blocked on another context
		cx := w.blkCtx
		if L > 0 && !w.setOn(cx, optRD, L) {
			return false
		}
		where = "on another context of the socket"
		b.start = func() (*tcall, bool) {
			switch sp.Proto {
			case "req": // no peer: a best-effort Send leaves the request outstanding
				if err, ok := w.guardedSet(cx, mangos.OptionBestEffort, true); !ok || err != nil {
					if ok {
						w.c.Inconclusive("req: BestEffort for the blocked call's request: %v", err)
					}
					return nil, false
				}
				ok := w.setup("blocked-call-request", func() error { return cx.Send(payload) })
				if _, ok2 := w.guardedSet(cx, mangos.OptionBestEffort, false); !ok || !ok2 {
					return nil, false
				}
			case "surveyor":
				if !w.setup("blocked-call-survey", func() error { return cx.Send(payload) }) {
					return nil, false
				}
			}
			return timed("Recv", func() error { return w.recv(cx) }), true
		}
	default:
		if L > 0 && !w.setOn(w.sock, optRD, L) {
			return false
		}
		b.start = func() (*tcall, bool) { return timed("Recv", func() error { return w.recv(w.sock) }), true }
	}
	verb := map[string]string{"send": "Send", "recv": "Recv"}[sp.Blk]
	b.what = fmt.Sprintf("a %s (%s) is blocked %s", verb, dl, where)
	w.blk = b
	return true
}

// ensureBlocker makes sure the blocked call is parked (issues it, or issues it again after it ran
// into its own deadline) — called before every timed call.
func (w *world) ensureBlocker() bool {
	b, c := w.blk, w.c
	if b.tc != nil {
		if !b.tc.call.Done() {
			return true
		}
		if !w.judgeBlocker("while the timed calls were going on") {
			return false
		}
		if b.fixed {
			c.Inconclusive("%s: the blocked call has returned and cannot be issued again", w.id())
			return false
		}
	}
	tc, ok := b.start()
	if !ok {
		return false
	}
	b.tc = tc
	if !tc.call.ParkedIn(dirFrame(b.dir)) {
		if tc.call.Done() {
			if w.judgeBlocker("instead of blocking") {
				c.Inconclusive("%s: the call that was to block ran into its own deadline before it was seen parked", w.id())
			}
		} else {
			c.Inconclusive("%s: the call that was to block neither parked nor returned", w.id())
		}
		return false
	}
	c.Count("blocked_calls_seen_parked", 1)
	return true
}

// judgeBlocker judges the RESULT of the blocked call once it has returned; true = it ran into its
// own deadline, no earlier than that deadline (in contract; it may be issued again).
func (w *world) judgeBlocker(when string) bool {
	b, c, sp := w.blk, w.c, w.sp
	err, el := b.tc.err(), b.tc.elapsed()
	who := "the-blocked-" + b.dir
	switch {
	case err == dirTimeout(b.dir) && b.L > 0 && el >= b.L:
		c.Count("blocked_calls_timed_out_at_their_own_deadline", 1)
		return true
	case err == dirTimeout(b.dir) && b.L > 0:
		w.outcome = "blocked-call-early"
		c.Violate("early-timeout/"+w.id()+"/"+who, "%s: %s; it returned %v after %v (%s), %v before its own deadline — the timed %s calls beside it have deadline %v", w.id(), b.what, err, el, when, b.L-el, sp.Op, sp.D())
	case isTimeoutErr(err) && b.L == 0:
		w.outcome = "blocked-call-timeout"
		c.Violate("no-deadline-timeout/"+w.id()+"/"+who, "%s: %s; it returned %v (%s) although no deadline applies to it — the timed %s calls beside it have deadline %v", w.id(), b.what, err, when, sp.Op, sp.D())
	case isTimeoutErr(err):
		w.outcome = "blocked-call-wrong-timeout"
		c.Violate("wrong-timeout-error/"+w.id()+"/"+who, "%s: %s; it returned %v, the timeout error of the other direction (%s)", w.id(), b.what, err, when)
	default:
		w.outcome = "blocked-call-returned:" + errName(err)
		c.Inconclusive("%s: %s; it returned %v %s — state not reached or lost", w.id(), b.what, err, when)
	}
	return false
}
