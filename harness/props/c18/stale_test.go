//go:build verif

package c18

import (
	"fmt"
	"runtime"
	"sync"
	"sync/atomic"
	"time"

	"go.nanomsg.org/mangos/v3"

	"verifharness/hx"

	"verifharness/mon"
)

// runStale: "a call that can complete at once is not failed by the deadline; with no deadline it
// waits" across two calls.  A Send with a short send deadline completes at once; the Recv that
// follows has no receive deadline and nothing to receive, so it must still be waiting after
// several send deadlines have gone by (a timer left armed by the completed Send must not end
// it), and must return the message once one is made available.
//
// The pause of 4xD only gives a stale timer the chance to fire; no verdict depends on how
// long it really was (too short a pause can only miss).
func runStale(c *mon.Case, sp spec) {
	w := newWorld(c, sp)
	if w == nil {
		return
	}
	if !w.connectReal(peerForStale(sp.Proto), "inproc", nil) {
		return
	}
	D := sp.D()
	if !w.setOpt(optSD, D) {
		return
	}
	tc := timed("Send", func() error { return w.send(w.obj) })
	if !c.AwaitOrViolate("deadline-ignored/"+w.id(), fmt.Sprintf("%s with send deadline %v and a ready peer", w.id(), D), tc.call.Done, mon.AwaitOpts{MaxTimer: D}) {
		w.outcome = "no-return"
		return
	}
	if err := tc.err(); err != nil {
		w.outcome = "send-err:" + errName(err)
		if isTimeoutErr(err) && tc.elapsed() < D {
			c.Violate("ready-call-failed-by-deadline/"+w.id(), "%s: Send to a ready peer returned %v after %v with a deadline of %v", w.id(), err, tc.elapsed(), D)
		} else {
			c.Inconclusive("%s: Send to a ready peer returned %v after %v", w.id(), err, tc.elapsed())
		}
		return
	}
	rc := timed("Recv", func() error { return w.recv(w.obj) })
	rc.call.ParkedIn("Recv")
	time.Sleep(4 * D)
	if rc.call.Done() {
		err := rc.err()
		w.outcome = "recv-ended:" + errName(err)
		if err == nil {
			c.Inconclusive("%s: Recv returned a message although none was made available", w.id())
			return
		}
		c.Violate("nodeadline-recv-ended/"+w.id()+":"+errName(err), "%s: a Recv with no receive deadline and nothing to receive returned %v after %v; the Send before it (send deadline %v) had completed at once with nil — a deadline of a completed call ended a later call", w.id(), err, rc.elapsed(), D)
		return
	}
	c.Count("recv_still_waiting_after_4_send_deadlines", 1)
	if !w.feed(1) {
		return
	}
	if !c.AwaitOrViolate("nodeadline-recv-stuck/"+w.id(), w.id()+": Recv (no deadline) after a message was made available", rc.call.Done, mon.AwaitOpts{}) {
		w.outcome = "recv-no-return"
		return
	}
	if err := rc.err(); err != nil {
		w.outcome = "recv-err:" + errName(err)
		c.Violate("nodeadline-recv-ended/"+w.id()+":"+errName(err), "%s: a Recv with no receive deadline returned %v although its message was made available (Send before it: deadline %v, completed at once)", w.id(), err, D)
		return
	}
	w.outcome = "ok"
	c.Count("timed_calls", 2)
	c.Nontrivial()
}

func peerForStale(p string) string {
	switch p {
	case "req", "xreq":
		return "rep"
	case "pair", "xpair":
		return "pair"
	}
	return "pair1"
}

// staleObjs: objects that have a send deadline, can receive after sending, and are not repliers.
func staleObjs() []objRef {
	var out []objRef
	for _, o := range sendObjs() {
		switch o.proto {
		case "req", "xreq", "pair", "xpair", "pair1", "xpair1":
			out = append(out, o)
		}
	}
	return out
}

// runBEMulti: several goroutines issue best-effort Sends on one socket at the same time against a
// queue that is (nearly) full — no peer, or a peer that takes nothing.  Every Send queues or drops;
// none may be left waiting (the racing callers compete for the last free slots of the queue).
func runBEMulti(c *mon.Case, sp spec) {
	w := newWorld(c, sp)
	if w == nil {
		return
	}
	if !w.prepareSend() { // queue state as specified (empty / partial / full), peers none or held
		return
	}
	if !w.setOpt(optBE, true) {
		return
	}
	if sp.WithDL && !w.setOpt(optSD, sp.D()) {
		return
	}
	g, rounds := sp.K, 150
	hx.SetYields(c.Rand.Int63(), &hx.YieldCfg{ProbGosched: 0.2, ProbSleep: 0.05, MaxSleep: 100 * time.Microsecond})
	defer hx.SetYields(0, nil)
	var calls []*mon.Call
	for i := 0; i < g; i++ {
		calls = append(calls, mon.Go("Send-loop", func() (interface{}, error) {
			for r := 0; r < rounds; r++ {
				if err := w.send(w.obj); err != nil {
					return r, err
				}
				if r%8 == 7 {
					runtime.Gosched()
				}
			}
			return rounds, nil
		}))
	}
	all := func() bool {
		for _, k := range calls {
			if !k.Done() {
				return false
			}
		}
		return true
	}
	if !c.AwaitOrViolate("best-effort-blocked/multi/"+w.id(), fmt.Sprintf("%d goroutines x %d best-effort %s (peer %s, queue %s, q=%d) all returning", g, rounds, w.id(), sp.Peer, sp.State, sp.Q), all, mon.AwaitOpts{MaxTimer: sp.D()}) {
		w.outcome = "no-return"
		return
	}
	for _, k := range calls {
		if v, err, _ := k.Result(); err != nil {
			w.outcome = "err:" + errName(err)
			if isTimeoutErr(err) {
				c.Violate("best-effort/timeout-error/"+w.id(), "best-effort %s returned %v at round %v of a concurrent burst", w.id(), err, v)
			} else {
				c.Inconclusive("best-effort %s returned %v", w.id(), err)
			}
			return
		}
	}
	w.outcome = "ok"
	c.Count("best_effort_sends_returned", g*rounds)
	c.Nontrivial()
}

// runBERace: the demo-sized version of the race for the last queue slot, repeated: a fresh socket
// with best effort on, a small write queue and no peer; G goroutines released at the same moment
// each issue one or two Sends.  With the queue filling up right then, callers see "room" and "no
// room" at almost the same instant; whichever way each one decides, none may be left waiting.
func runBERace(c *mon.Case, sp spec) {
	rounds := sp.K
	g := 3 + c.Rand.Intn(6)
	for r := 0; r < rounds && !c.Failed(); r++ {
		s, err := hx.SockCtors[sp.Proto]()
		if err != nil {
			c.Inconclusive("socket: %v", err)
			return
		}
		w := &world{c: c, sp: sp, sock: s, obj: s}
		if s.SetOption(mangos.OptionBestEffort, true) != nil || s.SetOption(mangos.OptionWriteQLen, sp.Q) != nil {
			s.Close()
			c.Inconclusive("%s: best effort / WriteQLen=%d not accepted", sp.Proto, sp.Q)
			return
		}
		var ready, done sync.WaitGroup
		var finished atomic.Int32
		gate := make(chan struct{})
		errs := make([]error, g)
		for i := 0; i < g; i++ {
			i := i
			n := 1 + (r+i)%2
			ready.Add(1)
			done.Add(1)
			go func() {
				defer done.Done()
				defer finished.Add(1)
				ready.Done()
				<-gate
				for k := 0; k < n; k++ {
					if e := w.send(s); e != nil {
						errs[i] = e
						return
					}
				}
			}()
		}
		ready.Wait()
		close(gate)
		for spin := 0; spin < 2000 && int(finished.Load()) < g; spin++ {
			runtime.Gosched()
		}
		if int(finished.Load()) < g {
			if !c.AwaitOrViolate("best-effort-blocked/race/"+w.id(), fmt.Sprintf("round %d: %d goroutines each issuing best-effort Sends on a fresh %s socket (no peer, WriteQLen %d) all returning", r, g, sp.Proto, sp.Q), func() bool { return int(finished.Load()) == g }, mon.AwaitOpts{}) {
				s.Close()
				return
			}
		}
		done.Wait()
		s.Close()
		for _, e := range errs {
			if e != nil {
				c.Violate("best-effort/error/"+w.id()+"/"+errName(e), "round %d: a best-effort Send with no peer returned %v", r, e)
				return
			}
		}
		c.Count("best_effort_race_rounds", 1)
	}
	c.Nontrivial()
}

// runChurn: a Recv on SUB blocked with a receive deadline while, on the same socket or context,
// subscriptions are removed and added and the receive queue is resized every quarter deadline.
// None of that is a message: the Recv still returns the timeout error, not before the deadline and
// not long after it (the canary-calibrated rule; the churn goes on for three deadlines, so a
// deadline that is restarted by each change shows as a return after the churn has ended).
func runChurn(c *mon.Case, sp spec) {
	w := newWorld(c, sp)
	if w == nil {
		return
	}
	D := sp.D()
	w.obj.SetOption(mangos.OptionSubscribe, "never-published")
	if !w.setOpt(optRD, D) {
		return
	}
	stop := make(chan struct{})
	churnDone := make(chan struct{})
	tc := w.timedOp()
	go func() {
		defer close(churnDone)
		for i := 0; i < 12; i++ {
			select {
			case <-stop:
				return
			case <-time.After(D / 4):
			}
			switch (i + sp.K) % 3 {
			case 0:
				w.obj.SetOption(mangos.OptionSubscribe, fmt.Sprintf("topic-%d", i))
			case 1:
				w.obj.SetOption(mangos.OptionUnsubscribe, fmt.Sprintf("topic-%d", i-1))
			default:
				w.obj.SetOption(mangos.OptionReadQLen, 2+i%5)
			}
		}
	}()
	ok := c.AwaitOrViolate("deadline-ignored/churn/"+w.id(), fmt.Sprintf("%s with deadline %v returning while subscriptions and the queue length change", w.id(), D), tc.call.Done, mon.AwaitOpts{MaxTimer: D})
	close(stop)
	<-churnDone
	if !ok {
		w.outcome = "no-return"
		return
	}
	err, el := tc.err(), tc.elapsed()
	c.Count("timed_calls", 1)
	switch {
	case err != w.wantTimeout():
		w.outcome = "wrong:" + errName(err)
		c.Violate("blocked-call-wrong-error/"+w.id()+"/"+errName(err), "%s with deadline %v and nothing to receive returned %v after %v", w.id(), D, err, el)
	case el < D:
		w.outcome = "early"
		c.Violate("timeout-early/"+w.id(), "%s: timeout error after %v, before the deadline %v had elapsed", w.id(), el, D)
	case el >= 3*D && mon.UpperBoundExceeded(el, D):
		w.outcome = "hang"
		c.Violate("hang/churn/"+w.id(), "%s: deadline %v, but the timeout came after %v — only once the subscription/queue changes (every %v for %v) had stopped (canary worst oversleep %v)", w.id(), D, el, D/4, 3*D, mon.CanaryWorst())
	default:
		w.outcome = "ok"
		c.Nontrivial()
	}
}
