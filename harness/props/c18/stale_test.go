//go:build verif

package c18

import (
	"fmt"
	"time"

	"verifharness/mon"
)

// runStale: "a call that can complete at once is not failed by the deadline; with no deadline it
// waits" across two calls.  A Send with a short send deadline completes at once; the Recv that
// follows has no receive deadline and nothing to receive, so it must still be waiting after
// several send deadlines have gone by (a timer left armed by the completed Send must not end
// it), and must return the message once one is made available.
//
// The pause of 4xD only gives a stale timer the chance to fire; no verdict depends on how
// long it really was (too short a pause can only miss).
func runStale(c *mon.Case, sp spec) {
	w := newWorld(c, sp)
	if w == nil {
		return
	}
	if !w.connectReal(peerForStale(sp.Proto), "inproc", nil) {
		return
	}
	D := sp.D()
	if !w.setOpt(optSD, D) {
		return
	}
	tc := timed("Send", func() error { return w.send(w.obj) })
	if !c.AwaitOrViolate("deadline-ignored/"+w.id(), fmt.Sprintf("%s with send deadline %v and a ready peer", w.id(), D), tc.call.Done, mon.AwaitOpts{MaxTimer: D}) {
		w.outcome = "no-return"
		return
	}
	if err := tc.err(); err != nil {
		w.outcome = "send-err:" + errName(err)
		if isTimeoutErr(err) && tc.elapsed() < D {
			c.Violate("ready-call-failed-by-deadline/"+w.id(), "%s: Send to a ready peer returned %v after %v with a deadline of %v", w.id(), err, tc.elapsed(), D)
		} else {
			c.Inconclusive("%s: Send to a ready peer returned %v after %v", w.id(), err, tc.elapsed())
		}
		return
	}
	rc := timed("Recv", func() error { return w.recv(w.obj) })
	rc.call.ParkedIn("Recv")
	time.Sleep(4 * D)
	if rc.call.Done() {
		err := rc.err()
		w.outcome = "recv-ended:" + errName(err)
		if err == nil {
			c.Inconclusive("%s: Recv returned a message although none was made available", w.id())
			return
		}
		c.Violate("nodeadline-recv-ended/"+w.id()+":"+errName(err), "%s: a Recv with no receive deadline and nothing to receive returned %v after %v; the Send before it (send deadline %v) had completed at once with nil — a deadline of a completed call ended a later call", w.id(), err, rc.elapsed(), D)
		return
	}
	c.Count("recv_still_waiting_after_4_send_deadlines", 1)
	if !w.feed(1) {
		return
	}
	if !c.AwaitOrViolate("nodeadline-recv-stuck/"+w.id(), w.id()+": Recv (no deadline) after a message was made available", rc.call.Done, mon.AwaitOpts{}) {
		w.outcome = "recv-no-return"
		return
	}
	if err := rc.err(); err != nil {
		w.outcome = "recv-err:" + errName(err)
		c.Violate("nodeadline-recv-ended/"+w.id()+":"+errName(err), "%s: a Recv with no receive deadline returned %v although its message was made available (Send before it: deadline %v, completed at once)", w.id(), err, D)
		return
	}
	w.outcome = "ok"
	c.Count("timed_calls", 2)
	c.Nontrivial()
}

func peerForStale(p string) string {
	switch p {
	case "req", "xreq":
		return "rep"
	case "pair", "xpair":
		return "pair"
	}
	return "pair1"
}

// staleObjs: objects that have a send deadline, can receive after sending, and are not repliers.
func staleObjs() []objRef {
	var out []objRef
	for _, o := range sendObjs() {
		switch o.proto {
		case "req", "xreq", "pair", "xpair", "pair1", "xpair1":
			out = append(out, o)
		}
	}
	return out
}
