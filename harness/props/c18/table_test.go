package c18

import (
	"time"

	"go.nanomsg.org/mangos/v3"

	"verifharness/hx"
	"verifharness/mon"
)

// Expected support table.  Derived from the option documentation in
// /repo/options.go and the protocol sources (NOT from running the code):
//
//   RECV-DEADLINE  every pattern that can receive (all but PUB and PUSH), and
//                  every context kind that receives (req, rep, sub, surveyor, respondent);
//   SEND-DEADLINE  every pattern whose Send can block on flow control — the
//   BEST-EFFORT    doc comment of OptionBestEffort: "Normally (for some socket
//                  types), a socket will block if there are no receivers, or
//                  the receivers are unable to keep up ... (Multicast sockets
//                  types like Bus or Star do not behave this way.)": PAIR,
//                  PAIR1, REQ, REP, PUSH, RESPONDENT (cooked and raw) and the
//                  contexts of REQ, REP, RESPONDENT;
//   FAIL-NO-PEERS  "not all protocols respect this -- best effort protocols
//                  will particularly not support this": REQ (socket and
//                  contexts) and PUSH (cooked and raw).
//
// The run-time discovery (SetOption != ErrBadOption) is compared with this
// table: an option the table lists but the object rejects is a *lost* option
// (violation — the property's quantifier silently shrank); an option the
// object accepts but the table does not list makes the table stale
// (inconclusive, never a violation).

const (
	optRD = iota
	optSD
	optBE
	optFNP
	nOpts
)

var optName = [nOpts]string{mangos.OptionRecvDeadline, mangos.OptionSendDeadline, mangos.OptionBestEffort, mangos.OptionFailNoPeers}

func optProbeValue(o int) interface{} {
	switch o {
	case optRD, optSD:
		return 2 * time.Second // positive: REP/RESPONDENT contexts reject 0 with ErrBadValue (C19's business)
	default:
		return false
	}
}

type support struct {
	sock   [nOpts]bool
	hasCtx bool
	ctx    [nOpts]bool
}

func (s support) canFNP(obj string) bool {
	if obj == "ctx" {
		return s.hasCtx && s.ctx[optFNP]
	}
	return s.sock[optFNP]
}

func (s support) has(obj string, o int) bool {
	if obj == "ctx" {
		return s.hasCtx && s.ctx[o]
	}
	return s.sock[o]
}

var table = map[string]support{}

func init() {
	recv := []string{"pair", "xpair", "pair1", "xpair1", "req", "xreq", "rep", "xrep", "sub", "xsub", "pull", "xpull",
		"surveyor", "xsurveyor", "respondent", "xrespondent", "bus", "xbus", "star", "xstar"}
	blockingSend := []string{"pair", "xpair", "pair1", "xpair1", "req", "xreq", "rep", "xrep", "push", "xpush", "respondent", "xrespondent"}
	fnp := []string{"req", "push", "xpush"}
	for _, p := range hx.AllProtos {
		table[p] = support{}
	}
	set := func(ps []string, opts ...int) {
		for _, p := range ps {
			s := table[p]
			for _, o := range opts {
				s.sock[o] = true
			}
			table[p] = s
		}
	}
	set(recv, optRD)
	set(blockingSend, optSD, optBE)
	set(fnp, optFNP)
	ctx := map[string][]int{
		"req":        {optRD, optSD, optBE, optFNP},
		"rep":        {optRD, optSD, optBE},
		"respondent": {optRD, optSD, optBE},
		"sub":        {optRD},
		"surveyor":   {optRD},
	}
	for p, os := range ctx {
		s := table[p]
		s.hasCtx = true
		for _, o := range os {
			s.ctx[o] = true
		}
		table[p] = s
	}
}

// How a protocol's Send blocks.
//
//	queue: a socket-wide send queue of WriteQLen feeds the pipes' sender goroutines
//	req:   no queue — a request waits for a ready pipe
//	reply: per-pipe send queue of WriteQLen (fixed when the pipe attaches); needs a received request
var sendFam = map[string]string{
	"pair": "queue", "xpair": "queue", "pair1": "queue", "xpair1": "queue", "xreq": "queue", "push": "queue", "xpush": "queue",
	"req": "req",
	"rep": "reply", "xrep": "reply", "respondent": "reply", "xrespondent": "reply",
}

// How a protocol's Recv gets something to return.
//
//	plain:   the peer just sends
//	request: the (raw) requester peer sends a request
//	reply:   the subject must send a request/survey first; the peer answers it
var recvFam = map[string]string{
	"pair": "plain", "xpair": "plain", "pair1": "plain", "xpair1": "plain", "sub": "plain", "xsub": "plain",
	"pull": "plain", "xpull": "plain", "bus": "plain", "xbus": "plain", "star": "plain", "xstar": "plain",
	"rep": "request", "xrep": "request", "respondent": "request", "xrespondent": "request",
	"req": "reply", "xreq": "reply", "surveyor": "reply", "xsurveyor": "reply",
}

// Protocols that admit more than one peer on the sending side.
var multiPeer = map[string]bool{"xreq": true, "push": true, "xpush": true, "req": true}

// Raw requester used as the real peer of the reply-type protocols (it sends
// requests with SendMsg and, with ReadQLen=1 and nobody calling Recv, is a
// slow reader that exerts back-pressure through the real transport).
var rawRequester = map[string]string{"rep": "xreq", "xrep": "xreq", "respondent": "xsurveyor", "xrespondent": "xsurveyor"}

func isRaw(p string) bool { return p[0] == 'x' }

// ---- matrix case ---------------------------------------------------------------

func runMatrix(c *mon.Case, sp spec) {
	sock := hx.MustSock(c, sp.Proto)
	want := table[sp.Proto]
	row := ""
	probe := func(obj string, ep interface {
		SetOption(string, interface{}) error
	}) {
		for o := 0; o < nOpts; o++ {
			err := ep.SetOption(optName[o], optProbeValue(o))
			got := err != mangos.ErrBadOption
			c.Count("matrix_cells", 1)
			switch {
			case got:
				row += "+"
			default:
				row += "-"
			}
			switch {
			case want.has(obj, o) && !got:
				c.Violate("option-lost/"+sp.Proto+"/"+obj+"/"+optName[o],
					"%s %s: SetOption(%s, %v) = ErrBadOption, but the documented/derived support table lists it — the property's quantifier would silently lose this object", sp.Proto, obj, optName[o], optProbeValue(o))
			case !want.has(obj, o) && got:
				c.Count("matrix_extra_support", 1)
				c.Inconclusive("%s %s accepts %s (err=%v) but the support table does not list it: table stale, object not exercised", sp.Proto, obj, optName[o], err)
			case got && err != nil:
				c.Inconclusive("%s %s: SetOption(%s, %v) = %v (supported, but the in-range probe value was refused)", sp.Proto, obj, optName[o], optProbeValue(o), err)
			default:
				c.Count("matrix_cells_agree", 1)
			}
		}
	}
	probe("sock", sock)
	cx, err := sock.OpenContext()
	switch {
	case err == nil && !want.hasCtx:
		c.Inconclusive("%s offers contexts but the support table does not list them", sp.Proto)
	case err != nil && want.hasCtx:
		c.Violate("option-lost/"+sp.Proto+"/ctx/OpenContext", "%s: OpenContext = %v, but the support table lists contexts", sp.Proto, err)
	}
	row += "|"
	if err == nil {
		probe("ctx", cx)
	}
	c.Nontrivial()
	c.Sig("matrix|%s|%s", sp.Proto, row)
}
