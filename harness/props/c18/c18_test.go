package c18

import (
	"math/rand"
	"os"
	"testing"
	"time"

	"verifharness/hx"
	"verifharness/mon"
)

// C18 — deadlines, best-effort and fail-no-peers modes never block or fire early.
//
// Every case builds one subject object (socket or context of one protocol),
// puts it into a known queue / peer state, issues ONE kind of timed call and
// judges it with the rules of DESIGN 1.2:
//
//   early      timeout error with t(return)-t(invoke) < D          exact, violation
//   ready      D = 2 s, call can complete at once: timeout < D     violation; timeout >= D inconclusive
//   hang       D in {20,100} ms, mon.UpperBoundExceeded on three   violation; never returning is decided by
//              consecutive attempts                                the stuck detector (MaxTimer = D)
//   no deadline: call.ParkedIn(...), still parked after a pause, completes when satisfied
//   best effort: returns nil under the stuck detector, whatever the queue / peer state
//   fail-no-peers: ErrNoPeers at once with no peer, and when the last vt peer is dropped mid-call
//   not fail-no-peers: a peer leaving a blocked call never produces ErrNoPeers (dl-block with a
//              leaving peer: the timeout at D; nodl-leave: still waiting after every detach)
//   dl-inherit / dl-cross: the same early / hang / never-returns rules while the OTHER direction's
//              deadline is unset, shorter or longer, and (dl-inherit, be, fnp-none with Inh) while
//              the context has the options only by inheritance from its socket
//
// Silent / slow / leaving peers are vt pipes (HoldSends, Drop; never Inject);
// responsive peers are real sockets over a real transport.

type spec struct {
	Kind   string `json:"kind"` // matrix | dl-block | dl-ready | nodl | be | multi | fnp-none | fnp-leave | stale | be-multi | be-race | dl-churn | dl-inherit | dl-cross | nodl-leave | dl-behind | dl-retry | dl-flap | dl-pair
	Proto  string `json:"proto"`
	Obj    string `json:"obj"`            // sock | ctx
	Op     string `json:"op,omitempty"`   // send | recv
	Peer   string `json:"peer,omitempty"` // none | vt | vt-leave | real | slow
	Tr     string `json:"tr,omitempty"`   // transport of the real peer
	NPipes int    `json:"npipes,omitempty"`
	Q      int    `json:"q,omitempty"`     // WriteQLen (send) / ReadQLen (recv); never 0
	State  string `json:"state,omitempty"` // send queue state: empty | partial | full
	K      int    `json:"k,omitempty"`     // recv: messages made available; multi: number of concurrent callers; dl-retry: retries of the same message
	DUs    int64  `json:"d_us,omitempty"`  // deadline in microseconds (0 = none)
	FNP    bool   `json:"fnp,omitempty"`   // fail-no-peers also set
	WithDL bool   `json:"with_dl,omitempty"`
	Left   bool   `json:"left,omitempty"` // fnp-none: a peer was connected and left before the call
	// SurvZero: SURVEYOR with survey time 0 (no limit) instead of a long one: the receive deadline is then the only timer
	SurvZero bool `json:"surv_zero,omitempty"`
	// Inh: the mode options (deadlines, best effort, fail-no-peers) are set on the SOCKET before the
	// subject context is opened and taken off the socket again afterwards: the context has them by
	// inheritance only, never through a SetOption of its own
	Inh bool `json:"inh,omitempty"`
	// ODUs: the deadline of the OTHER direction in microseconds (0 = not set): a blocked Send is
	// governed by the send deadline alone whatever the receive deadline is, and the other way round
	ODUs int64 `json:"od_us,omitempty"`
	// dl-behind — Blk: direction of the call that is ALREADY BLOCKED on the subject's socket (on the
	// socket itself where the pattern allows concurrent calls, on another context of it otherwise)
	// when the timed call is issued; BDUs: that call's own deadline in microseconds (0 = none);
	// Early: the timed call's deadline is set before the blocking call is issued (else after it parked)
	Blk   string `json:"blk,omitempty"`
	BDUs  int64  `json:"bd_us,omitempty"`
	Early bool   `json:"early,omitempty"`
	// dl-flap — Mode: what keeps happening at the socket while the timed call is parked
	// (flap | retry | flap-others | leave-many, see flap_test.go); K (retry): deadline / retry time
	Mode string `json:"mode,omitempty"`
}

func (s spec) BD() time.Duration { return time.Duration(s.BDUs) * time.Microsecond }

func (s spec) D() time.Duration  { return time.Duration(s.DUs) * time.Microsecond }
func (s spec) OD() time.Duration { return time.Duration(s.ODUs) * time.Microsecond }

// variant names what distinguishes the case from the plain grid (part of every signature it raises).
func (s spec) variant() string {
	v := ""
	if s.Inh {
		v += "/inherited"
	}
	switch {
	case s.ODUs == 0:
	case s.ODUs < s.DUs:
		v += "/other-deadline-shorter"
	default:
		v += "/other-deadline-longer"
	}
	if s.Blk != "" {
		v += "/behind-blocked-" + s.Blk
	}
	if s.Kind == "dl-retry" {
		v += "/same-message-retried"
	}
	if s.Kind == "dl-flap" {
		v += "/" + flapModeName[s.Mode]
	}
	if s.Kind == "dl-pair" {
		v += "/first-of-a-concurrent-timed-send-and-recv"
	}
	return v
}

func TestMain(m *testing.M) { hx.Main(m) }

func TestC18(t *testing.T) {
	r := mon.NewRunner(t, "C18")
	cases := genCases(r.Rand(), r.Thorough())
	if k := os.Getenv("VERIF_C18_KIND"); k != "" { // development aid (never set by the driver): only the cases of one kind
		var sel []mon.CaseSpec
		for _, cs := range cases {
			if cs.Spec.(spec).Kind == k {
				sel = append(sel, cs)
			}
		}
		cases = sel
	}
	r.Run(cases, func(c *mon.Case) {
		sp := c.Spec.(spec)
		runCase(c, sp)
	})
}

type objRef struct{ proto, obj string }

func recvObjs() []objRef {
	var out []objRef
	for _, p := range hx.AllProtos {
		if table[p].sock[optRD] {
			out = append(out, objRef{p, "sock"})
		}
		if table[p].hasCtx && table[p].ctx[optRD] {
			out = append(out, objRef{p, "ctx"})
		}
	}
	return out
}

func sendObjs() []objRef {
	var out []objRef
	for _, p := range hx.AllProtos {
		if table[p].sock[optSD] {
			out = append(out, objRef{p, "sock"})
		}
		if table[p].hasCtx && table[p].ctx[optSD] {
			out = append(out, objRef{p, "ctx"})
		}
	}
	return out
}

func fnpObjs() []objRef {
	var out []objRef
	for _, p := range hx.AllProtos {
		if table[p].sock[optFNP] {
			out = append(out, objRef{p, "sock"})
		}
		if table[p].hasCtx && table[p].ctx[optFNP] {
			out = append(out, objRef{p, "ctx"})
		}
	}
	return out
}

var qChoices = []int{1, 2, 4, 8}

// genCases: the list is a function of (seed, tier) only.
func genCases(rnd *rand.Rand, thorough bool) []mon.CaseSpec {
	var cases []mon.CaseSpec
	add := func(s spec) {
		cases = append(cases, mon.CaseSpec{Name: s.Kind + "/" + s.Proto + "/" + s.Obj + "/" + s.Op, Spec: s})
	}
	reps := 6
	if thorough {
		reps = 80
	}
	trs := []string{"inproc"}
	if thorough {
		trs = hx.Transports
	}
	pickTr := func() string { return trs[rnd.Intn(len(trs))] }
	pickQ := func(min int) int {
		for {
			q := qChoices[rnd.Intn(len(qChoices))]
			if q >= min {
				return q
			}
		}
	}
	for rep := 0; rep < reps; rep++ {
		ds := []int64{20000, 100000}
		if thorough {
			switch rnd.Intn(4) {
			case 0:
				ds = append(ds, 1000)
			case 1:
				ds = append(ds, 1000000)
			default:
				ds = append(ds, int64(2000+rnd.Intn(300000)))
			}
		}
		if rep == 0 {
			for _, p := range hx.AllProtos {
				add(spec{Kind: "matrix", Proto: p, Obj: "sock"})
			}
		}
		// ---- receive side
		for _, o := range recvObjs() {
			for _, d := range ds {
				peers := []string{"none", "vt"}
				if rnd.Intn(2) == 0 {
					peers = append(peers, "vt-leave")
				} else {
					peers = append(peers, "real")
				}
				if thorough {
					peers = []string{"none", "vt", "vt-leave", "real"}
					if d >= 1000000 {
						peers = []string{peers[rnd.Intn(4)]}
					}
				}
				for _, pr := range peers {
					s := spec{Kind: "dl-block", Proto: o.proto, Obj: o.obj, Op: "recv", Peer: pr, DUs: d, NPipes: 1, Q: pickQ(1)}
					if pr == "real" {
						s.Tr = pickTr()
					}
					if table[o.proto].canFNP(o.obj) && rnd.Intn(2) == 0 {
						s.FNP = pr != "none" && pr != "vt-leave"
					}
					add(s)
					if o.proto == "surveyor" && pr == "vt" {
						s.SurvZero = true
						add(s)
					}
				}
			}
			for i := 0; i < 2; i++ {
				q := pickQ(1)
				k := q
				if i == 1 && q > 1 {
					k = 1 + rnd.Intn(q-1)
				}
				if k > 3 {
					k = 3
				}
				add(spec{Kind: "dl-ready", Proto: o.proto, Obj: o.obj, Op: "recv", Peer: "real", Tr: pickTr(), DUs: 2000000, Q: q, K: k, NPipes: 1})
			}
			add(spec{Kind: "nodl", Proto: o.proto, Obj: o.obj, Op: "recv", Peer: "real", Tr: pickTr(), Q: pickQ(1), K: 1, NPipes: 1})
		}
		// ---- send side
		for _, o := range sendObjs() {
			fam := sendFam[o.proto]
			blockPeers := func() []string {
				switch fam {
				case "reply":
					return []string{"slow"}
				default:
					return []string{"none", "vt", "vt-leave"}
				}
			}
			np := func() int {
				if multiPeer[o.proto] && rnd.Intn(2) == 0 {
					return 2
				}
				return 1
			}
			for _, d := range ds {
				peers := blockPeers()
				if !thorough && len(peers) == 3 {
					peers = []string{peers[rnd.Intn(2)], "vt-leave"}
					if rnd.Intn(2) == 0 {
						peers = peers[:1]
					}
				}
				for _, pr := range peers {
					s := spec{Kind: "dl-block", Proto: o.proto, Obj: o.obj, Op: "send", Peer: pr, DUs: d, NPipes: np(), Q: pickQ(1), State: "full"}
					if pr == "slow" {
						s.Tr = "inproc"
						s.NPipes = 1
					}
					if table[o.proto].canFNP(o.obj) && pr == "vt" {
						s.FNP = rnd.Intn(2) == 0
					}
					add(s)
				}
			}
			for _, st := range []string{"empty", "partial"} {
				pr := "vt"
				if fam == "reply" {
					pr = "slow"
				}
				if fam == "req" && st == "partial" {
					continue // REQ has no send queue: a pipe is ready or it is not
				}
				s := spec{Kind: "dl-ready", Proto: o.proto, Obj: o.obj, Op: "send", Peer: pr, DUs: 2000000, NPipes: np(), Q: pickQ(2), State: st}
				if pr == "slow" {
					s.Tr = "inproc"
					s.NPipes = 1
				}
				add(s)
			}
			{
				peers := blockPeers()
				pr := peers[rnd.Intn(len(peers))]
				if pr == "vt-leave" {
					pr = "vt"
				}
				s := spec{Kind: "nodl", Proto: o.proto, Obj: o.obj, Op: "send", Peer: pr, NPipes: np(), Q: pickQ(1), State: "full"}
				if pr == "slow" {
					s.Tr = "inproc"
					s.NPipes = 1
				}
				add(s)
			}
			for _, st := range []string{"empty", "partial", "full"} {
				peers := []string{"none", "vt"}
				if fam == "reply" {
					peers = []string{"slow"}
				}
				for _, pr := range peers {
					if fam == "req" && st == "partial" {
						continue
					}
					if pr == "none" && st == "empty" && fam != "req" && rnd.Intn(2) == 0 {
						continue
					}
					s := spec{Kind: "be", Proto: o.proto, Obj: o.obj, Op: "send", Peer: pr, NPipes: np(), Q: pickQ(2), State: st, WithDL: rnd.Intn(3) == 0}
					if pr == "slow" {
						s.Tr = "inproc"
						s.NPipes = 1
					}
					if fam == "req" && pr == "none" {
						s.State = "full"
					}
					if s.State == "full" && !s.WithDL {
						// a full queue with a send deadline configured as well: the deadline must not turn best effort into a wait
						s2 := s
						s2.WithDL, s2.DUs = true, 150000
						add(s2)
					}
					if s.WithDL {
						s.DUs = 100000
					}
					add(s)
				}
			}
		}
		// ---- SUB: the receive deadline while subscriptions and queue length change under the blocked Recv
		for _, obj := range []string{"sock", "ctx"} {
			add(spec{Kind: "dl-churn", Proto: "sub", Obj: obj, Op: "recv", Peer: "none", DUs: 100000, K: rnd.Intn(3), Q: 4})
		}
		// ---- concurrent best-effort senders racing for the last queue slots
		for _, o := range sendObjs() {
			if sendFam[o.proto] != "queue" || o.obj != "sock" {
				continue
			}
			s := spec{Kind: "be-multi", Proto: o.proto, Obj: "sock", Op: "send", Peer: []string{"none", "vt"}[rnd.Intn(2)], NPipes: 1, Q: []int{1, 2, 4}[rnd.Intn(3)],
				State: []string{"empty", "partial", "full"}[rnd.Intn(3)], K: 2 + rnd.Intn(7), WithDL: rnd.Intn(3) == 0, DUs: 50000}
			add(s)
		}
		for _, o := range sendObjs() {
			if sendFam[o.proto] != "queue" || o.obj != "sock" {
				continue
			}
			rr := 400
			if thorough {
				rr = 1500
			}
			add(spec{Kind: "be-race", Proto: o.proto, Obj: "sock", Op: "send", Peer: "none", Q: []int{1, 1, 2, 3}[rnd.Intn(4)], K: rr})
		}
		// ---- a completed Send's deadline must not end the Recv that follows
		for _, o := range staleObjs() {
			add(spec{Kind: "stale", Proto: o.proto, Obj: o.obj, Op: "send+recv", Peer: "real", Tr: "inproc", DUs: []int64{5000, 20000}[rnd.Intn(2)], NPipes: 1})
		}
		// ---- several blocked callers at once (own deadline per context)
		for _, o := range recvObjs() {
			if o.obj == "sock" && table[o.proto].hasCtx {
				continue // one caller per object on the context-bearing cooked sockets
			}
			pr := []string{"none", "vt"}[rnd.Intn(2)]
			if o.proto == "req" {
				pr = "vt" // a request must have been transmitted
			}
			add(spec{Kind: "multi", Proto: o.proto, Obj: o.obj, Op: "recv", Peer: pr, NPipes: 1, Q: pickQ(1), K: 2 + rnd.Intn(3), DUs: ds[rnd.Intn(2)]})
		}
		for _, o := range sendObjs() {
			fam := sendFam[o.proto]
			if fam == "reply" || (o.obj == "sock" && table[o.proto].hasCtx) {
				continue
			}
			pr := []string{"none", "vt"}[rnd.Intn(2)]
			add(spec{Kind: "multi", Proto: o.proto, Obj: o.obj, Op: "send", Peer: pr, NPipes: 1, Q: pickQ(1), State: "full", K: 2 + rnd.Intn(3), DUs: ds[rnd.Intn(2)]})
		}
		// ---- fail-no-peers
		for _, o := range fnpObjs() {
			ops := []string{"send"}
			if table[o.proto].sock[optRD] {
				ops = append(ops, "recv")
			}
			for _, op := range ops {
				for _, left := range []bool{false, true} {
					for _, withDL := range []bool{false, true} {
						s := spec{Kind: "fnp-none", Proto: o.proto, Obj: o.obj, Op: op, Peer: "none", Left: left, WithDL: withDL, Q: pickQ(1), NPipes: 1}
						if withDL {
							s.DUs = 2000000
						}
						add(s)
						if op == "send" && table[o.proto].has(o.obj, optBE) {
							s.State = "be"
							add(s)
						}
					}
				}
				for _, n := range []int{1, 2} {
					add(spec{Kind: "fnp-leave", Proto: o.proto, Obj: o.obj, Op: op, Peer: "vt-leave", NPipes: n, Q: pickQ(1), FNP: true, State: "full"})
				}
			}
		}
	}
	// ==== second part (appended, so the cases above are what they were): the deadline of the other
	// direction, options that reach a context by inheritance only, peers leaving a call that has no
	// fail-no-peers
	both := func(proto, obj string) bool { return table[proto].has(obj, optRD) && table[proto].has(obj, optSD) }
	blockedPeer := func(o objRef, op string) (string, string) { // peer, transport
		if op == "send" && sendFam[o.proto] == "reply" {
			return "slow", "inproc"
		}
		pr := []string{"none", "vt"}[rnd.Intn(2)]
		if op == "recv" && o.proto == "req" && rnd.Intn(2) == 0 {
			pr = "vt" // the request was transmitted (with no peer it is only queued)
		}
		return pr, ""
	}
	for rep := 0; rep < reps; rep++ {
		pickD := func() int64 {
			if thorough && rnd.Intn(3) == 0 {
				return int64(2000 + rnd.Intn(60000))
			}
			return []int64{20000, 100000}[rnd.Intn(2)]
		}
		// other(d, v): v=0 not set, 1 a quarter of d, 2 twenty times d
		other := func(d int64, v int) int64 { return []int64{0, d / 4, 20 * d}[v] }
		type opObj struct {
			o  objRef
			op string
		}
		var ctxs, crosses []opObj
		for _, o := range sendObjs() {
			if o.obj == "ctx" {
				ctxs = append(ctxs, opObj{o, "send"})
			}
			if both(o.proto, o.obj) {
				crosses = append(crosses, opObj{o, "send"})
			}
		}
		for _, o := range recvObjs() {
			if o.obj == "ctx" {
				ctxs = append(ctxs, opObj{o, "recv"})
			}
			if both(o.proto, o.obj) {
				crosses = append(crosses, opObj{o, "recv"})
			}
		}
		// ---- dl-inherit: the socket has the deadline(s) when the context is opened; the context's
		// blocked call follows the deadline of its own direction
		for i, x := range ctxs {
			d := pickD()
			v := 0
			otherOpt := optRD
			if x.op == "recv" {
				otherOpt = optSD
			}
			if table[x.o.proto].sock[otherOpt] {
				v = (rep + i + rnd.Intn(2)) % 3
			}
			pr, tr := blockedPeer(x.o, x.op)
			s := spec{Kind: "dl-inherit", Proto: x.o.proto, Obj: "ctx", Op: x.op, Peer: pr, Tr: tr, DUs: d, ODUs: other(d, v), Inh: true, NPipes: 1, Q: pickQ(1)}
			if x.op == "send" {
				s.State = "full"
			}
			add(s)
		}
		// ---- dl-cross: both deadlines set on the object itself, different values
		ncross := 6
		if thorough {
			ncross = len(crosses)
		}
		for _, k := range rnd.Perm(len(crosses))[:ncross] {
			x := crosses[k]
			d := pickD()
			pr, tr := blockedPeer(x.o, x.op)
			s := spec{Kind: "dl-cross", Proto: x.o.proto, Obj: x.o.obj, Op: x.op, Peer: pr, Tr: tr, DUs: d, ODUs: other(d, 1+rnd.Intn(2)), NPipes: 1, Q: pickQ(1)}
			if x.op == "send" {
				s.State = "full"
			}
			add(s)
		}
		// ---- best effort / fail-no-peers that the context has by inheritance only
		for _, o := range sendObjs() {
			if o.obj != "ctx" {
				continue
			}
			fam := sendFam[o.proto]
			if table[o.proto].sock[optBE] && table[o.proto].ctx[optBE] {
				s := spec{Kind: "be", Proto: o.proto, Obj: "ctx", Op: "send", Peer: "vt", NPipes: 1, Q: pickQ(2), State: "full", Inh: true, WithDL: rnd.Intn(2) == 0}
				if fam == "reply" {
					s.Peer, s.Tr = "slow", "inproc"
				} else if rnd.Intn(2) == 0 {
					s.Peer = "none"
				}
				if s.WithDL {
					s.DUs = 150000
				}
				add(s)
			}
			if table[o.proto].sock[optFNP] && table[o.proto].ctx[optFNP] {
				s := spec{Kind: "fnp-none", Proto: o.proto, Obj: "ctx", Op: "send", Peer: "none", Left: rnd.Intn(2) == 0, WithDL: rnd.Intn(2) == 0, Q: pickQ(1), NPipes: 1, Inh: true}
				if s.WithDL {
					s.DUs = 2000000
				}
				add(s)
			}
		}
		// ---- nodl-leave: no deadline, no fail-no-peers, the peers leave during the wait
		for _, o := range sendObjs() {
			if sendFam[o.proto] == "reply" {
				continue // a replier's Send is addressed to one peer; that peer leaving ends it (nothing to wait for)
			}
			n := 1
			if multiPeer[o.proto] && rnd.Intn(2) == 0 {
				n = 2
			}
			add(spec{Kind: "nodl-leave", Proto: o.proto, Obj: o.obj, Op: "send", Peer: "vt-leave", NPipes: n, Q: pickQ(1), State: "full"})
		}
		ros := recvObjs()
		nr := 4
		if thorough {
			nr = len(ros)
		}
		for _, k := range rnd.Perm(len(ros))[:nr] {
			n := 1 + rnd.Intn(2)
			switch ros[k].proto {
			case "pair", "xpair", "pair1", "xpair1":
				n = 1 // one peer at a time
			}
			add(spec{Kind: "nodl-leave", Proto: ros[k].proto, Obj: ros[k].obj, Op: "recv", Peer: "vt-leave", NPipes: n, Q: pickQ(1)})
		}
	}
	// ==== third part (appended): the timed call is issued while another call is already blocked on
	// the same socket (or on another context of it)
	genBehind(rnd, thorough, reps, add, pickQ)
	// ==== fourth part (appended): a Send that timed out is retried with the very same message object
	genRetry(rnd, thorough, reps, add, pickQ)
	// ==== fifth part (appended): peers come and go / the request is retransmitted for as long as the
	// timed call is parked
	genFlap(rnd, thorough, reps, add, pickQ)
	// ==== sixth part (appended): a timed Send and a timed Recv in progress at the same time on the
	// same object, one deadline firing while the other call is still parked
	genPair(rnd, thorough, reps, add, pickQ)
	return cases
}

func runCase(c *mon.Case, sp spec) {
	switch sp.Kind {
	case "matrix":
		runMatrix(c, sp)
	case "dl-block", "dl-inherit", "dl-cross":
		runBlocked(c, sp)
	case "nodl-leave":
		runNoDeadlineLeave(c, sp)
	case "dl-ready":
		runReady(c, sp)
	case "nodl":
		runNoDeadline(c, sp)
	case "be":
		runBestEffort(c, sp)
	case "multi":
		runMulti(c, sp)
	case "fnp-none":
		runFNPNone(c, sp)
	case "fnp-leave":
		runFNPLeave(c, sp)
	case "stale":
		runStale(c, sp)
	case "be-multi":
		runBEMulti(c, sp)
	case "be-race":
		runBERace(c, sp)
	case "dl-churn":
		runChurn(c, sp)
	case "dl-behind":
		runBehind(c, sp)
	case "dl-retry":
		runRetry(c, sp)
	case "dl-flap":
		runFlap(c, sp)
	case "dl-pair":
		runPair(c, sp)
	default:
		panic("unknown kind " + sp.Kind)
	}
}
