package c18

import (
	"fmt"
	"time"

	"go.nanomsg.org/mangos/v3"

	"verifharness/mon"
)

// runNoDeadlineLeave: "with no deadline it waits" while the peers go away.  Fail-no-peers is NOT
// set (the default; on objects that do not have the option at all it cannot be).  The call is
// parked — a Send on a full queue / with every pipe busy, a Recv with nothing to receive — with 1-2
// silent vt peers connected; they are dropped one by one, each detach is awaited (the library has
// processed the removal when the event hook ran), and after each the call must still be waiting:
// the no-peers error belongs to fail-no-peers mode, and there is no deadline that could end it.
// A Send is then satisfied by a fresh peer that takes everything and must complete with nil.
//
// Verdicts are on the call's RESULT only (three-valued): ErrNoPeers or a timeout error is a
// violation whenever it comes; any other early return is inconclusive; "still waiting" is what the
// harness saw (parked, not done) and needs no clock.
func runNoDeadlineLeave(c *mon.Case, sp spec) {
	w := newWorld(c, sp)
	if w == nil {
		return
	}
	if sp.Op == "send" {
		if !w.prepareSend() {
			return
		}
	} else if !w.prepareRecv() {
		return
	}
	if !w.arm() {
		return
	}
	tc := w.timedOp()
	call := tc.call
	judge := func(when string) {
		err := tc.err()
		w.outcome = "returned:" + errName(err)
		switch {
		case err == mangos.ErrNoPeers:
			c.Violate("no-peers-error-without-fail-no-peers/"+w.id()+"/no-deadline", "%s (fail-no-peers NOT set, no deadline, %d vt peers, q=%d): the call returned %v %s — without fail-no-peers it waits", w.id(), len(w.vps), sp.Q, err, when)
		case isTimeoutErr(err):
			c.Violate("no-deadline-timeout/"+w.id(), "%s: no deadline configured, yet the call returned %v (%s)", w.id(), err, when)
		default:
			c.Inconclusive("%s: call returned %v %s", w.id(), err, when)
		}
	}
	if !call.ParkedIn(w.frame()) {
		if call.Done() {
			judge("before it was seen parked, all peers still connected")
		} else {
			c.Inconclusive("%s: call neither parked nor returned", w.id())
		}
		return
	}
	for i, p := range w.vps {
		p.Drop()
		if !c.AwaitOrViolate("harness:detach-stuck/"+sp.Proto, "dropped vt pipe detaching", func() bool { return w.watch.Detached() >= i+1 }, mon.AwaitOpts{}) {
			return
		}
		c.Count("peers_dropped_mid_call", 1)
		mon.Sleep(20 * time.Millisecond) // pacing only: gives a wrongly woken call the time to return
		if call.Done() {
			judge(fmt.Sprintf("after %d of %d peers had left during the wait", i+1, len(w.vps)))
			return
		}
	}
	if !call.ParkedIn(w.frame()) {
		if call.Done() {
			judge("after all peers had left during the wait")
		} else {
			c.Inconclusive("%s: call left the parked state without returning", w.id())
		}
		return
	}
	c.Count("no_deadline_calls_waiting_after_last_peer_left", 1)
	if sp.Op == "recv" {
		w.outcome = "still-waiting"
		c.Nontrivial()
		return // the parked Recv ends with the socket
	}
	if !w.addVT(false) { // a fresh peer that takes whatever is sent
		return
	}
	if !c.AwaitOrViolate("no-deadline/not-completing-when-satisfied/"+w.id(), fmt.Sprintf("%s parked without deadline, all %d peers left, then a fresh peer takes everything", w.id(), len(w.vps)-1), call.Done, mon.AwaitOpts{}) {
		w.outcome = "no-return"
		return
	}
	if err := tc.err(); err != nil {
		judge("once a fresh peer had connected after all others left")
		return
	}
	w.outcome = "waited-then-ok"
	c.Count("no_deadline_calls_completed", 1)
	c.Count("timed_calls", 1)
	c.Nontrivial()
}
