package c18

import (
	"fmt"
	"math/rand"
	"time"

	"go.nanomsg.org/mangos/v3"

	"verifharness/mon"
)

// dl-pair: a timed Send and a timed Recv in progress AT THE SAME TIME ON THE SAME OBJECT, with
// different deadlines.
//
// The object (every socket / context that has both a send and a receive deadline) gets both
// deadlines, D for the call that is issued first (Op) and OD = D/4 or 4 x D for the call of the other
// direction, which a second goroutine issues once the first call has been seen parked.  Neither call
// can complete: the send side is full / has no ready pipe / sits on the full chain towards the slow
// requester, and nothing is ever made available to receive.  One of the two deadlines then fires
// while the other call is still parked — on the patterns where the two directions share state (REQ:
// the expiry of either call cancels the request the other one is waiting on) that is the moment at
// which the remaining call can lose its wake-up.
//
// The statement speaks about each call on its own, so each is judged on its own:
//
//	it returns              stuck detector, MaxTimer = the longer of the two deadlines
//	                        (deadline-ignored/... names which of the two never returned)
//	its own timeout error   never before its own deadline, measured from its invocation (exact)
//	the other timeout error violation (wrong-timeout-error/...)
//	any other error         in contract (REQ: ErrCanceled when the other call's expiry or a new Send
//	                        retired the request; ErrProtoState) — counted, not judged
//	nil                     the blocked state was not reached: inconclusive
//
// Non-trivial when the first call was seen parked before the second was issued and at least one of
// the two returned its own timeout error.

func otherDir(d string) string {
	if d == "send" {
		return "recv"
	}
	return "send"
}

func pairObjs() []objRef {
	var out []objRef
	for _, o := range sendObjs() {
		if table[o.proto].has(o.obj, optRD) {
			out = append(out, o)
		}
	}
	return out
}

func genPair(rnd *rand.Rand, thorough bool, reps int, add func(spec), pickQ func(int) int) {
	objs := pairObjs()
	for rep := 0; rep < reps; rep++ {
		for i, o := range objs {
			// (which call is first, whose deadline is shorter) stratified over the draws: four
			// consecutive draws show every object every combination; the busy / absent peer alternates
			// with a period of eight
			strata := []int{(rep + i) % 4}
			if thorough || sendFam[o.proto] == "req" {
				strata = append(strata, (rep+i+1+rnd.Intn(3))%4)
			}
			for k, st := range strata {
				d := []int64{50000, 100000}[rnd.Intn(2)]
				if thorough && rnd.Intn(3) == 0 {
					d = int64(40000 + rnd.Intn(80000))
				}
				s := spec{Kind: "dl-pair", Proto: o.proto, Obj: o.obj, NPipes: 1, Q: pickQ(1), State: "full"}
				s.Op = []string{"send", "recv"}[st%2]
				if st/2 == 0 { // the first call has the shorter deadline
					s.DUs, s.ODUs = d, 4*d
				} else {
					s.DUs, s.ODUs = 4*d, d
				}
				switch {
				case sendFam[o.proto] == "reply":
					s.Peer, s.Tr = "slow", "inproc"
				case ((rep+i)/4+k)%2 == 0:
					s.Peer = "none"
				default:
					s.Peer = "vt"
					if multiPeer[o.proto] && rnd.Intn(2) == 0 {
						s.NPipes = 2
					}
				}
				add(s)
			}
		}
	}
}

func runPair(c *mon.Case, sp spec) {
	w := newWorld(c, sp)
	if w == nil {
		return
	}
	first, second := sp.Op, otherDir(sp.Op)
	dOf := map[string]time.Duration{first: sp.D(), second: sp.OD()}
	maxT := sp.D()
	if sp.OD() > maxT {
		maxT = sp.OD()
	}
	// the send side cannot take a message; nothing will ever arrive
	if !w.prepareSend() {
		return
	}
	if sendFam[sp.Proto] == "reply" && !isRaw(sp.Proto) {
		// a cooked replier may Send once it has received a request (no deadline is set yet)
		if !w.prime(w.obj) {
			return
		}
	}
	if sp.Proto == "req" && first == "recv" {
		// a Recv needs a request outstanding: a best-effort Send leaves it queued (no ready pipe)
		err, ok := w.guardedSet(w.obj, mangos.OptionBestEffort, true)
		if !ok || err != nil {
			if ok {
				c.Inconclusive("req: BestEffort for the outstanding request: %v", err)
			}
			return
		}
		ok = w.setup("request-best-effort", func() error { return w.send(w.obj) })
		if _, ok2 := w.guardedSet(w.obj, mangos.OptionBestEffort, false); !ok || !ok2 {
			return
		}
	}
	if !w.setOpt(optSD, dOf["send"]) || !w.setOpt(optRD, dOf["recv"]) {
		return
	}
	issue := func(dir string) *tcall {
		if dir == "send" {
			return timed("Send", func() error { return w.send(w.obj) })
		}
		return timed("Recv", func() error { return w.recv(w.obj) })
	}
	calls := map[string]*tcall{}
	calls[first] = issue(first)
	seenParked := calls[first].call.ParkedIn(dirFrame(first))
	if seenParked {
		c.Count("dl_pair_first_call_seen_parked", 1)
	} else {
		c.Count("dl_pair_first_call_not_seen_parked", 1)
	}
	calls[second] = issue(second)
	c.Count("dl_pair_first_"+first+"_then_"+second, 1)

	describe := func(dir string) string {
		role := "issued first"
		if dir == second {
			role = "issued second, once the other was parked"
		}
		return fmt.Sprintf("%s: the %s (deadline %v, %s) while a %s with deadline %v is in progress on the same object (peer %s, state %s, q=%d)",
			w.id(), dir, dOf[dir], role, otherDir(dir), dOf[otherDir(dir)], sp.Peer, sp.State, sp.Q)
	}
	res := map[string]string{}
	timeouts := 0
	// the call with the shorter deadline is awaited first (its return is what may strand the other)
	order := []string{first, second}
	if dOf[second] < dOf[first] {
		order = []string{second, first}
	}
	for _, dir := range order {
		tc := calls[dir]
		if !c.AwaitOrViolate("deadline-ignored/"+w.id()+"/the-"+dir, describe(dir)+" returning", tc.call.Done, mon.AwaitOpts{MaxTimer: maxT}) {
			res[dir] = "no-return"
			w.outcome = first + "=" + res[first] + "," + second + "=" + res[second]
			return
		}
		err, el := tc.err(), tc.elapsed()
		res[dir] = errName(err)
		c.Logf("%s -> %s after %v", describe(dir), errName(err), el)
		c.Count("timed_calls", 1)
		switch {
		case err == dirTimeout(dir):
			if el < dOf[dir] {
				res[dir] = "early"
				w.outcome = first + "=" + res[first] + "," + second + "=" + res[second]
				c.Violate("early-timeout/"+w.id()+"/the-"+dir, "%s: %v returned %v after the call was invoked — %v early", describe(dir), err, el, dOf[dir]-el)
				return
			}
			timeouts++
			c.Count("timeouts_not_early", 1)
		case isTimeoutErr(err):
			w.outcome = first + "=" + res[first] + "," + second + "=" + res[second]
			c.Violate("wrong-timeout-error/"+w.id()+"/the-"+dir, "%s returned %v, the timeout error of the other direction", describe(dir), err)
			return
		case err == nil:
			w.outcome = first + "=" + res[first] + "," + second + "=" + res[second]
			c.Inconclusive("%s completed (%v) instead of blocking — state not reached", describe(dir), el)
			return
		default:
			// retired by the other call (REQ: ErrCanceled) or not legal in this state: outside the statement
			c.Count("dl_pair_"+dir+"_ended_with_"+errName(err), 1)
		}
	}
	w.outcome = first + "=" + res[first] + "," + second + "=" + res[second]
	if seenParked && timeouts > 0 {
		c.Nontrivial()
	}
}
