package c18

import (
	"fmt"
	"math/rand"
	"time"

	"go.nanomsg.org/mangos/v3"

	"verifharness/hx"
	"verifharness/mon"
	"verifharness/vt"
)

// dl-flap: "never hanging beyond it" while things that are NOT what the call waits for keep happening
// at the socket during the whole wait.  One call with a positive deadline D is parked — a Recv with
// nothing to receive, a Send that cannot complete — and, every quarter deadline for as long as the
// call has not returned, one more such event takes place:
//
//	flap         (Recv, every object that has a receive deadline) a silent vt peer leaves, the next
//	             one connects, leaves, ... — the only peer, or a second one next to a peer that stays;
//	             starting from "no peer" or from "connected".  A REQ's outstanding request is thereby
//	             retransmitted on every new connection.
//	retry        (Recv, REQ socket and context) the silent peers stay, the retry time is D/3 .. D/8:
//	             the request is retransmitted several times before the deadline.
//	flap-others  (Send, REP / RESPONDENT socket, context, raw) the Send is parked on the full chain
//	             towards the slow requester; OTHER (vt) peers connect and leave.
//	leave-many   (Send, the senders that admit several peers: REQ, XREQ, PUSH, XPUSH) every one of many
//	             silent pipes holds one message, the queue behind them is full (REQ: every pipe busy);
//	             the pipes leave one by one.  None of that frees a slot.
//
// None of these events is a message or a free slot, so the call is still a blocked call with deadline
// D: it returns the corresponding timeout error, not before D after it was invoked (exact) and not
// hanging beyond D.  The events go on until the call has returned, so an implementation in which an
// event restarts, postpones or disarms the deadline of the parked call does not return while they go
// on.  "Hanging" is judged by the canary rule on a LOWER bound of the time the call has been in
// progress (taken after the harness saw it parked): it is a violation only when that bound is at
// least 15 D and beyond D by more than 50 ms + 20x the worst scheduler oversleep of the case, with
// the call still not returned (or returned that late); the events stop then.  A return between D and
// that is not judged (re-measured up to three times, else inconclusive when beyond the canary rule).
// On a conforming library the call returns at about D and the case ends there.
//
// A single-peer pattern's Send behind a flapping peer is not part of the kind: every new peer takes
// one message off the queue, so the Send may complete.

var flapModeName = map[string]string{
	"flap":        "peer-flapping",
	"retry":       "request-retransmitted",
	"flap-others": "other-peers-flapping",
	"leave-many":  "peers-leaving-one-by-one",
}

func singlePeer(p string) bool {
	switch p {
	case "pair", "xpair", "pair1", "xpair1":
		return true
	}
	return false
}

func genFlap(rnd *rand.Rand, thorough bool, reps int, add func(spec), pickQ func(int) int) {
	ros := recvObjs()
	var replySend, manySend []objRef
	for _, o := range sendObjs() {
		switch {
		case sendFam[o.proto] == "reply":
			replySend = append(replySend, o)
		case multiPeer[o.proto]:
			manySend = append(manySend, o)
		}
	}
	for rep := 0; rep < reps; rep++ {
		pickD := func() int64 {
			if !thorough {
				return 50000
			}
			switch rnd.Intn(4) {
			case 0:
				return 20000
			case 1:
				return 100000
			case 2:
				return int64(10000 + rnd.Intn(80000))
			}
			return 50000
		}
		// ---- Recv behind a flapping peer: quick sees every object in every second draw
		for i, o := range ros {
			if !thorough && (i+rep)%2 != 0 {
				continue
			}
			s := spec{Kind: "dl-flap", Mode: "flap", Proto: o.proto, Obj: o.obj, Op: "recv", Peer: []string{"none", "vt"}[rnd.Intn(2)], NPipes: 1, Q: pickQ(1), DUs: pickD()}
			if !singlePeer(o.proto) && rnd.Intn(2) == 0 {
				s.NPipes, s.Peer = 2, "vt" // one peer stays, the other one flaps
			}
			add(s)
		}
		// ---- REQ: the request is retransmitted by the retry timer during the wait
		for _, obj := range []string{"sock", "ctx"} {
			d := int64(100000)
			if thorough {
				d = []int64{50000, 100000, 200000}[rnd.Intn(3)]
			}
			add(spec{Kind: "dl-flap", Mode: "retry", Proto: "req", Obj: obj, Op: "recv", Peer: "vt", NPipes: 1 + rnd.Intn(2), Q: pickQ(1), DUs: d, K: 3 + rnd.Intn(6)})
		}
		// ---- Send of a replier on the full chain while other peers flap
		nr := 2
		if thorough {
			nr = len(replySend)
		}
		for _, k := range rnd.Perm(len(replySend))[:nr] {
			o := replySend[k]
			add(spec{Kind: "dl-flap", Mode: "flap-others", Proto: o.proto, Obj: o.obj, Op: "send", Peer: "slow", Tr: "inproc", NPipes: 1, Q: pickQ(1), State: "full", DUs: pickD()})
		}
		// ---- Send on a full queue / with every pipe busy while the many silent peers leave one by one
		nm := 1
		if thorough {
			nm = len(manySend)
		}
		for _, k := range rnd.Perm(len(manySend))[:nm] {
			o := manySend[k]
			add(spec{Kind: "dl-flap", Mode: "leave-many", Proto: o.proto, Obj: o.obj, Op: "send", Peer: "vt", NPipes: 64, Q: pickQ(1), State: "full", DUs: pickD()})
		}
	}
}

func runFlap(c *mon.Case, sp spec) {
	w := newWorld(c, sp)
	if w == nil {
		return
	}
	c.Cleanup(func() { c.Sig("dl-flap|%s|%s|%s|%s|%s|n%d|d%d|k%d|%s", sp.Mode, sp.Proto, sp.Obj, sp.Op, sp.Peer, sp.NPipes, sp.DUs, sp.K, w.outcome) })
	D := sp.D()
	if sp.Op == "send" {
		if !w.prepareSend() {
			return
		}
	} else if !w.prepareRecv() {
		return
	}
	w.listenVT()
	if !w.setOpt(w.dlOpt(), D) {
		return
	}
	if sp.Mode == "retry" {
		R := D / time.Duration(sp.K)
		if err := w.obj.SetOption(mangos.OptionRetryTime, R); err != nil {
			c.Inconclusive("%s: SetOption(RetryTime, %v) = %v", w.id(), R, err)
			return
		}
	}

	// ---- the events
	var flapper *vt.Pipe // the pipe that is attached now and leaves next
	if sp.Mode == "flap" && len(w.vps) > 0 {
		flapper = w.vps[len(w.vps)-1]
	}
	nextLeaver := 0
	connected, left := 0, 0
	drop := func(p *vt.Pipe) bool {
		n := w.watch.Detached()
		p.Drop()
		return c.AwaitOrViolate("harness:detach-stuck/"+sp.Proto, "dropped vt pipe detaching", func() bool { return w.watch.Detached() >= n+1 }, mon.AwaitOpts{MaxTimer: D})
	}
	connect := func() bool {
		n := w.watch.Attached()
		p := w.L.Connect()
		if !hx.WaitAttached(c, w.watch, n+1, "flapping vt pipe") {
			return false
		}
		flapper = p
		return true
	}
	// event performs the next event; what == "" when the mode has none (left)
	event := func() (what string, ok bool) {
		switch sp.Mode {
		case "flap", "flap-others":
			if flapper != nil {
				p := flapper
				flapper = nil
				if !drop(p) {
					return "", false
				}
				left++
				return "leave", true
			}
			if !connect() {
				return "", false
			}
			connected++
			return "connect", true
		case "leave-many":
			if nextLeaver < len(w.vps) {
				p := w.vps[nextLeaver]
				nextLeaver++
				if !drop(p) {
					return "", false
				}
				left++
				return "leave", true
			}
		}
		return "", true
	}
	// restore puts the flapping peer back into the state the case starts from
	restore := func() bool {
		if sp.Mode != "flap" {
			return true
		}
		switch {
		case sp.Peer == "vt" && flapper == nil:
			return connect()
		case sp.Peer == "none" && flapper != nil:
			p := flapper
			flapper = nil
			return drop(p)
		}
		return true
	}
	transmissions := func() int {
		n := 0
		for _, p := range w.L.Pipes() {
			n += p.SentCount()
		}
		return n
	}
	describe := func() string {
		switch sp.Mode {
		case "retry":
			return fmt.Sprintf("retry time %v, %d silent peers, %d transmissions of the request seen so far", D/time.Duration(sp.K), sp.NPipes, transmissions())
		case "flap-others":
			return fmt.Sprintf("parked on the full chain towards the slow requester; other peers: %d connected, %d left during the wait", connected, left)
		case "leave-many":
			return fmt.Sprintf("%d silent pipes each holding one message, queue of %d full; %d of them left during the wait", len(w.vps), sp.Q, left)
		}
		return fmt.Sprintf("initial peer state %s, %d peers staying; the flapping peer connected %d times and left %d times during the wait", sp.Peer, sp.NPipes-1, connected, left)
	}

	suspects := 0
	for attempt := 0; attempt < 3; attempt++ {
		if !restore() || !w.arm() {
			return
		}
		connected, left = 0, 0
		tx0 := transmissions()
		tc := w.timedOp()
		if !tc.call.ParkedIn(w.frame()) && !tc.call.Done() {
			c.Inconclusive("%s: call neither parked nor returned", w.id())
			return
		}
		tpark := mon.Now() // the call was invoked before this: Now()-tpark is a lower bound of its time in progress
		during := 0
		var lb time.Duration
		hang := false
		for !tc.call.Done() {
			lb = mon.Now() - tpark
			if lb >= 15*D && mon.UpperBoundExceeded(lb, D) {
				if !tc.call.Done() { // not returned at a moment later than the one lb was taken at
					hang = true
				}
				break
			}
			if lb > 20*time.Second {
				break
			}
			what, ok := event()
			if !ok {
				return
			}
			if what != "" && !tc.call.Done() {
				during++
			}
			mon.Sleep(D / 4) // pacing of the events; the verdict does not depend on how long it really was
		}
		c.Count("timed_calls", 1)
		c.Count("events_during_wait", during)
		if sp.Mode == "retry" {
			if n := transmissions() - tx0 - 1; n > 0 {
				c.Count("retransmissions_seen", n)
				during += n
			}
		}
		if hang {
			w.outcome = "hang"
			c.Violate("hang/"+w.id(), "%s with deadline %v (%s): the call has been in progress for more than %v (taken from the moment it was seen parked) and has not returned; %d events took place while it waited, one every %v (canary worst oversleep %v)", w.id(), D, describe(), lb, during, D/4, mon.CanaryWorst())
			return
		}
		if !tc.call.Done() {
			w.outcome = "undecided"
			c.Inconclusive("%s with deadline %v (%s): not returned after %v, not decidable by the canary rule (worst oversleep %v)", w.id(), D, describe(), lb, mon.CanaryWorst())
			return
		}
		err, el := tc.err(), tc.elapsed()
		c.Logf("attempt %d: %s -> %s after %v (D=%v; %s)", attempt, w.id(), errName(err), el, D, describe())
		switch {
		case err == w.wantTimeout():
			if el < D {
				w.outcome = "early"
				c.Violate("early-timeout/"+w.id(), "%s (%s): %v returned %v after the call was invoked, deadline %v — %v early", w.id(), describe(), err, el, D, D-el)
				return
			}
			c.Count("timeouts_not_early", 1)
			if mon.UpperBoundExceeded(el, D) {
				if el >= 15*D {
					w.outcome = "hang"
					c.Violate("hang/"+w.id(), "%s with deadline %v (%s): the timeout came only after %v; %d events took place while it waited, one every %v (canary worst oversleep %v)", w.id(), D, describe(), el, during, D/4, mon.CanaryWorst())
					return
				}
				suspects++
				c.Count("upper_bound_suspects", 1)
				continue
			}
			c.Count("upper_bounds_checked", 1)
			w.outcome = "timeout"
			if during > 0 {
				c.Nontrivial()
				return
			}
			// returned before the first event could take place: measure again
		case isTimeoutErr(err):
			w.outcome = "wrong-timeout"
			c.Violate("wrong-timeout-error/"+w.id(), "%s (%s) returned %v, the timeout error of the other direction", w.id(), describe(), err)
			return
		case err == mangos.ErrNoPeers && !sp.FNP:
			w.outcome = "left:ErrNoPeers"
			c.Violate("no-peers-error-without-fail-no-peers/"+w.id(), "%s (fail-no-peers NOT set, deadline %v; %s) returned %v after %v — want %v at the deadline", w.id(), D, describe(), err, el, w.wantTimeout())
			return
		case err == nil && sp.Op == "recv":
			w.outcome = "not-blocked"
			c.Inconclusive("%s (%s): Recv returned a message although none was made available (%v)", w.id(), describe(), el)
			return
		default:
			// peers left during the wait: any other outcome is outside the statement
			w.outcome = "left:" + errName(err)
			c.Count("left_mid_call_other_outcome", 1)
			return
		}
	}
	if suspects > 0 {
		c.Inconclusive("%s: deadline %v: %d measurements beyond the deadline by more than the canary rule allows, none of them 15x (canary worst %v)", w.id(), D, suspects, mon.CanaryWorst())
	}
}
