package c18

import (
	"fmt"
	"sync/atomic"
	"time"

	"go.nanomsg.org/mangos/v3"

	"verifharness/hx"
	"verifharness/mon"
	"verifharness/vt"
)

// endpoint is what sockets and contexts have in common.
type endpoint interface {
	Send([]byte) error
	Recv() ([]byte, error)
	SendMsg(*mangos.Message) error
	RecvMsg() (*mangos.Message, error)
	SetOption(string, interface{}) error
	GetOption(string) (interface{}, error)
}

type world struct {
	c     *mon.Case
	sp    spec
	sock  mangos.Socket
	obj   endpoint // the subject: sock itself or a context of it
	watch *hx.PipeWatch

	L   *vt.ListenerCtl
	vps []*vt.Pipe

	peer      mangos.Socket // real peer
	peerWatch *hx.PipeWatch

	replyHdr []byte // xrep/xrespondent: header of a received request (pipe id ++ backtrace)
	seq      atomic.Uint32
	filler   endpoint  // reply family: where the filling sends are issued
	parked   *mon.Call // reply family: the filler send that is parked on the full queue
	draining bool
	outcome  string
	// preFill: run by prepareSend (reply family) once the peer is connected and the filler exists,
	// before the first filling Send is issued (nothing is parked yet)
	preFill func() bool
	blk     *blocker // dl-behind: the call that is already blocked when the timed call is issued
	blkCtx  mangos.Context
	// rdl: a receive deadline in force on the subject while it is used for SENDING (the other
	// direction's deadline): the set-up Recv of a request may then time out before the request arrived
	rdl time.Duration
}

type optVal struct {
	o int
	v interface{}
}

// modeOpts: the options under test that an "inherited" case puts on the socket before the subject
// context is opened (own deadline, the other direction's deadline, best effort, fail-no-peers).
func (w *world) modeOpts() []optVal {
	sp := w.sp
	own, other := optRD, optSD
	if sp.Op == "send" {
		own, other = optSD, optRD
	}
	var out []optVal
	switch sp.Kind {
	case "dl-inherit":
		if sp.ODUs > 0 {
			out = append(out, optVal{other, sp.OD()})
		}
		out = append(out, optVal{own, sp.D()})
	case "be":
		out = append(out, optVal{optBE, true})
		if sp.WithDL {
			out = append(out, optVal{optSD, sp.D()})
		}
	case "fnp-none":
		out = append(out, optVal{optFNP, true})
		if sp.WithDL {
			out = append(out, optVal{own, sp.D()})
		}
	default:
		panic("inherited options: kind " + sp.Kind)
	}
	return out
}

// openInheriting sets the mode options on the socket, opens the subject context and takes the
// options off the socket again (REP/RESPONDENT refuse a zero deadline: an hour there), so that
// whatever the context does with them it has by inheritance, and contexts opened later (fillers)
// do not have them.
func (w *world) openInheriting() (mangos.Context, bool) {
	sp, c := w.sp, w.c
	if sp.Op == "send" && sendFam[sp.Proto] == "reply" {
		fx, err := w.sock.OpenContext() // the filler must not inherit: opened first
		if err != nil {
			c.Inconclusive("%s: OpenContext for filler: %v", sp.Proto, err)
			return nil, false
		}
		w.filler = fx
	}
	opts := w.modeOpts()
	for _, ov := range opts {
		err := w.sock.SetOption(optName[ov.o], ov.v)
		switch {
		case err == nil:
		case err == mangos.ErrBadOption && table[sp.Proto].sock[ov.o]:
			c.Violate("option-lost/"+sp.Proto+"/sock/"+optName[ov.o], "%s sock: SetOption(%s, %v) = ErrBadOption although the support table lists it", sp.Proto, optName[ov.o], ov.v)
			return nil, false
		default:
			c.Inconclusive("%s sock: SetOption(%s, %v) = %v", sp.Proto, optName[ov.o], ov.v, err)
			return nil, false
		}
	}
	cx, err := w.sock.OpenContext()
	if err != nil {
		c.Inconclusive("%s: OpenContext: %v", sp.Proto, err)
		return nil, false
	}
	for _, ov := range opts {
		var off interface{} = false
		if ov.o == optRD || ov.o == optSD {
			off = time.Duration(0)
		}
		if w.sock.SetOption(optName[ov.o], off) != nil {
			w.sock.SetOption(optName[ov.o], time.Hour)
		}
		got, gerr := cx.GetOption(optName[ov.o])
		c.Logf("socket had %s = %v when the context was opened; the context reads back %v (err %v)", optName[ov.o], ov.v, got, gerr)
	}
	c.Count("contexts_opened_with_inherited_options", 1)
	return cx, true
}

func (w *world) id() string { return w.sp.Proto + "/" + w.sp.Obj + "/" + w.sp.Op + w.sp.variant() }

func errName(err error) string {
	switch err {
	case nil:
		return "nil"
	case mangos.ErrRecvTimeout:
		return "ErrRecvTimeout"
	case mangos.ErrSendTimeout:
		return "ErrSendTimeout"
	case mangos.ErrNoPeers:
		return "ErrNoPeers"
	case mangos.ErrClosed:
		return "ErrClosed"
	case mangos.ErrProtoState:
		return "ErrProtoState"
	case mangos.ErrCanceled:
		return "ErrCanceled"
	case mangos.ErrProtoOp:
		return "ErrProtoOp"
	case mangos.ErrBadOption:
		return "ErrBadOption"
	case mangos.ErrBadValue:
		return "ErrBadValue"
	}
	return "other"
}

func isTimeoutErr(err error) bool {
	return err == mangos.ErrRecvTimeout || err == mangos.ErrSendTimeout
}

func (w *world) wantTimeout() error {
	if w.sp.Op == "send" {
		return mangos.ErrSendTimeout
	}
	return mangos.ErrRecvTimeout
}

func (w *world) frame() string {
	if w.sp.Op == "send" {
		return "SendMsg"
	}
	return "RecvMsg"
}

func newWorld(c *mon.Case, sp spec) *world {
	w := &world{c: c, sp: sp}
	w.sock = hx.MustSock(c, sp.Proto)
	w.watch = hx.WatchPipes(w.sock)
	w.obj = w.sock
	// timers that are not the subject of C18 are pushed out of the way (set on
	// the socket first so that contexts inherit them where the pattern does that)
	w.sock.SetOption(mangos.OptionRetryTime, time.Hour)
	surveyTime := time.Hour
	if sp.SurvZero {
		surveyTime = 0
	}
	w.sock.SetOption(mangos.OptionSurveyTime, surveyTime)
	if sp.Obj == "ctx" {
		var cx mangos.Context
		if sp.Inh {
			var ok bool
			if cx, ok = w.openInheriting(); !ok {
				return nil
			}
		} else {
			var err error
			if cx, err = w.sock.OpenContext(); err != nil {
				c.Inconclusive("%s: OpenContext: %v", sp.Proto, err)
				return nil
			}
		}
		cx.SetOption(mangos.OptionRetryTime, time.Hour)
		cx.SetOption(mangos.OptionSurveyTime, surveyTime)
		w.obj = cx
	}
	if sp.Proto == "sub" {
		if err := w.obj.SetOption(mangos.OptionSubscribe, ""); err != nil {
			c.Inconclusive("sub: subscribe: %v", err)
			return nil
		}
	}
	c.Cleanup(func() {
		sp := w.sp
		if w.outcome != "" {
			c.Count("outcome_"+sp.Kind+"_"+w.outcome, 1)
		}
		c.Sig("%s|%s|%s|%s|%s|n%d|q%d|%s|k%d|d%d|%v|%v|%v|%s|%v|o%d|%s|b%d|%v", sp.Kind, sp.Proto, sp.Obj, sp.Op, sp.Peer, sp.NPipes, sp.Q, sp.State, sp.K, sp.DUs, sp.FNP, sp.WithDL, sp.Left || sp.SurvZero, w.outcome, sp.Inh, sp.ODUs, sp.Blk, sp.BDUs, sp.Early)
	})
	return w
}

// setOpt sets one of the four options under test on the subject and turns a
// rejected-but-tabled option into a violation (lost option).
func (w *world) setOpt(o int, v interface{}) bool {
	err, ok := w.guardedSet(w.obj, optName[o], v)
	if !ok {
		return false
	}
	switch {
	case err == nil:
		return true
	case err == mangos.ErrBadOption && table[w.sp.Proto].has(w.sp.Obj, o):
		w.c.Violate("option-lost/"+w.sp.Proto+"/"+w.sp.Obj+"/"+optName[o], "%s %s: SetOption(%s, %v) = ErrBadOption although the support table lists it", w.sp.Proto, w.sp.Obj, optName[o], v)
	default:
		w.c.Inconclusive("%s %s: SetOption(%s, %v) = %v", w.sp.Proto, w.sp.Obj, optName[o], v, err)
	}
	return false
}

// guardedSet issues SetOption in its own goroutine and awaits it under the stuck detector: an
// option call on an object that has a call parked (a filling Send on a full queue, the blocked
// call of a dl-behind case) must not be able to park the case goroutine itself.  ok=false: the
// call never returned (reported).
func (w *world) guardedSet(ep endpoint, name string, v interface{}) (error, bool) {
	call := mon.Go("SetOption", func() (interface{}, error) { return nil, ep.SetOption(name, v) })
	if !w.c.AwaitOrViolate("option-call-stuck/"+w.id()+"/"+name, fmt.Sprintf("%s: SetOption(%s, %v) returning (calls parked on the same socket: %s)", w.id(), name, v, w.parkedCalls()), call.Done, mon.AwaitOpts{}) {
		w.outcome = "option-call-no-return"
		return nil, false
	}
	_, err, _ := call.Result()
	return err, true
}

// parkedCalls describes the calls the case has left parked on the subject's socket (for witnesses).
func (w *world) parkedCalls() string {
	out := ""
	if w.parked != nil && !w.parked.Done() {
		out += "a Send without deadline on the full queue towards the slow peer; "
	}
	if w.blk != nil && w.blk.tc != nil && !w.blk.tc.call.Done() {
		out += w.blk.what + "; "
	}
	if out == "" {
		return "none"
	}
	return out[:len(out)-2]
}

// setQ sets a queue length (never 0) on the subject or, failing that, its socket.
func (w *world) setQ(name string, q int, required bool) bool {
	if q <= 0 {
		panic("queue length 0 is excluded from C18 (DESIGN section 4: D3, D8)")
	}
	err, ok := w.guardedSet(w.obj, name, q)
	if !ok {
		return false
	}
	if err == mangos.ErrBadOption && w.obj != endpoint(w.sock) {
		if err, ok = w.guardedSet(w.sock, name, q); !ok {
			return false
		}
	}
	if err != nil && required {
		w.c.Inconclusive("%s: SetOption(%s,%d) = %v", w.sp.Proto, name, q, err)
		return false
	}
	return true
}

// ---- peers --------------------------------------------------------------------

func (w *world) listenVT() {
	if w.L != nil {
		return
	}
	name := hx.Uniq("c18")
	w.L = vt.L(name)
	w.c.Cleanup(func() { vt.Forget(name) })
	if err := w.sock.Listen(vt.Addr(name)); err != nil {
		panic(err)
	}
}

func (w *world) addVT(hold bool) bool {
	w.listenVT()
	n := w.watch.Attached()
	p := w.L.Connect()
	if hold {
		p.HoldSends()
	}
	if !hx.WaitAttached(w.c, w.watch, n+1, "vt pipe") {
		return false
	}
	w.vps = append(w.vps, p)
	return true
}

func (w *world) connectReal(peerProto, tr string, before func(peer mangos.Socket)) bool {
	w.peer = hx.MustSock(w.c, peerProto)
	w.peerWatch = hx.WatchPipes(w.peer)
	w.peer.SetOption(mangos.OptionRetryTime, time.Hour)
	w.peer.SetOption(mangos.OptionSurveyTime, time.Hour)
	if before != nil {
		before(w.peer)
	}
	n := w.watch.Attached()
	if _, _, err := hx.Connect(w.sock, w.peer, tr); err != nil {
		w.c.Inconclusive("connecting real %s peer over %s: %v", peerProto, tr, err)
		return false
	}
	return hx.WaitAttached(w.c, w.watch, n+1, "real peer (subject side)") && hx.WaitAttached(w.c, w.peerWatch, 1, "real peer (peer side)")
}

// setup runs a harness-side step that is expected to complete at once, under the stuck detector.
func (w *world) setup(what string, f func() error) bool {
	call := mon.Go(what, func() (interface{}, error) { return nil, f() })
	if !w.c.AwaitOrViolate("harness:setup-stuck:"+what+"/"+w.sp.Proto, "setup step "+what, call.Done, mon.AwaitOpts{}) {
		return false
	}
	if _, err, _ := call.Result(); err != nil {
		w.c.Inconclusive("setup step %s: %v", what, err)
		return false
	}
	w.c.Count("setup_steps", 1)
	return true
}

var payload = []byte("c18-payload")

func (w *world) reqHeader() []byte {
	return hx.Be32(0x80000000 | (w.seq.Add(1) & 0x7fffffff))
}

// send issues one Send on ep in the form the subject's protocol needs.
func (w *world) send(ep endpoint) error {
	var hdr []byte
	switch w.sp.Proto {
	case "xpair1":
		hdr = []byte{0, 0, 0, 0}
	case "xreq", "xsurveyor":
		hdr = w.reqHeader()
	case "xrep", "xrespondent":
		hdr = append([]byte{}, w.replyHdr...)
	}
	if hdr == nil {
		return ep.Send(payload)
	}
	m := mangos.NewMessage(len(payload))
	m.Body = append(m.Body, payload...)
	m.Header = append(m.Header[:0], hdr...)
	return ep.SendMsg(m)
}

func (w *world) recv(ep endpoint) error {
	_, err := ep.Recv()
	return err
}

// peerRequest makes the raw requester peer send one request/survey.
func (w *world) peerRequest() error {
	m := mangos.NewMessage(len(payload))
	m.Body = append(m.Body, payload...)
	m.Header = append(m.Header[:0], w.reqHeader()...)
	return w.peer.SendMsg(m)
}

// prime lets a cooked REP/RESPONDENT endpoint receive a request so that its next Send is legal.
func (w *world) prime(ep endpoint) bool {
	if !w.setup("peer-request", w.peerRequest) {
		return false
	}
	if w.rdl == 0 || ep != w.obj {
		return w.setup("prime-recv", func() error { return w.recv(ep) })
	}
	// the subject carries a receive deadline (the other direction's): its Recv may give up before
	// the request has travelled; the request stays queued for the next Recv
	for try := 0; try < 200; try++ {
		call := mon.Go("prime-recv", func() (interface{}, error) { return nil, w.recv(ep) })
		if !w.c.AwaitOrViolate("harness:setup-stuck:prime-recv/"+w.sp.Proto, "setup step prime-recv", call.Done, mon.AwaitOpts{MaxTimer: w.rdl}) {
			return false
		}
		_, err, _ := call.Result()
		if err == nil {
			w.c.Count("setup_steps", 1)
			return true
		}
		if err != mangos.ErrRecvTimeout {
			w.c.Inconclusive("setup step prime-recv: %v", err)
			return false
		}
	}
	w.c.Inconclusive("setup step prime-recv: the request did not arrive within 200 receive deadlines of %v", w.rdl)
	return false
}

func (w *world) vtSendWaiters() int {
	n := 0
	for _, p := range w.vps {
		_, s := p.Waiters()
		n += s
	}
	return n
}

func (w *world) awaitHeld(n int) bool {
	return w.c.AwaitOrViolate("harness:setup-stuck:held-pipes/"+w.sp.Proto, fmt.Sprintf("%d vt pipes each holding one message in Send", n), func() bool { return w.vtSendWaiters() >= n }, mon.AwaitOpts{})
}

// prepareSend puts the sending side into sp.State against sp.Peer.
func (w *world) prepareSend() bool {
	sp := w.sp
	fam := sendFam[sp.Proto]
	hold := sp.State != "empty"
	switch fam {
	case "queue":
		if !w.setQ(mangos.OptionWriteQLen, sp.Q, true) {
			return false
		}
		npipes := 0
		if sp.Peer == "vt" || sp.Peer == "vt-leave" {
			for i := 0; i < sp.NPipes; i++ {
				if !w.addVT(hold) {
					return false
				}
			}
			npipes = sp.NPipes
		}
		if sp.State == "empty" {
			return true
		}
		// each held pipe takes exactly one message out of the queue
		for i := 0; i < npipes; i++ {
			if !w.setup("fill-inflight", func() error { return w.send(w.obj) }) {
				return false
			}
		}
		if npipes > 0 && !w.awaitHeld(npipes) {
			return false
		}
		n := sp.Q
		if sp.State == "partial" {
			n = 0
			if sp.Q > 1 {
				n = 1 + w.c.Rand.Intn(sp.Q-1)
			}
		}
		for i := 0; i < n; i++ {
			if !w.setup("fill-queue", func() error { return w.send(w.obj) }) {
				return false
			}
		}
		w.c.Count("queue_fill_messages", npipes+n)
		return true

	case "req":
		if sp.Peer == "none" {
			return true // no ready pipe: Send blocks at once
		}
		for i := 0; i < sp.NPipes; i++ {
			if !w.addVT(hold) {
				return false
			}
		}
		if sp.State == "empty" {
			return true
		}
		for i := 0; i < sp.NPipes; i++ {
			cx, err := w.sock.OpenContext()
			if err != nil {
				w.c.Inconclusive("req: OpenContext for filler: %v", err)
				return false
			}
			cx.SetOption(mangos.OptionRetryTime, time.Hour)
			if !w.setup("fill-pipe", func() error { return cx.Send(payload) }) {
				return false
			}
		}
		return w.awaitHeld(sp.NPipes)

	case "reply":
		if !w.setQ(mangos.OptionWriteQLen, sp.Q, true) { // fixed when the pipe attaches: before connecting
			return false
		}
		if !w.connectReal(rawRequester[sp.Proto], "inproc", func(peer mangos.Socket) {
			peer.SetOption(mangos.OptionReadQLen, 1) // slow reader: nobody calls Recv on it (not 0)
		}) {
			return false
		}
		pre := w.filler
		w.filler = w.obj
		if isRaw(sp.Proto) {
			var hdr []byte
			ok := w.setup("peer-request", w.peerRequest) && w.setup("prime-recvmsg", func() error {
				m, err := w.sock.RecvMsg()
				if err == nil {
					hdr = append([]byte{}, m.Header...)
					m.Free()
				}
				return err
			})
			if !ok {
				return false
			}
			w.replyHdr = hdr
		} else if sp.Inh && pre != nil {
			w.filler = pre // opened before the socket got the options the subject inherited
		} else if sp.Kind != "nodl" {
			cx, err := w.sock.OpenContext()
			if err != nil {
				w.c.Inconclusive("%s: OpenContext for filler: %v", sp.Proto, err)
				return false
			}
			w.filler = cx
		}
		if w.preFill != nil && !w.preFill() {
			return false
		}
		switch sp.State {
		case "empty":
			return true
		case "partial":
			if !isRaw(sp.Proto) && !w.prime(w.filler) {
				return false
			}
			return w.setup("fill-one", func() error { return w.send(w.filler) })
		}
		return w.fillUntilParked()
	}
	panic("no send family for " + sp.Proto)
}

// fillUntilParked issues no-deadline sends towards the slow real peer until
// one of them is parked (and stays parked): the chain rep-queue -> transport ->
// peer-queue is then full.  The chain holds at most WriteQLen+3 messages
// (queue, pipe sender, peer pipe receiver, peer ReadQLen=1; inproc is unbuffered).
func (w *world) fillUntilParked() bool {
	sp := w.sp
	limit := sp.Q + 8
	for i := 0; ; i++ {
		if i >= limit {
			w.c.Violate("no-deadline/send-returned-without-waiting/"+w.id(),
				"%s: %d sends without a deadline all returned nil although the only peer (raw, ReadQLen=1, never receiving, inproc) can absorb at most WriteQLen+3 = %d messages: sends are not waiting", w.id(), i, sp.Q+3)
			return false
		}
		if !isRaw(sp.Proto) && !w.prime(w.filler) {
			return false
		}
		call := mon.Go("fill", func() (interface{}, error) { return nil, w.send(w.filler) })
		for {
			if !call.ParkedIn("SendMsg") {
				break
			}
			mon.Sleep(30 * time.Millisecond) // pacing: a message moving down the chain frees a slot shortly
			if !call.Done() && call.ParkedIn("SendMsg") {
				w.parked = call
				w.c.Count("queue_fill_messages", i)
				return true
			}
		}
		if !call.Done() {
			w.c.Inconclusive("%s: filling send neither returned nor parked", w.id())
			return false
		}
		if _, err, _ := call.Result(); err != nil {
			if isTimeoutErr(err) {
				w.c.Violate("no-deadline-timeout/"+w.id(), "%s: a Send with no deadline configured returned %v", w.id(), err)
			} else {
				w.c.Inconclusive("%s: filling send: %v", w.id(), err)
			}
			return false
		}
	}
}

// prepareRecv connects the receiving subject to sp.Peer (nothing is made available yet).
func (w *world) prepareRecv() bool {
	sp := w.sp
	w.setQ(mangos.OptionReadQLen, sp.Q, false)
	switch sp.Peer {
	case "none":
	case "vt", "vt-leave":
		n := sp.NPipes
		if n < 1 {
			n = 1
		}
		for i := 0; i < n; i++ {
			if !w.addVT(false) {
				return false
			}
		}
	case "real":
		pp := hx.PeerOf[sp.Proto]
		if recvFam[sp.Proto] == "request" {
			pp = rawRequester[sp.Proto]
		}
		if !w.connectReal(pp, sp.Tr, nil) {
			return false
		}
		if recvFam[sp.Proto] == "reply" && (sp.Kind == "dl-block" || sp.Kind == "multi") {
			// The cooked replier stays silent but keeps *receiving*: a REP that never
			// calls Recv absorbs only two requests (its pipe receiver holds one, the
			// transport one), after which the subject's set-up Send of a further
			// attempt would itself block.
			peer := w.peer
			go func() {
				for {
					if _, err := peer.Recv(); err != nil { // blocks; ends when the case closes the peer
						return
					}
				}
			}()
		}
	default:
		panic("recv peer " + sp.Peer)
	}
	return true
}

// arm performs the per-attempt step that makes the timed call legal:
// a cooked REP/RESPONDENT must have received a request before Send, a
// REQ/SURVEYOR must have a request outstanding before Recv.
func (w *world) arm() bool {
	sp := w.sp
	if sp.Op == "send" {
		if sendFam[sp.Proto] == "reply" && !isRaw(sp.Proto) {
			return w.prime(w.obj)
		}
		return true
	}
	if recvFam[sp.Proto] != "reply" {
		return true
	}
	switch sp.Proto {
	case "req":
		if sp.Peer == "none" {
			// no peer: only a best-effort Send returns; it leaves the request outstanding
			if err := w.obj.SetOption(mangos.OptionBestEffort, true); err != nil {
				w.c.Inconclusive("req: cannot issue a request without a peer: BestEffort: %v", err)
				return false
			}
			ok := w.setup("request-best-effort", func() error { return w.send(w.obj) })
			w.obj.SetOption(mangos.OptionBestEffort, false)
			return ok
		}
		return w.setup("request", func() error { return w.send(w.obj) })
	case "surveyor":
		return w.setup("survey", func() error { return w.send(w.obj) })
	default: // xreq, xsurveyor: Recv is always legal; a request is only needed to get an answer
		if sp.Peer == "real" {
			return w.setup("raw-request", func() error { return w.send(w.obj) })
		}
		return true
	}
}

// feed makes k messages available to the subject's Recv through the real peer.
func (w *world) feed(k int) bool {
	sp := w.sp
	switch recvFam[sp.Proto] {
	case "plain":
		for i := 0; i < k; i++ {
			if !w.setup("peer-send", func() error { return w.peer.Send(payload) }) {
				return false
			}
		}
	case "request":
		for i := 0; i < k; i++ {
			if !w.setup("peer-request", w.peerRequest) {
				return false
			}
		}
	case "reply":
		// the subject's request is outstanding (arm); the cooked replier answers it
		if !w.setup("peer-recv", func() error { _, err := w.peer.Recv(); return err }) {
			return false
		}
		if !w.setup("peer-reply", func() error { return w.peer.Send(payload) }) {
			return false
		}
	}
	w.c.Count("messages_fed", k)
	return true
}

// satisfy removes what blocks the parked send.
func (w *world) satisfy() bool {
	sp := w.sp
	switch sp.Peer {
	case "vt":
		for _, p := range w.vps {
			p.ReleaseSends()
		}
	case "none":
		return w.addVT(false)
	case "slow":
		w.draining = true
		peer := w.peer
		go func() {
			for {
				m, err := peer.RecvMsg() // blocks; ends when the case closes the peer
				if err != nil {
					return
				}
				m.Free()
			}
		}()
	}
	return true
}

// ---- timed call -----------------------------------------------------------------

type tcall struct {
	call   *mon.Call
	t0, t1 time.Duration
}

// timed runs f in its own goroutine; t0 is read immediately before invoking the
// API call and t1 immediately after it returned, so t1-t0 is an upper bound of
// the time the library had its timer armed: "t1-t0 < D with a timeout error"
// is an exact refutation of "never before the deadline has elapsed".
func timed(name string, f func() error) *tcall {
	tc := &tcall{}
	tc.call = mon.Go(name, func() (interface{}, error) {
		tc.t0 = mon.Now()
		err := f()
		tc.t1 = mon.Now()
		return nil, err
	})
	return tc
}

func (t *tcall) elapsed() time.Duration { return t.t1 - t.t0 } // valid once Done
func (t *tcall) err() error             { _, err, _ := t.call.Result(); return err }

func (w *world) timedOp() *tcall {
	if w.sp.Op == "send" {
		return timed("Send", func() error { return w.send(w.obj) })
	}
	return timed("Recv", func() error { return w.recv(w.obj) })
}

func (w *world) dlOpt() int {
	if w.sp.Op == "send" {
		return optSD
	}
	return optRD
}

func (w *world) otherDlOpt() int {
	if w.sp.Op == "send" {
		return optRD
	}
	return optSD
}

func (w *world) dropAll() {
	for _, p := range w.vps {
		p.Drop()
	}
}
