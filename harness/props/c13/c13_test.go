package c13

import (
	"crypto/tls"
	"fmt"
	"net"
	"net/http"
	"os"
	"strings"
	"sync"
	"syscall"
	"testing"
	"time"

	"go.nanomsg.org/mangos/v3"
	"go.nanomsg.org/mangos/v3/protocol"
	"go.nanomsg.org/mangos/v3/protocol/bus"
	"go.nanomsg.org/mangos/v3/protocol/pair"
	"go.nanomsg.org/mangos/v3/protocol/pub"
	"go.nanomsg.org/mangos/v3/protocol/pull"
	"go.nanomsg.org/mangos/v3/protocol/push"
	"go.nanomsg.org/mangos/v3/protocol/rep"
	"go.nanomsg.org/mangos/v3/protocol/req"
	"go.nanomsg.org/mangos/v3/protocol/respondent"
	"go.nanomsg.org/mangos/v3/protocol/star"
	"go.nanomsg.org/mangos/v3/protocol/sub"
	"go.nanomsg.org/mangos/v3/protocol/surveyor"
	"go.nanomsg.org/mangos/v3/protocol/xpair1"
	"go.nanomsg.org/mangos/v3/transport/ws"
	"go.nanomsg.org/mangos/v3/verifhooks"

	"verifharness/hx"
	"verifharness/mon"
	"verifharness/vt"
)

// C13 — every pipe gets a consistent lifecycle and a unique id.

func TestMain(m *testing.M) { hx.Main(m) }

var protoCtors = map[string]func() protocol.Protocol{
	"pair": pair.NewProtocol, "req": req.NewProtocol, "rep": rep.NewProtocol, "pub": pub.NewProtocol, "sub": sub.NewProtocol,
	"push": push.NewProtocol, "pull": pull.NewProtocol, "bus": bus.NewProtocol, "surveyor": surveyor.NewProtocol,
	"respondent": respondent.NewProtocol, "star": star.NewProtocol, "xpair1": xpair1.NewProtocol,
}
var protoNames = []string{"pair", "req", "rep", "pub", "sub", "push", "pull", "bus", "surveyor", "respondent", "star", "xpair1"}

type spec struct {
	Kind   string   `json:"kind"` // vt | real | opts
	Socks  int      `json:"socks,omitempty"`
	Protos []string `json:"protos,omitempty"`
	Sides  []string `json:"sides,omitempty"` // listen | dial
	Steps  int      `json:"steps,omitempty"`
	Tran   string   `json:"tran,omitempty"`
	Wild   bool     `json:"wild,omitempty"` // opts kind: the listener binds the wildcard address, the client dials 127.0.0.1
	Yield  bool     `json:"yield,omitempty"`
	Peer   string   `json:"peer,omitempty"`  // endpoints: held (hand-made peers keeping their SP header back) | sock (mangos sockets)
	Conns  int      `json:"conns,omitempty"` // endpoints: connections over the Socks endpoints
	RT     string   `json:"rt,omitempty"`    // reconnect time of the dialling side: "" (a few ms) | sock0 (zero, set on the socket before dialling) | dialer0 (zero, given in the dialer's options)
}

func TestC13(t *testing.T) {
	r := mon.NewRunner(t, "C13")
	rnd := r.Rand()
	var cases []mon.CaseSpec
	for i := 0; i < r.Pick(1500, 90000); i++ {
		n := 1 + rnd.Intn(4)
		sp := spec{Kind: "vt", Socks: n, Steps: 4 + rnd.Intn(9), Yield: rnd.Intn(2) == 0}
		for j := 0; j < n; j++ {
			sp.Protos = append(sp.Protos, protoNames[rnd.Intn(len(protoNames))])
			sp.Sides = append(sp.Sides, []string{"listen", "dial"}[rnd.Intn(2)])
		}
		cases = append(cases, mon.CaseSpec{Name: "vt", Spec: sp})
	}
	reals := []string{"inproc", "tcp", "ipc", "ws", "tls+tcp", "wss"}
	// real transports: multi-peer patterns only — with PAIR a reconnecting client can be refused while
	// the previous connection is still being torn down, which would desynchronise script and connections
	for i := 0; i < r.Pick(300, 12000); i++ {
		sp := spec{Kind: "real", Tran: reals[i%len(reals)], Protos: []string{[]string{"bus", "star", "rep", "pull"}[rnd.Intn(4)]}, Steps: 3 + rnd.Intn(5), Yield: rnd.Intn(2) == 0}
		cases = append(cases, mon.CaseSpec{Name: "real/" + sp.Tran, Spec: sp})
	}
	for i := 0; i < r.Pick(24, 120); i++ {
		cases = append(cases, mon.CaseSpec{Name: "opts/" + reals[i%len(reals)], Spec: spec{Kind: "opts", Tran: reals[i%len(reals)]}})
	}
	for i := 0; i < r.Pick(4, 20); i++ {
		cases = append(cases, mon.CaseSpec{Name: "opts/ws-handler-on-own-https", Spec: spec{Kind: "wshandler"}})
	}
	wilds := []string{"tcp", "ws", "tls+tcp", "wss"}
	for i := 0; i < r.Pick(8, 80); i++ {
		cases = append(cases, mon.CaseSpec{Name: "opts/" + wilds[i%len(wilds)] + "/wildcard", Spec: spec{Kind: "opts", Tran: wilds[i%len(wilds)], Wild: true}})
	}
	for i := 0; i < r.Pick(48, 2400); i++ {
		sp := spec{Kind: "closerace", Socks: 1, Protos: []string{protoNames[i%len(protoNames)]}, Sides: []string{[]string{"listen", "dial"}[(i/len(protoNames))%2]}, Yield: rnd.Intn(2) == 0}
		cases = append(cases, mon.CaseSpec{Name: "closerace/" + sp.Protos[0], Spec: sp})
	}
	// one socket with several dialers / listeners whose connections are in the SP header exchange at the
	// same time, the peers answering one by one (appended last: the indices of the older cases stay put)
	for i := 0; i < r.Pick(96, 4800); i++ {
		k := 2 + rnd.Intn(4)
		sp := spec{Kind: "endpoints", Peer: "held", Tran: heldTrans[i%len(heldTrans)], Sides: []string{[]string{"dial", "listen"}[(i/len(heldTrans))%2]},
			Protos: []string{multiProtos[rnd.Intn(len(multiProtos))]}, Socks: k, Conns: k, Steps: rnd.Intn(3), Yield: rnd.Intn(2) == 0}
		if sp.Sides[0] == "listen" {
			sp.Conns += rnd.Intn(3)
		}
		cases = append(cases, mon.CaseSpec{Name: "endpoints/held/" + sp.Tran + "/" + sp.Sides[0], Spec: sp})
	}
	for i := 0; i < r.Pick(48, 2400); i++ {
		k := 2 + rnd.Intn(4)
		sp := spec{Kind: "endpoints", Peer: "sock", Tran: reals[i%len(reals)], Sides: []string{[]string{"dial", "listen"}[(i/len(reals))%2]},
			Protos: []string{multiProtos[rnd.Intn(len(multiProtos))]}, Socks: k, Conns: k, Yield: rnd.Intn(2) == 0}
		if sp.Sides[0] == "listen" {
			sp.Conns += rnd.Intn(3)
		}
		cases = append(cases, mon.CaseSpec{Name: "endpoints/sock/" + sp.Tran + "/" + sp.Sides[0], Spec: sp})
	}
	// RECONNECT-TIME zero (a legal value) on the dialling side, set on the socket or in the dialer's options:
	// the same scripts, every lost pipe (peer drop, hook close, Pipe.Close, rejected connection) must still be
	// followed by a redial (appended last: the indices of the older cases stay put)
	rts := []string{"sock0", "dialer0"}
	for i := 0; i < r.Pick(96, 6000); i++ {
		n := 1 + rnd.Intn(3)
		sp := spec{Kind: "vt", Socks: n, Steps: 3 + rnd.Intn(6), Yield: rnd.Intn(2) == 0, RT: rts[i%2]}
		for j := 0; j < n; j++ {
			sp.Protos = append(sp.Protos, protoNames[rnd.Intn(len(protoNames))])
			sp.Sides = append(sp.Sides, []string{"listen", "dial"}[rnd.Intn(2)])
		}
		sp.Protos[0], sp.Sides[0] = protoNames[(i/2)%len(protoNames)], "dial"
		cases = append(cases, mon.CaseSpec{Name: "vt/reconnect-time-0", Spec: sp})
	}
	for i := 0; i < r.Pick(48, 2400); i++ {
		sp := spec{Kind: "real", Tran: reals[i%len(reals)], Protos: []string{[]string{"bus", "star", "rep", "pull"}[rnd.Intn(4)]}, Steps: 3 + rnd.Intn(4), Yield: rnd.Intn(2) == 0, RT: rts[(i/len(reals))%2]}
		cases = append(cases, mon.CaseSpec{Name: "real/" + sp.Tran + "/reconnect-time-0", Spec: sp})
	}
	for i := 0; i < r.Pick(24, 1200); i++ {
		k := 2 + rnd.Intn(3)
		sp := spec{Kind: "endpoints", Peer: "held", Tran: heldTrans[i%len(heldTrans)], Sides: []string{"dial"},
			Protos: []string{multiProtos[rnd.Intn(len(multiProtos))]}, Socks: k, Conns: k, Steps: 1 + rnd.Intn(2), Yield: rnd.Intn(2) == 0, RT: rts[(i/len(heldTrans))%2]}
		cases = append(cases, mon.CaseSpec{Name: "endpoints/held/" + sp.Tran + "/dial/reconnect-time-0", Spec: sp})
	}
	cases = append(cases, idwrapCases(r, rnd)...) // pipe ids across the allocator's boundaries (c13_idwrap_test.go)
	r.Run(cases, func(c *mon.Case) {
		sp := c.Spec.(spec)
		if sp.Yield {
			hx.SetYields(c.Rand.Int63(), &hx.YieldCfg{ProbGosched: 0.25, ProbSleep: 0.15, MaxSleep: 400 * time.Microsecond})
			defer hx.SetYields(0, nil)
		}
		switch sp.Kind {
		case "vt":
			runVT(c, sp)
		case "real":
			runReal(c, sp)
		case "opts":
			runOpts(c, sp)
		case "wshandler":
			runWSHandler(c, sp)
		case "closerace":
			runCloseRace(c, sp)
		case "idwrap":
			runIDWrap(c, sp)
		case "endpoints":
			if sp.Peer == "held" {
				runEndpointsHeld(c, sp)
			} else {
				runEndpointsSock(c, sp)
			}
		}
	})
}

// ---------------------------------------------------------------------------
// lifecycle monitor

type pipeRec struct {
	pipe      mangos.Pipe
	id        uint32
	sock      int
	attaching int
	attached  int
	detached  int
	dead      bool   // known never to attach (closed in Attaching / refused)
	action    string // scripted action for this pipe
	adds      int
	addOK     int
	rems      int
	order     []string
}

type lifeMon struct {
	c    *mon.Case
	mu   sync.Mutex
	recs map[mangos.Pipe]*pipeRec
	live map[uint32]*pipeRec
	all  []*pipeRec
	// per socket: action for the next new pipe
	next map[int]string
	plan map[int][]string // per socket: actions for successive new pipes

	slowAdd       chan struct{} // signalled when a "slow-add" pipe has been accepted by the protocol and AddPipe has not returned yet
	slowCallbacks int           // Attached callbacks that closed their pipe and then kept running past the reconnect time
	idHeldChecks  int           // Detached callbacks in which the allocator was asked whether the id is still reserved
}

func newLifeMon(c *mon.Case) *lifeMon {
	return &lifeMon{c: c, recs: map[mangos.Pipe]*pipeRec{}, live: map[uint32]*pipeRec{}, next: map[int]string{}, plan: map[int][]string{}, slowAdd: make(chan struct{}, 4)}
}

func (m *lifeMon) setNext(sock int, action string) { m.mu.Lock(); m.next[sock] = action; m.mu.Unlock() }

// hook returns the PipeEventHook for socket number sock.
func (m *lifeMon) hook(sock int) mangos.PipeEventHook {
	return func(ev mangos.PipeEvent, p mangos.Pipe) {
		c := m.c
		m.mu.Lock()
		rec := m.recs[p]
		switch ev {
		case mangos.PipeEventAttaching:
			if rec != nil {
				c.Violate("life/attaching-twice", "pipe %08x of socket %d: Attaching reported again (events so far %v)", p.ID(), sock, rec.order)
				m.mu.Unlock()
				return
			}
			id := p.ID()
			rec = &pipeRec{pipe: p, id: id, sock: sock, action: m.next[sock]}
			m.next[sock] = ""
			if pl := m.plan[sock]; len(pl) > 0 {
				rec.action = pl[0]
				m.plan[sock] = pl[1:]
			}
			m.recs[p] = rec
			m.all = append(m.all, rec)
			rec.attaching++
			rec.order = append(rec.order, "Attaching")
			if id == 0 || id >= 1<<31 {
				c.Violate("life/id-out-of-range", "pipe id %#x is not a non-zero 31-bit value", id)
			}
			if other := m.live[id]; other != nil && !other.dead {
				c.Violate("life/id-shared-with-live-pipe", "new pipe of socket %d got id %08x which live pipe of socket %d (events %v) still holds", sock, id, other.sock, other.order)
			}
			m.live[id] = rec
			act := rec.action
			m.mu.Unlock()
			if act == "close-in-attaching" {
				m.mu.Lock()
				rec.dead = true
				m.mu.Unlock()
				p.Close()
			}
			return
		case mangos.PipeEventAttached:
			if rec == nil {
				c.Violate("life/attached-without-attaching", "pipe %08x of socket %d: Attached without Attaching", p.ID(), sock)
				m.mu.Unlock()
				return
			}
			rec.attached++
			rec.order = append(rec.order, "Attached")
			if rec.attached > 1 {
				c.Violate("life/attached-twice", "pipe %08x: Attached reported %d times: %v", rec.id, rec.attached, rec.order)
			}
			if rec.dead {
				c.Violate("life/attached-after-"+rec.action, "pipe %08x was %s but Attached was still reported: %v", rec.id, rec.action, rec.order)
			}
			if rec.addOK == 0 && rec.adds >= 0 && rec.sock >= 0 && m.wrapped(rec.sock) {
				c.Violate("life/attached-before-protocol-add", "pipe %08x: Attached reported but the protocol was never told of the pipe: %v", rec.id, rec.order)
			}
			act := rec.action
			m.mu.Unlock()
			if act == "close-in-attached" {
				p.Close()
				if p.ID()%2 == 0 {
					// a callback that goes on for a while after closing its pipe (logging, bookkeeping):
					// longer than the reconnect time, so a dialer's redial falls inside it
					mon.Sleep(12 * time.Millisecond)
					m.mu.Lock()
					m.slowCallbacks++
					m.mu.Unlock()
				}
			}
			return
		case mangos.PipeEventDetached:
			if rec == nil {
				c.Violate("life/detached-without-attaching", "pipe %08x of socket %d: Detached without Attaching", p.ID(), sock)
				m.mu.Unlock()
				return
			}
			rec.detached++
			rec.order = append(rec.order, "Detached")
			if rec.detached > 1 {
				c.Violate("life/detached-twice", "pipe %08x: Detached reported %d times: %v", rec.id, rec.detached, rec.order)
			}
			if rec.dead {
				c.Violate("life/detached-after-"+rec.action, "pipe %08x was %s (never attached) but Detached was reported: %v", rec.id, rec.action, rec.order)
			}
			if rec.id != p.ID() {
				c.Violate("life/id-changed", "pipe id changed from %08x to %08x", rec.id, p.ID())
			}
			// the id stays reserved until this callback returns: the allocator must still hold it now
			// (re-use needs the 31-bit counter to wrap, so only the allocator's own state can show this)
			held := false
			for _, x := range verifhooks.PipeIDsInUse() {
				if x == rec.id {
					held = true
					break
				}
			}
			if !held {
				c.Violate("life/id-released-before-detached-returned", "pipe %08x: inside its Detached callback the id is no longer reserved by the allocator, so a new pipe could be given it while this one is still live: %v", rec.id, rec.order)
			}
			m.idHeldChecks++
			if cur := m.live[rec.id]; cur == rec {
				delete(m.live, rec.id)
			}
			m.mu.Unlock()
			return
		}
		m.mu.Unlock()
	}
}

var wrappedSocks sync.Map

func (m *lifeMon) wrapped(sock int) bool {
	_, ok := wrappedSocks.Load(fmt.Sprintf("%p/%d", m, sock))
	return ok
}

// recProto wraps the real protocol, recording AddPipe/RemovePipe and refusing on script.
type recProto struct {
	mangos.ProtocolBase
	m    *lifeMon
	sock int
}

func (w *recProto) AddPipe(pp mangos.ProtocolPipe) error {
	m := w.m
	p, _ := pp.(mangos.Pipe)
	m.mu.Lock()
	rec := m.recs[p]
	if rec == nil {
		m.c.Violate("life/protocol-add-before-attaching", "protocol AddPipe(%08x) before the Attaching event", pp.ID())
		m.mu.Unlock()
		return w.ProtocolBase.AddPipe(pp)
	}
	rec.adds++
	rec.order = append(rec.order, "AddPipe")
	if rec.adds > 1 {
		m.c.Violate("life/protocol-add-twice", "protocol told of pipe %08x arrival %d times: %v", rec.id, rec.adds, rec.order)
	}
	if rec.dead && rec.action == "close-in-attaching" {
		m.c.Violate("life/protocol-add-after-close-in-attaching", "pipe %08x was closed during Attaching but the protocol was still told of its arrival: %v", rec.id, rec.order)
	}
	refuse := rec.action == "refuse"
	if refuse {
		rec.dead = true
		rec.order = append(rec.order, "AddPipe=refused")
	}
	m.mu.Unlock()
	if refuse {
		return mangos.ErrClosed
	}
	err := w.ProtocolBase.AddPipe(pp)
	if err == nil && rec.action == "slow-add" {
		// a protocol whose AddPipe takes a while to return after it has accepted the pipe
		select {
		case m.slowAdd <- struct{}{}:
		default:
		}
		time.Sleep(3 * time.Millisecond)
	}
	if err == nil && rec.action == "xdrop-at-once" {
		// the protocol's receiver is already failing on the dead connection and closing the pipe:
		// stretch the moment between "protocol accepted" and "core marks the pipe added"
		time.Sleep(150 * time.Microsecond)
	}
	m.mu.Lock()
	if err != nil {
		rec.dead = true
		if rec.action == "" || rec.action == "ok" {
			rec.action = "refused-by-protocol"
		}
		rec.order = append(rec.order, "AddPipe="+err.Error())
	} else {
		rec.addOK++
	}
	m.mu.Unlock()
	return err
}

func (w *recProto) RemovePipe(pp mangos.ProtocolPipe) {
	m := w.m
	p, _ := pp.(mangos.Pipe)
	m.mu.Lock()
	rec := m.recs[p]
	if rec == nil {
		m.c.Violate("life/protocol-remove-unknown", "protocol RemovePipe(%08x) for a pipe never announced", pp.ID())
	} else {
		rec.rems++
		rec.order = append(rec.order, "RemovePipe")
		if rec.addOK == 0 {
			m.c.Violate("life/protocol-remove-without-add", "protocol told of departure of pipe %08x it never accepted: %v", rec.id, rec.order)
		}
		if rec.rems > 1 {
			m.c.Violate("life/protocol-remove-twice", "protocol told of pipe %08x departure %d times: %v", rec.id, rec.rems, rec.order)
		}
		if rec.detached > 0 {
			m.c.Violate("life/detached-before-protocol-remove", "Detached reported before the protocol was told of the departure: %v", rec.order)
		}
	}
	m.mu.Unlock()
	w.ProtocolBase.RemovePipe(pp)
}

// final checks once every socket is closed and the process has settled.
func (m *lifeMon) final(wrapped bool) {
	c := m.c
	// every attached pipe must get its Detached
	c.AwaitOrViolate("life/detached-missing", "every attached pipe reporting Detached after all sockets were closed", func() bool {
		// events still being delivered by goroutines inside the core's attach/detach paths are waited for
		for _, g := range mon.Dump() {
			if g.HasFrame("internal/core.(*socket).addPipe") || g.HasFrame("internal/core.(*socket).remPipe") || g.HasFrame("internal/core.(*pipe).Close") {
				return false
			}
		}
		m.mu.Lock()
		defer m.mu.Unlock()
		for _, r := range m.all {
			if r.attached > 0 && r.detached == 0 {
				return false
			}
			if r.detached > 0 && r.attached == 0 {
				return false // Attached is still being reported by the attaching goroutine
			}
		}
		return true
	}, mon.AwaitOpts{})
	c.AwaitOrViolate("life/pipe-id-not-released", "all pipe ids being released after all sockets were closed", func() bool {
		return len(verifhooks.PipeIDsInUse()) == 0
	}, mon.AwaitOpts{})
	m.mu.Lock()
	defer m.mu.Unlock()
	shapes := map[string]int{}
	for _, r := range m.all {
		shape := strings.Join(r.order, ",")
		shapes[shape]++
		if r.attached == 0 && r.detached > 0 {
			c.Violate("life/detached-without-attached", "pipe %08x: Detached without Attached: %v", r.id, r.order)
		}
		if r.attached > 0 && r.detached != 1 {
			c.Violate("life/detached-count", "pipe %08x: attached but Detached reported %d times: %v", r.id, r.detached, r.order)
		}
		if len(r.order) > 0 && r.order[0] != "Attaching" {
			c.Violate("life/attaching-not-first", "pipe %08x: first event is %s", r.id, r.order[0])
		}
		if wrapped {
			if r.addOK > 0 && r.rems != 1 {
				c.Violate("life/protocol-remove-count", "pipe %08x: protocol accepted it but was told of its departure %d times: %v", r.id, r.rems, r.order)
			}
			if r.attached > 0 && r.addOK != 1 {
				c.Violate("life/protocol-add-count", "pipe %08x attached but protocol add count is %d: %v", r.id, r.addOK, r.order)
			}
		}
		c.Count("pipes", 1)
	}
	for s, n := range shapes {
		c.Count("shape:"+s, n)
	}
	c.Count("detached_callbacks_with_id_still_reserved_checked", m.idHeldChecks)
	c.Count("attached_callbacks_outlasting_reconnect_time", m.slowCallbacks)
	if ids := verifhooks.PipeIDsInUse(); len(ids) > 0 {
		c.Logf("ids still in use: %x", ids)
	}
}

// ---------------------------------------------------------------------------
// vt scripts

func runVT(c *mon.Case, sp spec) {
	m := newLifeMon(c)
	type sockState struct {
		sock mangos.Socket
		side string
		name string
		L    *vt.ListenerCtl
		D    *vt.DialerCtl
	}
	socks := make([]*sockState, sp.Socks)
	for i := 0; i < sp.Socks; i++ {
		w := &recProto{ProtocolBase: protoCtors[sp.Protos[i]](), m: m, sock: i}
		wrappedSocks.Store(fmt.Sprintf("%p/%d", m, i), true)
		s := protocol.MakeSocket(w)
		st := &sockState{sock: s, side: sp.Sides[i], name: hx.Uniq("c13")}
		s.SetPipeEventHook(m.hook(i))
		s.SetOption(mangos.OptionReconnectTime, 3*time.Millisecond)
		s.SetOption(mangos.OptionMaxReconnectTime, 3*time.Millisecond)
		if sp.RT == "sock0" {
			if err := s.SetOption(mangos.OptionReconnectTime, time.Duration(0)); err != nil {
				c.Violate("life/reconnect-time-0-refused", "SetOption(RECONNECT-TIME, 0) on the socket: %v", err)
				return
			}
		}
		if sp.Protos[i] == "req" {
			s.SetOption(mangos.OptionRetryTime, time.Hour)
		}
		socks[i] = st
		name := st.name
		c.Cleanup(func() { s.Close(); vt.Forget(name); wrappedSocks.Delete(fmt.Sprintf("%p/%d", m, i)) })
	}
	var wg sync.WaitGroup
	trace := make([]string, sp.Socks)
	for i := range socks {
		i := i
		st := socks[i]
		rnd := hx.NewRand(c.Rand.Int63())
		wg.Add(1)
		go func() {
			defer wg.Done()
			if st.side == "listen" {
				st.L = vt.L(st.name)
				if err := st.sock.Listen(vt.Addr(st.name)); err != nil {
					c.Violate("life/listen-error", "Listen on vt: %v", err)
					return
				}
			} else {
				st.D = vt.D(st.name)
				st.D.SetDefault(vt.Outcome{Kind: vt.Succeed})
				st.sock.SetOption(mangos.OptionDialAsynch, rnd.Intn(2) == 0)
			}
			dialed := false
			isPair := sp.Protos[i] == "pair" || sp.Protos[i] == "xpair1"
			// plan every step up front: the hook takes the k-th action for the k-th new pipe of this
			// socket, so a dialer that reconnects by itself cannot outrun the script.
			var plan, hookPlan []string
			busy := false
			for step := 0; step < sp.Steps; step++ {
				acts := []string{"ok", "ok", "ok-drop", "ok-close-later", "close-in-attaching", "close-in-attached", "refuse", "xdrop-at-once"}
				act := acts[rnd.Intn(len(acts))]
				if isPair && busy && st.side == "listen" {
					act = "second-peer" // the protocol itself must refuse a second peer
					if rnd.Intn(3) == 0 {
						act = "free-then-ok" // first peer leaves, then a new one must be admitted
					}
				}
				switch act {
				case "ok", "free-then-ok":
					busy = true
				case "ok-drop", "ok-close-later", "close-in-attached":
					busy = false
				}
				plan = append(plan, act)
				h := act
				if strings.HasPrefix(act, "ok") || act == "second-peer" || act == "free-then-ok" {
					h = "ok"
				}
				hookPlan = append(hookPlan, h)
				if st.side == "dial" {
					// the transport outcome of each successive dial is scripted too
					if act == "xdrop-at-once" {
						st.D.Script(vt.Outcome{Kind: vt.SucceedDrop})
					} else {
						st.D.Script(vt.Outcome{Kind: vt.Succeed})
					}
				}
			}
			m.mu.Lock()
			m.plan[i] = append([]string{}, hookPlan...)
			m.mu.Unlock()
			var prevVP *vt.Pipe // a still-open connection of a dialer (it holds one at a time)
			var firstPeer *vt.Pipe
			var firstRec *pipeRec
			recAt := func(k int) *pipeRec { // k-th pipe of this socket
				m.mu.Lock()
				defer m.mu.Unlock()
				n := 0
				for _, r := range m.all {
					if r.sock == i {
						if n == k {
							return r
						}
						n++
					}
				}
				return nil
			}
			flag := func(f func(r *pipeRec) bool, r *pipeRec) func() bool {
				return func() bool { m.mu.Lock(); defer m.mu.Unlock(); return f(r) }
			}
			opts := mon.AwaitOpts{MaxTimer: 3 * time.Millisecond}
			for step := 0; step < sp.Steps && !c.Failed(); step++ {
				act := plan[step]
				hookAct := hookPlan[step]
				trace[i] += act[:1]
				where := fmt.Sprintf("socket %d (%s, %s side) step %d history %s", i, sp.Protos[i], st.side, step, trace[i])
				if act == "free-then-ok" {
					if firstPeer != nil {
						firstPeer.Drop()
						firstPeer = nil
						fr := firstRec
						// "succeed once the first peer has gone": wait until the socket has let it go
						if !c.AwaitOrViolate("life/no-detach-after-peer-drop", "Detached after the first PAIR peer dropped: "+where, func() bool { m.mu.Lock(); defer m.mu.Unlock(); return fr.detached > 0 }, opts) {
							return
						}
					}
					act = "ok"
				}
				if st.side == "dial" && prevVP != nil {
					prevVP.Drop()
					prevVP = nil
				}
				var vp *vt.Pipe
				if st.side == "listen" {
					vp = st.L.Connect()
					if act == "xdrop-at-once" {
						vp.Drop() // the peer is gone before the socket has even looked at the connection
					}
				} else if !dialed {
					dialed = true
					dc := mon.Go("Dial", func() (interface{}, error) {
						if sp.RT == "dialer0" {
							return nil, st.sock.DialOptions(vt.Addr(st.name), map[string]interface{}{mangos.OptionReconnectTime: time.Duration(0)})
						}
						return nil, st.sock.Dial(vt.Addr(st.name))
					})
					if !c.AwaitOrViolate("life/dial-stuck", "Dial on vt (connects at once): "+where, dc.Done, opts) {
						return
					}
				}
				// the step's pipe is the step-th pipe of this socket (a dialer reconnects by itself)
				var rec *pipeRec
				if !c.AwaitOrViolate("life/"+st.side+"-no-new-connection", "a new connection being announced (Attaching): "+where, func() bool { rec = recAt(step); return rec != nil }, opts) {
					return
				}
				if st.side == "dial" && step > 0 && sp.RT != "" {
					c.Count("redials_after_pipe_loss_with_reconnect_time_0", 1)
				}
				if st.side == "dial" {
					ps := st.D.Pipes()
					if len(ps) <= step {
						c.Violate("harness:dial-pipe-count", "dialer pipes %d, step %d", len(ps), step)
						return
					}
					vp = ps[step]
				}
				switch {
				case act == "second-peer":
					// refused by PAIR: the transport pipe is closed by the library, no Attached
					if !c.AwaitOrViolate("life/second-pair-peer-not-refused", "second PAIR peer being refused (transport pipe closed by the library): "+where, vp.LibClosed, opts) {
						return
					}
					c.Count("refused_second_pair_peer", 1)
				case hookAct == "ok":
					if !c.AwaitOrViolate("life/"+st.side+"-stopped-after-rejection", "a fresh connection reaching Attached: "+where, flag(func(r *pipeRec) bool { return r.attached > 0 }, rec), opts) {
						return
					}
					switch act {
					case "ok-drop":
						vp.Drop()
						if !c.AwaitOrViolate("life/no-detach-after-peer-drop", "Detached after the peer dropped the connection: "+where, flag(func(r *pipeRec) bool { return r.detached > 0 }, rec), opts) {
							return
						}
					case "ok-close-later":
						rec.pipe.Close()
						if !c.AwaitOrViolate("life/no-detach-after-pipe-close", "Detached after Pipe.Close: "+where, flag(func(r *pipeRec) bool { return r.detached > 0 }, rec), opts) {
							return
						}
					default:
						if st.side == "dial" {
							prevVP = vp // ended at the start of the next step
						} else if isPair {
							firstPeer, firstRec = vp, rec
						}
					}
				case hookAct == "xdrop-at-once":
					// the protocol's receiver finds the connection dead as soon as it starts: the pipe is
					// attached and detached again, both reported exactly once (checked at the end)
					if !c.AwaitOrViolate("life/no-detach-after-immediate-peer-drop", "Detached for a connection the peer dropped at once: "+where, flag(func(r *pipeRec) bool { return r.detached > 0 && r.attached > 0 }, rec), opts) {
						return
					}
				case hookAct == "close-in-attached":
					if !c.AwaitOrViolate("life/no-detach-after-close-in-attached", "Detached after the hook closed the pipe in Attached: "+where, flag(func(r *pipeRec) bool { return r.detached > 0 }, rec), opts) {
						return
					}
				default: // close-in-attaching / refuse: the library must close the transport pipe
					if !c.AwaitOrViolate("life/rejected-pipe-not-closed", "transport pipe of a rejected connection being closed by the library ("+act+"): "+where, vp.LibClosed, opts) {
						return
					}
				}
			}
		}()
	}
	wg.Wait() // every wait inside the scripts is bounded by the stuck detector / watchdog
	if c.Failed() {
		return
	}
	for _, st := range socks {
		st.sock.Close()
	}
	m.final(true)
	c.Nontrivial()
	c.Sig("vt|%v|%v|%v|%s", sp.Protos, sp.Sides, trace, sp.RT)
}

// runCloseRace: Socket.Close lands while a new connection is inside the protocol's AddPipe (the
// protocol has accepted it, the call has not returned yet).  Whichever way the race goes, a pipe that
// is reported Attached is reported Detached, the protocol is told of its departure, and the
// connection is closed by the library.
func runCloseRace(c *mon.Case, sp spec) {
	m := newLifeMon(c)
	w := &recProto{ProtocolBase: protoCtors[sp.Protos[0]](), m: m, sock: 0}
	wrappedSocks.Store(fmt.Sprintf("%p/%d", m, 0), true)
	s := protocol.MakeSocket(w)
	name := hx.Uniq("c13r")
	c.Cleanup(func() { s.Close(); vt.Forget(name); wrappedSocks.Delete(fmt.Sprintf("%p/%d", m, 0)) })
	s.SetPipeEventHook(m.hook(0))
	s.SetOption(mangos.OptionReconnectTime, time.Hour)
	m.mu.Lock()
	m.plan[0] = []string{"slow-add"}
	m.mu.Unlock()
	var vp func() *vt.Pipe
	if sp.Sides[0] == "listen" {
		L := vt.L(name)
		if err := s.Listen(vt.Addr(name)); err != nil {
			c.Inconclusive("setup: %v", err)
			return
		}
		p := L.Connect()
		vp = func() *vt.Pipe { return p }
	} else {
		D := vt.D(name)
		D.SetDefault(vt.Outcome{Kind: vt.Succeed})
		s.SetOption(mangos.OptionDialAsynch, true)
		if err := s.Dial(vt.Addr(name)); err != nil {
			c.Inconclusive("setup: %v", err)
			return
		}
		vp = D.LastPipe
	}
	k := mon.Go("in-AddPipe", func() (interface{}, error) { <-m.slowAdd; return nil, nil })
	if !c.AwaitOrViolate("harness:slow-add-not-reached", "the new connection reaching the protocol's AddPipe", k.Done, mon.AwaitOpts{}) {
		return
	}
	mon.Sleep(time.Duration(c.Rand.Intn(2500)) * time.Microsecond)
	ck := mon.Go("Close", func() (interface{}, error) { return nil, s.Close() })
	if !c.AwaitOrViolate("life/close-stuck", "Socket.Close racing a connection inside the protocol's AddPipe", ck.Done, mon.AwaitOpts{}) {
		return
	}
	m.final(true)
	if p := vp(); p != nil && !c.Failed() {
		c.AwaitOrViolate("life/connection-kept-after-close", "the connection that was inside AddPipe when the socket closed being closed by the library", p.LibClosed, mon.AwaitOpts{})
	}
	c.Nontrivial()
	c.Sig("closerace|%s|%s", sp.Protos[0], sp.Sides[0])
}

// ---------------------------------------------------------------------------
// real transports: server with scripted hook, client redialling

func runReal(c *mon.Case, sp spec) {
	m := newLifeMon(c)
	w := &recProto{ProtocolBase: protoCtors[sp.Protos[0]](), m: m, sock: 0}
	key := fmt.Sprintf("%p/%d", m, 0)
	wrappedSocks.Store(key, true)
	defer wrappedSocks.Delete(key)
	srv := protocol.MakeSocket(w)
	cli := protocol.MakeSocket(protoCtors[hx.PeerOf[sp.Protos[0]]]())
	c.Cleanup(func() { srv.Close(); cli.Close() })
	srv.SetPipeEventHook(m.hook(0))
	cli.SetPipeEventHook(m.hook(1))
	cli.SetOption(mangos.OptionReconnectTime, 4*time.Millisecond)
	cli.SetOption(mangos.OptionMaxReconnectTime, 4*time.Millisecond)
	var dialOpts map[string]interface{}
	switch sp.RT {
	case "sock0":
		if err := cli.SetOption(mangos.OptionReconnectTime, time.Duration(0)); err != nil {
			c.Violate("life/reconnect-time-0-refused", "SetOption(RECONNECT-TIME, 0) on the socket: %v", err)
			return
		}
	case "dialer0":
		dialOpts = map[string]interface{}{mangos.OptionReconnectTime: time.Duration(0)}
	}
	attachedOn := func(sock int) int {
		m.mu.Lock()
		defer m.mu.Unlock()
		n := 0
		for _, r := range m.all {
			if r.sock == sock && r.attached > 0 {
				n++
			}
		}
		return n
	}
	seenOn := func(sock int) int {
		m.mu.Lock()
		defer m.mu.Unlock()
		n := 0
		for _, r := range m.all {
			if r.sock == sock {
				n++
			}
		}
		return n
	}
	lastOn := func(sock int) *pipeRec {
		m.mu.Lock()
		defer m.mu.Unlock()
		for j := len(m.all) - 1; j >= 0; j-- {
			if m.all[j].sock == sock {
				return m.all[j]
			}
		}
		return nil
	}
	acts := []string{"ok", "close-in-attaching", "close-in-attached", "refuse", "ok-close-later"}
	var plan, hookPlan []string
	trace := ""
	for i := 0; i < sp.Steps; i++ {
		a := acts[c.Rand.Intn(len(acts))]
		plan = append(plan, a)
		hookPlan = append(hookPlan, strings.TrimSuffix(a, "-close-later"))
	}
	m.mu.Lock()
	m.plan[0] = append([]string{}, hookPlan...)
	m.mu.Unlock()
	recAt := func(sock, k int) *pipeRec {
		m.mu.Lock()
		defer m.mu.Unlock()
		n := 0
		for _, r := range m.all {
			if r.sock == sock {
				if n == k {
					return r
				}
				n++
			}
		}
		return nil
	}
	_, _, _ = attachedOn, seenOn, lastOn
	if err := connectWith(srv, cli, sp.Tran, dialOpts); err != nil {
		c.Inconclusive("setup: connect over %s: %v", sp.Tran, err)
		return
	}
	opts := mon.AwaitOpts{MaxTimer: 10 * time.Millisecond}
	for step := 0; step < sp.Steps && !c.Failed(); step++ {
		act := plan[step]
		trace += act[:1]
		where := fmt.Sprintf("%s step %d history %s", sp.Tran, step, trace)
		// the step's connection is the step-th pipe the server sees (the client redials by itself)
		var rec *pipeRec
		if !c.AwaitOrViolate("life/no-new-connection-after-rejection", "client redialling and the listener accepting again: "+where, func() bool { rec = recAt(0, step); return rec != nil }, opts) {
			return
		}
		if step > 0 && sp.RT != "" {
			c.Count("redials_after_pipe_loss_with_reconnect_time_0", 1)
		}
		get := func(f func(r *pipeRec) bool) func() bool {
			return func() bool { m.mu.Lock(); defer m.mu.Unlock(); return f(rec) }
		}
		switch act {
		case "ok", "ok-close-later":
			if !c.AwaitOrViolate("life/listen-stopped-after-rejection", "connection reaching Attached on the server: "+where, get(func(r *pipeRec) bool { return r.attached > 0 }), opts) {
				return
			}
			// end it from the server side so that the client reconnects for the next step
			rec.pipe.Close()
			if !c.AwaitOrViolate("life/no-detach-after-pipe-close", "Detached after Pipe.Close: "+where, get(func(r *pipeRec) bool { return r.detached > 0 }), opts) {
				return
			}
		case "close-in-attached":
			if !c.AwaitOrViolate("life/no-detach-after-close-in-attached", "Detached after the hook closed the pipe in Attached: "+where, get(func(r *pipeRec) bool { return r.detached > 0 }), opts) {
				return
			}
		default:
			// rejected in Attaching / by the protocol: the client sees the connection end and redials
		}
	}
	if c.Failed() {
		return
	}
	if sp.RT != "" {
		cli.Close() // first: with no reconnect interval the client would redial the closed listener in a tight loop
	}
	srv.Close()
	cli.Close()
	m.final(false)
	c.Nontrivial()
	c.Sig("real|%s|%s|%s|%s", sp.Tran, sp.Protos[0], trace, sp.RT)
}

// connectWith is hx.Connect with extra options for the dialer (nil: exactly hx.Connect).
func connectWith(srv, cli mangos.Socket, tr string, dialOpts map[string]interface{}) error {
	if dialOpts == nil {
		_, _, err := hx.Connect(srv, cli, tr)
		return err
	}
	var lo map[string]interface{}
	do := map[string]interface{}{}
	for k, v := range dialOpts {
		do[k] = v
	}
	if hx.NeedsTLS(tr) {
		s, c := hx.TlsConfigs()
		lo = map[string]interface{}{mangos.OptionTLSConfig: s}
		do[mangos.OptionTLSConfig] = c
	}
	l, err := srv.NewListener(hx.ListenAddr(tr), lo)
	if err != nil {
		return fmt.Errorf("NewListener: %w", err)
	}
	if err := l.Listen(); err != nil {
		return fmt.Errorf("Listen: %w", err)
	}
	d, err := cli.NewDialer(l.Address(), do)
	if err != nil {
		return fmt.Errorf("NewDialer(%s): %w", l.Address(), err)
	}
	if err := d.Dial(); err != nil {
		return fmt.Errorf("Dial(%s): %w", l.Address(), err)
	}
	return nil
}

// ---------------------------------------------------------------------------
// read-only pipe options describe the actual connection

func runOpts(c *mon.Case, sp spec) {
	srv := hx.MustSock(c, "pair")
	cli := hx.MustSock(c, "pair")
	ws, wc := hx.WatchPipes(srv), hx.WatchPipes(cli)
	var sp1, cp1 mangos.Pipe
	var mu sync.Mutex
	// what the pipes say about themselves inside their Detached callback (the connection is closed by then,
	// the pipe object is still the application's to ask)
	type lateView struct {
		local, remote, tlsState interface{}
		e1, e2, e3              error
	}
	late := map[string]*lateView{}
	readLate := func(side string, p mangos.Pipe) {
		v := &lateView{}
		v.local, v.e1 = p.GetOption(mangos.OptionLocalAddr)
		v.remote, v.e2 = p.GetOption(mangos.OptionRemoteAddr)
		v.tlsState, v.e3 = p.GetOption(mangos.OptionTLSConnState)
		mu.Lock()
		late[side] = v
		mu.Unlock()
	}
	srv.SetPipeEventHook(func(ev mangos.PipeEvent, p mangos.Pipe) {
		switch ev {
		case mangos.PipeEventAttached:
			mu.Lock()
			sp1 = p
			mu.Unlock()
		case mangos.PipeEventDetached:
			readLate("server", p)
		}
	})
	cli.SetPipeEventHook(func(ev mangos.PipeEvent, p mangos.Pipe) {
		switch ev {
		case mangos.PipeEventAttached:
			mu.Lock()
			cp1 = p
			mu.Unlock()
		case mangos.PipeEventDetached:
			readLate("client", p)
		}
	})
	_, _ = ws, wc
	// ipc reports the peer's credentials: make user and group ids differ while the endpoints are made
	// (possible as root only), so that a mixed-up field cannot be right by coincidence
	wantGid := os.Getegid()
	if sp.Tran == "ipc" && os.Geteuid() == 0 {
		if err := syscall.Setegid(4242); err == nil {
			wantGid = 4242
			defer syscall.Setegid(os.Getgid())
		}
	}
	var l mangos.Listener
	var d mangos.Dialer
	var err error
	if sp.Wild {
		l, d, err = connectWildcard(srv, cli, sp.Tran)
	} else {
		l, d, err = hx.Connect(srv, cli, sp.Tran)
	}
	if wantGid == 4242 {
		syscall.Setegid(os.Getgid())
	}
	if err != nil {
		c.Inconclusive("setup: %s: %v", sp.Tran, err)
		return
	}
	if !c.AwaitOrViolate("opts/attach-stuck", "both sides attaching", func() bool { mu.Lock(); defer mu.Unlock(); return sp1 != nil && cp1 != nil }, mon.AwaitOpts{MaxTimer: 100 * time.Millisecond}) {
		return
	}
	tr := sp.Tran
	bad := func(sig, f string, a ...interface{}) { c.Violate("opts/"+tr+"/"+sig, f, a...) }
	// endpoint identity
	if sp1.Listener() != l || sp1.Dialer() != nil {
		bad("listener-identity", "server pipe: Listener()=%v Dialer()=%v, want the listener that accepted it and nil", sp1.Listener(), sp1.Dialer())
	}
	if cp1.Dialer() != d || cp1.Listener() != nil {
		bad("dialer-identity", "client pipe: Dialer()=%v Listener()=%v, want the dialer that created it and nil", cp1.Dialer(), cp1.Listener())
	}
	if sp1.Address() != l.Address() {
		bad("listener-address", "server pipe Address()=%q, listener Address()=%q", sp1.Address(), l.Address())
	}
	if cp1.Address() != d.Address() {
		bad("dialer-address", "client pipe Address()=%q, dialer Address()=%q", cp1.Address(), d.Address())
	}
	if sp.Wild {
		tr += "/wildcard"
	}
	c.Count("option_checks", 4)
	get := func(p mangos.Pipe, n string) (interface{}, error) { return p.GetOption(n) }
	addrStr := func(v interface{}) string {
		switch a := v.(type) {
		case net.Addr:
			return a.String()
		case string:
			return a
		case fmt.Stringer:
			return a.String()
		}
		return fmt.Sprintf("%v", v)
	}
	sl, e1 := get(sp1, mangos.OptionLocalAddr)
	sr, e2 := get(sp1, mangos.OptionRemoteAddr)
	cl, e3 := get(cp1, mangos.OptionLocalAddr)
	cr, e4 := get(cp1, mangos.OptionRemoteAddr)
	if e1 != nil || e2 != nil || e3 != nil || e4 != nil {
		bad("address-options-missing", "LOCAL-ADDR/REMOTE-ADDR errors: %v %v %v %v", e1, e2, e3, e4)
	} else {
		switch sp.Tran {
		case "tcp", "tls+tcp", "ws", "wss":
			if addrStr(sl) != addrStr(cr) || addrStr(sr) != addrStr(cl) {
				bad("addresses-not-mirrored", "server local/remote = %s/%s, client local/remote = %s/%s", addrStr(sl), addrStr(sr), addrStr(cl), addrStr(cr))
			}
			host := strings.TrimPrefix(strings.TrimPrefix(l.Address(), sp.Tran+"://"), "")
			if !sp.Wild && !strings.HasPrefix(host, addrStr(sl)) {
				bad("local-address-not-listen-address", "server pipe local address %s, listener address %s", addrStr(sl), l.Address())
			}
		case "ipc":
			path := strings.TrimPrefix(l.Address(), "ipc://")
			if addrStr(sl) != path || addrStr(cr) != path {
				bad("ipc-address", "server local %q / client remote %q, want socket path %q", addrStr(sl), addrStr(cr), path)
			}
		case "inproc":
			for _, v := range []interface{}{sl, sr, cl, cr} {
				if addrStr(v) != l.Address() && "inproc://"+addrStr(v) != l.Address() {
					bad("inproc-address", "pipe address option %q, endpoint address %q", addrStr(v), l.Address())
				}
			}
		}
		c.Count("option_checks", 4)
	}
	// TLS state exactly on the TLS transports
	for side, p := range map[string]mangos.Pipe{"server": sp1, "client": cp1} {
		v, err := get(p, mangos.OptionTLSConnState)
		if hx.NeedsTLS(sp.Tran) {
			cs, ok := v.(tls.ConnectionState)
			if err != nil || !ok || !cs.HandshakeComplete {
				bad("tls-state-missing", "%s pipe: TLS-STATE = %T %v, want a completed tls.ConnectionState", side, v, err)
			}
		} else if err == nil {
			bad("tls-state-on-plain", "%s pipe reports TLS-STATE %v on a non-TLS transport", side, v)
		}
		c.Count("option_checks", 1)
	}
	if sp.Tran == "ipc" {
		for side, p := range map[string]mangos.Pipe{"server": sp1, "client": cp1} {
			pid, e1 := get(p, mangos.OptionPeerPID)
			uid, e2 := get(p, mangos.OptionPeerUID)
			gid, e3 := get(p, mangos.OptionPeerGID)
			if e1 != nil || e2 != nil || e3 != nil || pid != os.Getpid() || uid != os.Geteuid() || gid != wantGid {
				bad("peer-credentials", "%s pipe: PEER-PID/UID/GID = %v/%v/%v (%v %v %v), want %d/%d/%d", side, pid, uid, gid, e1, e2, e3, os.Getpid(), os.Geteuid(), wantGid)
			}
			c.Count("option_checks", 3)
		}
	}
	// ids
	if sp1.ID() == 0 || sp1.ID() >= 1<<31 || cp1.ID() == 0 || cp1.ID() >= 1<<31 || sp1.ID() == cp1.ID() {
		bad("ids", "server pipe id %08x, client pipe id %08x: want distinct non-zero 31-bit values", sp1.ID(), cp1.ID())
	}
	// ---- the same questions asked inside the Detached callbacks, once the connection is gone ----
	attachedTLS := map[string]interface{}{}
	for side, p := range map[string]mangos.Pipe{"server": sp1, "client": cp1} {
		v, _ := get(p, mangos.OptionTLSConnState)
		attachedTLS[side] = v
	}
	cli.Close()
	if !c.AwaitOrViolate("opts/detach-stuck", "both pipes reporting Detached after the client closed", func() bool { mu.Lock(); defer mu.Unlock(); return late["server"] != nil && late["client"] != nil }, mon.AwaitOpts{MaxTimer: 100 * time.Millisecond}) {
		return
	}
	mu.Lock()
	defer mu.Unlock()
	was := map[string][2]interface{}{"server": {sl, sr}, "client": {cl, cr}}
	for _, side := range []string{"server", "client"} {
		lv := late[side]
		if sp.Tran != "inproc" && e1 == nil && e2 == nil && e3 == nil && e4 == nil {
			if lv.e1 != nil || lv.e2 != nil || addrStr(lv.local) != addrStr(was[side][0]) || addrStr(lv.remote) != addrStr(was[side][1]) {
				bad("addresses-changed-at-detach", "%s pipe inside its Detached callback: LOCAL-ADDR/REMOTE-ADDR = %v/%v (%v %v), while attached %v/%v", side, lv.local, lv.remote, lv.e1, lv.e2, was[side][0], was[side][1])
			}
			c.Count("option_checks_at_detach", 2)
		}
		if hx.NeedsTLS(sp.Tran) {
			cs, ok := lv.tlsState.(tls.ConnectionState)
			as, _ := attachedTLS[side].(tls.ConnectionState)
			if lv.e3 != nil || !ok || !cs.HandshakeComplete || cs.Version != as.Version || cs.CipherSuite != as.CipherSuite {
				bad("tls-state-wrong-at-detach", "%s pipe inside its Detached callback: TLS-STATE = %T handshake-complete=%v version=%x suite=%x (%v); while attached: version=%x suite=%x", side, lv.tlsState, cs.HandshakeComplete, cs.Version, cs.CipherSuite, lv.e3, as.Version, as.CipherSuite)
			}
			c.Count("option_checks_at_detach", 1)
		}
	}
	c.Nontrivial()
	c.Sig("opts|%s", tr)
}

// connectWildcard: the listener binds every local address (port chosen by the system); the client dials
// 127.0.0.1 at that port.  What the accepted pipe says about its own end must be the address of the
// connection, not the address the listener was bound to.
func connectWildcard(srv, cli mangos.Socket, tr string) (mangos.Listener, mangos.Dialer, error) {
	var lo, do map[string]interface{}
	if hx.NeedsTLS(tr) {
		s, c := hx.TlsConfigs()
		lo = map[string]interface{}{mangos.OptionTLSConfig: s}
		do = map[string]interface{}{mangos.OptionTLSConfig: c}
	}
	path := ""
	if tr == "ws" || tr == "wss" {
		path = "/" + hx.Uniq("w")
	}
	l, err := srv.NewListener(tr+"://0.0.0.0:0"+path, lo)
	if err != nil {
		return nil, nil, fmt.Errorf("NewListener: %w", err)
	}
	if err := l.Listen(); err != nil {
		return nil, nil, fmt.Errorf("Listen: %w", err)
	}
	a := l.Address()
	i := strings.LastIndex(a, ":")
	if i < 0 {
		return l, nil, fmt.Errorf("listener address %q has no port", a)
	}
	port := a[i+1:]
	if j := strings.Index(port, "/"); j >= 0 {
		port = port[:j]
	}
	d, err := cli.NewDialer(tr+"://127.0.0.1:"+port+path, do)
	if err != nil {
		return l, nil, fmt.Errorf("NewDialer: %w", err)
	}
	if err := d.Dial(); err != nil {
		return l, d, fmt.Errorf("Dial: %w", err)
	}
	return l, d, nil
}

// runWSHandler: a ws:// listener whose handler the application mounts on its own HTTPS server —
// the accepted pipe runs over TLS and its TLS-STATE option must say so.
func runWSHandler(c *mon.Case, sp spec) {
	srv := hx.MustSock(c, "pair")
	cli := hx.MustSock(c, "pair")
	ws1, wc1 := hx.WatchPipes(srv), hx.WatchPipes(cli)
	inner, err := net.Listen("tcp", "127.0.0.1:0")
	if err != nil {
		c.Inconclusive("setup: %v", err)
		return
	}
	port := inner.Addr().(*net.TCPAddr).Port
	scfg, ccfg := hx.TLSConfigs()
	tl := tls.NewListener(inner, scfg)
	path := "/" + hx.Uniq("h")
	l, err := srv.NewListener(fmt.Sprintf("ws://127.0.0.1:%d%s", port, path), nil)
	if err != nil {
		c.Inconclusive("setup: NewListener: %v", err)
		tl.Close()
		return
	}
	hv, err := l.GetOption(ws.OptionWebSocketHandler)
	if err != nil {
		c.Violate("opts/ws-handler/option", "GetOption(WEBSOCKET-HANDLER): %v", err)
		tl.Close()
		return
	}
	mux := http.NewServeMux()
	mux.Handle(path, hv.(http.Handler))
	hs := &http.Server{Handler: mux}
	go func() { _ = hs.Serve(tl) }()
	c.Cleanup(func() { hs.Close() })
	if err := l.Listen(); err != nil {
		c.Violate("opts/ws-handler/listen", "Listen in handler mode: %v", err)
		return
	}
	if err := cli.DialOptions(fmt.Sprintf("wss://127.0.0.1:%d%s", port, path), map[string]interface{}{mangos.OptionTLSConfig: ccfg}); err != nil {
		c.Inconclusive("setup: dial: %v", err)
		return
	}
	if !hx.WaitAttached(c, ws1, 1, "handler side") || !hx.WaitAttached(c, wc1, 1, "dialer side") {
		return
	}
	for side, p := range map[string]mangos.Pipe{"listener (handler mounted on the application's HTTPS server)": ws1.Pipes()[0], "dialer": wc1.Pipes()[0]} {
		v, err := p.GetOption(mangos.OptionTLSConnState)
		cs, ok := v.(tls.ConnectionState)
		if err != nil || !ok || !cs.HandshakeComplete {
			c.Violate("opts/ws-handler/tls-state-missing", "%s side pipe runs over TLS but TLS-STATE = %T %v (%v)", side, v, v, err)
		}
		c.Count("option_checks", 1)
	}
	c.Nontrivial()
	c.Sig("opts|ws-handler")
}
