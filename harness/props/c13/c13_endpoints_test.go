package c13

import (
	"crypto/tls"
	"fmt"
	"io"
	"net"
	"os"
	"sort"
	"strconv"
	"strings"
	"sync"
	"syscall"
	"time"

	"go.nanomsg.org/mangos/v3"
	"go.nanomsg.org/mangos/v3/protocol"

	"verifharness/hx"
	"verifharness/mon"
)

// One socket with SEVERAL endpoints (dialers, or listeners) whose connections are in the SP header
// exchange at the same time, the peers answering one after the other (slow / staggered peers).  Every
// pipe must describe the connection it really is and the endpoint that made that connection:
// Pipe.Dialer/Listener/Address and the LOCAL-ADDR / REMOTE-ADDR options.
//
// "held" peers are hand-made stream peers (tcp, tls+tcp, ipc) that keep their SP header back until the
// script releases it: when exactly one connection of the socket is let through while all the others
// are still held, the pipe that comes up IS that connection — ground truth that owes nothing to what
// the pipe says about itself.  "sock" peers are mangos sockets (all six transports); there the pipe's
// own address options and the peer's view of the same connection are the reference.

var multiProtos = []string{"req", "rep", "pub", "sub", "push", "pull", "bus", "surveyor", "respondent", "star"} // PAIR takes one peer only
var heldTrans = []string{"tcp", "tls+tcp", "ipc"}

func addrString(v interface{}) string {
	switch a := v.(type) {
	case nil:
		return "<nil>"
	case net.Addr:
		return a.String()
	case string:
		return a
	case fmt.Stringer:
		return a.String()
	}
	return fmt.Sprintf("%v", v)
}

// optIsEndpoint: does the value of an address option name the endpoint address (a mangos URL)?
func optIsEndpoint(tr, epAddr string, v interface{}) bool {
	a := addrString(v)
	switch tr {
	case "ipc":
		return a == strings.TrimPrefix(epAddr, "ipc://")
	case "inproc":
		return a == epAddr || "inproc://"+a == epAddr
	}
	h := epAddr[strings.Index(epAddr, "://")+3:]
	if k := strings.Index(h, "/"); k >= 0 {
		h = h[:k]
	}
	return a == h
}

// ownsLocalAddr: is ip:port the local address of a socket of THIS process?  Other processes on the
// machine (other checks running at the same time) redial ports their own listeners once had; when such
// a port has meanwhile been given to one of our listeners, a connection that is none of ours comes in.
// The test asks the kernel about this process's own descriptors only, and owes nothing to the library.
func ownsLocalAddr(addr string) bool {
	host, ps, err := net.SplitHostPort(addr)
	if err != nil {
		return true // not an ip:port address: no verdict, treat as ours
	}
	port, _ := strconv.Atoi(ps)
	ip := net.ParseIP(host).To4()
	ents, err := os.ReadDir("/proc/self/fd")
	if err != nil || ip == nil {
		return true
	}
	for _, e := range ents {
		fd, err := strconv.Atoi(e.Name())
		if err != nil {
			continue
		}
		sa, err := syscall.Getsockname(fd)
		if err != nil {
			continue
		}
		if a, ok := sa.(*syscall.SockaddrInet4); ok && a.Port == port && net.IP(a.Addr[:]).Equal(ip) {
			return true
		}
		if a, ok := sa.(*syscall.SockaddrInet6); ok && a.Port == port && net.IP(a.Addr[:]).Equal(ip) {
			return true
		}
	}
	return false
}

func tcpLike(tr string) bool { return tr == "tcp" || tr == "tls+tcp" || tr == "ws" || tr == "wss" }

// epObs is what a pipe said about itself inside one event callback.
type epObs struct {
	ev       string
	dialer   mangos.Dialer
	listener mangos.Listener
	addr     string
	local    interface{}
	remote   interface{}
	lerr     error
	rerr     error
}

type epPipe struct {
	p   mangos.Pipe
	rec *pipeRec
	obs []epObs
}

// epMon records, per pipe of the socket under test, what it reports in Attaching and in Attached.
type epMon struct {
	m        *lifeMon
	mu       sync.Mutex
	byPipe   map[mangos.Pipe]*epPipe
	attached []*epPipe // in the order Attached was reported
	// accepted over a TCP port: a pipe whose far end is not a socket of this process is another
	// process's connection (see ownsLocalAddr); it is left to the lifecycle monitor alone
	acceptsTCP bool
	foreign    int
}

func newEpMon(m *lifeMon) *epMon { return &epMon{m: m, byPipe: map[mangos.Pipe]*epPipe{}} }

func (e *epMon) hook(inner mangos.PipeEventHook) mangos.PipeEventHook {
	return func(ev mangos.PipeEvent, p mangos.Pipe) {
		inner(ev, p)
		if ev != mangos.PipeEventAttaching && ev != mangos.PipeEventAttached {
			return
		}
		o := epObs{ev: "Attaching", dialer: p.Dialer(), listener: p.Listener(), addr: p.Address()}
		if ev == mangos.PipeEventAttached {
			o.ev = "Attached"
		}
		o.local, o.lerr = p.GetOption(mangos.OptionLocalAddr)
		o.remote, o.rerr = p.GetOption(mangos.OptionRemoteAddr)
		e.m.mu.Lock()
		rec := e.m.recs[p]
		e.m.mu.Unlock()
		e.mu.Lock()
		ep := e.byPipe[p]
		if ep == nil {
			ep = &epPipe{p: p, rec: rec}
			e.byPipe[p] = ep
		}
		ep.obs = append(ep.obs, o)
		if ev == mangos.PipeEventAttached {
			if e.acceptsTCP && o.rerr == nil && !ownsLocalAddr(addrString(o.remote)) {
				e.foreign++
			} else {
				e.attached = append(e.attached, ep)
			}
		}
		e.mu.Unlock()
	}
}

func (e *epMon) nAttached() int { e.mu.Lock(); defer e.mu.Unlock(); return len(e.attached) }
func (e *epMon) nForeign() int  { e.mu.Lock(); defer e.mu.Unlock(); return e.foreign }
func (e *epMon) attachedFrom(k int) []*epPipe {
	e.mu.Lock()
	defer e.mu.Unlock()
	return append([]*epPipe{}, e.attached[k:]...)
}

func (e *epMon) detached(ep *epPipe) bool {
	if ep.rec == nil {
		return false
	}
	e.m.mu.Lock()
	defer e.m.mu.Unlock()
	return ep.rec.detached > 0
}

// want is the reference a pipe's self-description is held against.
type epWant struct {
	tr, side string
	ep       int
	dialer   mangos.Dialer
	listener mangos.Listener
	addr     string // the endpoint's address
	local    string // exact LOCAL-ADDR of this connection ("" = not known to the harness)
	remote   string // exact REMOTE-ADDR of this connection ("" = not known)
	names    func(d mangos.Dialer, l mangos.Listener) string
}

func checkPipe(c *mon.Case, ep *epPipe, w epWant, how string) {
	bad := func(sig, f string, a ...interface{}) {
		c.Violate("endpoint/"+w.tr+"/"+w.side+"/"+sig, "%s: "+f, append([]interface{}{how}, a...)...)
	}
	for _, o := range ep.obs {
		in := "in its " + o.ev + " callback pipe " + fmt.Sprintf("%08x", ep.p.ID())
		if w.side == "dial" {
			if o.dialer != w.dialer {
				bad("pipe-reports-another-dialer", "%s reports Dialer() = %s, but the connection is the one made by %s", in, w.names(o.dialer, nil), w.names(w.dialer, nil))
			}
			if o.listener != nil {
				bad("dialled-pipe-reports-a-listener", "%s reports Listener() = %s for a dialled connection", in, w.names(nil, o.listener))
			}
		} else {
			if o.listener != w.listener {
				bad("pipe-reports-another-listener", "%s reports Listener() = %s, but the connection was accepted by %s", in, w.names(nil, o.listener), w.names(nil, w.listener))
			}
			if o.dialer != nil {
				bad("accepted-pipe-reports-a-dialer", "%s reports Dialer() = %s for an accepted connection", in, w.names(o.dialer, nil))
			}
		}
		if o.addr != w.addr {
			bad("pipe-address-of-another-endpoint", "%s reports Address() = %q, but the endpoint that made the connection has address %q", in, o.addr, w.addr)
		}
		if o.lerr != nil || o.rerr != nil {
			bad("address-options-missing", "%s: LOCAL-ADDR / REMOTE-ADDR errors %v / %v", in, o.lerr, o.rerr)
			continue
		}
		if w.side == "dial" && !optIsEndpoint(w.tr, w.addr, o.remote) {
			bad("remote-address-not-the-peer-dialled", "%s reports REMOTE-ADDR %s, but the dialer of this connection dials %q", in, addrString(o.remote), w.addr)
		}
		if w.side == "listen" && !optIsEndpoint(w.tr, w.addr, o.local) {
			bad("local-address-not-the-listener", "%s reports LOCAL-ADDR %s, but the listener of this connection listens at %q", in, addrString(o.local), w.addr)
		}
		if w.local != "" && addrString(o.local) != w.local {
			bad("local-address-not-this-connection", "%s reports LOCAL-ADDR %s, the peer of this connection sees it coming from %s", in, addrString(o.local), w.local)
		}
		if w.remote != "" && addrString(o.remote) != w.remote {
			bad("remote-address-not-this-connection", "%s reports REMOTE-ADDR %s, the peer's end of this connection is %s", in, addrString(o.remote), w.remote)
		}
	}
	c.Count("endpoint_pipes_checked_against_their_connection", 1)
}

// ---------------------------------------------------------------------------
// held peers

// heldConn is the harness end of one stream connection: it reads the library's SP header, keeps its
// own back until released, then discards whatever arrives.
type heldConn struct {
	nc       net.Conn
	ep       int
	hdr      chan struct{} // closed when the library's header has been read: the library now waits for ours
	hdrErr   error
	release  chan struct{}
	relOnce  sync.Once
	libLocal string // this connection's address on the library's side, as the peer sees it ("" = the transport has none)
	libRem   string
	pipe     *epPipe // the pipe found to be this connection
	seq      int     // order in which the script saw the connections
}

func newHeldConn(nc net.Conn, ep int, tr string) *heldConn {
	h := &heldConn{nc: nc, ep: ep, hdr: make(chan struct{}), release: make(chan struct{})}
	if tr != "ipc" {
		h.libLocal, h.libRem = nc.RemoteAddr().String(), nc.LocalAddr().String()
	}
	return h
}

func (h *heldConn) serve(proto uint16) {
	var b [8]byte
	_, h.hdrErr = io.ReadFull(h.nc, b[:]) // (for TLS this also runs the TLS handshake)
	close(h.hdr)
	if h.hdrErr != nil {
		return
	}
	<-h.release
	if _, err := h.nc.Write([]byte{0, 'S', 'P', 0, byte(proto >> 8), byte(proto), 0, 0}); err != nil {
		return
	}
	_, _ = io.Copy(io.Discard, h.nc)
}

func (h *heldConn) ready() bool {
	select {
	case <-h.hdr:
		return true
	default:
		return false
	}
}
func (h *heldConn) letGo() { h.relOnce.Do(func() { close(h.release) }) }
func (h *heldConn) stop()  { _ = h.nc.Close(); h.letGo() }

// heldListener is a hand-made peer that a dialer of the socket under test connects to.
type heldListener struct {
	ln      net.Listener
	url     string
	mu      sync.Mutex
	conns   []*heldConn
	foreign int // connections that came from another process (turned away)
}

func newHeldListener(tr string) (*heldListener, error) {
	hl := &heldListener{}
	switch tr {
	case "ipc":
		u := hx.ListenAddr("ipc")
		ln, err := net.Listen("unix", strings.TrimPrefix(u, "ipc://"))
		if err != nil {
			return nil, err
		}
		hl.ln, hl.url = ln, u
	default:
		ln, err := net.Listen("tcp", "127.0.0.1:0")
		if err != nil {
			return nil, err
		}
		hl.url = tr + "://" + ln.Addr().String()
		if tr == "tls+tcp" {
			scfg, _ := hx.TLSConfigs()
			ln = tls.NewListener(ln, scfg)
		}
		hl.ln = ln
	}
	return hl, nil
}

func (hl *heldListener) loop(ep int, tr string, proto uint16) {
	for {
		nc, err := hl.ln.Accept()
		if err != nil {
			return
		}
		h := newHeldConn(nc, ep, tr)
		if tr != "ipc" && !ownsLocalAddr(h.libLocal) {
			// the dialling socket exists in its process before the connection is made, so this is not ours
			_ = nc.Close()
			hl.mu.Lock()
			hl.foreign++
			hl.mu.Unlock()
			continue
		}
		hl.mu.Lock()
		hl.conns = append(hl.conns, h)
		hl.mu.Unlock()
		go h.serve(proto)
	}
}

func (hl *heldListener) conn(k int) *heldConn {
	hl.mu.Lock()
	defer hl.mu.Unlock()
	if k < len(hl.conns) {
		return hl.conns[k]
	}
	return nil
}

func (hl *heldListener) stop() {
	_ = hl.ln.Close()
	hl.mu.Lock()
	defer hl.mu.Unlock()
	for _, h := range hl.conns {
		h.stop()
	}
}

// heldDial makes a hand-made client connection to a listener of the socket under test.
func heldDial(tr, url string, ep int) (*heldConn, error) {
	var nc net.Conn
	var err error
	if tr == "ipc" {
		nc, err = net.Dial("unix", strings.TrimPrefix(url, "ipc://"))
	} else {
		nc, err = net.Dial("tcp", url[strings.Index(url, "://")+3:])
	}
	if err != nil {
		return nil, err
	}
	h := newHeldConn(nc, ep, tr)
	if tr == "tls+tcp" {
		_, ccfg := hx.TLSConfigs()
		h.nc = tls.Client(nc, ccfg) // the TLS handshake runs with the first read, in serve
	}
	return h, nil
}

func perm(c *mon.Case, n int) []int { return c.Rand.Perm(n) }

func runEndpointsHeld(c *mon.Case, sp spec) {
	tr, side, K := sp.Tran, sp.Sides[0], sp.Socks
	m := newLifeMon(c)
	em := newEpMon(m)
	w := &recProto{ProtocolBase: protoCtors[sp.Protos[0]](), m: m, sock: 0}
	key := fmt.Sprintf("%p/%d", m, 0)
	wrappedSocks.Store(key, true)
	s := protocol.MakeSocket(w)
	c.Cleanup(func() { s.Close(); wrappedSocks.Delete(key) })
	em.acceptsTCP = side == "listen" && tr != "ipc"
	s.SetPipeEventHook(em.hook(m.hook(0)))
	const reconn = 3 * time.Millisecond
	s.SetOption(mangos.OptionReconnectTime, reconn)
	s.SetOption(mangos.OptionMaxReconnectTime, reconn)
	if sp.RT == "sock0" {
		if err := s.SetOption(mangos.OptionReconnectTime, time.Duration(0)); err != nil {
			c.Violate("life/reconnect-time-0-refused", "SetOption(RECONNECT-TIME, 0) on the socket: %v", err)
			return
		}
	}
	if sp.Protos[0] == "req" {
		s.SetOption(mangos.OptionRetryTime, time.Hour)
	}
	peerProto := s.Info().Peer
	opts := mon.AwaitOpts{MaxTimer: reconn}
	sigp := "endpoint/" + tr + "/" + side + "/"

	var dialers []mangos.Dialer
	var listeners []mangos.Listener
	var hls []*heldListener
	addrs := make([]string, K)
	names := func(d mangos.Dialer, l mangos.Listener) string {
		for i := range dialers {
			if d != nil && dialers[i] == d {
				return fmt.Sprintf("dialer #%d (%s)", i, addrs[i])
			}
		}
		for i := range listeners {
			if l != nil && listeners[i] == l {
				return fmt.Sprintf("listener #%d (%s)", i, addrs[i])
			}
		}
		if d == nil && l == nil {
			return "nil"
		}
		return "an endpoint that is not of this socket"
	}
	want := func(h *heldConn) epWant {
		x := epWant{tr: tr, side: side, ep: h.ep, addr: addrs[h.ep], local: h.libLocal, remote: h.libRem, names: names}
		if side == "dial" {
			x.dialer = dialers[h.ep]
		} else {
			x.listener = listeners[h.ep]
		}
		return x
	}

	var pending []*heldConn      // in the header exchange, our header held back
	live := map[*heldConn]bool{} // attached, not dropped
	nconn := make([]int, K)      // dial side: connections seen so far at each held listener
	nseq := 0
	awaitReady := func(sig string, h func() *heldConn, what string) *heldConn {
		var got *heldConn
		if !c.AwaitOrViolate(sigp+sig, what, func() bool { got = h(); return got != nil && got.ready() }, opts) {
			return nil
		}
		if got.hdrErr != nil {
			c.Inconclusive("setup: %s: reading the library's SP header: %v", what, got.hdrErr)
			return nil
		}
		return got
	}
	// dial side: the next connection arriving at held listener e (made by the library: first dial or redial)
	arrive := func(e int, what string) bool {
		k := nconn[e]
		sig := "dialer-made-no-connection"
		if k > 0 {
			sig = "no-redial-after-peer-drop"
		}
		h := awaitReady(sig, func() *heldConn { return hls[e].conn(k) }, fmt.Sprintf("%s: dialer #%d (%s) connecting to its peer and sending its SP header", what, e, addrs[e]))
		if h == nil {
			return false
		}
		nconn[e]++
		nseq++
		h.seq = nseq
		c.Logf("%s: connection #%d of dialer #%d arrived at its peer from %s, header held", what, k, e, h.libLocal)
		pending = append(pending, h)
		return true
	}
	// listen side: a new hand-made client connects to listener e
	connect := func(e int, what string) bool {
		h, err := heldDial(tr, addrs[e], e)
		if err != nil {
			c.Inconclusive("setup: connecting to %s: %v", addrs[e], err)
			return false
		}
		c.Cleanup(h.stop)
		go h.serve(peerProto)
		if awaitReady("listener-not-accepting", func() *heldConn { return h }, fmt.Sprintf("%s: listener #%d (%s) accepting a connection and sending its SP header", what, e, addrs[e])) == nil {
			return false
		}
		nseq++
		h.seq = nseq
		pending = append(pending, h)
		return true
	}
	// let the held connections through one at a time, in a random order; each time exactly one pipe can come up
	releaseAll := func(round int) bool {
		order := perm(c, len(pending))
		left := len(pending)
		for _, k := range order {
			h := pending[k]
			before := em.nAttached()
			how := fmt.Sprintf("round %d: of %d connections in the SP header exchange only the one of %s was answered by its peer", round, left, names(want(h).dialer, want(h).listener))
			if left > 1 {
				c.Count("endpoint_peer_answers_while_other_handshakes_of_the_socket_pend", 1)
			}
			c.Logf("round %d: peer of endpoint #%d answers connection %s (seq %d)", round, h.ep, h.libLocal, h.seq)
			h.letGo()
			if !c.AwaitOrViolate(sigp+"connection-never-attached", how+"; waiting for its pipe to reach Attached", func() bool { return em.nAttached() > before }, opts) {
				return false
			}
			nw := em.attachedFrom(before)
			if len(nw) != 1 {
				c.Violate(sigp+"pipes-without-connection", "%s, but %d pipes reached Attached", how, len(nw))
				return false
			}
			h.pipe = nw[0]
			checkPipe(c, h.pipe, want(h), how)
			if c.Failed() {
				return false
			}
			live[h] = true
			left--
		}
		pending = nil
		return true
	}

	// --- set up the endpoints and the first connections
	asynch := c.Rand.Intn(2) == 0
	var dials []*mon.Call
	if side == "dial" {
		for e := 0; e < K; e++ {
			hl, err := newHeldListener(tr)
			if err != nil {
				c.Inconclusive("setup: held %s peer: %v", tr, err)
				return
			}
			c.Cleanup(hl.stop)
			go hl.loop(e, tr, peerProto)
			hls = append(hls, hl)
			addrs[e] = hl.url
			do := map[string]interface{}{mangos.OptionDialAsynch: asynch}
			if tr == "tls+tcp" {
				_, ccfg := hx.TLSConfigs()
				do[mangos.OptionTLSConfig] = ccfg
			}
			if sp.RT == "dialer0" {
				do[mangos.OptionReconnectTime] = time.Duration(0)
			}
			d, err := s.NewDialer(hl.url, do)
			if err != nil {
				c.Inconclusive("setup: NewDialer(%s): %v", hl.url, err)
				return
			}
			dialers = append(dialers, d)
		}
		together := c.Rand.Intn(2) == 0 // start every dial before looking at any, or one after the other
		for e := 0; e < K; e++ {
			d := dialers[e]
			dials = append(dials, mon.Go("Dial", func() (interface{}, error) { return nil, d.Dial() }))
			if !together && !arrive(e, "first dial") {
				return
			}
		}
		for e := 0; e < K && together; e++ {
			if !arrive(e, "first dial") {
				return
			}
		}
	} else {
		for e := 0; e < K; e++ {
			var lo map[string]interface{}
			if tr == "tls+tcp" {
				scfg, _ := hx.TLSConfigs()
				lo = map[string]interface{}{mangos.OptionTLSConfig: scfg}
			}
			l, err := s.NewListener(hx.ListenAddr(tr), lo)
			if err == nil {
				err = l.Listen()
			}
			if err != nil {
				c.Inconclusive("setup: listener on %s: %v", tr, err)
				return
			}
			listeners = append(listeners, l)
			addrs[e] = l.Address()
		}
		for j := 0; j < sp.Conns; j++ {
			e := j
			if j >= K {
				e = c.Rand.Intn(K)
			}
			if !connect(e, "first connection") {
				return
			}
		}
	}
	c.Cleanup(func() { s.Close() }) // cleanups run last-in first-out: the socket stops dialling before its peers go away
	if !releaseAll(0) {
		return
	}
	for e, dc := range dials {
		if !c.AwaitOrViolate("life/dial-stuck", fmt.Sprintf("Dial of dialer #%d returning once its connection is up", e), dc.Done, opts) {
			return
		}
		if _, err, _ := dc.Result(); err != nil {
			c.Inconclusive("Dial(%s): %v", addrs[e], err)
			return
		}
	}
	// --- peers drop connections; the dialers redial (or new clients come in) and the handshakes overlap again
	trace := ""
	for round := 1; round <= sp.Steps && !c.Failed(); round++ {
		var ls []*heldConn
		for h := range live {
			ls = append(ls, h)
		}
		sort.Slice(ls, func(i, j int) bool { return ls[i].seq < ls[j].seq }) // map order is not reproducible
		n := 2 + c.Rand.Intn(len(ls)-1)                                      // at least two, so that the new handshakes overlap
		if n > len(ls) {
			n = len(ls)
		}
		order := perm(c, len(ls))[:n]
		trace += fmt.Sprintf("/%d", n)
		for _, k := range order {
			h := ls[k]
			c.Logf("round %d: peer of endpoint #%d drops connection %s (seq %d, pipe %08x)", round, h.ep, h.libLocal, h.seq, h.pipe.p.ID())
			_ = h.nc.Close()
			delete(live, h)
			c.Count("endpoint_peer_drops", 1)
			hh := h
			if !c.AwaitOrViolate("life/no-detach-after-peer-drop", fmt.Sprintf("round %d: the peer of %s dropped its connection; waiting for Detached of pipe %08x, which is that connection", round, names(want(h).dialer, want(h).listener), h.pipe.p.ID()), func() bool { return em.detached(hh.pipe) }, opts) {
				return
			}
		}
		for _, k := range order {
			e := ls[k].ep
			if side == "dial" {
				if !arrive(e, fmt.Sprintf("round %d: redial after the peer dropped the connection", round)) {
					return
				}
				c.Count("endpoint_redials_after_peer_drop", 1)
				if sp.RT != "" {
					c.Count("redials_after_pipe_loss_with_reconnect_time_0", 1)
				}
			} else if !connect(e, fmt.Sprintf("round %d: new client", round)) {
				return
			}
		}
		if !releaseAll(round) {
			return
		}
	}
	if c.Failed() {
		return
	}
	nf := em.nForeign()
	for _, hl := range hls {
		hl.mu.Lock()
		nf += hl.foreign
		hl.mu.Unlock()
	}
	c.Count("endpoint_connections_of_other_processes_ignored", nf)
	s.Close()
	m.final(true)
	c.Nontrivial()
	c.Sig("endpoints|held|%s|%s|%s|%d|%d|%v|%s", tr, side, sp.Protos[0], K, sp.Conns, asynch, trace+sp.RT)
}

// ---------------------------------------------------------------------------
// mangos sockets as peers (all transports)

type peerView struct {
	mu         sync.Mutex
	pipes      []*epPipe
	acceptsTCP bool // see epMon
	foreign    int
}

func (v *peerView) hook(ev mangos.PipeEvent, p mangos.Pipe) {
	if ev != mangos.PipeEventAttached {
		return
	}
	o := epObs{ev: "Attached", dialer: p.Dialer(), listener: p.Listener(), addr: p.Address()}
	o.local, o.lerr = p.GetOption(mangos.OptionLocalAddr)
	o.remote, o.rerr = p.GetOption(mangos.OptionRemoteAddr)
	v.mu.Lock()
	if v.acceptsTCP && o.rerr == nil && !ownsLocalAddr(addrString(o.remote)) {
		v.foreign++
	} else {
		v.pipes = append(v.pipes, &epPipe{p: p, obs: []epObs{o}})
	}
	v.mu.Unlock()
}
func (v *peerView) first() (epObs, bool) {
	v.mu.Lock()
	defer v.mu.Unlock()
	if len(v.pipes) == 0 {
		return epObs{}, false
	}
	return v.pipes[0].obs[0], true
}
func (v *peerView) all() []*epPipe {
	v.mu.Lock()
	defer v.mu.Unlock()
	return append([]*epPipe{}, v.pipes...)
}

func runEndpointsSock(c *mon.Case, sp spec) {
	tr, side, K := sp.Tran, sp.Sides[0], sp.Socks
	m := newLifeMon(c)
	em := newEpMon(m)
	w := &recProto{ProtocolBase: protoCtors[sp.Protos[0]](), m: m, sock: 0}
	key := fmt.Sprintf("%p/%d", m, 0)
	wrappedSocks.Store(key, true)
	s := protocol.MakeSocket(w)
	c.Cleanup(func() { s.Close(); wrappedSocks.Delete(key) })
	em.acceptsTCP = side == "listen" && tcpLike(tr)
	s.SetPipeEventHook(em.hook(m.hook(0)))
	// no redialling in these cases: a connection a peer ended stays ended
	s.SetOption(mangos.OptionReconnectTime, time.Hour)
	s.SetOption(mangos.OptionMaxReconnectTime, time.Hour)
	if sp.Protos[0] == "req" {
		s.SetOption(mangos.OptionRetryTime, time.Hour)
	}
	opts := mon.AwaitOpts{MaxTimer: 100 * time.Millisecond}
	sigp := "endpoint/" + tr + "/" + side + "/"
	var lo, do map[string]interface{}
	lo, do = map[string]interface{}{}, map[string]interface{}{}
	if hx.NeedsTLS(tr) {
		scfg, ccfg := hx.TLSConfigs()
		lo[mangos.OptionTLSConfig] = scfg
		do[mangos.OptionTLSConfig] = ccfg
	}
	asynch := c.Rand.Intn(2) == 0
	do[mangos.OptionDialAsynch] = asynch

	var dialers []mangos.Dialer
	var listeners []mangos.Listener
	addrs := make([]string, K)
	names := func(d mangos.Dialer, l mangos.Listener) string {
		for i := range dialers {
			if d != nil && dialers[i] == d {
				return fmt.Sprintf("dialer #%d (%s)", i, addrs[i])
			}
		}
		for i := range listeners {
			if l != nil && listeners[i] == l {
				return fmt.Sprintf("listener #%d (%s)", i, addrs[i])
			}
		}
		if d == nil && l == nil {
			return "nil"
		}
		return "an endpoint that is not of this socket"
	}
	nPeers := K
	if side == "listen" {
		nPeers = sp.Conns
	}
	peers := make([]mangos.Socket, nPeers)
	views := make([]*peerView, nPeers)
	epOf := make([]int, nPeers)
	for j := range peers {
		peers[j] = hx.MustSock(c, hx.PeerOf[sp.Protos[0]])
		peers[j].SetOption(mangos.OptionReconnectTime, time.Hour)
		peers[j].SetOption(mangos.OptionMaxReconnectTime, time.Hour)
		views[j] = &peerView{acceptsTCP: side == "dial" && tcpLike(tr)}
		peers[j].SetPipeEventHook(views[j].hook)
		epOf[j] = j
		if j >= K {
			epOf[j] = c.Rand.Intn(K)
		}
	}
	var dials []*mon.Call
	var dialAddr []string
	peerD := make([]mangos.Dialer, nPeers) // the peers' own endpoints: their pipes are pipes of this process too
	peerL := make([]mangos.Listener, nPeers)
	if side == "dial" {
		for e := 0; e < K; e++ {
			l, err := peers[e].NewListener(hx.ListenAddr(tr), lo)
			if err == nil {
				err = l.Listen()
			}
			if err != nil {
				c.Inconclusive("setup: peer listener on %s: %v", tr, err)
				return
			}
			peerL[e] = l
			addrs[e] = l.Address()
			d, err := s.NewDialer(addrs[e], do)
			if err != nil {
				c.Inconclusive("setup: NewDialer(%s): %v", addrs[e], err)
				return
			}
			dialers = append(dialers, d)
		}
		for e := 0; e < K; e++ {
			d := dialers[e]
			dials = append(dials, mon.Go("Dial", func() (interface{}, error) { return nil, d.Dial() }))
			dialAddr = append(dialAddr, addrs[e])
		}
	} else {
		for e := 0; e < K; e++ {
			l, err := s.NewListener(hx.ListenAddr(tr), lo)
			if err == nil {
				err = l.Listen()
			}
			if err != nil {
				c.Inconclusive("setup: listener on %s: %v", tr, err)
				return
			}
			listeners = append(listeners, l)
			addrs[e] = l.Address()
		}
		for j := range peers {
			a := addrs[epOf[j]]
			d, err := peers[j].NewDialer(a, do)
			if err != nil {
				c.Inconclusive("setup: peer NewDialer(%s): %v", a, err)
				return
			}
			peerD[j] = d
			dials = append(dials, mon.Go("Dial", func() (interface{}, error) { return nil, d.Dial() }))
			dialAddr = append(dialAddr, a)
		}
	}
	for i, dc := range dials {
		if !c.AwaitOrViolate("life/dial-stuck", "Dial("+dialAddr[i]+") to a listening peer returning", dc.Done, opts) {
			return
		}
		if _, err, _ := dc.Result(); err != nil {
			c.Inconclusive("setup: Dial(%s): %v", dialAddr[i], err)
			return
		}
	}
	if !c.AwaitOrViolate(sigp+"connection-never-attached", fmt.Sprintf("%d connections of one socket over %d endpoints reaching Attached", nPeers, K), func() bool { return em.nAttached() >= nPeers }, opts) {
		return
	}
	// the peers are sockets of this process as well: their pipes must describe the same connections from the other end
	otherSide := map[string]string{"dial": "listen", "listen": "dial"}[side]
	for j := range peers {
		v := views[j]
		if !c.AwaitOrViolate("endpoint/"+tr+"/"+otherSide+"/connection-never-attached", fmt.Sprintf("peer socket #%d, whose Dial / Listen succeeded and whose one connection is up at the other end, reporting it Attached", j), func() bool { _, ok := v.first(); return ok }, opts) {
			return
		}
	}
	for j := range peers {
		pj := j
		pnames := func(d mangos.Dialer, l mangos.Listener) string {
			switch {
			case d == nil && l == nil:
				return "nil"
			case (d != nil && d == peerD[pj]) || (l != nil && l == peerL[pj]):
				return fmt.Sprintf("the endpoint of peer socket #%d (%s)", pj, addrs[epOf[pj]])
			}
			return "an endpoint that is not of this socket"
		}
		ps := views[j].all()
		if len(ps) != 1 {
			c.Violate("endpoint/"+tr+"/"+otherSide+"/pipes-without-connection", "peer socket #%d has one connection, %d pipes reached Attached", j, len(ps))
			return
		}
		checkPipe(c, ps[0], epWant{tr: tr, side: otherSide, ep: epOf[j], dialer: peerD[j], listener: peerL[j], addr: addrs[epOf[j]], names: pnames},
			fmt.Sprintf("peer socket #%d with a single endpoint, one of %d sockets connecting at the same time", j, nPeers))
	}
	if c.Failed() {
		return
	}
	pipes := em.attachedFrom(0)
	if len(pipes) != nPeers {
		c.Violate(sigp+"pipes-without-connection", "%d connections were made, %d pipes reached Attached", nPeers, len(pipes))
		return
	}
	// each pipe against the endpoint it names; then the endpoints against the connections that were made
	perEp := make([][]*epPipe, K)
	for _, ep := range pipes {
		o := ep.obs[len(ep.obs)-1]
		e := -1
		for i := 0; i < K; i++ {
			if (side == "dial" && dialers[i] == o.dialer) || (side == "listen" && listeners[i] == o.listener) {
				e = i
			}
		}
		if e < 0 {
			c.Violate(sigp+"pipe-reports-unknown-endpoint", "pipe %08x reports Dialer() = %v, Listener() = %v: neither is an endpoint of its socket", ep.p.ID(), o.dialer, o.listener)
			return
		}
		perEp[e] = append(perEp[e], ep)
		x := epWant{tr: tr, side: side, ep: e, addr: addrs[e], names: names}
		if side == "dial" {
			x.dialer = dialers[e]
			if pv, _ := views[e].first(); tcpLike(tr) && pv.rerr == nil {
				x.local = addrString(pv.remote) // the peer listening at this dialer's address sees the connection come from here
			}
		} else {
			x.listener = listeners[e]
		}
		checkPipe(c, ep, x, fmt.Sprintf("%d connections of one socket over %d endpoints, made at the same time", nPeers, K))
	}
	if c.Failed() {
		return
	}
	wantPer := make([]int, K)
	for j := range peers {
		wantPer[epOf[j]]++
	}
	for e := 0; e < K; e++ {
		if len(perEp[e]) != wantPer[e] {
			c.Violate(sigp+"endpoint-pipe-count", "%s made %d connection(s), but %d pipe(s) name it as their endpoint", names(at(dialers, e), atL(listeners, e)), wantPer[e], len(perEp[e]))
			return
		}
	}
	// which pipe is the connection of peer j?
	pipeOf := func(j int) *epPipe {
		e := epOf[j]
		if side == "dial" {
			return perEp[e][0]
		}
		if !tcpLike(tr) {
			return nil // the transport gives connections no address of their own
		}
		pv, _ := views[j].first()
		for _, ep := range perEp[e] {
			if o := ep.obs[len(ep.obs)-1]; pv.lerr == nil && addrString(o.remote) == addrString(pv.local) {
				return ep
			}
		}
		c.Violate(sigp+"remote-address-not-this-connection", "a client connected to %s from %s, but none of the %d pipe(s) naming that listener reports this REMOTE-ADDR", names(nil, listeners[e]), addrString(pv.local), len(perEp[e]))
		return nil
	}
	if side == "listen" && tcpLike(tr) {
		for j := range peers {
			if pipeOf(j) == nil {
				return
			}
		}
	}
	// ground truth by ending connections: when peer j goes away, the pipe that is its connection detaches
	order := perm(c, nPeers)[:1+c.Rand.Intn(nPeers)]
	closedPer := make([]int, K)
	for _, j := range order {
		e := epOf[j]
		ep := pipeOf(j)
		peers[j].Close()
		closedPer[e]++
		c.Count("endpoint_peer_drops", 1)
		if ep != nil {
			if !c.AwaitOrViolate("life/no-detach-after-peer-drop", fmt.Sprintf("the peer of %s closed; waiting for Detached of pipe %08x, which names that endpoint and that connection", names(at(dialers, e), atL(listeners, e)), ep.p.ID()), func() bool { return em.detached(ep) }, opts) {
				return
			}
			continue
		}
		need := closedPer[e]
		if !c.AwaitOrViolate("life/no-detach-after-peer-drop", fmt.Sprintf("%d client(s) of %s closed; waiting for as many of the pipes naming that listener to report Detached", need, names(nil, listeners[e])), func() bool {
			n := 0
			for _, x := range perEp[e] {
				if em.detached(x) {
					n++
				}
			}
			return n >= need
		}, opts) {
			return
		}
	}
	nf := em.nForeign()
	for _, v := range views {
		v.mu.Lock()
		nf += v.foreign
		v.mu.Unlock()
	}
	c.Count("endpoint_connections_of_other_processes_ignored", nf)
	s.Close()
	m.final(true)
	c.Nontrivial()
	c.Sig("endpoints|sock|%s|%s|%s|%d|%d|%v|%d", tr, side, sp.Protos[0], K, nPeers, asynch, len(order))
}

func at(ds []mangos.Dialer, e int) mangos.Dialer {
	if e < len(ds) {
		return ds[e]
	}
	return nil
}
func atL(ls []mangos.Listener, e int) mangos.Listener {
	if e < len(ls) {
		return ls[e]
	}
	return nil
}
