package c13

// Kind "idwrap": pipe ids while the process-wide allocator's counter crosses its boundaries — the
// 31-bit mask (…0x7fffffff, 0x80000000: the masked value is 0 there), the 32-bit wrap
// (0xffffffff, 0) — and while it runs into ids that are still in use.  Unaided the counter starts
// at a random value and a process would have to create up to 2^31 pipes to get there; the
// verif-tag accessor verifhooks.SetPipeIDNext positions it (ids in use stay in use, nothing else
// in the library is touched).
//
// Oracle (the id clause of the statement): every id reported by Pipe.ID() at Attached, on both
// ends of every connection, is non-zero, fits in 31 bits, and is shared with no other pipe that
// is live at that moment in the process.

import (
	"fmt"
	"math/rand"
	"sync"

	"go.nanomsg.org/mangos/v3"
	"go.nanomsg.org/mangos/v3/verifhooks"

	"verifharness/hx"
	"verifharness/mon"
)

func idwrapCases(r *mon.Runner, rnd *rand.Rand) []mon.CaseSpec {
	var out []mon.CaseSpec
	for rep := 0; rep < r.Pick(2, 40); rep++ {
		for _, how := range []string{"mask31", "wrap32", "inuse"} {
			out = append(out, mon.CaseSpec{Name: "idwrap/" + how, Spec: spec{Kind: "idwrap", Peer: how, Steps: rnd.Intn(6),
				Protos: []string{[]string{"bus", "star", "pub", "rep", "surveyor"}[rnd.Intn(5)]}}})
		}
	}
	return out
}

func runIDWrap(c *mon.Case, sp spec) {
	how := sp.Peer
	var boundary uint32 // the counter value whose masked id is 0
	switch how {
	case "mask31", "inuse":
		boundary = 0x80000000
	case "wrap32":
		boundary = 0
	}
	hub := hx.MustSock(c, sp.Protos[0])
	var mu sync.Mutex
	live := map[uint32]string{}
	seen := 0
	check := func(side string) func(mangos.PipeEvent, mangos.Pipe) {
		return func(ev mangos.PipeEvent, p mangos.Pipe) {
			id := p.ID()
			mu.Lock()
			defer mu.Unlock()
			switch ev {
			case mangos.PipeEventAttached:
				seen++
				if id == 0 {
					c.Violate("life/pipe-id-zero:"+how, "%s: a pipe attached with id 0 (allocator positioned %d before %#x)", side, sp.Steps, boundary)
				}
				if id > 0x7fffffff {
					c.Violate("life/pipe-id-not-31-bit:"+how, "%s: pipe id %#x does not fit in 31 bits", side, id)
				}
				if other, dup := live[id]; dup {
					c.Violate("life/pipe-id-shared:"+how, "%s: pipe id %#x is also the id of the live pipe of %s", side, id, other)
				}
				live[id] = side
			case mangos.PipeEventDetached:
				delete(live, id)
			}
		}
	}
	hub.SetPipeEventHook(check("hub"))
	addr := hx.ListenAddr("inproc")
	if err := hub.Listen(addr); err != nil {
		c.Inconclusive("listen: %v", err)
		return
	}
	n := 6
	connect := func(tag string, k int) bool {
		for i := 0; i < k; i++ {
			peer := hx.MustSock(c, hx.PeerOf[sp.Protos[0]])
			peer.SetPipeEventHook(check(fmt.Sprintf("%s-peer-%d", tag, i)))
			before := func() int { mu.Lock(); defer mu.Unlock(); return seen }()
			d := mon.Go("Dial", func() (interface{}, error) { return nil, peer.Dial(addr) })
			if !c.AwaitOrViolate("life/dial-stuck:idwrap/"+how, "Dial returning with the id counter near its boundary", d.Done, mon.AwaitOpts{}) {
				return false
			}
			if _, err, _ := d.Result(); err != nil {
				c.Inconclusive("dial: %v", err)
				return false
			}
			// both ends report Attached before the next connection is made: the ids are consecutive
			if res := mon.Await(func() bool { mu.Lock(); defer mu.Unlock(); return seen >= before+2 }, mon.AwaitOpts{}); res.V != mon.Done {
				c.Inconclusive("attach of connection %d not observed on both ends (%v)", i, res.V)
				return false
			}
		}
		return true
	}
	// position the counter Steps allocations before the boundary; each connection takes two ids
	verifhooks.SetPipeIDNext(boundary - uint32(sp.Steps))
	if !connect("a", n) {
		return
	}
	if how == "inuse" {
		// the pipes made so far are live and hold the ids right after the boundary: run the counter
		// into them again, twice
		for round := 0; round < 2; round++ {
			verifhooks.SetPipeIDNext(boundary - uint32(sp.Steps) - 1)
			if !connect(fmt.Sprintf("b%d", round), 3) {
				return
			}
		}
	}
	mu.Lock()
	c.Count("idwrap_ids_checked", seen)
	c.Count("idwrap_live_at_end", len(live))
	mu.Unlock()
	c.Count("idwrap_cases_"+how, 1)
	c.Sig("idwrap|%s|%s|%d", how, sp.Protos[0], sp.Steps)
	c.Nontrivial()
}
