//go:build verif

package c14

import (
	"bytes"
	"math/rand"
	"time"

	"go.nanomsg.org/mangos/v3"

	"verifharness/hx"
	"verifharness/mon"
	"verifharness/vt"
)

// midsend: the connection of a dialling socket is lost while the transport write of a message is
// still in progress (the peer does not read; vt HoldSends), so that the protocol's sender learns of
// the loss from its transport Send — which fails with a plain I/O error ('F'), or is reported
// successful although the pipe is gone by then ('L') — concurrently with the receive side.  The
// dialer has to connect again (not sooner than ReconnectTime after the time taken before the drop,
// refused attempts 'R' in between), and traffic has to resume on the new connection without the
// application doing anything: new messages flow in every direction the pattern has, and for REQ (retry
// time one hour: no timer can help) the request that was outstanding when the connection went —
// the application is waiting in Recv for its reply — is carried over to the new connection and its
// reply delivered there.
var midsendProtos = []string{"req", "pair", "req", "bus", "req", "push", "req", "pair1", "req", "pub", "req", "xpair", "req", "xbus", "req", "xpush", "req", "xpub"}

func midsendSpecs(rnd *rand.Rand, n int) []mon.CaseSpec {
	var out []mon.CaseSpec
	for i := 0; i < n; i++ {
		R := []int{5, 10, 20}[(i/2)%3]
		sp := spec{Kind: "midsend", Proto: midsendProtos[i%len(midsendProtos)], RMs: R, MaxMs: []int{R, 0, 4 * R}[(i/6)%3],
			Async: rnd.Intn(3) != 0, Yield: rnd.Intn(2) == 0}
		sp.Ctx = sp.Proto == "req" && (i/2)%3 == 1
		nl := 1 + rnd.Intn(3)
		for j := 0; j < nl; j++ {
			sp.Script += string("FFFL"[rnd.Intn(4)])
			if rnd.Intn(3) == 0 {
				sp.Script += "R"
			}
		}
		out = append(out, mon.CaseSpec{Name: "midsend/" + sp.Proto, Spec: sp})
	}
	return out
}

// reqFind waits until a request with the given body has been transmitted on p (log entries from
// index from on) and returns its 4-byte request ID.
func reqFind(c *mon.Case, g *rig, p *vt.Pipe, from int, body []byte, sig, what string) ([]byte, bool) {
	var id []byte
	ok := c.AwaitOrViolate(sig, what, func() bool {
		for _, s := range p.SentFrom(from) {
			w := s.Wire()
			if len(w) >= 4 && bytes.Equal(w[4:], body) {
				id = append([]byte{}, w[:4]...)
				return true
			}
		}
		return false
	}, mon.AwaitOpts{MaxTimer: g.R})
	return id, ok
}

// reqReply answers request id on p and expects the parked Recv to deliver the reply.
func reqReply(c *mon.Case, g *rig, p *vt.Pipe, id []byte, rk *mon.Call, sig string) bool {
	rep := []byte("a-" + hx.Uniq("x"))
	p.Inject(hx.Cat(id, rep))
	if !c.AwaitOrViolate(sig+":recv", "Recv delivering the reply that arrived on the new connection", rk.Done, mon.AwaitOpts{MaxTimer: g.R}) {
		return false
	}
	v, e, _ := rk.Result()
	b, _ := v.([]byte)
	if e != nil || !bytes.Equal(b, rep) {
		c.Violate(sig+":recv-error", "Recv of the reply sent over the new connection returned %q, %v (want %q)", b, e, rep)
		return false
	}
	return true
}

func runMidSend(c *mon.Case, sp spec) {
	g := newRig(c, sp)
	isReq := sp.Proto == "req"
	if isReq {
		if err := g.sock.SetOption(mangos.OptionRetryTime, time.Hour); err != nil {
			panic(err)
		}
	}
	type sendRecver interface {
		Send([]byte) error
		Recv() ([]byte, error)
	}
	var app sendRecver = g.sock
	if sp.Ctx {
		cx, err := g.sock.OpenContext()
		if err != nil {
			panic(err)
		}
		if err := cx.SetOption(mangos.OptionRetryTime, time.Hour); err != nil {
			panic(err)
		}
		app = cx
	}
	script := sp.Script + "E"
	var outs []vt.Outcome
	for _, ch := range script {
		if ch == 'R' {
			outs = append(outs, vt.Outcome{Kind: vt.Refuse})
		} else {
			outs = append(outs, vt.Outcome{Kind: vt.Succeed})
		}
	}
	g.vd.Script(outs...)
	g.vd.SetDefault(vt.Outcome{Kind: vt.Refuse})
	mon.Go("Dial", func() (interface{}, error) { return nil, g.d.Dial() })
	lbs := map[int]time.Duration{}
	kinds := map[int]string{}
	fails, succ := 0, 0
	var pendBody []byte // REQ: body of the request whose write was interrupted
	var pendRecv *mon.Call
	losses := 0
	for i, ch := range script {
		maxT := g.capAfter(fails + 1)
		if !g.awaitAttempt(i, maxT, "midsend step "+string(ch)) {
			return
		}
		if !c.AwaitOrViolate("harness:attempt-not-finished", "scripted attempt returning", func() bool { l := g.vd.Log(); return l[i].End != 0 }, mon.AwaitOpts{MaxTimer: maxT}) {
			return
		}
		rec := g.vd.Log()[i]
		if ch == 'R' {
			lbs[i+1], kinds[i+1] = rec.End, "refused attempt"
			fails++
			continue
		}
		p := g.vd.Pipes()[succ]
		succ++
		fails = 0
		n := succ
		if !c.AwaitOrViolate("dial/connected-pipe-not-attached", "pipe of a successful dial attaching", func() bool { rw, _ := p.Waiters(); return rw > 0 && g.attached() >= n }, mon.AwaitOpts{MaxTimer: maxT}) {
			return
		}
		// traffic resumes on this connection without application action
		if pendBody != nil {
			sig := "dial/traffic-not-resumed:request-interrupted-mid-send"
			id, ok := reqFind(c, g, p, 0, pendBody, sig+":not-on-new-connection",
				"the request whose transport write was interrupted by the loss of the connection (the application is waiting in Recv; retry time 1h) being transmitted on the new connection")
			if !ok {
				return
			}
			if !reqReply(c, g, p, id, pendRecv, sig) {
				return
			}
			pendBody, pendRecv = nil, nil
			c.Count("interrupted_requests_carried_over", 1)
		}
		if isReq {
			body := []byte("q-" + hx.Uniq("x"))
			before := p.SentCount()
			k := mon.Go("Send", func() (interface{}, error) { return nil, app.Send(body) })
			if !c.AwaitOrViolate("dial/traffic-not-resumed:send", "Send of a new request completing", k.Done, mon.AwaitOpts{MaxTimer: g.R}) {
				return
			}
			if _, e, _ := k.Result(); e != nil {
				c.Violate("dial/traffic-not-resumed:send-error", "Send after reconnect returned %v", e)
				return
			}
			rk := mon.Go("Recv", func() (interface{}, error) { b, e := app.Recv(); return b, e })
			id, ok := reqFind(c, g, p, before, body, "dial/traffic-not-resumed:not-on-new-connection", "a new request appearing on the new connection")
			if !ok || !reqReply(c, g, p, id, rk, "dial/traffic-not-resumed") {
				return
			}
			c.Count("exchanges_after_reconnect", 1)
		} else if !exchange(c, g, p) {
			return
		}
		if ch == 'E' {
			break
		}
		// the peer stops reading; a message is being written when the connection goes
		p.HoldSends()
		body := []byte("w-" + hx.Uniq("x"))
		k := mon.Go("Send", func() (interface{}, error) { return nil, app.Send(body) })
		if !c.AwaitOrViolate("harness:send-not-accepted", "Send of the message that will be in flight returning", k.Done, mon.AwaitOpts{MaxTimer: g.R}) {
			return
		}
		if _, e, _ := k.Result(); e != nil {
			c.Violate("dial/traffic-not-resumed:send-error", "Send on an attached connection returned %v", e)
			return
		}
		if isReq {
			pendBody = body
			pendRecv = mon.Go("Recv", func() (interface{}, error) { b, e := app.Recv(); return b, e })
		}
		if !c.AwaitOrViolate("harness:send-not-in-transport", "the protocol's sender being parked in the transport Send", func() bool { _, sw := p.Waiters(); return sw > 0 }, mon.AwaitOpts{MaxTimer: g.R}) {
			return
		}
		mon.Sleep(time.Duration(c.Rand.Intn(2000)) * time.Microsecond)
		var t time.Duration
		if ch == 'L' {
			t = p.DropLateSendOK()
			if !c.AwaitOrViolate("dial/lost-connection-not-closed", "the library closing the pipe the peer dropped", p.LibClosed, mon.AwaitOpts{MaxTimer: g.R}) {
				return
			}
			p.ReleaseLate()
		} else {
			t = p.Drop()
		}
		lbs[i+1], kinds[i+1] = t, "peer drop in mid-send"
		losses++
	}
	g.lowerBounds(lbs, kinds)
	c.Count("connections_lost_in_mid_send", losses)
	c.Count("attempts", len(g.vd.Log()))
	c.Sig("midsend|%s|%v|%d|%d|%v|%s", sp.Proto, sp.Ctx, sp.RMs, sp.MaxMs, sp.Async, sp.Script)
	c.Nontrivial()
}
