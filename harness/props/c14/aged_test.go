//go:build verif

package c14

import (
	"fmt"
	"strings"
	"time"

	"verifharness/mon"
)

// aged: a dialer is open for as long as the application keeps it, and has to connect again whenever
// that becomes necessary — not only in the first moments of its life.  One case runs a dialer over each
// of the stream transports at once (so that the waiting is paid once); for each the case PRNG chooses
// the protocol of the dialling socket and one of two histories:
//
//	lost  the dialer connects at once (synchronously or not), traffic is exchanged, the connection
//	      stays up, idle, until the dialer is AgeMs old; then the harness (the relay of flakypeer, which
//	      holds the address the dialer dials) cuts it
//	late  the dialer is asynchronous and its peer is not there: every attempt is hung up on by the
//	      relay (at once, or after the greeting), until the dialer is AgeMs old; from then on the
//	      relay passes connections on to the real peer
//
// Oracle, per dialer: after the cut / after the peer has appeared, a connection arrives at the relay
// (stuck detector; the longest timer involved is the maximum reconnect time), after a cut not sooner
// than the reconnect time (exact lower bound: the relay's clock reading before it cut), it attaches on
// both sides and traffic flows in every direction the pattern has.
func runAged(c *mon.Case, sp spec) {
	R := time.Duration(sp.RMs) * time.Millisecond
	Max := time.Duration(sp.MaxMs) * time.Millisecond
	age := time.Duration(sp.AgeMs) * time.Millisecond
	type leg struct {
		*fleg
		mode  string
		where string
		dc    *mon.Call
		n0    int // late: connections seen when the peer appeared
	}
	protos := []string{"pair", "bus", "push", "req", "sub", "pull", "pub", "rep", "star", "surveyor", "respondent", "pair1",
		"xpair", "xsub", "xpull", "xreq", "xrep", "xbus"}
	var legs []*leg
	desc := ""
	for _, tr := range []string{"tcp", "ipc", "tls+tcp", "ws", "wss"} {
		l := &leg{mode: []string{"lost", "late"}[c.Rand.Intn(2)]}
		proto := protos[c.Rand.Intn(len(protos))]
		async := l.mode == "late" || c.Rand.Intn(2) == 0
		plan, dflt := "G", byte('G')
		if l.mode == "late" {
			plan, dflt = "", "CE"[c.Rand.Intn(2)]
		}
		l.fleg = newFleg(c, tr, proto, R, Max, async, plan, dflt)
		if l.fleg == nil {
			return
		}
		l.where = "aged/" + tr + "/" + l.mode
		desc += fmt.Sprintf("%s:%s:%s:%v ", tr, l.mode, proto, async)
		legs = append(legs, l)
	}
	c.Sig("aged|%d|%d|%d|%s", sp.RMs, sp.MaxMs, sp.AgeMs/1000, desc)
	c.Logf("legs: %s", desc)
	maxT := Max
	if maxT < R {
		maxT = R
	}
	// ---- youth ----
	for _, l := range legs {
		l := l
		l.dc = mon.Go("Dial", func() (interface{}, error) { return nil, l.d.Dial() })
		if !c.AwaitOrViolate("dial/dial-stuck:"+l.where, "Dial returning", l.dc.Done, mon.AwaitOpts{MaxTimer: maxT}) {
			return
		}
		if _, e, _ := l.dc.Result(); e != nil {
			c.Violate("dial/dial-error:"+l.where, "Dial (%s) to a reachable address returned %v", l.proto, e)
			return
		}
		if !c.AwaitOrViolate("dial/no-attempt:"+l.where, "the first connection attempt arriving at the peer's address", func() bool { return l.px.count() > 0 }, mon.AwaitOpts{MaxTimer: maxT}) {
			return
		}
		if l.mode == "lost" {
			if !c.AwaitOrViolate("dial/connected-pipe-not-attached:"+l.where, "the first connection attaching on both sides", func() bool { return l.sw.Attached() > 0 && l.bw.Attached() > 0 }, mon.AwaitOpts{MaxTimer: maxT}) {
				return
			}
			if !l.exchange(c, l.where+"/young") {
				return
			}
		}
	}
	// ---- ageing ----
	oldest := legs[0].created
	if rest := age - (mon.Now() - oldest); rest > 0 {
		mon.Sleep(rest)
	}
	// ---- everything happens now: the connections are cut, the absent peers appear ----
	for _, l := range legs {
		if l.mode == "lost" {
			if l.sw.Attached() != 1 || l.sw.Detached() != 0 || l.px.count() != 1 {
				// the idle connection did not last (nothing C14 says anything about): the history is not the one wanted
				c.Inconclusive("%s: the idle connection did not stay up (attached %d detached %d connections %d)", l.where, l.sw.Attached(), l.sw.Detached(), l.px.count())
				return
			}
			if !l.px.cut(c, 0, l.bw, 1) {
				return
			}
		} else {
			l.px.mu.Lock()
			l.px.dflt = 'G'
			l.n0 = len(l.px.conns)
			l.px.mu.Unlock()
			c.Count("aged_attempts_while_peer_absent", l.n0)
		}
	}
	for _, l := range legs {
		l := l
		ageNow := mon.Now() - l.created
		from := 1
		if l.mode == "late" {
			from = l.n0
		}
		tail := func() string {
			n := l.px.count()
			s := fmt.Sprintf("%d connections seen; last: ", n)
			for i := n - 4; i < n; i++ {
				if i >= 0 {
					fc := l.px.conn(i)
					s += fmt.Sprintf("[#%d %c accepted %v peer's last action %v] ", fc.ord, fc.act, fc.accepted, fc.acted)
				}
			}
			return s
		}
		what := "the connection of a dialer %v old was cut at %v"
		at := time.Duration(0)
		if l.mode == "lost" {
			at = l.px.conn(0).acted
		} else {
			what = "the peer of an asynchronous dialer %v old appeared at about %v"
			at = l.px.conn(l.n0 - 1).accepted
		}
		if !c.AwaitOrViolate("dial/no-further-attempt:"+l.where, fmt.Sprintf(what+" (%s, %s, reconnect time %v, maximum %v): a connection arriving at the peer's address", ageNow, at, l.proto, l.tr, R, Max),
			func() bool { return l.px.firstWith('G', from) >= 0 }, mon.AwaitOpts{MaxTimer: maxT}) {
			return
		}
		k := l.px.firstWith('G', from)
		if l.mode == "lost" {
			prev, cur := l.px.conn(0), l.px.conn(k)
			c.Count("gaps_checked", 1)
			if gap := cur.accepted - prev.acted; gap < R {
				c.Violate("dial/too-soon:"+l.where, "the next attempt reached the peer %v after the connection was cut (at %v); the reconnect time is %v. %s", gap, prev.acted, R, tail())
			}
		}
		nb := 0
		if l.mode == "lost" {
			nb = 1
		}
		if !c.AwaitOrViolate("dial/connected-pipe-not-attached:"+l.where, fmt.Sprintf("a connection relayed to the real peer attaching on both sides (%s)", tail()),
			func() bool { return l.sw.Attached() > nb && l.bw.Attached() > nb }, mon.AwaitOpts{MaxTimer: maxT}) {
			return
		}
		if !l.exchange(c, l.where) {
			return
		}
		if l.mode == "lost" {
			c.Count("aged_reconnects_after_loss", 1)
		} else {
			c.Count("aged_connects_after_late_peer", 1)
		}
		c.Count("aged_dialer_seconds", int(ageNow/time.Second))
		c.Count("aged_"+strings.ReplaceAll(l.tr, "+", "")+"_dialers", 1)
	}
	c.Nontrivial()
}
