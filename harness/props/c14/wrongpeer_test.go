//go:build verif

package c14

import (
	"crypto/tls"
	"fmt"
	"io"
	"log"
	"math/rand"
	"net"
	"net/http"
	"strings"
	"sync"
	"time"

	"go.nanomsg.org/mangos/v3"
	"go.nanomsg.org/mangos/v3/transport"

	"verifharness/hx"
	"verifharness/mon"
)

// wrongpeer: the dialer's address is served, one after the other, by peers that turn the dialer away
// in the ways a foreign or broken service does, and by the right peer.  The dialer dials through a
// logging wrapper around the real transport ("c14w+tcp://..." delegates to "tcp://..."), registered
// with the public transport.RegisterTransport: the harness sees every transport Dial the core dialer
// invokes, when it was invoked, when it returned and with which error.
//
//	W  a real listening socket of a protocol the dialer cannot talk to          (every transport, inproc too)
//	N  nobody listens at the address                                             (every transport)
//	Q  answers the SP handshake with an unknown protocol number, then hangs up   (ipc, tcp, tls+tcp)
//	V  answers the SP handshake with a non-zero SP version, then hangs up        (ipc, tcp, tls+tcp)
//	B  answers the SP handshake with eight bytes that are no SP header            (ipc, tcp, tls+tcp)
//	T  an HTTP(S) front end that answers the upgrade request with status Status  (ws, wss)
//	G  the right peer: the connection attaches, carries traffic, then the peer goes away (socket closed)
//
// The dialer is open throughout, so while a phase lasts attempts have to keep coming (two attempts
// invoked and returned within every phase that turns the dialer away, whatever error the transport
// reports), each not sooner than the reconnect time after the return of the one before or after the
// loss of the connection; in a G phase the dialer has to attach and carry traffic; after Close at most
// one attempt starts.

type wdial struct {
	start, end time.Duration
	err        error
	done       bool
}

type wlog struct {
	mu sync.Mutex
	a  []*wdial
}

func (l *wlog) snapshot() []wdial {
	l.mu.Lock()
	defer l.mu.Unlock()
	out := make([]wdial, len(l.a))
	for i, d := range l.a {
		out[i] = *d
	}
	return out
}

// endedSince: attempts invoked after t that have returned.
func (l *wlog) endedSince(t time.Duration) int {
	n := 0
	for _, d := range l.snapshot() {
		if d.start > t && d.done {
			n++
		}
	}
	return n
}

var wlogs sync.Map // inner address -> *wlog

type wtran struct{ inner string }

func (t wtran) Scheme() string { return "c14w+" + t.inner }
func (t wtran) NewListener(string, mangos.Socket) (transport.Listener, error) {
	return nil, mangos.ErrBadTran
}
func (t wtran) NewDialer(addr string, sock mangos.Socket) (transport.Dialer, error) {
	in := strings.TrimPrefix(addr, "c14w+")
	it := transport.GetTransport(t.inner)
	if it == nil || in == addr {
		return nil, mangos.ErrBadTran
	}
	d, err := it.NewDialer(in, sock)
	if err != nil {
		return nil, err
	}
	v, _ := wlogs.LoadOrStore(in, &wlog{})
	return &wdialer{Dialer: d, log: v.(*wlog)}, nil
}

type wdialer struct {
	transport.Dialer
	log *wlog
}

func (d *wdialer) Dial() (transport.Pipe, error) {
	rec := &wdial{}
	d.log.mu.Lock()
	rec.start = mon.Now()
	d.log.a = append(d.log.a, rec)
	d.log.mu.Unlock()
	p, err := d.Dialer.Dial()
	d.log.mu.Lock()
	rec.end, rec.err, rec.done = mon.Now(), err, true // before the core dialer arms its timer
	d.log.mu.Unlock()
	return p, err
}

var wpTrs = []string{"inproc", "ipc", "tcp", "tls+tcp", "ws", "wss"}

func init() {
	for _, tr := range wpTrs {
		transport.RegisterTransport(wtran{inner: tr})
	}
}

var wpStatus = []int{503, 404, 500, 400, 502, 403, 504, 200, 501, 426, 505, 429}

var wpName = map[byte]string{'W': "wrong-protocol-listener", 'N': "nobody-listening", 'Q': "unknown-protocol-number",
	'V': "bad-sp-version", 'B': "bad-header", 'T': "http-status", 'G': "right-peer"}

func wpAlphabet(tr string) string {
	switch tr {
	case "inproc":
		return "W"
	case "ws", "wss":
		return "WT"
	}
	return "WQVB"
}

func wrongPeerSpecs(rnd *rand.Rand, n int) []mon.CaseSpec {
	var out []mon.CaseSpec
	for i := 0; i < n; i++ {
		tr := wpTrs[i%len(wpTrs)]
		R := []int{3, 10, 20}[(i/6)%3]
		sp := spec{Kind: "wrongpeer", Tr: tr, Proto: hx.AllProtos[rnd.Intn(len(hx.AllProtos))], RMs: R, MaxMs: []int{0, R, 4 * R}[(i/18+i/6+i)%3],
			Async: rnd.Intn(3) != 0, Yield: rnd.Intn(2) == 0, Status: wpStatus[(i/12)%len(wpStatus)],
			End: []string{"sockclose-connected", "close-connected"}[rnd.Intn(2)]}
		al := wpAlphabet(tr)
		// the ways of turning the dialer away are taken in turn (per transport), the rest by the PRNG
		sp.Script = string(al[(i/6)%len(al)])
		for j := rnd.Intn(3); j > 0; j-- {
			ch := (al + "NG")[rnd.Intn(len(al)+2)]
			if rnd.Intn(2) == 0 {
				sp.Script = string(ch) + sp.Script
			} else {
				sp.Script += string(ch)
			}
		}
		sp.Script = strings.ReplaceAll(strings.ReplaceAll(sp.Script, "GGG", "G"), "GG", "G")
		if !sp.Async && sp.Script[0] != 'G' {
			sp.Script = "G" + sp.Script // a synchronous dialer retries only after its first success
		}
		if sp.Script[len(sp.Script)-1] != 'G' {
			sp.Script += "G"
		}
		out = append(out, mon.CaseSpec{Name: "wrongpeer/" + tr, Spec: sp})
	}
	return out
}

func wpErrClass(err error) string {
	switch err {
	case nil:
		return "connected"
	case mangos.ErrBadProto:
		return "ErrBadProto"
	case mangos.ErrBadVersion:
		return "ErrBadVersion"
	case mangos.ErrBadHeader:
		return "ErrBadHeader"
	case mangos.ErrConnRefused:
		return "ErrConnRefused"
	case mangos.ErrClosed:
		return "ErrClosed"
	case mangos.ErrTLSNoConfig, mangos.ErrTLSNoCert:
		return "ErrTLS"
	}
	return "other-error"
}

// rawPeer listens at the address and answers every connection with the eight bytes hdr, reads the
// dialer's header and hangs up.
func rawPeer(network, at string, tcfg *tls.Config, hdr []byte) (func(), error) {
	ln, err := net.Listen(network, at)
	if err != nil {
		return nil, err
	}
	if tcfg != nil {
		ln = tls.NewListener(ln, tcfg)
	}
	var mu sync.Mutex
	var conns []net.Conn
	go func() {
		for {
			cn, err := ln.Accept()
			if err != nil {
				return
			}
			mu.Lock()
			conns = append(conns, cn)
			mu.Unlock()
			go func() {
				cn.Write(hdr)
				var b [8]byte
				io.ReadFull(cn, b[:])
				cn.Close()
			}()
		}
	}()
	return func() {
		ln.Close()
		mu.Lock()
		for _, cn := range conns {
			cn.Close()
		}
		mu.Unlock()
	}, nil
}

// httpPeer is an HTTP(S) front end that answers every request with the given status.
func httpPeer(at string, tcfg *tls.Config, status int) (func(), error) {
	ln, err := net.Listen("tcp", at)
	if err != nil {
		return nil, err
	}
	if tcfg != nil {
		ln = tls.NewListener(ln, tcfg)
	}
	srv := &http.Server{ErrorLog: log.New(io.Discard, "", 0), Handler: http.HandlerFunc(func(w http.ResponseWriter, r *http.Request) {
		w.Header().Set("Connection", "close")
		http.Error(w, "backend unavailable", status)
	})}
	srv.SetKeepAlivesEnabled(false)
	go srv.Serve(ln)
	return func() { srv.Close() }, nil
}

func runWrongPeer(c *mon.Case, sp spec) {
	tr := sp.Tr
	R := time.Duration(sp.RMs) * time.Millisecond
	Max := time.Duration(sp.MaxMs) * time.Millisecond
	where := "wrongpeer/" + tr
	var lo map[string]interface{}
	do := map[string]interface{}{mangos.OptionReconnectTime: R, mangos.OptionMaxReconnectTime: Max, mangos.OptionDialAsynch: sp.Async}
	var srvTLS *tls.Config
	if hx.NeedsTLS(tr) {
		s, cl := hx.TLSConfigs()
		srvTLS = s
		lo = map[string]interface{}{mangos.OptionTLSConfig: s}
		do[mangos.OptionTLSConfig] = cl
	}
	// the address: fixed for the whole case
	addr := ownAddr(tr)
	network, nat, _ := "", "", ""
	if tr != "inproc" {
		network, nat, _ = netAddr(tr, addr)
		if network == "tcp" { // take a port number that is free now
			ln, err := net.Listen("tcp", nat)
			if err != nil {
				c.Inconclusive("setup: %v", err)
				return
			}
			port := ln.Addr().(*net.TCPAddr).Port
			ln.Close()
			addr = strings.Replace(addr, ":0", fmt.Sprintf(":%d", port), 1)
			_, nat, _ = netAddr(tr, addr)
		}
	}
	lg := &wlog{}
	wlogs.Store(addr, lg)
	c.Cleanup(func() { wlogs.Delete(addr) })

	g := &fleg{tr: tr, proto: sp.Proto, R: R, Max: Max}
	g.sock = hx.MustSock(c, sp.Proto)
	g.sw = hx.WatchPipes(g.sock)
	longWaits(g.sock, sp.Proto)
	d, err := g.sock.NewDialer("c14w+"+addr, do)
	if err != nil {
		c.Inconclusive("setup: NewDialer: %v", err)
		return
	}
	render := func() string {
		s := ""
		for i, a := range lg.snapshot() {
			if a.done {
				s += fmt.Sprintf("[#%d %v..%v %s] ", i, a.start, a.end, wpErrClass(a.err))
			} else {
				s += fmt.Sprintf("[#%d %v.. in flight] ", i, a.start)
			}
		}
		return s
	}
	// listenAt: a mangos socket listening at the address (the old endpoint may take a moment to be released)
	listenAt := func(s mangos.Socket) (mangos.Listener, error) {
		var l mangos.Listener
		var err error
		for try := 0; try < 40; try++ {
			if l, err = s.NewListener(addr, lo); err == nil {
				if err = l.Listen(); err == nil {
					return l, nil
				}
			}
			mon.Sleep(5 * time.Millisecond)
		}
		return nil, err
	}
	retry := func(f func() (func(), error)) (func(), error) {
		var stop func()
		var err error
		for try := 0; try < 40; try++ {
			if stop, err = f(); err == nil {
				return stop, nil
			}
			mon.Sleep(5 * time.Millisecond)
		}
		return nil, err
	}
	peerNo := g.sock.Info().Peer
	wrongProto := "pub"
	if hx.PeerOf[sp.Proto] == "pub" {
		wrongProto = "pull"
	}

	var dc *mon.Call
	var losses []time.Duration // times just before the right peer went away
	fails, nG := 0, 0
	prevName := "start"
	for i := 0; i < len(sp.Script); i++ {
		ch := sp.Script[i]
		name := wpName[ch]
		if ch == 'T' {
			name = fmt.Sprintf("http-status-%d", sp.Status)
		}
		var stop func()
		var err error
		var be mangos.Socket
		switch ch {
		case 'N':
			stop = func() {}
		case 'W':
			ws := hx.MustSock(c, wrongProto)
			var l mangos.Listener
			if l, err = listenAt(ws); err == nil {
				stop = func() { l.Close(); ws.Close() }
			}
		case 'Q', 'V', 'B':
			hdr := []byte{0, 'S', 'P', 0, byte(peerNo>>8) ^ 0x01, byte(peerNo), 0, 0}
			if ch == 'V' {
				hdr = []byte{0, 'S', 'P', byte(1 + c.Rand.Intn(255)), byte(peerNo >> 8), byte(peerNo), 0, 0}
			} else if ch == 'B' {
				hdr = []byte{0, 'X', 'Y', 0, byte(peerNo >> 8), byte(peerNo), 0, 0}
			}
			var tc *tls.Config
			if tr == "tls+tcp" {
				tc = srvTLS
			}
			stop, err = retry(func() (func(), error) { return rawPeer(network, nat, tc, hdr) })
		case 'T':
			var tc *tls.Config
			if tr == "wss" {
				tc = srvTLS
			}
			stop, err = retry(func() (func(), error) { return httpPeer(nat, tc, sp.Status) })
		case 'G':
			be = hx.MustSock(c, hx.PeerOf[sp.Proto])
			longWaits(be, hx.PeerOf[sp.Proto])
			g.be, g.bw = be, hx.WatchPipes(be)
			_, err = listenAt(be)
		}
		if err != nil {
			c.Inconclusive("setup: phase %d (%s) at %s: %v", i, name, addr, err)
			return
		}
		phaseStart := mon.Now()
		if dc == nil {
			dc = mon.Go("Dial", func() (interface{}, error) { return nil, d.Dial() })
			if sp.Async {
				if !c.AwaitOrViolate("dial/async-dial-stuck:"+where, "asynchronous Dial returning", dc.Done, mon.AwaitOpts{MaxTimer: R}) {
					return
				}
				if _, e, _ := dc.Result(); e != nil {
					c.Violate("dial/async-dial-error", "asynchronous Dial returned %v", e)
					return
				}
			}
		}
		maxT := R
		if Max > R {
			maxT = Max
		}
		sig := "dial/no-further-attempt:" + where + "/" + name
		if ch == 'G' {
			if !c.AwaitOrViolate(sig, fmt.Sprintf("the open dialer connecting to the right peer now listening at %s (script %s, phase %d, after %s; transport Dial calls so far: %s)", addr, sp.Script, i, prevName, render()),
				func() bool { return g.sw.Attached() > nG && g.bw.Attached() > 0 }, mon.AwaitOpts{MaxTimer: maxT}) {
				return
			}
			nG++
			fails = 0
			if !g.exchange(c, where) {
				return
			}
			c.Count("wrongpeer_reconnected_to_right_peer_after_"+prevName, 1)
			if i == len(sp.Script)-1 {
				break
			}
			if i == 0 && !sp.Async {
				if !c.AwaitOrViolate("dial/sync-dial-stuck", "synchronous Dial returning after its first success", dc.Done, mon.AwaitOpts{MaxTimer: R}) {
					return
				}
			}
			mon.Sleep(time.Duration(c.Rand.Intn(3000)) * time.Microsecond)
			lossAt := mon.Now()
			be.Close() // the right peer goes away, connections and all
			losses = append(losses, lossAt)
		} else {
			// two attempts invoked and returned while this peer (and nothing else) serves the address
			const k = 2
			if !c.AwaitOrViolate(sig, fmt.Sprintf("%d transport Dial calls being made and returning while the address %s is served by: %s (script %s, phase %d, after %s; the dialer is open; transport Dial calls so far: %s)", k, addr, name, sp.Script, i, prevName, render()),
				func() bool { return lg.endedSince(phaseStart) >= k }, mon.AwaitOpts{MaxTimer: maxT}) {
				return
			}
			for _, a := range lg.snapshot() {
				if a.start > phaseStart && a.done {
					fails++
					c.Count("wrongpeer_dial_"+name+"_"+wpErrClass(a.err), 1)
					if a.err == nil {
						c.Inconclusive("a transport Dial succeeded while the address was served by %s: %s", name, render())
						return
					}
				}
			}
			stop()
		}
		prevName = name
	}
	// (a) exact lower bounds: after a failed transport Dial the next one is invoked not sooner than R after
	// its return; after the loss of the connection (the dialer had no timer pending) not sooner than R after it
	log := lg.snapshot()
	for j := 1; j < len(log); j++ {
		prev := log[j-1]
		if !prev.done || prev.err == nil {
			continue
		}
		c.Count("gaps_checked", 1)
		if gap := log[j].start - prev.end; gap < R {
			c.Violate("dial/too-soon:"+where+"/after-"+wpErrClass(prev.err), "transport Dial #%d was invoked %v after Dial #%d had returned %v; the reconnect time is %v. %s", j, gap, j-1, prev.err, R, render())
		}
	}
	for _, lossAt := range losses {
		for _, a := range log {
			if a.start > lossAt {
				c.Count("gaps_checked", 1)
				if gap := a.start - lossAt; gap < R {
					c.Violate("dial/too-soon:"+where+"/after-peer-closed", "a transport Dial was invoked %v after the right peer was closed (at %v); the reconnect time is %v. %s", gap, lossAt, R, render())
				}
				break
			}
		}
	}
	// ---- Close while connected; no attempt afterwards (one that had passed its closed check may start) ----
	var k *mon.Call
	if strings.HasPrefix(sp.End, "close") {
		k = mon.Go("Dialer.Close", func() (interface{}, error) { return nil, d.Close() })
	} else {
		k = mon.Go("Socket.Close", func() (interface{}, error) { return nil, g.sock.Close() })
	}
	if !c.AwaitOrViolate("dial/close-blocks:"+sp.End+"/"+where, "Close returning ("+sp.End+")", k.Done, mon.AwaitOpts{MaxTimer: R}) {
		return
	}
	closedAt := mon.Now()
	if sp.End == "close-connected" {
		g.be.Close() // closing only the dialer leaves its connection alone; losing it later must not trigger a redial
	}
	mon.Sleep(backoffCap(R, Max, 2)*12/10 + 30*time.Millisecond)
	after := 0
	for _, a := range lg.snapshot() {
		if a.start > closedAt {
			after++
		}
	}
	c.Count("attempts", len(lg.snapshot()))
	if after > 1 {
		c.Violate("dial/attempt-after-close:"+sp.End+"/"+where, "%d transport Dial calls were invoked after Close had returned at %v: %s", after, closedAt, render())
	}
	c.Nontrivial()
}
