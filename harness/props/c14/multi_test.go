package c14

import (
	"fmt"
	"math/rand"
	"sync"
	"time"

	"go.nanomsg.org/mangos/v3"

	"verifharness/hx"
	"verifharness/mon"
	"verifharness/vt"
)

// multi: one socket that owns several dialers (2-4, each with its own virtual-transport endpoint).
// spec.Script has one letter per dialer, in creation order: what the dialer is doing when the
// socket is closed —
//   r  its peer refuses every attempt (the redial timer is pending or an attempt is being made)
//   c  it is connected
//   h  its transport Dial hangs (released with a refusal after the Close)
// The upper-case letter is the dialer the application closes with Dialer.Close first.  After that
// the other dialers have to carry on (a refused one keeps trying, a connected one that loses its
// connection makes a new one that carries traffic); then the socket is closed, and from then on
// none of its dialers may start a connection attempt (one that had passed its closed check may).
// With a synchronous dialer (Async false) every dialer first connects at once and, except in
// state c, then loses that connection.

var multiProtos = []string{"bus", "pair", "push", "sub", "req", "xbus", "pub", "pull", "pair1", "xsub", "xpub", "xpull", "rep", "surveyor"}

// multiExchange: protocols where a message can be pinned to one of several connections (the socket
// sends on all of them, or only receives).
func multiExchange(proto string) bool {
	switch proto {
	case "bus", "xbus", "pub", "xpub", "sub", "xsub", "pull", "xpull":
		return true
	}
	return false
}

func multiSpecs(rnd *rand.Rand, n int) []mon.CaseSpec {
	var out []mon.CaseSpec
	for i := 0; i < n; i++ {
		R := []int{5, 10, 20}[i%3]
		sp := spec{Kind: "multi", Proto: multiProtos[(i+i/len(multiProtos))%len(multiProtos)], RMs: R, MaxMs: []int{R, 0, 4 * R}[(i/3)%3],
			Async: rnd.Intn(4) != 0, Yield: rnd.Intn(2) == 0}
		if sp.Proto == "pair" || sp.Proto == "pair1" {
			sp.Async = true // (a synchronous dialer connects first: PAIR keeps one connection only)
		}
		nd := 2 + rnd.Intn(3)
		victim := rnd.Intn(nd)
		if rnd.Intn(3) != 0 {
			victim = rnd.Intn(nd - 1) // mostly one that has later-created dialers after it
		}
		b := make([]byte, nd)
		for j := range b {
			b[j] = "rrch"[rnd.Intn(4)]
			if b[j] == 'c' && (sp.Proto == "pair" || sp.Proto == "pair1") {
				b[j] = 'r' // PAIR keeps one connection only
			}
			if j == victim {
				b[j] -= 'a' - 'A'
			}
		}
		sp.Script = string(b)
		out = append(out, mon.CaseSpec{Name: "multi", Spec: sp})
	}
	return out
}

type mdial struct {
	i        int
	vd       *vt.DialerCtl
	d        mangos.Dialer
	st       byte
	victim   bool
	closedAt time.Duration
}

func runMulti(c *mon.Case, sp spec) {
	R := time.Duration(sp.RMs) * time.Millisecond
	Max := time.Duration(sp.MaxMs) * time.Millisecond
	longest := R // the longest delay a dialer of this case can arm
	if Max > R {
		longest = Max
	}
	sock := hx.MustSock(c, sp.Proto)
	if sp.Proto == "sub" {
		sock.SetOption(mangos.OptionSubscribe, []byte{})
	}
	var mu sync.Mutex
	att := 0
	sock.SetPipeEventHook(func(ev mangos.PipeEvent, p mangos.Pipe) {
		if ev == mangos.PipeEventAttached {
			mu.Lock()
			att++
			mu.Unlock()
		}
	})
	attached := func() int { mu.Lock(); defer mu.Unlock(); return att }
	g := &rig{c: c, sock: sock, proto: sp.Proto, R: R, Max: Max} // for exchange()

	refuse := vt.Outcome{Kind: vt.Refuse}
	var ds []*mdial
	for i := 0; i < len(sp.Script); i++ {
		m := &mdial{i: i, st: sp.Script[i]}
		if m.st < 'a' {
			m.victim = true
			m.st += 'a' - 'A'
		}
		name := hx.Uniq("c14m")
		m.vd = vt.D(name)
		c.Cleanup(func() { vt.Forget(name) })
		var outs []vt.Outcome
		if sp.Async {
			outs = append(outs, refuse)
			switch m.st {
			case 'c':
				outs = append(outs, vt.Outcome{Kind: vt.Succeed})
			case 'h':
				outs = append(outs, vt.Outcome{Kind: vt.Hang})
			}
		} else {
			outs = append(outs, vt.Outcome{Kind: vt.Succeed})
			if m.st == 'h' {
				outs = append(outs, vt.Outcome{Kind: vt.Hang})
			}
		}
		m.vd.Script(outs...)
		m.vd.SetDefault(refuse)
		d, err := sock.NewDialer(vt.Addr(name), map[string]interface{}{
			mangos.OptionReconnectTime: R, mangos.OptionMaxReconnectTime: Max, mangos.OptionDialAsynch: sp.Async})
		if err != nil {
			c.Inconclusive("setup: NewDialer: %v", err)
			return
		}
		m.d = d
		ds = append(ds, m)
	}
	// Whatever the verdict, no virtual endpoint is left being dialled in a loop when the case ends: a
	// dialer that (wrongly) goes on parks in its next transport Dial.
	defer func() {
		for _, m := range ds {
			m.vd.SetDefault(vt.Outcome{Kind: vt.Hang})
		}
	}()
	who := func(m *mdial) string {
		return fmt.Sprintf("dialer %d of %d (state %c)", m.i+1, len(ds), m.st)
	}
	awaitAttempts := func(m *mdial, n int, why string) bool {
		return c.AwaitOrViolate("dial/no-further-attempt:"+why, fmt.Sprintf("%s starting connection attempt #%d (%s)", who(m), n, why),
			func() bool { return m.vd.Attempts() > n }, mon.AwaitOpts{MaxTimer: longest})
	}
	wantAtt := 0
	awaitPipe := func(m *mdial, k int) *vt.Pipe {
		wantAtt++
		w := wantAtt
		ok := c.AwaitOrViolate("dial/connected-pipe-not-attached", fmt.Sprintf("connection #%d of %s attaching", k, who(m)), func() bool {
			ps := m.vd.Pipes()
			if len(ps) <= k {
				return false
			}
			rw, _ := ps[k].Waiters()
			return rw > 0 && attached() >= w
		}, mon.AwaitOpts{MaxTimer: longest})
		if !ok {
			return nil
		}
		return m.vd.Pipes()[k]
	}
	tooSoon := func(m *mdial, n int, since time.Duration, what string) {
		gap := m.vd.Log()[n].Start - since
		c.Count("gaps_checked", 1)
		if gap < R {
			c.Violate("dial/too-soon:after-"+what, "%s: attempt #%d started %v after the %s that preceded it (at %v); the reconnect time is %v. log: %s", who(m), n, gap, what, since, R, renderLog(m.vd.Log()))
		}
	}

	// ---- start them, one after the other, and bring each to its state ----
	for _, m := range ds {
		m := m
		k := mon.Go("Dial", func() (interface{}, error) { return nil, m.d.Dial() })
		if !c.AwaitOrViolate("dial/dial-stuck:multi", "Dial of "+who(m)+" returning", k.Done, mon.AwaitOpts{MaxTimer: longest}) {
			return
		}
		if _, e, _ := k.Result(); e != nil {
			c.Violate("dial/dial-error:multi", "Dial of %s returned %v", who(m), e)
			return
		}
		if sp.Async {
			if !awaitAttempts(m, 1, "multi-after-refusal") {
				return
			}
			tooSoon(m, 1, m.vd.Log()[0].End, "refused attempt")
			switch m.st {
			case 'r':
				if !awaitAttempts(m, 2, "multi-after-refusal") {
					return
				}
			case 'c':
				if awaitPipe(m, 0) == nil {
					return
				}
			}
			continue
		}
		p := awaitPipe(m, 0)
		if p == nil {
			return
		}
		if m.st == 'c' {
			continue
		}
		t := p.Drop()
		if !awaitAttempts(m, 1, "multi-after-first-success-lost") {
			return
		}
		tooSoon(m, 1, t, "peer drop")
		if m.st == 'r' && !awaitAttempts(m, 2, "multi-after-refusal") {
			return
		}
	}

	// ---- the application closes one of them ----
	var v *mdial
	for _, m := range ds {
		if m.victim {
			v = m
		}
	}
	k := mon.Go("Dialer.Close", func() (interface{}, error) { return nil, v.d.Close() })
	if !c.AwaitOrViolate("dial/close-blocks:multi-dialer-close", "Dialer.Close of "+who(v)+" returning", k.Done, mon.AwaitOpts{MaxTimer: longest}) {
		return
	}
	if _, e, _ := k.Result(); e != nil {
		c.Violate("dial/dialer-close-error:multi", "Dialer.Close of %s returned %v", who(v), e)
		return
	}
	v.closedAt = mon.Now()
	switch v.st {
	case 'h':
		v.vd.Release(refuse)
	case 'c':
		v.vd.LastPipe().Drop() // its connection outlives it; losing that later must not trigger a redial
	}

	// ---- the others carry on ----
	for _, m := range ds {
		if m.victim {
			continue
		}
		switch m.st {
		case 'r':
			if !awaitAttempts(m, m.vd.Attempts(), "multi-another-dialer-closed") {
				return
			}
			c.Count("multi_other_dialers_still_trying", 1)
		case 'c':
			m.vd.Script(vt.Outcome{Kind: vt.Succeed})
			n := m.vd.Attempts()
			np := len(m.vd.Pipes())
			t := m.vd.LastPipe().Drop()
			if !awaitAttempts(m, n, "multi-another-dialer-closed") {
				return
			}
			tooSoon(m, n, t, "peer drop")
			p := awaitPipe(m, np)
			if p == nil {
				return
			}
			if multiExchange(sp.Proto) && !exchange(c, g, p) {
				return
			}
			c.Count("multi_other_dialers_reconnected", 1)
		}
	}

	// ---- the socket is closed ----
	k = mon.Go("Socket.Close", func() (interface{}, error) { return nil, sock.Close() })
	if !c.AwaitOrViolate("dial/close-blocks:multi-sockclose", "Socket.Close returning (socket with "+fmt.Sprint(len(ds))+" dialers, one of them closed before)", k.Done, mon.AwaitOpts{MaxTimer: longest}) {
		return
	}
	closedAt := mon.Now()
	for _, m := range ds {
		if !m.victim {
			m.closedAt = closedAt
			if m.st == 'h' {
				m.vd.Release(refuse)
			}
		}
	}
	// no new attempt after Close; per dialer one attempt that had already passed its closed check may
	// still start.  A dialer that goes on makes an attempt every `longest` at most.
	mon.Sleep(6*longest + 30*time.Millisecond)
	total := 0
	for _, m := range ds {
		after := 0
		log := m.vd.Log()
		for _, a := range log {
			if a.Start > m.closedAt {
				after++
			}
		}
		total += after
		if after <= 1 {
			continue
		}
		switch {
		case m.victim:
			c.Violate("dial/attempt-after-close:multi-dialer-close", "%s was closed with Dialer.Close (returned at %v) and started %d connection attempts after that: %s", who(m), m.closedAt, after, renderLog(log))
		case m.i > v.i:
			c.Violate("dial/attempt-after-close:multi-sockclose:dialer-created-after-a-closed-one", "socket with %d dialers (%s): dialer %d was closed by the application, then the socket (Close returned at %v); %s started %d connection attempts after that: %s", len(ds), sp.Script, v.i+1, closedAt, who(m), after, renderLog(log))
		default:
			c.Violate("dial/attempt-after-close:multi-sockclose:dialer-created-before-a-closed-one", "socket with %d dialers (%s): dialer %d was closed by the application, then the socket (Close returned at %v); %s started %d connection attempts after that: %s", len(ds), sp.Script, v.i+1, closedAt, who(m), after, renderLog(log))
		}
	}
	c.Count("multi_dialers", len(ds))
	c.Count("multi_attempts_started_after_close", total)
	c.Nontrivial()
}
