package c14

import (
	"bytes"
	"fmt"
	"sync"
	"testing"
	"time"

	"go.nanomsg.org/mangos/v3"

	"verifharness/hx"
	"verifharness/mon"
	"verifharness/vt"
)

// C14 — dialers reconnect after loss, back off as configured, stop when closed.

func TestMain(m *testing.M) { hx.Main(m) }

type spec struct {
	Kind   string `json:"kind"` // mix | cap | nogrowth | reset | syncfail | pairbusy | capfine | realrestart | flakypeer | aged | multi | wrongpeer | midsend
	Proto  string `json:"proto"`
	RMs    int    `json:"reconnect_ms"`
	MaxMs  int    `json:"max_ms"`
	Async  bool   `json:"async"`
	Script string `json:"script,omitempty"` // R refuse, S succeed then drop, J hook rejects in Attaching, X peer drops at once
	End    string `json:"end,omitempty"`    // close-idle | close-inflight | close-timer | close-connected | sockclose-*
	Yield  bool   `json:"yield,omitempty"`
	Tr     string `json:"tr,omitempty"`     // flakypeer: transport
	AgeMs  int    `json:"age_ms,omitempty"` // aged: how old the dialers are when they have to connect again
	Status int    `json:"status,omitempty"` // wrongpeer: what the HTTP front end of a T phase answers
	Ctx    bool   `json:"ctx,omitempty"`    // midsend, REQ: the requests are made on a context opened on the socket
}

// mixProtos: the protocol of the dialling socket in the scripted cases.  Half of the cases keep the
// two-way patterns; the others take a one-way pattern in either role, cooked or raw: a socket that
// only ever receives learns of a loss from its receive side alone, one that only sends never reads
// anything but the end of the connection.
var mixProtos = []string{"pair", "bus", "pair", "bus", "pair", "bus", "pair1", "xpair", "xbus",
	"sub", "pull", "push", "pub", "sub", "pull", "xsub", "xpull", "xpush", "xpub"}

func recvOnly(proto string) bool {
	switch proto {
	case "sub", "xsub", "pull", "xpull":
		return true
	}
	return false
}

func sendOnly(proto string) bool {
	switch proto {
	case "pub", "xpub", "push", "xpush":
		return true
	}
	return false
}

func TestC14(t *testing.T) {
	r := mon.NewRunner(t, "C14")
	rnd := r.Rand()
	var cases []mon.CaseSpec
	ends := []string{"close-inflight", "close-timer", "close-connected", "sockclose-inflight", "sockclose-timer", "sockclose-connected"}
	rs := []int{5, 20, 40}
	n := r.Pick(240, 12000)
	for i := 0; i < n; i++ {
		R := rs[i%3]
		maxs := []int{0, R, 2 * R, 8 * R}
		sp := spec{Kind: "mix", Proto: mixProtos[rnd.Intn(len(mixProtos))], RMs: R, MaxMs: maxs[(i/3)%4], Async: rnd.Intn(2) == 0,
			End: ends[(i/12)%len(ends)], Yield: rnd.Intn(2) == 0}
		l := 4 + rnd.Intn(8)
		for j := 0; j < l; j++ {
			sp.Script += string("RRSJX"[rnd.Intn(5)])
		}
		if !sp.Async {
			sp.Script = "S" + sp.Script // a synchronous dialer retries only after its first success
		}
		cases = append(cases, mon.CaseSpec{Name: "mix/" + sp.End, Spec: sp})
	}
	for i := 0; i < r.Pick(8, 200); i++ {
		cases = append(cases, mon.CaseSpec{Name: "cap", Spec: spec{Kind: "cap", Proto: "pair", RMs: 20, MaxMs: 40, Async: true}})
		cases = append(cases, mon.CaseSpec{Name: "nogrowth", Spec: spec{Kind: "nogrowth", Proto: "pair", RMs: 20, MaxMs: 0, Async: true}})
		cases = append(cases, mon.CaseSpec{Name: "reset", Spec: spec{Kind: "reset", Proto: "pair", RMs: 5, MaxMs: 2000, Async: true}})
		cases = append(cases, mon.CaseSpec{Name: "syncfail", Spec: spec{Kind: "syncfail", Proto: "pair", RMs: 10, MaxMs: 0, Async: false}})
		cases = append(cases, mon.CaseSpec{Name: "pairbusy", Spec: spec{Kind: "pairbusy", Proto: []string{"pair", "pair1"}[i%2], RMs: []int{5, 20}[i%2], MaxMs: []int{0, 40}[(i/2)%2], Async: true}})
		cases = append(cases, mon.CaseSpec{Name: "capfine", Spec: spec{Kind: "capfine", Proto: "pair", RMs: 300, MaxMs: 1200, Async: true}})
	}
	for i := 0; i < r.Pick(6, 120); i++ {
		cases = append(cases, mon.CaseSpec{Name: "realrestart", Spec: spec{Kind: "realrestart", Proto: "push", RMs: []int{3, 10}[(i/3)%2], Async: true, Script: []string{"inproc", "ipc", "tcp"}[i%3]}})
	}
	// flakypeer (flaky_test.go): real transports, the harness holds the peer's address and decides per
	// connection how its establishment fails after the transport connected; Script letters see there.
	ftrs := []string{"tcp", "ipc", "tls+tcp", "ws", "wss"}
	flakySpec := func(tr, proto string, R, max int, end, alphabet string, lmin, lvar int) spec {
		sp := spec{Kind: "flakypeer", Tr: tr, Proto: proto, RMs: R, MaxMs: max,
			Async: rnd.Intn(3) != 0, End: end, Yield: rnd.Intn(2) == 0}
		l := lmin + rnd.Intn(lvar)
		for j := 0; j < l; j++ {
			sp.Script += string(alphabet[rnd.Intn(len(alphabet))])
		}
		if !sp.Async {
			sp.Script = "G" + sp.Script // a synchronous dialer retries only after its first success
		}
		switch sp.End {
		case "close-inflight", "sockclose-inflight":
			sp.Script += "H"
		case "close-timer", "sockclose-timer":
			sp.Script += string("CEPBW"[rnd.Intn(5)])
		default:
			sp.Script += "G"
		}
		return sp
	}
	for i := 0; i < r.Pick(40, 1500); i++ {
		R := []int{3, 10, 20}[(i/5)%3]
		sp := flakySpec(ftrs[i%5], []string{"pair", "bus", "push", "req"}[rnd.Intn(4)], R, []int{0, R, 4 * R}[(i/15)%3], ends[i%len(ends)], "CEEPBWG", 2, 4)
		cases = append(cases, mon.CaseSpec{Name: "flakypeer/" + sp.Tr + "/" + sp.End, Spec: sp})
	}
	// protoloss: the same relay, every protocol (cooked and raw) in the dialler's role in turn, scripts
	// made mostly of connections that reach the real peer, carry traffic in the directions the pattern
	// has and are then lost: whichever way the protocol learns of the loss, the dialer has to hear of it.
	var ploss []mon.CaseSpec
	for i := 0; i < r.Pick(len(hx.AllProtos), 20*len(hx.AllProtos)); i++ {
		np := len(hx.AllProtos)
		R := []int{3, 10, 20}[(i/np+i)%3]
		sp := flakySpec(ftrs[(i+2*(i/np))%5], hx.AllProtos[i%np], R, []int{0, R, 4 * R}[(i/np+i/3)%3], ends[(i/np+i)%len(ends)], "GGGGCEW", 2, 3)
		ploss = append(ploss, mon.CaseSpec{Name: "protoloss/" + sp.Proto + "/" + sp.Tr + "/" + sp.End, Spec: sp})
	}
	// aged (aged_test.go): dialers over every stream transport at once that have to connect again when
	// they are AgeMs old.  These cases are long and the capfine cases (also long) all have odd indices:
	// the aged ones are put at even indices (cases are dealt to the child processes by index), with
	// protoloss cases in between.
	ages := []int{6000, 8000, 11000, 14000}
	if r.Thorough() {
		ages = []int{6000, 8000, 11000, 14000, 21000, 32000, 45000, 62000, 91000, 125000}
	}
	for i := 0; i < r.Pick(4, 30); i++ {
		if len(cases)%2 == 1 && len(ploss) > 0 {
			cases = append(cases, ploss[0])
			ploss = ploss[1:]
		}
		R := []int{10, 20, 40}[i%3]
		if ages[i%len(ages)] >= 30000 {
			R *= 5 // (keeps the number of attempts made while a peer is absent in the hundreds)
		}
		sp := spec{Kind: "aged", Proto: "any", RMs: R, MaxMs: []int{4 * R, 0, R}[(i/3)%3], Async: true, AgeMs: ages[i%len(ages)] + rnd.Intn(1000), Yield: rnd.Intn(4) == 0}
		cases = append(cases, mon.CaseSpec{Name: "aged", Spec: sp})
	}
	cases = append(cases, ploss...)
	// multi (multi_test.go): a socket that owns several dialers, one of which the application closes
	// before it closes the socket.  Appended last: the indices of the cases above do not depend on it.
	cases = append(cases, multiSpecs(rnd, r.Pick(30, 900))...)
	// wrongpeer (wrongpeer_test.go): the address is served in turn by peers that turn the dialer away
	// (wrong protocol, bad SP version, HTTP error status ...) and by the right peer; real transports and inproc.
	cases = append(cases, wrongPeerSpecs(rnd, r.Pick(36, 1200))...)
	// midsend (midsend_test.go): the connection is lost while the transport write of a message is in
	// progress.  Appended last: the indices of the cases above do not depend on it.
	cases = append(cases, midsendSpecs(rnd, r.Pick(54, 1800))...)
	r.Run(cases, func(c *mon.Case) {
		sp := c.Spec.(spec)
		if sp.Kind == "flakypeer" {
			if sp.Yield {
				hx.SetYields(c.Rand.Int63(), &hx.YieldCfg{ProbGosched: 0.25, ProbSleep: 0.15, MaxSleep: 300 * time.Microsecond})
				defer hx.SetYields(0, nil)
			}
			runFlaky(c, sp)
			c.Sig("flakypeer|%s|%s|%d|%d|%v|%s|%s", sp.Tr, sp.Proto, sp.RMs, sp.MaxMs, sp.Async, sp.Script, sp.End)
			return
		}
		if sp.Kind == "aged" {
			if sp.Yield {
				hx.SetYields(c.Rand.Int63(), &hx.YieldCfg{ProbGosched: 0.25, ProbSleep: 0.15, MaxSleep: 300 * time.Microsecond})
				defer hx.SetYields(0, nil)
			}
			runAged(c, sp)
			return
		}
		if sp.Kind == "multi" {
			if sp.Yield {
				hx.SetYields(c.Rand.Int63(), &hx.YieldCfg{ProbGosched: 0.25, ProbSleep: 0.15, MaxSleep: 300 * time.Microsecond})
				defer hx.SetYields(0, nil)
			}
			runMulti(c, sp)
			c.Sig("multi|%s|%d|%d|%v|%s", sp.Proto, sp.RMs, sp.MaxMs, sp.Async, sp.Script)
			return
		}
		if sp.Kind == "wrongpeer" {
			if sp.Yield {
				hx.SetYields(c.Rand.Int63(), &hx.YieldCfg{ProbGosched: 0.25, ProbSleep: 0.15, MaxSleep: 300 * time.Microsecond})
				defer hx.SetYields(0, nil)
			}
			runWrongPeer(c, sp)
			c.Sig("wrongpeer|%s|%s|%d|%d|%v|%s|%d|%s", sp.Tr, sp.Proto, sp.RMs, sp.MaxMs, sp.Async, sp.Script, sp.Status, sp.End)
			return
		}
		if sp.Kind == "midsend" {
			if sp.Yield {
				hx.SetYields(c.Rand.Int63(), &hx.YieldCfg{ProbGosched: 0.25, ProbSleep: 0.15, MaxSleep: 300 * time.Microsecond})
				defer hx.SetYields(0, nil)
			}
			runMidSend(c, sp)
			return
		}
		if sp.Kind == "realrestart" {
			runRealRestart(c, sp)
			c.Sig("realrestart|%s|%d", sp.Script, sp.RMs)
			return
		}
		if sp.Yield {
			hx.SetYields(c.Rand.Int63(), &hx.YieldCfg{ProbGosched: 0.25, ProbSleep: 0.15, MaxSleep: 300 * time.Microsecond})
			defer hx.SetYields(0, nil)
		}
		run(c, sp)
	})
}

type rig struct {
	c       *mon.Case
	sock    mangos.Socket
	d       mangos.Dialer
	vd      *vt.DialerCtl
	R, Max  time.Duration
	proto   string
	mu      sync.Mutex
	rejPlan map[int]bool          // ordinals (among successful transport dials) the hook rejects in Attaching
	nAttach int                   // Attaching events seen so far
	rejAt   map[int]time.Duration // ordinal -> time just before the rejection
	att     int
	det     int
}

func newRig(c *mon.Case, sp spec) *rig {
	g := &rig{c: c, proto: sp.Proto, R: time.Duration(sp.RMs) * time.Millisecond, Max: time.Duration(sp.MaxMs) * time.Millisecond,
		rejPlan: map[int]bool{}, rejAt: map[int]time.Duration{}}
	// the hook decides from the script, by ordinal of the connection: a dialer that reconnects by
	// itself within a few milliseconds cannot outrun the script
	ord := 0
	for _, ch := range sp.Script {
		if ch == 'J' {
			g.rejPlan[ord] = true
		}
		if ch != 'R' {
			ord++
		}
	}
	g.sock = hx.MustSock(c, sp.Proto)
	if sp.Proto == "sub" {
		g.sock.SetOption(mangos.OptionSubscribe, []byte{})
	}
	name := hx.Uniq("c14")
	g.vd = vt.D(name)
	c.Cleanup(func() { vt.Forget(name) })
	g.sock.SetPipeEventHook(func(ev mangos.PipeEvent, p mangos.Pipe) {
		g.mu.Lock()
		switch ev {
		case mangos.PipeEventAttaching:
			ord := g.nAttach
			g.nAttach++
			if g.rejPlan[ord] {
				g.rejAt[ord] = mon.Now()
				g.mu.Unlock()
				p.Close()
				return
			}
		case mangos.PipeEventAttached:
			g.att++
		case mangos.PipeEventDetached:
			g.det++
		}
		g.mu.Unlock()
	})
	d, err := g.sock.NewDialer(vt.Addr(name), map[string]interface{}{
		mangos.OptionReconnectTime: g.R, mangos.OptionMaxReconnectTime: g.Max, mangos.OptionDialAsynch: sp.Async})
	if err != nil {
		panic(err)
	}
	g.d = d
	return g
}

func (g *rig) attached() int { g.mu.Lock(); defer g.mu.Unlock(); return g.att }
func (g *rig) detached() int { g.mu.Lock(); defer g.mu.Unlock(); return g.det }

// capNow is an upper bound of the delay the dialer may currently be using.
func (g *rig) capAfter(fails int) time.Duration {
	if g.Max == 0 {
		return g.R
	}
	d := float64(g.R)
	for i := 0; i < fails; i++ {
		d *= 1.5
		if time.Duration(d) > g.Max {
			return g.Max
		}
	}
	if time.Duration(d) > g.Max {
		return g.Max
	}
	return time.Duration(d)
}

// awaitAttempt waits until attempt number n (0-based) has started.
func (g *rig) awaitAttempt(n int, maxT time.Duration, why string) bool {
	return g.c.AwaitOrViolate("dial/no-further-attempt:"+why, fmt.Sprintf("connection attempt #%d being started (%s)", n, why), func() bool { return g.vd.Attempts() > n }, mon.AwaitOpts{MaxTimer: maxT})
}

func run(c *mon.Case, sp spec) {
	g := newRig(c, sp)
	switch sp.Kind {
	case "mix":
		runMix(c, sp, g)
	case "cap", "nogrowth":
		runBound(c, sp, g)
	case "reset":
		runReset(c, sp, g)
	case "syncfail":
		runSyncFail(c, sp, g)
	case "pairbusy":
		runPairBusy(c, sp, g)
	case "capfine":
		runCapFine(c, sp, g)
	}
	c.Sig("%s|%s|%d|%d|%v|%s|%s", sp.Kind, sp.Proto, sp.RMs, sp.MaxMs, sp.Async, sp.Script, sp.End)
}

// lowerBounds checks (a): every attempt starts at least the reconnect time after the
// event that armed its timer (return of the previous attempt, peer drop, hook rejection).
func (g *rig) lowerBounds(lbs map[int]time.Duration, kind map[int]string) {
	log := g.vd.Log()
	for i := 1; i < len(log); i++ {
		lb, ok := lbs[i]
		if !ok {
			continue
		}
		gap := log[i].Start - lb
		g.c.Count("gaps_checked", 1)
		if gap < g.R {
			g.c.Violate("dial/too-soon:after-"+kind[i], "attempt #%d started %v after the %s that preceded it (at %v); the reconnect time is %v. log: %s", i, gap, kind[i], lb, g.R, renderLog(log))
		}
	}
}

func renderLog(l []vt.DialRec) string {
	s := ""
	for _, a := range l {
		s += fmt.Sprintf("[#%d %v..%v k=%d] ", a.Seq, a.Start, a.End, a.Kind)
	}
	return s
}

func runMix(c *mon.Case, sp spec, g *rig) {
	// script the transport outcomes up front
	var outs []vt.Outcome
	for _, ch := range sp.Script {
		switch ch {
		case 'R':
			outs = append(outs, vt.Outcome{Kind: vt.Refuse})
		case 'X':
			outs = append(outs, vt.Outcome{Kind: vt.SucceedDrop})
		default:
			outs = append(outs, vt.Outcome{Kind: vt.Succeed})
		}
	}
	inflight := sp.End == "close-inflight" || sp.End == "sockclose-inflight"
	timerEnd := sp.End == "close-timer" || sp.End == "sockclose-timer"
	switch {
	case inflight:
		outs = append(outs, vt.Outcome{Kind: vt.Hang})
	case timerEnd:
		outs = append(outs, vt.Outcome{Kind: vt.Refuse})
	default:
		outs = append(outs, vt.Outcome{Kind: vt.Succeed})
	}
	g.vd.Script(outs...)
	g.vd.SetDefault(vt.Outcome{Kind: vt.Refuse})
	// count J's so that the hook rejects exactly those pipes, in order
	lbs := map[int]time.Duration{}
	kinds := map[int]string{}
	dc := mon.Go("Dial", func() (interface{}, error) { return nil, g.d.Dial() })
	fails := 0
	succ := 0 // number of successful transport dials so far (== index into vd.Pipes())
	for i, ch := range sp.Script {
		maxT := g.capAfter(fails + 1)
		if !g.awaitAttempt(i, maxT, "script step "+string(ch)) {
			return
		}
		// wait for the attempt to finish
		if !c.AwaitOrViolate("harness:attempt-not-finished", "scripted attempt returning", func() bool { l := g.vd.Log(); return l[i].End != 0 }, mon.AwaitOpts{MaxTimer: maxT}) {
			return
		}
		rec := g.vd.Log()[i]
		switch ch {
		case 'R':
			lbs[i+1], kinds[i+1] = rec.End, "refused attempt"
			fails++
		case 'X':
			lbs[i+1], kinds[i+1] = rec.End, "connection the peer dropped at once"
			succ++
			fails = 0
		case 'J':
			o := succ
			if !c.AwaitOrViolate("harness:reject-not-seen", "hook rejecting the pipe", func() bool { g.mu.Lock(); defer g.mu.Unlock(); _, ok := g.rejAt[o]; return ok }, mon.AwaitOpts{MaxTimer: maxT}) {
				return
			}
			g.mu.Lock()
			lbs[i+1], kinds[i+1] = g.rejAt[o], "hook rejection"
			g.mu.Unlock()
			succ++
		case 'S':
			p := g.vd.Pipes()[succ]
			// attached and known to the protocol: its receiver is parked in the transport
			if !c.AwaitOrViolate("dial/connected-pipe-not-attached", "pipe of a successful dial attaching", func() bool { rw, _ := p.Waiters(); return rw > 0 && g.attached() > 0 }, mon.AwaitOpts{MaxTimer: maxT}) {
				return
			}
			succ++
			fails = 0
			// (f) traffic resumes on the new connection without application action
			if !exchange(c, g, p) {
				return
			}
			mon.Sleep(time.Duration(c.Rand.Intn(3000)) * time.Microsecond)
			t := p.Drop()
			lbs[i+1], kinds[i+1] = t, "peer drop"
		}
	}
	if !sp.Async {
		// the synchronous Dial returned after its first (successful) attempt
		if !c.AwaitOrViolate("dial/sync-dial-stuck", "synchronous Dial returning after its first success", dc.Done, mon.AwaitOpts{MaxTimer: g.Max}) {
			return
		}
	}
	// the final scripted attempt
	last := len(sp.Script)
	if !g.awaitAttempt(last, g.capAfter(fails+1), "final step "+sp.End) {
		return
	}
	g.lowerBounds(lbs, kinds)
	// ---- Close at the chosen phase ----
	switch {
	case inflight:
		// the transport Dial is hanging right now
	case timerEnd:
		c.AwaitOrViolate("harness:attempt-not-finished", "refused attempt returning", func() bool { l := g.vd.Log(); return l[last].End != 0 }, mon.AwaitOpts{})
		fails++
	default:
		if !c.AwaitOrViolate("dial/connected-pipe-not-attached", "pipe of the final dial attaching", func() bool { return g.attached() >= countS(sp.Script)+1 }, mon.AwaitOpts{MaxTimer: g.capAfter(fails + 1)}) {
			return
		}
	}
	var k *mon.Call
	if sp.End[:5] == "close" {
		k = mon.Go("Dialer.Close", func() (interface{}, error) { return nil, g.d.Close() })
	} else {
		k = mon.Go("Socket.Close", func() (interface{}, error) { return nil, g.sock.Close() })
	}
	if !c.AwaitOrViolate("dial/close-blocks:"+sp.End, "Close returning ("+sp.End+")", k.Done, mon.AwaitOpts{MaxTimer: g.capAfter(fails + 1)}) {
		return
	}
	closedAt := mon.Now()
	if inflight {
		g.vd.Release(vt.Outcome{Kind: vt.Refuse})
	}
	if sp.End == "close-connected" {
		// closing only the dialer leaves its connection alone; losing it later must not trigger a redial
		ps := g.vd.Pipes()
		ps[len(ps)-1].Drop()
	}
	// (e) no new attempt after Close; one attempt that had already passed its closed check may still start
	w := g.capAfter(fails+2)*12/10 + 30*time.Millisecond
	mon.Sleep(w)
	after := 0
	for _, a := range g.vd.Log() {
		if a.Start > closedAt {
			after++
		}
	}
	c.Count("attempts", len(g.vd.Log()))
	if after > 1 {
		c.Violate("dial/attempt-after-close:"+sp.End, "%d connection attempts were started after Close had returned at %v: %s", after, closedAt, renderLog(g.vd.Log()))
	}
	c.Nontrivial()
}

func countS(s string) int {
	n := 0
	for _, ch := range s {
		if ch == 'S' {
			n++
		}
	}
	return n
}

// exchange: one message in every direction the pattern has over the fresh connection.
func exchange(c *mon.Case, g *rig, p *vt.Pipe) bool {
	msg := []byte("m-" + hx.Uniq("x"))
	if !recvOnly(g.proto) {
		before := p.SentCount()
		k := mon.Go("Send", func() (interface{}, error) { return nil, g.sock.Send(msg) })
		if !c.AwaitOrViolate("dial/traffic-not-resumed:send", "Send on the socket completing on the new connection", k.Done, mon.AwaitOpts{MaxTimer: g.R}) {
			return false
		}
		if _, e, _ := k.Result(); e != nil {
			c.Violate("dial/traffic-not-resumed:send-error", "Send after reconnect returned %v", e)
			return false
		}
		if !c.AwaitOrViolate("dial/traffic-not-resumed:not-on-new-connection", "the message appearing on the new connection", func() bool {
			for _, s := range p.SentFrom(before) {
				if bytes.HasSuffix(s.Wire(), msg) {
					return true
				}
			}
			return false
		}, mon.AwaitOpts{MaxTimer: g.R}) {
			return false
		}
	}
	if !sendOnly(g.proto) {
		if g.proto == "pair1" {
			p.Inject(append([]byte{0, 0, 0, 0}, msg...)) // PAIR1 wire header: hop count
		} else {
			p.Inject(msg)
		}
		var got []byte
		r := mon.Go("Recv", func() (interface{}, error) { b, e := g.sock.Recv(); got = b; return nil, e })
		if !c.AwaitOrViolate("dial/traffic-not-resumed:recv", "Recv of a message arriving on the new connection", r.Done, mon.AwaitOpts{MaxTimer: g.R}) {
			return false
		}
		if _, e, _ := r.Result(); e != nil || !bytes.Equal(got, msg) {
			c.Violate("dial/traffic-not-resumed:recv-error", "Recv after reconnect returned %q, %v", got, e)
			return false
		}
	}
	c.Count("exchanges_after_reconnect", 1)
	if recvOnly(g.proto) {
		c.Count("exchanges_after_reconnect_receive_only_socket", 1)
	} else if sendOnly(g.proto) {
		c.Count("exchanges_after_reconnect_send_only_socket", 1)
	}
	return true
}

// runBound: (b) with a maximum the delay is capped; with maximum zero it does not grow.
func runBound(c *mon.Case, sp spec, g *rig) {
	n := 14
	g.vd.SetDefault(vt.Outcome{Kind: vt.Refuse})
	if err := g.d.Dial(); err != nil {
		c.Violate("dial/async-dial-error", "asynchronous Dial returned %v", err)
		return
	}
	bound := g.R
	if g.Max > 0 {
		bound = g.Max
	}
	if !g.awaitAttempt(n, bound, sp.Kind) {
		return
	}
	log := g.vd.Log()
	lbs := map[int]time.Duration{}
	kinds := map[int]string{}
	worst := time.Duration(0)
	for i := 1; i <= n; i++ {
		lbs[i], kinds[i] = log[i-1].End, "refused attempt"
		if gap := log[i].Start - log[i-1].End; gap > worst {
			worst = gap
		}
	}
	g.lowerBounds(lbs, kinds)
	c.Count("worst_gap_us", int(worst.Microseconds()))
	// upper bound: only a gap that is both beyond the canary-calibrated slack and several times the bound is a verdict
	if mon.UpperBoundExceeded(worst, bound) && worst > 4*bound {
		what := "the maximum reconnect time"
		if g.Max == 0 {
			what = "the reconnect time (no maximum set, so the delay must not grow)"
		}
		c.Violate("dial/backoff-exceeds-bound:"+sp.Kind, "after %d refusals a gap of %v was observed; %s is %v (scheduler canary worst oversleep %v). log: %s", n, worst, what, bound, mon.CanaryWorst(), renderLog(log))
	}
	g.sock.Close()
	c.Nontrivial()
}

// runReset: the delay returns to the initial value after a successful attach.
func runReset(c *mon.Case, sp spec, g *rig) {
	n := 13
	var outs []vt.Outcome
	for i := 0; i < n; i++ {
		outs = append(outs, vt.Outcome{Kind: vt.Refuse})
	}
	outs = append(outs, vt.Outcome{Kind: vt.Succeed})
	g.vd.Script(outs...)
	g.vd.SetDefault(vt.Outcome{Kind: vt.Refuse})
	if err := g.d.Dial(); err != nil {
		c.Violate("dial/async-dial-error", "asynchronous Dial returned %v", err)
		return
	}
	if !g.awaitAttempt(n, g.Max, "reset") {
		return
	}
	if !c.AwaitOrViolate("dial/connected-pipe-not-attached", "pipe attaching", func() bool { return g.attached() >= 1 }, mon.AwaitOpts{MaxTimer: g.Max}) {
		return
	}
	grown := g.vd.Log()[n].Start - g.vd.Log()[n-1].End
	mon.Sleep(15 * time.Millisecond) // let the attach be noted by the dialer (pacing)
	p := g.vd.LastPipe()
	t := p.Drop()
	if !g.awaitAttempt(n+1, g.Max, "after reconnect") {
		return
	}
	gap := g.vd.Log()[n+1].Start - t
	c.Count("gaps_checked", 1)
	if gap < g.R {
		c.Violate("dial/too-soon:after-peer drop", "attempt started %v after the peer drop; reconnect time %v", gap, g.R)
	}
	// not reset: the delay would still be the grown one (>= 1.1^13 * R = 3.4R, typically ~30R)
	if mon.UpperBoundExceeded(gap, g.R) && gap > 10*g.R {
		c.Violate("dial/backoff-not-reset", "after %d refusals (last delay %v) a connection was established and then lost; the next attempt came %v after the loss, the reconnect time is %v (canary worst oversleep %v)", n, grown, gap, g.R, mon.CanaryWorst())
	}
	c.Count("grown_delay_us", int(grown.Microseconds()))
	c.Count("gap_after_reset_us", int(gap.Microseconds()))
	g.sock.Close()
	c.Nontrivial()
}

// runSyncFail: a synchronous dialer does not retry before its first success.
func runSyncFail(c *mon.Case, sp spec, g *rig) {
	g.vd.SetDefault(vt.Outcome{Kind: vt.Refuse})
	k := mon.Go("Dial", func() (interface{}, error) { return nil, g.d.Dial() })
	if !c.AwaitOrViolate("dial/sync-dial-stuck", "synchronous Dial to a refusing peer returning", k.Done, mon.AwaitOpts{MaxTimer: g.R}) {
		return
	}
	if _, e, _ := k.Result(); e == nil {
		c.Violate("dial/sync-dial-no-error", "synchronous Dial to a refusing peer returned nil")
		return
	}
	mon.Sleep(8 * g.R)
	if n := g.vd.Attempts(); n != 1 {
		c.Violate("dial/sync-retried-before-first-success", "a synchronous dialer whose first attempt failed made %d attempts", n)
	}
	// corrected and retried: now it connects, and from then on it reconnects by itself
	g.vd.SetDefault(vt.Outcome{Kind: vt.Succeed})
	k2 := mon.Go("Dial2", func() (interface{}, error) { return nil, g.d.Dial() })
	if !c.AwaitOrViolate("dial/sync-dial-stuck", "second synchronous Dial returning", k2.Done, mon.AwaitOpts{MaxTimer: g.R}) {
		return
	}
	if _, e, _ := k2.Result(); e != nil {
		c.Violate("dial/sync-redial-error", "Dial retried after the peer became reachable returned %v", e)
		return
	}
	if !c.AwaitOrViolate("dial/connected-pipe-not-attached", "pipe attaching", func() bool { return g.attached() >= 1 }, mon.AwaitOpts{MaxTimer: g.R}) {
		return
	}
	t := g.vd.LastPipe().Drop()
	n := g.vd.Attempts()
	if !g.awaitAttempt(n, g.R, "after first success was lost") {
		return
	}
	if gap := g.vd.Log()[n].Start - t; gap < g.R {
		c.Violate("dial/too-soon:after-peer drop", "attempt started %v after the peer drop; reconnect time %v", gap, g.R)
	}
	g.sock.Close()
	c.Nontrivial()
}

// runPairBusy: every connection the dialer makes is refused by the protocol (the PAIR socket
// already has its peer).  The dialer must keep trying, at least ReconnectTime apart, and connect
// as soon as the first peer has gone.
func runPairBusy(c *mon.Case, sp spec, g *rig) {
	lname := hx.Uniq("c14l")
	L := vt.L(lname)
	c.Cleanup(func() { vt.Forget(lname) })
	if err := g.sock.Listen(vt.Addr(lname)); err != nil {
		c.Inconclusive("setup: %v", err)
		return
	}
	first := L.Connect()
	if !c.AwaitOrViolate("harness:attach-stuck", "first PAIR peer attaching", func() bool { return g.attached() >= 1 }, mon.AwaitOpts{}) {
		return
	}
	g.vd.SetDefault(vt.Outcome{Kind: vt.Succeed})
	if err := g.d.Dial(); err != nil {
		c.Violate("dial/async-dial-error", "asynchronous Dial returned %v", err)
		return
	}
	n := 5
	if !g.awaitAttempt(n, g.capAfter(n), "protocol-refusal") {
		return
	}
	log := g.vd.Log()
	lbs := map[int]time.Duration{}
	kinds := map[int]string{}
	for i := 1; i <= n; i++ {
		lbs[i], kinds[i] = log[i-1].End, "connection the protocol refused"
		if p := log[i-1].Pipe; p != nil && i-1 < n-1 && !p.LibClosed() {
			c.Violate("dial/refused-connection-kept", "connection #%d was refused by the protocol (PAIR busy) but the library has not closed it although the dialer already dialled again", i-1)
		}
	}
	g.lowerBounds(lbs, kinds)
	if g.attached() != 1 {
		c.Violate("dial/second-pair-peer-attached", "%d pipes attached while the first PAIR peer was connected", g.attached())
	}
	// the first peer leaves: the dialer takes over
	first.Drop()
	if !c.AwaitOrViolate("dial/no-takeover-after-first-peer-left", "a dialled connection attaching once the first PAIR peer has gone", func() bool { return g.attached() >= 2 }, mon.AwaitOpts{MaxTimer: g.capAfter(n + 2)}) {
		return
	}
	var cur *vt.Pipe
	for _, p := range g.vd.Pipes() {
		if !p.LibClosed() {
			cur = p
		}
	}
	if cur == nil || !exchange(c, g, cur) {
		if cur == nil {
			c.Inconclusive("no open dialled pipe found")
		}
		return
	}
	g.sock.Close()
	c.Count("attempts", len(g.vd.Log()))
	c.Nontrivial()
}

// runCapFine: with ReconnectTime 300ms and MaxReconnectTime 1.2s the delay, once it has reached the
// maximum, stays there.  After the first gap of at least the maximum, five further gaps are taken.
// Two rules, each needing a *run* of gaps (a single long gap is a scheduling artefact):
//   - three consecutive gaps above the maximum by more than the canary-calibrated slack of 1.2;
//   - the smallest of the five above the maximum by more than 30ms + 4x the worst oversleep the
//     scheduler canary (1 ms sleeps throughout the case) saw: a delay that settled above the
//     ceiling shows in every gap, a scheduling delay would have to hit all five.
func runCapFine(c *mon.Case, sp spec, g *rig) {
	g.vd.SetDefault(vt.Outcome{Kind: vt.Refuse})
	if err := g.d.Dial(); err != nil {
		c.Violate("dial/async-dial-error", "asynchronous Dial returned %v", err)
		return
	}
	reached := -1
	over := 0
	worst := time.Duration(0)
	var settled []time.Duration
	for i := 1; i <= 30; i++ {
		if !g.awaitAttempt(i, g.Max, "capfine") {
			return
		}
		log := g.vd.Log()
		gap := log[i].Start - log[i-1].End
		c.Count("gaps_checked", 1)
		if gap < g.R {
			c.Violate("dial/too-soon:after-refused attempt", "gap %v below the reconnect time %v", gap, g.R)
		}
		if reached < 0 {
			if gap >= g.Max {
				reached = i // the delay has grown to the maximum (or beyond) by now
			}
			continue
		}
		settled = append(settled, gap)
		if mon.UpperBoundExceeded(gap, g.Max) {
			over++
			if gap > worst {
				worst = gap
			}
		} else {
			over = 0
		}
		if over >= 3 {
			c.Violate("dial/backoff-exceeds-max", "after the delay reached the maximum, three consecutive gaps between connection attempts exceed MaxReconnectTime %v (worst %v; scheduler canary worst oversleep %v): %s", g.Max, worst, mon.CanaryWorst(), renderLog(log[reached-1:]))
			break
		}
		if len(settled) >= 5 {
			min := settled[0]
			for _, x := range settled {
				if x < min {
					min = x
				}
			}
			if w := mon.CanaryWorst(); min-g.Max > 30*time.Millisecond+4*w {
				c.Violate("dial/backoff-exceeds-max", "after the delay reached the maximum, every one of five consecutive gaps between connection attempts exceeds MaxReconnectTime %v by at least %v (gaps %v; scheduler canary worst oversleep %v): %s", g.Max, min-g.Max, settled, w, renderLog(log[reached-1:]))
			}
			c.Count("settled_gap_runs_checked", 1)
			break
		}
	}
	g.sock.Close()
	if reached > 0 {
		c.Nontrivial()
	}
}
