//go:build verif

package c14

import (
	"bytes"
	"fmt"
	"io"
	"net"
	"net/url"
	"os"
	"strings"
	"sync"
	"time"

	"go.nanomsg.org/mangos/v3"

	"verifharness/hx"
	"verifharness/mon"
)

// flakypeer: the dialer talks, over a real transport, to an endpoint held by the harness (a relay at
// the byte level in front of real listening sockets).  Per connection, in the order they arrive, the
// relay follows a script: it lets the connection establishment fail in one of the ways a restarting
// peer, a relay without a backend or a foreign service fails it *after* the transport connection was
// made, or it relays to the real peer and later cuts the connection.
//
//	C  accepts and hangs up at once, without reading
//	E  reads the dialer's greeting, then hangs up without a word
//	P  reads the greeting, answers with the first 1..7 bytes of a header and hangs up
//	B  reads the greeting and answers with a header that is not an SP header
//	W  relays to a listening socket of a protocol the dialer cannot talk to
//	G  relays to the real peer: the pipe attaches, traffic is exchanged, then the harness cuts it
//	H  accepts and stays silent (only as the last step: Close while the attempt is in flight)
//
// Whatever the peer did, the dialer is open and (asynchronous, or past its first success) has to make
// the next attempt, not sooner than the reconnect time after the peer's last action on the previous
// connection; traffic flows on every connection that reaches the real peer; after Close at most the
// attempt already under way is seen.

var flakyName = map[byte]string{'C': "hangup-at-once", 'E': "hangup-after-greeting", 'P': "hangup-mid-header",
	'B': "bad-header", 'W': "wrong-protocol", 'G': "loss", 'H': "silence"}

type fconn struct {
	ord      int
	act      byte
	accepted time.Duration // taken right after Accept, before the relay does anything with the connection
	acted    time.Duration // taken just before the relay's last action that ends the connection (0: not yet)
	cli, up  net.Conn
	cutting  bool
	release  chan struct{}
}

type fproxy struct {
	network     string
	ln          net.Listener
	good, wrong string // network addresses of the real peer and of the wrong-protocol listener
	stream      bool   // tcp, ipc: the dialer's first flight is the 8 byte SP header
	plan        string
	ks          []int // per ordinal: how many header bytes a 'P' step sends
	hdr         []byte
	dflt        byte // what happens to connections beyond the plan (0: 'E'); see setDefault
	mu          sync.Mutex
	conns       []*fconn
}

func (p *fproxy) count() int { p.mu.Lock(); defer p.mu.Unlock(); return len(p.conns) }
func (p *fproxy) conn(i int) fconn {
	p.mu.Lock()
	defer p.mu.Unlock()
	return *p.conns[i]
}
func (p *fproxy) stamp(fc *fconn) { p.mu.Lock(); fc.acted = mon.Now(); p.mu.Unlock() }

// setDefault changes what happens to the connections that arrive from now on (beyond the plan).
func (p *fproxy) setDefault(act byte) { p.mu.Lock(); p.dflt = act; p.mu.Unlock() }

// firstWith returns the ordinal of the first connection at or after ordinal from that was given action act.
func (p *fproxy) firstWith(act byte, from int) int {
	p.mu.Lock()
	defer p.mu.Unlock()
	for i := from; i < len(p.conns); i++ {
		if p.conns[i].act == act {
			return i
		}
	}
	return -1
}

func (p *fproxy) serve() {
	for {
		cn, err := p.ln.Accept()
		if err != nil {
			return
		}
		now := mon.Now()
		p.mu.Lock()
		fc := &fconn{ord: len(p.conns), act: 'E', accepted: now, cli: cn, release: make(chan struct{})}
		if fc.ord < len(p.plan) {
			fc.act = p.plan[fc.ord]
		} else if p.dflt != 0 {
			fc.act = p.dflt
		}
		if fc.act == 'W' {
			fc.acted = now // the failure follows from the relaying that starts now
		}
		p.conns = append(p.conns, fc)
		p.mu.Unlock()
		go p.handle(fc)
	}
}

func (p *fproxy) greeting(fc *fconn) {
	if p.stream {
		var b [8]byte
		io.ReadFull(fc.cli, b[:])
		return
	}
	b := make([]byte, 4096) // TLS ClientHello / HTTP upgrade request
	fc.cli.Read(b)
}

func (p *fproxy) handle(fc *fconn) {
	switch fc.act {
	case 'C':
		p.stamp(fc)
		fc.cli.Close()
	case 'E':
		p.greeting(fc)
		p.stamp(fc)
		fc.cli.Close()
	case 'P':
		p.greeting(fc)
		k := 1
		if fc.ord < len(p.ks) {
			k = p.ks[fc.ord]
		}
		p.stamp(fc)
		fc.cli.Write(p.hdr[:k])
		fc.cli.Close()
	case 'B':
		p.greeting(fc)
		p.stamp(fc)
		bad := []byte{0, 'X', 'Y', 0, 0, 0, 0, 0}
		if !p.stream {
			bad = append(bad, "\r\n\r\n"...) // a complete (and meaningless) answer also for a dialer that reads lines
		}
		fc.cli.Write(bad)
		io.Copy(io.Discard, fc.cli) // the dialer gives the connection up
		fc.cli.Close()
	case 'H':
		<-fc.release
		p.stamp(fc)
		fc.cli.Close()
	case 'W', 'G':
		addr := p.good
		if fc.act == 'W' {
			addr = p.wrong
		}
		up, err := net.Dial(p.network, addr)
		if err != nil {
			fc.cli.Close()
			return
		}
		p.mu.Lock()
		fc.up = up
		p.mu.Unlock()
		go func() {
			io.Copy(up, fc.cli) // the dialer's side ended: so does the relayed one
			up.Close()
		}()
		io.Copy(fc.cli, up)
		p.mu.Lock()
		cutting := fc.cutting
		p.mu.Unlock()
		if !cutting { // the listening side ended the connection
			fc.cli.Close()
		}
	}
}

// netAddr splits a mangos address into what net.Dial/net.Listen need and the URL path.
func netAddr(tr, maddr string) (network, addr, path string) {
	switch tr {
	case "ipc":
		return "unix", strings.TrimPrefix(maddr, "ipc://"), ""
	case "ws", "wss":
		u, err := url.Parse(maddr)
		if err != nil {
			panic(err)
		}
		return "tcp", u.Host, u.Path
	}
	return "tcp", maddr[strings.Index(maddr, "://")+3:], ""
}

// ownAddr is hx.ListenAddr with a loopback address of this process' own (127.128+.x.y, from the pid)
// instead of 127.0.0.1: other processes on the machine run dialers that keep redialling ephemeral
// ports their listeners once had, and such a port can be handed to a listener of this case; a foreign
// connection would be taken for an attempt of the dialer under test.  They dial 127.0.0.1.
func ownAddr(tr string) string {
	a := hx.ListenAddr(tr)
	pid := os.Getpid()
	return strings.Replace(a, "//127.0.0.1:", fmt.Sprintf("//127.%d.%d.%d:", 128+(pid>>16)&0x3f, (pid>>8)&0xff, pid&0xff), 1)
}

func backoffCap(R, Max time.Duration, fails int) time.Duration {
	if Max == 0 {
		return R
	}
	d := float64(R)
	for i := 0; i < fails; i++ {
		d *= 1.5
		if time.Duration(d) > Max {
			return Max
		}
	}
	if time.Duration(d) > Max {
		return Max
	}
	return time.Duration(d)
}

// fleg is one dialling socket with its dialer, the relay it dials and the real peer behind the relay.
type fleg struct {
	tr, proto string
	R, Max    time.Duration
	px        *fproxy
	sock, be  mangos.Socket
	sw, bw    *hx.PipeWatch
	d         mangos.Dialer
	created   time.Duration // taken just before NewDialer
	reqN      uint32
	lastReq   *mangos.Message // raw REP/RESPONDENT in the dialler's role: the request to answer
}

// longWaits: timers of the patterns that would otherwise end an exchange by themselves.
func longWaits(s mangos.Socket, proto string) {
	switch strings.TrimPrefix(proto, "x") {
	case "req":
		s.SetOption(mangos.OptionRetryTime, time.Hour)
	case "surveyor":
		s.SetOption(mangos.OptionSurveyTime, time.Hour)
	case "sub":
		if proto == "sub" {
			s.SetOption(mangos.OptionSubscribe, []byte{})
		}
	}
}

// newFleg sets the real peer, the wrong-protocol listener, the relay and the dialling socket up and
// creates the dialer (not started).  nil: set-up failed (recorded as inconclusive).
func newFleg(c *mon.Case, tr, proto string, R, Max time.Duration, async bool, plan string, dflt byte) *fleg {
	g := &fleg{tr: tr, proto: proto, R: R, Max: Max}
	var lo map[string]interface{}
	do := map[string]interface{}{mangos.OptionReconnectTime: R, mangos.OptionMaxReconnectTime: Max, mangos.OptionDialAsynch: async}
	if hx.NeedsTLS(tr) {
		s, cl := hx.TLSConfigs()
		lo = map[string]interface{}{mangos.OptionTLSConfig: s}
		do[mangos.OptionTLSConfig] = cl
	}
	// the real peer, and a listening socket of a protocol the dialer cannot talk to
	g.be = hx.MustSock(c, hx.PeerOf[proto])
	longWaits(g.be, hx.PeerOf[proto])
	g.bw = hx.WatchPipes(g.be)
	wrongProto := "pub"
	if hx.PeerOf[proto] == "pub" {
		wrongProto = "pull"
	}
	wrong := hx.MustSock(c, wrongProto)
	listen := func(s mangos.Socket, at string) (string, error) {
		l, err := s.NewListener(at, lo)
		if err == nil {
			err = l.Listen()
		}
		if err != nil {
			return "", err
		}
		return l.Address(), nil
	}
	goodAt, err := listen(g.be, ownAddr(tr))
	if err != nil {
		c.Inconclusive("setup: %v", err)
		return nil
	}
	network, goodNet, path := netAddr(tr, goodAt)
	wrongReq := ownAddr(tr)
	if path != "" { // same URL path: the relay forwards the dialer's request unchanged
		wrongReq = wrongReq[:strings.LastIndex(wrongReq, "/")] + path
	}
	wrongAt, err := listen(wrong, wrongReq)
	if err != nil {
		c.Inconclusive("setup: %v", err)
		return nil
	}
	_, wrongNet, _ := netAddr(tr, wrongAt)

	px := &fproxy{network: network, good: goodNet, wrong: wrongNet, stream: tr == "tcp" || tr == "ipc", plan: plan, dflt: dflt}
	g.px = px
	peerNo := g.be.Info().Self
	px.hdr = []byte{0, 'S', 'P', 0, byte(peerNo >> 8), byte(peerNo), 0, 0}
	for range plan {
		px.ks = append(px.ks, 1+c.Rand.Intn(7))
	}
	_, lat, _ := netAddr(tr, ownAddr(tr))
	if px.ln, err = net.Listen(network, lat); err != nil {
		c.Inconclusive("setup: relay listen: %v", err)
		return nil
	}
	go px.serve()
	c.Cleanup(func() {
		px.ln.Close()
		px.mu.Lock()
		defer px.mu.Unlock()
		for _, fc := range px.conns {
			select {
			case <-fc.release:
			default:
				close(fc.release)
			}
			fc.cli.Close()
			if fc.up != nil {
				fc.up.Close()
			}
		}
	})

	g.sock = hx.MustSock(c, proto)
	g.sw = hx.WatchPipes(g.sock)
	longWaits(g.sock, proto)
	g.created = mon.Now()
	g.d, err = g.sock.NewDialer(tr+"://"+px.ln.Addr().String()+path, do)
	if err != nil {
		c.Inconclusive("setup: NewDialer: %v", err)
		return nil
	}
	return g
}

func runFlaky(c *mon.Case, sp spec) {
	tr := sp.Tr
	R := time.Duration(sp.RMs) * time.Millisecond
	Max := time.Duration(sp.MaxMs) * time.Millisecond
	g := newFleg(c, tr, sp.Proto, R, Max, sp.Async, sp.Script, 0)
	if g == nil {
		return
	}
	px, sock, d, sw, bw := g.px, g.sock, g.d, g.sw, g.bw
	where := "flaky/" + tr
	dc := mon.Go("Dial", func() (interface{}, error) { return nil, d.Dial() })
	if sp.Async {
		if !c.AwaitOrViolate("dial/async-dial-stuck:"+where, "asynchronous Dial returning", dc.Done, mon.AwaitOpts{MaxTimer: R}) {
			return
		}
		if _, e, _ := dc.Result(); e != nil {
			c.Violate("dial/async-dial-error", "asynchronous Dial returned %v", e)
			return
		}
	}
	render := func() string {
		px.mu.Lock()
		defer px.mu.Unlock()
		s := ""
		for _, fc := range px.conns {
			s += fmt.Sprintf("[#%d %c accepted %v peer's last action %v] ", fc.ord, fc.act, fc.accepted, fc.acted)
		}
		return s
	}
	fails, nG := 0, 0
	last := len(sp.Script) - 1
	for i := 0; i < len(sp.Script); i++ {
		ch := sp.Script[i]
		why := where + "/initial"
		if i > 0 {
			why = where + "/after-" + flakyName[sp.Script[i-1]]
		}
		maxT := backoffCap(R, Max, fails+1)
		if !c.AwaitOrViolate("dial/no-further-attempt:"+why, fmt.Sprintf("connection attempt #%d arriving at the peer's address (script %s, %s; seen so far: %s)", i, sp.Script, why, render()),
			func() bool { return px.count() > i }, mon.AwaitOpts{MaxTimer: maxT}) {
			return
		}
		if i > 0 {
			prev, cur := px.conn(i-1), px.conn(i)
			if prev.acted != 0 {
				c.Count("gaps_checked", 1)
				if gap := cur.accepted - prev.acted; gap < R {
					c.Violate("dial/too-soon:"+why, "attempt #%d reached the peer %v after the peer's last action on connection #%d (%s, at %v); the reconnect time is %v. %s",
						i, gap, i-1, flakyName[prev.act], prev.acted, R, render())
				}
			}
		}
		switch ch {
		case 'H':
			// stays in flight
		case 'G':
			if !c.AwaitOrViolate("dial/connected-pipe-not-attached:"+where, fmt.Sprintf("connection #%d, relayed to the real peer, attaching on both sides", i),
				func() bool { return sw.Attached() > nG && bw.Attached() > nG }, mon.AwaitOpts{MaxTimer: maxT}) {
				return
			}
			nG++
			fails = 0
			if !g.exchange(c, where) {
				return
			}
			if i == last {
				break // close-connected
			}
			mon.Sleep(time.Duration(c.Rand.Intn(3000)) * time.Microsecond)
			if !px.cut(c, i, bw, nG) {
				return
			}
		default:
			if !c.AwaitOrViolate("harness:flaky-step-not-done", "the relay acting on connection", func() bool { return px.conn(i).acted != 0 }, mon.AwaitOpts{MaxTimer: maxT}) {
				return
			}
			fails++
			c.Count("handshake_failures_"+flakyName[ch], 1)
		}
	}
	if !sp.Async {
		if !c.AwaitOrViolate("dial/sync-dial-stuck", "synchronous Dial returning after its first success", dc.Done, mon.AwaitOpts{MaxTimer: Max}) {
			return
		}
		if _, e, _ := dc.Result(); e != nil {
			c.Violate("dial/sync-dial-error:"+where, "synchronous Dial to a reachable peer returned %v", e)
			return
		}
	}
	// ---- Close at the chosen phase ----
	inflight := sp.Script[last] == 'H'
	if !inflight && sp.Script[last] != 'G' {
		mon.Sleep(time.Duration(c.Rand.Intn(int(R/time.Microsecond))) * time.Microsecond)
	}
	var k *mon.Call
	if strings.HasPrefix(sp.End, "close") {
		k = mon.Go("Dialer.Close", func() (interface{}, error) { return nil, d.Close() })
	} else {
		k = mon.Go("Socket.Close", func() (interface{}, error) { return nil, sock.Close() })
	}
	if !c.AwaitOrViolate("dial/close-blocks:"+sp.End+"/"+where, "Close returning ("+sp.End+")", k.Done, mon.AwaitOpts{MaxTimer: backoffCap(R, Max, fails+1)}) {
		return
	}
	closedAt := mon.Now()
	if inflight {
		px.mu.Lock()
		close(px.conns[last].release) // the silent peer hangs up
		px.mu.Unlock()
	}
	if sp.End == "close-connected" {
		// closing only the dialer leaves its connection alone; losing it later must not trigger a redial
		if !px.cut(c, last, bw, nG) {
			return
		}
	}
	mon.Sleep(backoffCap(R, Max, fails+2)*12/10 + 30*time.Millisecond)
	after := 0
	n := px.count()
	for i := 0; i < n; i++ {
		if px.conn(i).accepted > closedAt {
			after++
		}
	}
	c.Count("attempts", n)
	if after > 1 {
		c.Violate("dial/attempt-after-close:"+sp.End+"/"+where, "%d connections arrived at the peer's address after Close had returned at %v: %s", after, closedAt, render())
	}
	c.Nontrivial()
}

// cut ends relayed connection i: first towards the real peer (which has to let go of it before the
// dialer comes back: a PAIR peer would turn the next connection away), then towards the dialer.
func (p *fproxy) cut(c *mon.Case, i int, bw *hx.PipeWatch, detached int) bool {
	p.mu.Lock()
	fc := p.conns[i]
	fc.cutting = true
	up := fc.up
	p.mu.Unlock()
	if up != nil {
		up.Close()
	}
	if !c.AwaitOrViolate("harness:flaky-peer-not-detached", "the real peer noticing the loss of the relayed connection", func() bool { return bw.Detached() >= detached }, mon.AwaitOpts{}) {
		return false
	}
	p.stamp(fc)
	fc.cli.Close()
	return true
}

// dirs: the directions the pattern of the dialling socket has, in the order a conversation takes them.
func dirs(proto string) (first, second string) {
	switch strings.TrimPrefix(proto, "x") {
	case "push", "pub":
		return "dialer to peer", ""
	case "pull", "sub":
		return "peer to dialer", ""
	case "rep", "respondent":
		return "peer to dialer", "dialer to peer"
	}
	return "dialer to peer", "peer to dialer"
}

// send: the dialling socket sends body the way its protocol wants it (the peer is always cooked).
func (g *fleg) send(body []byte) error {
	var hdr []byte
	switch g.proto {
	case "xpair1", "xstar":
		hdr = []byte{0, 0, 0, 0} // hop count
	case "xreq", "xsurveyor":
		g.reqN++
		hdr = hx.Be32(0x80000000 | g.reqN)
	case "xrep", "xrespondent":
		m := g.lastReq // answered with the header it came with
		if m == nil {
			return fmt.Errorf("harness: no request to answer")
		}
		g.lastReq = nil
		m.Body = append(m.Body[:0], body...)
		return g.sock.SendMsg(m)
	default:
		return g.sock.Send(body)
	}
	m := mangos.NewMessage(len(body))
	m.Header = append(m.Header, hdr...)
	m.Body = append(m.Body, body...)
	return g.sock.SendMsg(m)
}

func (g *fleg) recv() ([]byte, error) {
	switch g.proto {
	case "xrep", "xrespondent":
		m, err := g.sock.RecvMsg()
		if err != nil {
			return nil, err
		}
		g.lastReq = m
		return append([]byte{}, m.Body...), nil
	}
	return g.sock.Recv()
}

// exchange: traffic on the connection that has just attached, in the directions the pattern has.
func (g *fleg) exchange(c *mon.Case, where string) bool {
	msg := []byte("m-" + hx.Uniq("x"))
	xfer := func(dir string, body []byte) bool {
		var s, r *mon.Call
		if dir == "dialer to peer" {
			s = mon.Go("Send", func() (interface{}, error) { return nil, g.send(body) })
			r = mon.Go("Recv", func() (interface{}, error) { return g.be.Recv() })
		} else {
			s = mon.Go("Send", func() (interface{}, error) { return nil, g.be.Send(body) })
			r = mon.Go("Recv", func() (interface{}, error) { return g.recv() })
		}
		if !c.AwaitOrViolate("dial/traffic-not-resumed:send/"+where, "Send ("+dir+") completing on the new connection", s.Done, mon.AwaitOpts{MaxTimer: g.R}) ||
			!c.AwaitOrViolate("dial/traffic-not-resumed:recv/"+where, "Recv ("+dir+") of a message sent on the new connection", r.Done, mon.AwaitOpts{MaxTimer: g.R}) {
			return false
		}
		if _, e, _ := s.Result(); e != nil {
			c.Violate("dial/traffic-not-resumed:send-error/"+where, "Send (%s) after reconnect returned %v", dir, e)
			return false
		}
		if v, e, _ := r.Result(); e != nil || !bytes.Equal(v.([]byte), body) {
			c.Violate("dial/traffic-not-resumed:recv-error/"+where, "Recv (%s) after reconnect returned %q, %v; sent %q", dir, v, e, body)
			return false
		}
		return true
	}
	d1, d2 := dirs(g.proto)
	if !xfer(d1, msg) {
		return false
	}
	if d2 != "" {
		if !xfer(d2, append([]byte("r-"), msg...)) {
			return false
		}
	}
	c.Count("exchanges_after_reconnect", 1)
	if d2 == "" && d1 == "peer to dialer" {
		c.Count("exchanges_after_reconnect_receive_only_socket", 1)
	}
	return true
}
