//go:build verif

package c14

import (
	"fmt"
	"time"

	"go.nanomsg.org/mangos/v3"

	"verifharness/hx"
	"verifharness/mon"
)

// runRealRestart: over the real transports, a listener that goes away and comes back at the same
// address.  Some dialers are connected when it goes, others are in the middle of an attempt (they
// have connected but the listening socket's accept loop is busy in the application's hook, so they
// wait to be accepted).  Every dialer is still open, so every one of them must be attached to the
// new listener, and traffic must flow, without any application action.
func runRealRestart(c *mon.Case, sp spec) {
	tr := sp.Script // transport
	R := time.Duration(sp.RMs) * time.Millisecond
	mk := func() (mangos.Socket, *hx.PipeWatch, chan struct{}, chan struct{}) {
		s := hx.MustSock(c, "pull")
		gate := make(chan struct{})
		entered := make(chan struct{}, 16)
		w := &hx.PipeWatch{}
		hook := hx.WatchPipesFunc(w)
		s.SetPipeEventHook(func(ev mangos.PipeEvent, p mangos.Pipe) {
			hook(ev, p)
			if ev == mangos.PipeEventAttaching {
				select {
				case entered <- struct{}{}:
				default:
				}
				<-gate
			}
		})
		return s, w, gate, entered
	}
	srv, _, gate, entered := mk()
	l, err := srv.NewListener(hx.ListenAddr(tr), nil)
	if err == nil {
		err = l.Listen()
	}
	if err != nil {
		close(gate)
		c.Inconclusive("setup: %v", err)
		return
	}
	addr := l.Address()
	const nd = 3
	var clis []mangos.Socket
	for i := 0; i < nd; i++ {
		p := hx.MustSock(c, "push")
		p.SetOption(mangos.OptionReconnectTime, R)
		p.SetOption(mangos.OptionMaxReconnectTime, R)
		p.SetOption(mangos.OptionDialAsynch, true)
		if err := p.Dial(addr); err != nil {
			close(gate)
			c.Violate("dial/async-dial-error", "asynchronous Dial returned %v", err)
			return
		}
		clis = append(clis, p)
		if i == 0 {
			k := mon.Go("hook-entered", func() (interface{}, error) { <-entered; return nil, nil })
			if !c.AwaitOrViolate("harness:hook-not-entered", "accept loop reaching the Attaching hook", k.Done, mon.AwaitOpts{MaxTimer: R}) {
				close(gate)
				return
			}
		}
	}
	mon.Sleep(3*R + 5*time.Millisecond) // the other dialers are now in the middle of an attempt (waiting to be accepted)
	// the listening side goes away while they wait
	ck := mon.Go("Close", func() (interface{}, error) { return nil, srv.Close() })
	if !c.AwaitOrViolate("harness:close-stuck", "closing the first listening socket", ck.Done, mon.AwaitOpts{MaxTimer: R}) {
		close(gate)
		return
	}
	close(gate)
	mon.Sleep(2 * R)
	// ... and comes back at the same address
	srv2, w2, gate2, _ := mk()
	close(gate2)
	var lerr error
	for try := 0; try < 40; try++ { // (the old endpoint may take a moment to be released)
		if lerr = srv2.Listen(addr); lerr == nil {
			break
		}
		mon.Sleep(5 * time.Millisecond)
	}
	if lerr != nil {
		c.Inconclusive("setup: listening again on %s: %v", addr, lerr)
		return
	}
	if !c.AwaitOrViolate("dial/no-further-attempt:listener-restarted/"+tr, fmt.Sprintf("all %d open dialers attaching to the listener that came back at %s (reconnect time %v)", nd, addr, R), func() bool { return w2.Attached()-w2.Detached() >= nd }, mon.AwaitOpts{MaxTimer: R}) {
		return
	}
	// traffic resumes on the new connections without application action
	srv2.SetOption(mangos.OptionRecvDeadline, time.Duration(0))
	for i, p := range clis {
		msg := fmt.Sprintf("after-restart-%d-%s", i, hx.Uniq("m"))
		sk := mon.Go("Send", func() (interface{}, error) { return nil, p.Send([]byte(msg)) })
		rk := mon.Go("Recv", func() (interface{}, error) { b, e := srv2.Recv(); return b, e })
		if !c.AwaitOrViolate("dial/no-traffic-on-new-connection:listener-restarted/"+tr, "Send on the re-established connection", sk.Done, mon.AwaitOpts{MaxTimer: R}) ||
			!c.AwaitOrViolate("dial/no-traffic-on-new-connection:listener-restarted/"+tr, "Recv on the re-established connection", rk.Done, mon.AwaitOpts{MaxTimer: R}) {
			return
		}
		if v, e, _ := rk.Result(); e != nil || string(v.([]byte)) != msg {
			c.Violate("dial/no-traffic-on-new-connection:listener-restarted/"+tr, "after the listener came back, message %q arrived as (%q, %v)", msg, v, e)
			return
		}
	}
	c.Count("dialers_reattached_after_listener_restart", nd)
	c.Nontrivial()
}
