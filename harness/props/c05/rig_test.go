package c05

import (
	"bytes"
	"encoding/binary"
	"fmt"
	"math/rand"
	"strconv"
	"strings"
	"sync"
	"time"

	"go.nanomsg.org/mangos/v3"

	"verifharness/hx"
	"verifharness/mon"
	"verifharness/vt"
)

// The rig: one REP / RESPONDENT / XREP / XRESPONDENT socket listening on a vt
// address.  Every peer (REQ / SURVEYOR, possibly behind d devices) is a vt pipe
// held by the harness, so the harness sees on which connection each reply is
// written and its exact bytes.

type ctxLike interface {
	Send([]byte) error
	SendMsg(*mangos.Message) error
	Recv() ([]byte, error)
	SetOption(string, interface{}) error
	Close() error
}

type pipeSt struct {
	n         int
	vp        *vt.Pipe
	id        uint32    // mangos pipe id (first header word in raw mode)
	dropped   bool      // drop initiated (set before the close: "open" is never claimed late)
	dropDone  bool      // drop has taken effect (set after the close: "gone" is never claimed early)
	cursor    int       // send-log scan position
	reqs      []*reqSt  // requests injected on this pipe, in order
	flushSeen bool      // scratch for flush rounds
	lastFlush *answerSt // scratch
}

type reqSt struct {
	serial    int
	pipe      *pipeSt
	hdr       []byte // full routing header: d non-terminal words + request id
	body      []byte
	depth     int
	class     string // how the header was generated
	recvBy    int    // context that received it (-1: none yet)
	recvN     int
	preDrop   bool // pipe was dropped while the request had not been received
	wireAns   int  // replies seen on the wire that answer it
	sentinel  bool
	delivered bool
	rawHdr    []byte // raw mode: header as delivered by RecvMsg
}

type answerSt struct {
	serial      int
	ctx         int
	req         *reqSt // request the model says this Send answers (nil: none pending)
	body        []byte
	err         error
	returned    bool
	dropBefore  bool // the request's pipe was dropped before Send was invoked
	seen        int
	bogus       string // raw mode: class of a reply that must vanish ("" = regular)
	final       bool
	afterFailed bool // Send after a failed Recv (pending-ness is implementation-defined)
	mayDrop     bool // sent while best effort was asked for on the context
}

type rig struct {
	c       *mon.Case
	proto   string // signature prefix: the protocol, plus "/via-devices" when the peers sit behind devices
	kind    string // the protocol of the socket under test
	raw     bool
	sock    mangos.Socket
	edge    mangos.Socket // the socket the vt peers connect to: sock itself, or the front of the outermost device
	ndev    int           // devices between the peers and sock
	ttl     int
	L       *vt.ListenerCtl
	nonce   string
	mu      sync.Mutex // guards everything below (conc mode has several goroutines)
	att     []mangos.Pipe
	detIDs  map[uint32]bool
	pipes   []*pipeSt
	ctxs    []ctxLike
	reqs    map[int]*reqSt
	answers map[int]*answerSt
	nreq    int
	nans    int
	checked int    // replies verified on the wire
	mayDrop []bool // per context: best effort asked for (a reply sent there may be discarded)
	beSeen  int    // replies sent under best effort and verified on the wire
	beGone  int    // replies sent under best effort to an open connection and not transmitted
	hdrCmp  int    // header bytes compared
}

func newRig(c *mon.Case, proto string, nctx, npipes, ttl int) *rig {
	return newRigVia(c, proto, nctx, npipes, ttl, 0, "")
}

// newRigVia puts ndev devices between the vt peers and the socket under test:
//
//	vt peers -> [front|back] -> ... -> [front|back] -> rep / respondent
//
// front = raw REP (raw RESPONDENT), back = raw REQ (raw SURVEYOR), forwarding by mangos.Device; hop k
// (device k's back side to the next front, the last one to the server) uses transport trs[k].  What
// the harness sees on its vt pipes is then what comes out of the whole chain: the reply must still be
// on the requester's connection and carry exactly the routing header the requester sent.
func newRigVia(c *mon.Case, proto string, nctx, npipes, ttl, ndev int, trs string) *rig {
	return newRigSpec(c, c05Spec{Proto: proto, NCtx: nctx, NPipes: npipes, TTL: ttl, NDev: ndev, Tr: trs})
}

// newRigSpec is newRigVia plus the send-side options of the spec (sendopt and wire kinds): WQ > 0 sets
// OptionWriteQLen to WQ-1 before any connection exists, SDL arms a one-hour OptionSendDeadline, BE turns
// OptionBestEffort on (1: on the socket before the contexts are opened, 2: on a random non-empty subset
// of the contexts one by one, 3: on the socket after the contexts were opened).  mayDrop[i] records
// whether the application asked for best effort in a way that may concern context i: a reply sent there
// may be discarded (the only thing the oracle relaxes); what does go out is judged like any other reply.
func newRigSpec(c *mon.Case, sp c05Spec) *rig {
	proto, nctx, npipes, ttl, ndev, trs := sp.Proto, sp.NCtx, sp.NPipes, sp.TTL, sp.NDev, sp.Tr
	r := &rig{c: c, proto: proto, kind: proto, raw: proto[0] == 'x', ndev: ndev, ttl: ttl, detIDs: map[uint32]bool{}, reqs: map[int]*reqSt{}, answers: map[int]*answerSt{}, nonce: hx.Uniq("c")}
	r.sock = hx.MustSock(c, proto)
	if err := r.sock.SetOption(mangos.OptionTTL, ttl); err != nil {
		panic(fmt.Sprintf("SetOption(TTL,%d): %v", ttl, err))
	}
	if sp.WQ > 0 {
		if err := r.sock.SetOption(mangos.OptionWriteQLen, sp.WQ-1); err != nil {
			panic(fmt.Sprintf("SetOption(WriteQLen,%d): %v", sp.WQ-1, err))
		}
	}
	if sp.SDL {
		if err := r.sock.SetOption(mangos.OptionSendDeadline, time.Hour); err != nil {
			panic(fmt.Sprintf("SetOption(SendDeadline): %v", err))
		}
	}
	if sp.BE == 1 {
		r.setBE(-1, true)
	}
	r.edge = r.sock
	if ndev > 0 {
		r.proto = proto + "/via-devices"
		front, back := "xrep", "xreq"
		if proto == "respondent" {
			front, back = "xrespondent", "xsurveyor"
		}
		tr := strings.Split(trs, ",")
		up := r.sock
		// from the server outwards, so that every back side finds its listener
		for k := ndev - 1; k >= 0; k-- {
			f, b := hx.MustSock(c, front), hx.MustSock(c, back)
			if err := f.SetOption(mangos.OptionTTL, ttl); err != nil {
				panic(fmt.Sprintf("SetOption(TTL,%d): %v", ttl, err))
			}
			w := hx.WatchPipes(up)
			if _, _, err := hx.Connect(up, b, tr[k%len(tr)]); err != nil {
				c.Inconclusive("harness set-up failed: device hop %d over %s: %v", k, tr[k%len(tr)], err)
				return r
			}
			if !hx.WaitAttached(c, w, 1, "device-back-side") {
				return r
			}
			if err := mangos.Device(f, b); err != nil {
				panic(fmt.Sprintf("Device(%s,%s): %v", front, back, err))
			}
			up = f
		}
		r.edge = up
	}
	r.edge.SetPipeEventHook(func(ev mangos.PipeEvent, p mangos.Pipe) {
		r.mu.Lock()
		switch ev {
		case mangos.PipeEventAttached:
			r.att = append(r.att, p)
		case mangos.PipeEventDetached:
			r.detIDs[p.ID()] = true
		}
		r.mu.Unlock()
	})
	name := hx.Uniq("srv")
	r.L = vt.L(name)
	c.Cleanup(func() { vt.Forget(name) })
	if err := r.edge.Listen(vt.Addr(name)); err != nil {
		panic(err)
	}
	if !r.raw {
		r.ctxs = append(r.ctxs, r.sock)
		for i := 1; i < nctx; i++ {
			cx, err := r.sock.OpenContext()
			if err != nil {
				panic(err)
			}
			r.ctxs = append(r.ctxs, cx)
		}
		r.mayDrop = make([]bool, len(r.ctxs))
		switch sp.BE {
		case 1:
			for i := range r.mayDrop {
				r.mayDrop[i] = true
			}
		case 2:
			must := c.Rand.Intn(len(r.ctxs))
			for i := range r.ctxs {
				if i == must || c.Rand.Intn(2) == 0 {
					r.setBE(i, true)
				}
			}
		case 3:
			r.setBE(0, true)
		}
		for i, cx := range r.ctxs {
			// whatever the library says is in force counts as asked for, too
			if g, ok := cx.(interface {
				GetOption(string) (interface{}, error)
			}); ok {
				if v, err := g.GetOption(mangos.OptionBestEffort); err == nil && v == true {
					r.mayDrop[i] = true
				}
			}
		}
	}
	for i := 0; i < npipes; i++ {
		if r.addPipe() == nil {
			break
		}
	}
	return r
}

// setBE sets OptionBestEffort on context i (-1: on the socket, before any context is open).
func (r *rig) setBE(i int, on bool) {
	var o interface {
		SetOption(string, interface{}) error
	} = r.sock
	if i >= 0 {
		o = r.ctxs[i]
	}
	if err := o.SetOption(mangos.OptionBestEffort, on); err != nil {
		panic(fmt.Sprintf("SetOption(BestEffort,%v) on ctx %d: %v", on, i, err))
	}
	if i >= 0 {
		r.mu.Lock()
		r.mayDrop[i] = on
		r.mu.Unlock()
	}
}

// reliable turns best effort off everywhere: what is sent from now on (the flush replies) must arrive.
func (r *rig) reliable() {
	for i := range r.ctxs {
		r.mu.Lock()
		on := r.mayDrop[i]
		r.mu.Unlock()
		if on {
			r.setBE(i, false)
		}
	}
}

func (r *rig) ctxMayDrop(i int) bool {
	r.mu.Lock()
	defer r.mu.Unlock()
	return i >= 0 && i < len(r.mayDrop) && r.mayDrop[i]
}

// depthLimit: requests carry 0 .. depthLimit()-1 routing words in front of the id when they leave the
// harness; every device on the way adds one, and the receiver furthest in must still find the id
// within its hop limit.
func (r *rig) depthLimit() int { return r.ttl - r.ndev }

func (r *rig) nAttached() int { r.mu.Lock(); defer r.mu.Unlock(); return len(r.att) }

func (r *rig) detached(id uint32) bool { r.mu.Lock(); defer r.mu.Unlock(); return r.detIDs[id] }

// addPipe connects one more vt peer and waits until the socket attached it.
func (r *rig) addPipe() *pipeSt {
	n := r.nAttached()
	vp := r.L.Connect()
	if !r.c.AwaitOrViolate("harness:attach-stuck", "vt peer attaching", func() bool { return r.nAttached() > n }, mon.AwaitOpts{}) {
		return nil
	}
	r.mu.Lock()
	defer r.mu.Unlock()
	p := &pipeSt{n: len(r.pipes), vp: vp, id: r.att[n].ID()}
	r.pipes = append(r.pipes, p)
	return p
}

func (r *rig) livePipes() []*pipeSt {
	var out []*pipeSt
	for _, p := range r.pipes {
		if !p.dropped {
			out = append(out, p)
		}
	}
	return out
}

// ---- request generation ---------------------------------------------------------

var nonTermSpecial = []uint32{0, 1, 0x7fffffff, 0x00000080, 0x00800000, 0x7f000000}
var termSpecial = []uint32{0x80000000, 0xffffffff, 0x80000001, 0x800000ff}

// genHeader builds a routing header of `depth` non-terminal words followed by a
// request id (top bit set).  Header contents are hostile on purpose: words equal
// to pipe ids of this socket, words and ids repeated from earlier requests
// (same id on another connection), boundary values.
func (r *rig) genHeader(depth int) ([]byte, string) {
	rnd := r.c.Rand
	var h []byte
	class := "rand"
	// (never iterate r.reqs: map order is random; pick by serial)
	pick := func() *reqSt {
		if r.nreq == 0 {
			return nil
		}
		return r.reqs[1+rnd.Intn(r.nreq)]
	}
	if q := pick(); q != nil && q.depth == depth && rnd.Intn(6) == 0 {
		// the very same header as an earlier request (typically on another connection)
		return append([]byte{}, q.hdr...), "same-header"
	}
	for j := 0; j < depth; j++ {
		var w uint32
		switch rnd.Intn(5) {
		case 0:
			w = nonTermSpecial[rnd.Intn(len(nonTermSpecial))]
		case 1:
			w = r.pipes[rnd.Intn(len(r.pipes))].id & 0x7fffffff
			class = "pipe-id-word"
		default:
			w = rnd.Uint32() & 0x7fffffff
		}
		h = append(h, hx.Be32(w)...)
	}
	var id uint32
	switch rnd.Intn(6) {
	case 0:
		id = termSpecial[rnd.Intn(len(termSpecial))]
	case 1:
		if q := pick(); q != nil {
			id = binary.BigEndian.Uint32(q.hdr[len(q.hdr)-4:])
			if class == "rand" {
				class = "same-id"
			}
		} else {
			id = rnd.Uint32() | 0x80000000
		}
	case 2:
		id = r.pipes[rnd.Intn(len(r.pipes))].id | 0x80000000
	default:
		id = rnd.Uint32() | 0x80000000
	}
	h = append(h, hx.Be32(id)...)
	return h, class
}

func payload(rnd *rand.Rand) []byte {
	n := rnd.Intn(24)
	if rnd.Intn(10) == 0 {
		n = 200 + rnd.Intn(3000)
	}
	b := make([]byte, n)
	rnd.Read(b)
	return b
}

// inject queues a new request on p (header words first, as on a stream transport).
func (r *rig) inject(p *pipeSt, depth int, sentinel bool) *reqSt {
	r.mu.Lock()
	hdr, class := r.genHeader(depth)
	r.nreq++
	q := &reqSt{serial: r.nreq, pipe: p, hdr: hdr, depth: depth, class: class, recvBy: -1, sentinel: sentinel}
	q.body = hx.Cat([]byte(fmt.Sprintf("Q|%d|%s|", q.serial, r.nonce)), payload(r.c.Rand))
	r.reqs[q.serial] = q
	p.reqs = append(p.reqs, q)
	r.mu.Unlock()
	p.vp.Inject(hx.Cat(hdr, q.body))
	r.c.Count("requests_injected", 1)
	r.c.Count("requests_depth_"+strconv.Itoa(depth), 1)
	return q
}

// parseTag splits "X|n|nonce|..." (X = kind byte) and returns the numbers before the nonce.
func (r *rig) parseTag(b []byte, kind byte, nnum int) ([]int, bool) {
	if len(b) < 2 || b[0] != kind || b[1] != '|' {
		return nil, false
	}
	parts := bytes.SplitN(b[2:], []byte("|"), nnum+2)
	if len(parts) < nnum+2 {
		return nil, false
	}
	var out []int
	for i := 0; i < nnum; i++ {
		v, err := strconv.Atoi(string(parts[i]))
		if err != nil {
			return nil, false
		}
		out = append(out, v)
	}
	if string(parts[nnum]) != r.nonce {
		return nil, false
	}
	return out, true
}

// lookupReq finds the injected request a delivered body belongs to.
func (r *rig) lookupReq(body []byte) *reqSt {
	v, ok := r.parseTag(body, 'Q', 1)
	if !ok {
		return nil
	}
	r.mu.Lock()
	defer r.mu.Unlock()
	return r.reqs[v[0]]
}

// newAnswer registers a reply the application side is about to send.
func (r *rig) newAnswer(ctx int, q *reqSt, rnd *rand.Rand) *answerSt {
	r.mu.Lock()
	defer r.mu.Unlock()
	r.nans++
	a := &answerSt{serial: r.nans, ctx: ctx, req: q}
	rs := 0
	if q != nil {
		rs = q.serial
	}
	a.body = hx.Cat([]byte(fmt.Sprintf("A|%d|%d|%s|", a.serial, rs, r.nonce)), payload(rnd))
	r.answers[a.serial] = a
	return a
}

// splitWire parses transmitted bytes the way the peer (and every device on the
// way back) does: 32-bit words up to and including the first with the top bit set.
func splitWire(w []byte) (hdr, body []byte, ok bool) {
	for i := 0; i+4 <= len(w); i += 4 {
		if w[i]&0x80 != 0 {
			return w[:i+4], w[i+4:], true
		}
	}
	return nil, nil, false
}

// scan verifies every not-yet-seen transmission on p.  Each one must be the
// single transmission of a reply the application sent, on the connection its
// request arrived on, with exactly that request's routing header.
func (r *rig) scan(p *pipeSt) {
	sents := p.vp.SentFrom(p.cursor)
	r.mu.Lock()
	defer r.mu.Unlock()
	for _, s := range sents {
		p.cursor = s.Seq + 1
		w := s.Wire()
		r.c.Count("transmissions_seen", 1)
		hdr, body, ok := splitWire(w)
		var a *answerSt
		if ok {
			if v, ok2 := r.parseTag(body, 'A', 2); ok2 {
				a = r.answers[v[0]]
			}
		}
		if a == nil {
			// the header may be damaged so that the split fails: find the tag anywhere
			if i := bytes.Index(w, []byte("A|")); i >= 0 {
				if v, ok2 := r.parseTag(w[i:], 'A', 2); ok2 && r.answers[v[0]] != nil {
					a = r.answers[v[0]]
					r.c.Violate(r.proto+"/reply-header-mismatch", "pipe %d: reply serial %d transmitted with header %x; its request (serial %d, pipe %d) carried %x", p.n, a.serial, w[:i], reqSerial(a.req), reqPipe(a.req), reqHdr(a.req))
					continue
				}
			}
			r.c.Violate(r.proto+"/unknown-transmission", "pipe %d: transmitted bytes %x are not a reply the application sent", p.n, clip(w))
			continue
		}
		a.seen++
		if a.seen > 1 {
			r.c.Violate(r.proto+"/reply-transmitted-twice", "reply serial %d (ctx %d) transmitted %d times; latest on pipe %d", a.serial, a.ctx, a.seen, p.n)
			continue
		}
		if a.req == nil {
			r.c.Violate(r.proto+"/reply-without-request-transmitted", "pipe %d: reply serial %d (ctx %d, class %q) was transmitted (header %x) although no request was pending / the header names no connection", p.n, a.serial, a.ctx, a.bogus, hdr)
			continue
		}
		q := a.req
		if q.pipe != p {
			r.c.Violate(r.proto+"/reply-on-wrong-connection", "reply serial %d of ctx %d answers request serial %d which arrived on pipe %d (header %x, class %s), but it was transmitted on pipe %d with header %x", a.serial, a.ctx, q.serial, q.pipe.n, q.hdr, q.class, p.n, hdr)
			continue
		}
		r.hdrCmp += len(q.hdr)
		if !bytes.Equal(hdr, q.hdr) {
			r.c.Violate(r.proto+"/reply-header-mismatch", "pipe %d: reply serial %d (ctx %d) transmitted with header %x; request serial %d carried %x (depth %d, class %s)", p.n, a.serial, a.ctx, hdr, q.serial, q.hdr, q.depth, q.class)
			continue
		}
		if !bytes.Equal(body, a.body) {
			r.c.Violate(r.proto+"/reply-body-mismatch", "pipe %d: reply serial %d transmitted with body %x, sent %x", p.n, a.serial, clip(body), clip(a.body))
			continue
		}
		q.wireAns++
		if a.mayDrop {
			r.beSeen++
			r.c.Count("besteffort_replies_verified_on_wire", 1)
		}
		if q.wireAns > 1 && !r.raw {
			r.c.Violate(r.proto+"/request-answered-twice", "request serial %d on pipe %d was answered %d times on the wire", q.serial, p.n, q.wireAns)
		}
		r.checked++
	}
}

func (r *rig) scanAll() {
	r.mu.Lock()
	ps := append([]*pipeSt{}, r.pipes...)
	r.mu.Unlock()
	for _, p := range ps {
		r.scan(p)
	}
}

// answerSeen reports (after a scan) whether a was seen on the wire.
func (r *rig) answerSeen(a *answerSt) bool {
	r.scan(a.req.pipe)
	r.mu.Lock()
	defer r.mu.Unlock()
	return a.seen > 0
}

// checkLost is called after a flush round: every open connection has transmitted a
// reply that was sent after all others, and each connection's sender is sequential,
// so every reply accepted for an open connection must already be in its log.
func (r *rig) checkLost() {
	r.scanAll()
	r.mu.Lock()
	defer r.mu.Unlock()
	for s := 1; s <= r.nans; s++ {
		a := r.answers[s]
		if a.final || !a.returned {
			continue
		}
		a.final = true
		if a.req == nil {
			continue
		}
		if a.mayDrop && a.err == nil && !a.req.pipe.dropped {
			// best effort: the reply may have been discarded; if it went out, scan judged it
			if a.seen == 0 {
				r.beGone++
				r.c.Count("besteffort_replies_discarded", 1)
			}
			continue
		}
		if a.err == nil && !a.req.pipe.dropped && a.seen == 0 {
			r.c.Violate(r.proto+"/reply-lost", "reply serial %d (ctx %d) to request serial %d: Send returned nil, connection %d still open, and a later reply on it has been transmitted, but this one never was", a.serial, a.ctx, a.req.serial, a.req.pipe.n)
		}
		if a.dropBefore && a.seen > 0 {
			r.c.Violate(r.proto+"/reply-after-connection-gone", "reply serial %d was transmitted although the requesting connection %d had been dropped before Send", a.serial, a.req.pipe.n)
		}
	}
}

func (r *rig) finalCheck() {
	r.checkLost()
	r.mu.Lock()
	defer r.mu.Unlock()
	r.c.Count("replies_verified_on_wire", r.checked)
	r.c.Count("header_bytes_compared", r.hdrCmp)
}

// dropPipe closes p from the peer side.
func (r *rig) dropPipe(p *pipeSt) {
	r.mu.Lock()
	p.dropped = true
	for _, q := range p.reqs {
		if q.recvN == 0 {
			q.preDrop = true
		}
	}
	r.mu.Unlock()
	p.vp.Drop()
	r.mu.Lock()
	p.dropDone = true
	r.mu.Unlock()
}

func reqSerial(q *reqSt) int {
	if q == nil {
		return 0
	}
	return q.serial
}
func reqPipe(q *reqSt) int {
	if q == nil {
		return -1
	}
	return q.pipe.n
}
func reqHdr(q *reqSt) []byte {
	if q == nil {
		return nil
	}
	return q.hdr
}

func clip(b []byte) []byte {
	if len(b) > 96 {
		return b[:96]
	}
	return b
}
