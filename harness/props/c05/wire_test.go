package c05

import (
	"bytes"
	"fmt"
	"strings"

	"go.nanomsg.org/mangos/v3"

	"verifharness/hx"
	"verifharness/mon"
)

// wire: the requesters are raw REQ / raw SURVEYOR sockets of the library, each connected over one of
// the real transports (inproc, ipc, tcp, tls+tcp, ws, wss) to the replier or to the outermost of 1-2
// devices whose hops use real transports too.  A raw requester sends the routing header it likes and
// gets back every byte that arrives, so the oracle is the statement itself at the place it talks
// about: the client that asked receives header ++ body of the reply, byte for byte the routing header
// it sent followed by the body the replier's application sent, and nobody else receives anything.
//
// Reply bodies are chosen where header and body meet: empty (a bare acknowledgement), shorter than a
// routing word, exactly one word that looks like a routing word (top bit clear / set), tagged, long.
//
// Absence is decided by FIFO + sentinel: every reply under test is followed by a second request on the
// same connection whose (tagged, never empty, always reliable) reply is sent by the same context
// afterwards; every queue and stream on the way back keeps order, so once the sentinel reply is in the
// requester's hands an earlier reply that has not arrived never will.  With best effort asked for on
// the context the reply under test may be discarded (counted), not altered or misdelivered.

type wireExp struct {
	serial  int
	hdr     []byte
	body    []byte
	class   string
	mayDrop bool
	sent    bool // sentinel
	arrived bool
}

func (e *wireExp) want() []byte { return hx.Cat(e.hdr, e.body) }

type wirePeer struct {
	n      int
	sock   mangos.Socket
	tr     string
	expect []*wireExp
	next   int
}

type wireRun struct {
	c        *mon.Case
	sp       c05Spec
	r        *rig
	peers    []*wirePeer
	serial   int
	nextID   uint32
	last     []byte // header of the previous request (to repeat it on another connection)
	lastPeer *wirePeer
	ok       int // replies under test verified at their requester
	okBE     int
	byCls    map[string]int
	shape    []string
}

func (w *wireRun) replyBody(class string) []byte {
	rnd := w.c.Rand
	switch class {
	case "empty":
		return []byte{}
	case "short":
		b := make([]byte, 1+rnd.Intn(3))
		rnd.Read(b)
		return b
	case "word-clear":
		b := make([]byte, 4*(1+rnd.Intn(2)))
		rnd.Read(b)
		for i := 0; i < len(b); i += 4 {
			b[i] &= 0x7f
		}
		return b
	case "word-set":
		b := make([]byte, 4)
		rnd.Read(b)
		b[0] |= 0x80
		return b
	case "long":
		b := make([]byte, 1000+rnd.Intn(20000))
		rnd.Read(b)
		return hx.Cat([]byte(fmt.Sprintf("A|%d|%s|", w.serial, w.r.nonce)), b)
	}
	return hx.Cat([]byte(fmt.Sprintf("A|%d|%s|", w.serial, w.r.nonce)), payload(rnd))
}

var wireClasses = []string{"empty", "empty", "empty", "short", "word-clear", "word-set", "tagged", "tagged", "long"}

// header: d routing words (top bit clear) and a request id (top bit set).  The ids of one case are all
// different, except that a header is now and then used a second time by ANOTHER requester (never a
// third time, never twice by one requester: what a requester is owed stays distinguishable by its
// bytes, which the matching in match relies on when best effort may have discarded some of it).
func (w *wireRun) header(d int, p *wirePeer) []byte {
	rnd := w.c.Rand
	if p != nil && w.last != nil && w.lastPeer != p && len(w.last) == 4*(d+1) && rnd.Intn(3) == 0 {
		h := w.last
		w.last = nil
		w.c.Count("wire_headers_repeated_on_another_connection", 1)
		return append([]byte{}, h...)
	}
	defer func() { w.lastPeer = p }()
	var h []byte
	for j := 0; j < d; j++ {
		v := rnd.Uint32() & 0x7fffffff
		if rnd.Intn(4) == 0 {
			v = nonTermSpecial[rnd.Intn(len(nonTermSpecial))]
		}
		h = append(h, hx.Be32(v)...)
	}
	w.nextID++
	id := 0x80000000 | w.nextID | uint32(rnd.Intn(0x7fff))<<16
	h = append(h, hx.Be32(id)...)
	w.last = nil
	if p != nil {
		w.last = h
	}
	return h
}

// exchange: requester p sends hdr|body, context i receives it and replies rbody.  False when the case
// is decided.
func (w *wireRun) exchange(p *wirePeer, i int, hdr, rbody []byte, what string) bool {
	c, r := w.c, w.r
	w.serial++
	qbody := hx.Cat([]byte(fmt.Sprintf("Q|%d|%s|", w.serial, r.nonce)), payload(c.Rand))
	m := mangos.NewMessage(len(qbody))
	m.Header = append(m.Header, hdr...)
	m.Body = append(m.Body, qbody...)
	snd := mon.Go("peer.SendMsg", func() (interface{}, error) { return nil, p.sock.SendMsg(m) })
	if !c.AwaitOrViolate("harness:wire-request-send-stuck", fmt.Sprintf("requester %d (%s) sending its %s", p.n, p.tr, what), snd.Done, mon.AwaitOpts{}) {
		return false
	}
	if _, err, _ := snd.Result(); err != nil {
		m.Free()
		c.Inconclusive("requester %d (%s) could not send its request: %v", p.n, p.tr, err)
		return false
	}
	c.Count("requests_injected", 1)
	rcv := mon.Go("Recv", func() (interface{}, error) { b, err := r.ctxs[i].Recv(); return b, err })
	if !c.AwaitOrViolate(r.proto+"/wire/recv-stuck", fmt.Sprintf("ctx %d Recv of the %s of requester %d (%s, header %x)", i, what, p.n, p.tr, hdr), rcv.Done, mon.AwaitOpts{}) {
		return false
	}
	v, err, _ := rcv.Result()
	if err != nil {
		c.Violate(r.proto+"/wire/recv-error", "ctx %d Recv returned %v", i, err)
		return false
	}
	if b := v.([]byte); !bytes.Equal(b, qbody) {
		c.Violate(r.proto+"/wire/request-body-mismatch", "ctx %d: %s of requester %d (%s) sent as header %x body %x, delivered as %x", i, what, p.n, p.tr, hdr, clip(qbody), clip(b))
		return false
	}
	c.Count("requests_received", 1)
	viaMsg := c.Rand.Intn(3) == 0
	var junk []byte
	if viaMsg {
		junk = make([]byte, 4*(1+c.Rand.Intn(2)))
		c.Rand.Read(junk)
	}
	call := mon.Go("Send", func() (interface{}, error) { return nil, sendReply(r.ctxs[i], rbody, junk) })
	if !c.AwaitOrViolate(r.proto+"/wire/send-stuck", fmt.Sprintf("ctx %d Send of the reply (%d bytes) to the %s of requester %d (%s)", i, len(rbody), what, p.n, p.tr), call.Done, mon.AwaitOpts{}) {
		return false
	}
	if _, err, _ := call.Result(); err != nil {
		c.Violate(r.proto+"/wire/send-error:"+errName(err), "ctx %d Send answering the %s of requester %d (%s, connected) returned %v", i, what, p.n, p.tr, err)
		return false
	}
	c.Count("sends", 1)
	return true
}

// drain receives on p until its latest sentinel reply is in hand, matching everything that arrives
// against what p is owed, in order.
func (w *wireRun) drain(p *wirePeer) bool {
	c, r := w.c, w.r
	for p.next < len(p.expect) {
		owed := p.expect[p.next:]
		call := mon.Go("peer.RecvMsg", func() (interface{}, error) {
			m, err := p.sock.RecvMsg()
			if err != nil {
				return nil, err
			}
			b := hx.Cat(m.Header, m.Body)
			m.Free()
			return b, nil
		})
		last := owed[len(owed)-1]
		if !c.AwaitOrViolate(r.proto+"/wire/reply-not-received:body-"+last.class, fmt.Sprintf("requester %d (%s; devices %d over [%s]) receiving the reply to its latest request (header %x, reply body %d bytes); it is still owed %d replies", p.n, p.tr, w.sp.NDev, w.sp.Tr, last.hdr, len(last.body), len(owed)), call.Done, mon.AwaitOpts{}) {
			return false
		}
		v, err, _ := call.Result()
		if err != nil {
			c.Violate(r.proto+"/wire/requester-recv-error", "requester %d (%s) RecvMsg returned %v", p.n, p.tr, err)
			return false
		}
		got := v.([]byte)
		c.Count("transmissions_seen", 1)
		if !w.match(p, got) {
			return false
		}
	}
	return true
}

func (w *wireRun) match(p *wirePeer, got []byte) bool {
	c, r := w.c, w.r
	start := p.next
	for p.next < len(p.expect) {
		e := p.expect[p.next]
		if bytes.Equal(got, e.want()) {
			e.arrived = true
			p.next++
			r.hdrCmp += len(e.hdr)
			if !e.sent {
				w.ok++
				w.byCls[e.class]++
				r.checked++
				c.Count("wire_replies_verified_body_"+e.class, 1)
				c.Count("wire_replies_verified_over_"+p.tr, 1)
				if e.mayDrop {
					w.okBE++
					c.Count("besteffort_replies_verified_on_wire", 1)
				}
			}
			return true
		}
		if !e.mayDrop {
			break
		}
		p.next++ // may have been discarded; if got is a damaged form of it, the classification below says so
	}
	where := fmt.Sprintf("requester %d (%s; devices %d over [%s]; send options %q)", p.n, p.tr, w.sp.NDev, w.sp.Tr, optSig(w.sp))
	// 1. a later reply of this requester arrived while an earlier, reliable one has not: lost
	for k := p.next + 1; k < len(p.expect); k++ {
		if bytes.Equal(got, p.expect[k].want()) {
			e := p.expect[p.next]
			c.Violate(r.proto+"/wire/reply-lost:body-"+e.class, "%s: the reply to its request with header %x (reply body %d bytes: %x) never arrived, although the reply to its next request, sent afterwards by the same context on the same connection, did (%x)", where, e.hdr, len(e.body), clip(e.body), clip(got))
			return false
		}
	}
	// 2. what another requester is owed
	for _, o := range w.peers {
		if o == p {
			continue
		}
		for _, e := range o.expect {
			if bytes.Equal(got, e.want()) {
				c.Violate(r.proto+"/wire/reply-at-wrong-requester", "%s received %x, which is the reply owed to requester %d (%s) for its request with header %x", where, clip(got), o.n, o.tr, e.hdr)
				return false
			}
		}
	}
	// 3. the body of a reply it is owed, under a different header
	for k := start; k < len(p.expect); k++ {
		e := p.expect[k]
		if len(e.body) >= 4 && bytes.HasSuffix(got, e.body) {
			c.Violate(r.proto+"/wire/reply-header-mismatch", "%s received %x: the reply body %x arrived prefixed with %x, its request carried the routing header %x", where, clip(got), clip(e.body), got[:len(got)-len(e.body)], e.hdr)
			return false
		}
	}
	var owed []string
	for k := start; k < len(p.expect); k++ {
		owed = append(owed, fmt.Sprintf("%x", clip(p.expect[k].want())))
	}
	c.Violate(r.proto+"/wire/unexpected-message-at-requester", "%s received %x, which is none of the replies it is owed next (%s)", where, clip(got), strings.Join(owed, ", "))
	return false
}

func c05Wire(c *mon.Case, sp c05Spec) {
	rsp := sp
	rsp.NPipes = 0 // no vt peers: the requesters are sockets
	r := newRigSpec(c, rsp)
	if c.Failed() || c.Undecided() {
		return
	}
	w := &wireRun{c: c, sp: sp, r: r, byCls: map[string]int{}}
	front := "xreq"
	if sp.Proto == "respondent" {
		front = "xsurveyor"
	}
	ptr := strings.Split(sp.PTr, ",")
	for k := 0; k < sp.NPipes; k++ {
		p := &wirePeer{n: k, sock: hx.MustSock(c, front), tr: ptr[k%len(ptr)]}
		n := r.nAttached()
		if _, _, err := hx.Connect(r.edge, p.sock, p.tr); err != nil {
			c.Inconclusive("harness set-up failed: requester %d over %s: %v", k, p.tr, err)
			return
		}
		if !c.AwaitOrViolate("harness:attach-stuck", "requester attaching", func() bool { return r.nAttached() > n }, mon.AwaitOpts{}) {
			return
		}
		w.peers = append(w.peers, p)
	}
	rnd := c.Rand
	// sentinel exchange on p through context i, always reliable
	sentinel := func(p *wirePeer, i int) bool {
		be := r.ctxMayDrop(i)
		if be {
			r.setBE(i, false)
		}
		hdr := w.header(0, nil)
		body := hx.Cat([]byte(fmt.Sprintf("S|%d|%s|", w.serial+1, r.nonce)), payload(rnd))
		okx := w.exchange(p, i, hdr, body, "sentinel request")
		if be {
			r.setBE(i, true)
		}
		if !okx {
			return false
		}
		p.expect = append(p.expect, &wireExp{serial: w.serial, hdr: hdr, body: body, class: "sentinel", sent: true})
		return true
	}
	for round := 0; round < sp.NOps && !c.Failed() && !c.Undecided(); round++ {
		// 1-3 requests under test (any requester, any context), then a sentinel per requester involved
		var touched []*wirePeer
		for k := 1 + rnd.Intn(3); k > 0; k-- {
			p := w.peers[rnd.Intn(len(w.peers))]
			i := rnd.Intn(len(r.ctxs))
			d := rnd.Intn(r.depthLimit())
			if rnd.Intn(4) == 0 {
				d = r.depthLimit() - 1
			}
			if d > 40 {
				d = 40
			}
			hdr := w.header(d, p)
			class := wireClasses[rnd.Intn(len(wireClasses))]
			body := w.replyBody(class)
			be := r.ctxMayDrop(i)
			if !w.exchange(p, i, hdr, body, "request") {
				return
			}
			p.expect = append(p.expect, &wireExp{serial: w.serial, hdr: hdr, body: body, class: class, mayDrop: be})
			w.shape = append(w.shape, fmt.Sprintf("%d>%d:%s/%d", p.n, i, class, d))
			c.Count("requests_depth_"+fmt.Sprint(d), 1)
			seen := false
			for _, t := range touched {
				seen = seen || t == p
			}
			if !seen {
				touched = append(touched, p)
			}
		}
		for _, p := range touched {
			if !sentinel(p, rnd.Intn(len(r.ctxs))) {
				return
			}
		}
		for _, p := range touched {
			if !w.drain(p) {
				return
			}
		}
	}
	if c.Failed() || c.Undecided() {
		return
	}
	// nothing else reached anybody: a last sentinel on every requester, received as the very next message
	for _, p := range w.peers {
		if !sentinel(p, rnd.Intn(len(r.ctxs))) || !w.drain(p) {
			return
		}
	}
	for _, p := range w.peers {
		for _, e := range p.expect {
			if !e.arrived && e.mayDrop {
				c.Count("besteffort_replies_discarded", 1)
			}
		}
	}
	c.Count("replies_verified_on_wire", w.ok)
	c.Count("header_bytes_compared", r.hdrCmp)
	if sp.NDev > 0 {
		c.Count("replies_verified_behind_devices", w.ok)
	}
	if w.ok > 0 && (sp.BE == 0 || w.okBE > 0) {
		c.Nontrivial()
	}
	c.Sig("%s|wire|%d|%s|%d%s|%d|%s|%s", sp.Proto, sp.NCtx, sp.PTr, sp.NDev, sp.Tr, sp.TTL, optSig(sp), strings.Join(w.shape, " "))
}
