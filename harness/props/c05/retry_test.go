package c05

import (
	"bytes"
	"fmt"
	"time"

	"go.nanomsg.org/mangos/v3"

	"verifharness/hx"
	"verifharness/mon"
	"verifharness/vt"
)

// c05RawRetry: a raw reply whose SendMsg failed with a timeout (slow requester, full queue) stays
// with the application; sending the same message again once the requester drains must deliver it
// to the requesting connection with the request's routing header — and to nobody else.
func c05RawRetry(c *mon.Case, sp c05Spec) {
	proto := sp.Proto
	s := hx.MustSock(c, proto)
	s.SetOption(mangos.OptionWriteQLen, 1)
	s.SetOption(mangos.OptionSendDeadline, 15*time.Millisecond)
	s.SetOption(mangos.OptionTTL, sp.TTL)
	name := hx.Uniq("c05r")
	L := vt.L(name)
	c.Cleanup(func() { vt.Forget(name) })
	if err := s.Listen(vt.Addr(name)); err != nil {
		c.Inconclusive("setup: %v", err)
		return
	}
	w := hx.WatchPipes(s)
	a := L.Connect()
	b := L.Connect()
	if !hx.WaitAttached(c, w, 2, "two requesters") {
		return
	}
	// requests: depth d routing words then the id; B's inner word is chosen to look like a pipe id
	depth := c.Rand.Intn(sp.TTL)
	var hdrA []byte
	for i := 0; i < depth; i++ {
		hdrA = append(hdrA, hx.Be32(c.Rand.Uint32()&0x7fffffff)...)
	}
	hdrA = append(hdrA, hx.Be32(0x80000000|c.Rand.Uint32())...)
	a.Inject(hx.Cat(hdrA, []byte("request-from-A")))
	rk := mon.Go("RecvMsg", func() (interface{}, error) { m, e := s.RecvMsg(); return m, e })
	if !c.AwaitOrViolate(proto+"/recv-stuck", "raw RecvMsg of A's request", rk.Done, mon.AwaitOpts{}) {
		return
	}
	v, err, _ := rk.Result()
	if err != nil {
		c.Violate(proto+"/recv-error", "RecvMsg: %v", err)
		return
	}
	req := v.(*mangos.Message)
	rawHdr := append([]byte{}, req.Header...)
	req.Free()
	if len(rawHdr) != 4+len(hdrA) || !bytes.Equal(rawHdr[4:], hdrA) {
		c.Violate(proto+"/raw-request-header-mismatch", "raw header %x, want pipe id followed by %x", rawHdr, hdrA)
		return
	}
	a.HoldSends() // A is slow: its transport does not complete sends
	mk := func(tag string) *mangos.Message {
		m := mangos.NewMessage(32)
		m.Header = append(m.Header, rawHdr...)
		m.Body = append(m.Body, tag...)
		return m
	}
	var failed *mangos.Message
	failedTag := ""
	accepted := 0
	for i := 0; i < 8 && failed == nil; i++ {
		tag := fmt.Sprintf("reply-%d-%s", i, name)
		m := mk(tag)
		k := mon.Go("SendMsg", func() (interface{}, error) { return nil, s.SendMsg(m) })
		if !c.AwaitOrViolate(proto+"/send-stuck", "raw SendMsg with a 15ms deadline to a slow requester", k.Done, mon.AwaitOpts{MaxTimer: 15 * time.Millisecond}) {
			return
		}
		switch _, e, _ := k.Result(); e {
		case nil:
			accepted++
		case mangos.ErrSendTimeout:
			failed, failedTag = m, tag
		default:
			c.Violate(proto+"/send-error:"+errName(e), "raw SendMsg to a slow requester returned %v", e)
			return
		}
	}
	if failed == nil {
		c.Inconclusive("no SendMsg timed out against a held pipe with WriteQLen=1")
		return
	}
	c.Count("timed_out_replies", 1)
	a.ReleaseSends()
	// the application retries with the very message it got back
	k := mon.Go("SendMsg-retry", func() (interface{}, error) { return nil, s.SendMsg(failed) })
	if !c.AwaitOrViolate(proto+"/send-stuck", "retry of the timed-out reply", k.Done, mon.AwaitOpts{MaxTimer: 15 * time.Millisecond}) {
		return
	}
	if _, e, _ := k.Result(); e != nil {
		c.Violate(proto+"/retry-send-error:"+errName(e), "retrying the reply after the requester drained returned %v", e)
		return
	}
	// sentinel behind it on the same connection
	sent := fmt.Sprintf("sentinel-%s", name)
	k2 := mon.Go("SendMsg-sentinel", func() (interface{}, error) { return nil, s.SendMsg(mk(sent)) })
	if !c.AwaitOrViolate(proto+"/send-stuck", "sentinel reply", k2.Done, mon.AwaitOpts{MaxTimer: 15 * time.Millisecond}) {
		return
	}
	if !c.AwaitOrViolate(proto+"/reply-not-transmitted", "sentinel reply reaching requester A", func() bool {
		for _, x := range a.SentLog() {
			if bytes.HasSuffix(x.Wire(), []byte(sent)) {
				return true
			}
		}
		return false
	}, mon.AwaitOpts{MaxTimer: 15 * time.Millisecond}) {
		return
	}
	found := false
	for _, x := range a.SentLog() {
		wire := x.Wire()
		if bytes.HasSuffix(wire, []byte(failedTag)) {
			found = true
			if !bytes.Equal(wire[:len(wire)-len(failedTag)], hdrA) {
				c.Violate(proto+"/reply-header-mismatch", "the retried reply reached the requester with header %x, the request carried %x", wire[:len(wire)-len(failedTag)], hdrA)
			}
		}
	}
	if !found {
		c.Violate(proto+"/retried-reply-lost", "a reply whose SendMsg had timed out was sent again (SendMsg returned nil) but never reached the requesting connection, although a later reply did")
	}
	for _, x := range b.SentLog() {
		c.Violate(proto+"/reply-to-wrong-connection", "connection B, which asked nothing, was sent %x", x.Wire())
		break
	}
	c.Count("replies_verified_on_wire", accepted+2)
	c.Nontrivial()
	c.Sig("%s|rawretry|%d|%d", proto, sp.TTL, depth)
}
