//go:build verif

package c05

import (
	"bytes"
	"fmt"
	"time"

	"go.nanomsg.org/mangos/v3"

	"verifharness/hx"
	"verifharness/mon"
	"verifharness/vt"
)

// c05CookedTimeout: a cooked replier whose Send to a backed-up requester A is waiting out its send
// deadline receives, on the same context, the next request (from B).  When the Send to A has timed
// out, the reply the application then sends belongs to B's request: it must reach B's connection
// with B's routing header, and A must never see it.
func c05CookedTimeout(c *mon.Case, sp c05Spec) {
	proto := sp.Proto
	s := hx.MustSock(c, proto)
	const D = 40 * time.Millisecond
	s.SetOption(mangos.OptionWriteQLen, 1)
	s.SetOption(mangos.OptionSendDeadline, D)
	s.SetOption(mangos.OptionTTL, sp.TTL)
	var cx ctxLike = s
	if sp.NCtx > 0 {
		x, err := s.OpenContext()
		if err != nil {
			c.Inconclusive("OpenContext: %v", err)
			return
		}
		x.SetOption(mangos.OptionSendDeadline, D)
		cx = x
	}
	name := hx.Uniq("c05t")
	L := vt.L(name)
	c.Cleanup(func() { vt.Forget(name) })
	if err := s.Listen(vt.Addr(name)); err != nil {
		c.Inconclusive("setup: %v", err)
		return
	}
	w := hx.WatchPipes(s)
	a := L.Connect()
	b := L.Connect()
	if !hx.WaitAttached(c, w, 2, "two requesters") {
		return
	}
	mkHdr := func() []byte {
		var h []byte
		for i, d := 0, c.Rand.Intn(sp.TTL); i < d; i++ {
			h = append(h, hx.Be32(c.Rand.Uint32()&0x7fffffff)...)
		}
		return append(h, hx.Be32(0x80000000|c.Rand.Uint32())...)
	}
	recv := func(what string, want []byte) bool {
		k := mon.Go("Recv", func() (interface{}, error) { v, e := cx.Recv(); return v, e })
		if !c.AwaitOrViolate(proto+"/recv-stuck", what, k.Done, mon.AwaitOpts{MaxTimer: D}) {
			return false
		}
		v, err, _ := k.Result()
		if err != nil || !bytes.Equal(v.([]byte), want) {
			c.Violate(proto+"/recv-error", "%s: Recv returned (%q, %v), want %q", what, v, err, want)
			return false
		}
		return true
	}
	a.HoldSends() // A is slow from the start: its transport does not complete sends
	var timedOut bool
	var hdrB []byte
	replyB := []byte("reply-to-B-" + name)
	for i := 0; i < 8 && !timedOut; i++ {
		reqA := []byte(fmt.Sprintf("request-%d-from-A-%s", i, name))
		a.Inject(hx.Cat(mkHdr(), reqA))
		if !recv("Recv of A's request", reqA) {
			return
		}
		k := mon.Go("Send", func() (interface{}, error) { return nil, cx.Send([]byte(fmt.Sprintf("reply-%d-to-A-%s", i, name))) })
		if k.ParkedIn("SendMsg") {
			// the Send is waiting for room: meanwhile B's request arrives and is received on the same context
			hdrB = mkHdr()
			reqB := []byte("request-from-B-" + name)
			b.Inject(hx.Cat(hdrB, reqB))
			if !recv("Recv of B's request while the reply to A waits out its send deadline", reqB) {
				return
			}
			c.Count("requests_received_during_blocked_send", 1)
		}
		if !c.AwaitOrViolate(proto+"/send-stuck", "Send with a 40ms deadline to a slow requester", k.Done, mon.AwaitOpts{MaxTimer: D}) {
			return
		}
		switch _, e, _ := k.Result(); {
		case e == nil && hdrB == nil:
		case e == mangos.ErrSendTimeout && hdrB != nil:
			timedOut = true
		case e == nil:
			// room appeared after all; B's request is pending and answered below just the same
			timedOut = true
		case e == mangos.ErrSendTimeout:
			// the Send did wait for room, but its 40 ms were over before the harness had seen it parked
			// (a loaded machine): a legitimate outcome against a requester that takes nothing, it just
			// was not used.  The context holds no request now; the next round starts afresh.
			c.Count("blocked_send_timed_out_before_observed_parked", 1)
		default:
			c.Violate(proto+"/send-error:"+errName(e), "Send to a slow requester returned %v (request from B received meanwhile: %v)", e, hdrB != nil)
			return
		}
	}
	if hdrB == nil {
		c.Inconclusive("no Send blocked against a held pipe with WriteQLen=1")
		return
	}
	// B's request is the context's pending request now: answer it
	k := mon.Go("Send-B", func() (interface{}, error) { return nil, cx.Send(replyB) })
	if !c.AwaitOrViolate(proto+"/send-stuck", "Send of the reply to B (B is not slow)", k.Done, mon.AwaitOpts{MaxTimer: D}) {
		return
	}
	if _, e, _ := k.Result(); e != nil {
		c.Violate(proto+"/send-error:"+errName(e), "the reply to B's request, received while an earlier Send timed out, returned %v", e)
		return
	}
	onWire := func(p *vt.Pipe, body []byte) ([]byte, bool) {
		for _, x := range p.SentLog() {
			if wire := x.Wire(); bytes.HasSuffix(wire, body) {
				return wire[:len(wire)-len(body)], true
			}
		}
		return nil, false
	}
	if !c.AwaitOrViolate(proto+"/reply-not-transmitted", "the reply to B appearing on B's connection", func() bool { _, ok := onWire(b, replyB); return ok }, mon.AwaitOpts{MaxTimer: D}) {
		a.ReleaseSends()
		mon.Sleep(20 * time.Millisecond)
		if h, ok := onWire(a, replyB); ok {
			c.Violate(proto+"/reply-to-wrong-connection", "the reply to B's request went to connection A (header %x): the timed-out Send restored the earlier request", h)
		}
		return
	}
	if h, _ := onWire(b, replyB); !bytes.Equal(h, hdrB) {
		c.Violate(proto+"/reply-header-mismatch", "the reply to B carries header %x, B's request carried %x", h, hdrB)
	}
	a.ReleaseSends()
	// a later exchange with A still works, and A never sees B's reply.  A takes what is queued for it
	// again, so the sentinel needs no deadline: how soon A's sender gets to run is the machine's
	// business, and whether it ever does is the stuck detector's.
	if err := cx.SetOption(mangos.OptionSendDeadline, time.Hour); err != nil {
		c.Inconclusive("SetOption(SendDeadline, 1h): %v", err)
		return
	}
	hdrA := mkHdr()
	last := []byte("last-request-from-A-" + name)
	a.Inject(hx.Cat(hdrA, last))
	if !recv("Recv of A's last request", last) {
		return
	}
	sent := []byte("sentinel-to-A-" + name)
	k2 := mon.Go("Send-sentinel", func() (interface{}, error) { return nil, cx.Send(sent) })
	if !c.AwaitOrViolate(proto+"/send-stuck", "sentinel reply to A", k2.Done, mon.AwaitOpts{MaxTimer: D}) {
		return
	}
	if !c.AwaitOrViolate(proto+"/reply-not-transmitted", "sentinel reply reaching requester A", func() bool { _, ok := onWire(a, sent); return ok }, mon.AwaitOpts{MaxTimer: D}) {
		return
	}
	if h, _ := onWire(a, sent); !bytes.Equal(h, hdrA) {
		c.Violate(proto+"/reply-header-mismatch", "the sentinel reply to A carries header %x, the request carried %x", h, hdrA)
	}
	if h, ok := onWire(a, replyB); ok {
		c.Violate(proto+"/reply-to-wrong-connection", "connection A was sent the reply to B's request (header %x)", h)
	}
	c.Count("replies_verified_on_wire", 2)
	c.Nontrivial()
	c.Sig("%s|cookedtimeout|%d|ctx%d", proto, sp.TTL, sp.NCtx)
}
